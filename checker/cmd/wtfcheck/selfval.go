package main

import (
	"bufio"
	"encoding/json"
	"fmt"
	"os"
	"os/exec"
	"path/filepath"
	"sort"
	"strings"
	"sync"
)

// selfValidate is the thorough tier's check of the checker itself: every
// stored variant of the repository for this property (hand-made mutants under
// selftest/<prop>/ with the obligation each must trip, or "none" for
// behaviour-preserving rewrites; the independently seeded breaks under
// seeded/<prop>-k/) is applied to a scratch copy outside /repo and /verif and
// analysed by a child process. It never influences the verdict on /repo: the
// result is reported in the evidence, and a variant that is missed, or a
// benign one that raises an alarm, is printed as SELF-VALIDATION-REGRESSION.
// The refactorings under benign/ are run for every property.
func selfValidate(prop, verifDir, repoDir string) map[string]any {
	type variant struct {
		name, patch, expect string
	}
	var vs []variant
	exp := map[string]string{}
	if f, err := os.Open(filepath.Join(verifDir, "selftest", prop, "EXPECT")); err == nil {
		sc := bufio.NewScanner(f)
		for sc.Scan() {
			parts := strings.SplitN(strings.TrimSpace(sc.Text()), " ", 2)
			if len(parts) == 2 {
				exp[parts[0]] = strings.TrimSpace(parts[1])
			}
		}
		f.Close()
	}
	ps, _ := filepath.Glob(filepath.Join(verifDir, "selftest", prop, "*.patch"))
	sort.Strings(ps)
	for _, p := range ps {
		e, ok := exp[filepath.Base(p)]
		if !ok {
			continue
		}
		vs = append(vs, variant{"selftest/" + filepath.Base(p), p, e})
	}
	ds, _ := filepath.Glob(filepath.Join(verifDir, "seeded", "*", "patch.diff"))
	sort.Strings(ds)
	for _, p := range ds {
		id := filepath.Base(filepath.Dir(p))
		mine := strings.HasPrefix(id, prop+"-")
		var meta struct {
			CaughtBy []string `json:"caught_by"`
		}
		if b, err := os.ReadFile(filepath.Join(filepath.Dir(p), "meta.json")); err == nil {
			_ = json.Unmarshal(b, &meta)
		}
		if len(meta.CaughtBy) > 0 {
			mine = false
			for _, c := range meta.CaughtBy {
				if c == prop {
					mine = true
				}
			}
		}
		if mine {
			vs = append(vs, variant{"seeded/" + id, p, "any"})
		}
	}
	// independent behaviour-preserving refactorings: every check must stay silent on every one
	bs, _ := filepath.Glob(filepath.Join(verifDir, "benign", "*", "patch.diff"))
	sort.Strings(bs)
	for _, p := range bs {
		vs = append(vs, variant{"benign/" + filepath.Base(filepath.Dir(p)), p, "none"})
	}
	exe, err := os.Executable()
	if err != nil || len(vs) == 0 {
		return map[string]any{"variants": 0}
	}
	type result struct {
		Name, Expect, Status string
		Fired              []string
	}
	res := make([]result, len(vs))
	sem := make(chan struct{}, 6)
	var wg sync.WaitGroup
	for i, v := range vs {
		wg.Add(1)
		go func(i int, v variant) {
			defer wg.Done()
			sem <- struct{}{}
			defer func() { <-sem }()
			r := result{Name: v.name, Expect: v.expect}
			defer func() { res[i] = r }()
			tmp, err := os.MkdirTemp("", "wtfself")
			if err != nil {
				r.Status = "error: " + err.Error()
				return
			}
			defer os.RemoveAll(tmp)
			_ = os.MkdirAll(filepath.Join(tmp, "verif"), 0o755)
			if out, err := exec.Command("rsync", "-a", "--exclude", ".git", repoDir+"/", filepath.Join(tmp, "repo")+"/").CombinedOutput(); err != nil {
				r.Status = "error: copy: " + string(out)
				return
			}
			if b, err := os.ReadFile(filepath.Join(verifDir, "known_findings.json")); err == nil {
				_ = os.WriteFile(filepath.Join(tmp, "verif", "known_findings.json"), b, 0o644)
			}
			pc := exec.Command("patch", "-p1", "-s", "-f", "-i", v.patch)
			pc.Dir = filepath.Join(tmp, "repo")
			if _, err := pc.CombinedOutput(); err != nil {
				r.Status = "stale" // the variant no longer applies to today's tree
				return
			}
			cc := exec.Command(exe, "-prop", prop, "-tier", "quick", "-repo", filepath.Join(tmp, "repo"), "-verif", filepath.Join(tmp, "verif"))
			cc.Env = append(os.Environ(), "VERIF_TIER=quick")
			out, _ := cc.CombinedOutput()
			for _, ln := range strings.Split(string(out), "\n") {
				if strings.HasPrefix(ln, "VIOLATED ") || strings.HasPrefix(ln, "UNDECIDED ") {
					body := ln[strings.Index(ln, " ")+1:]
					if k := strings.Index(body, " at "); k > 0 {
						body = body[:k]
					}
					r.Fired = append(r.Fired, body)
				}
				if strings.HasPrefix(ln, "ERROR:") {
					r.Status = "does-not-type-check"
				}
			}
			if r.Status != "" {
				return
			}
			switch v.expect {
			case "none":
				if len(r.Fired) == 0 {
					r.Status = "ok-silent"
				} else {
					r.Status = "FALSE-ALARM"
				}
			case "any":
				if len(r.Fired) > 0 {
					r.Status = "ok-fired"
				} else {
					r.Status = "MISSED"
				}
			default:
				r.Status = "MISSED"
				for _, f := range r.Fired {
					if strings.HasPrefix(f, v.expect) {
						r.Status = "ok-fired"
					}
				}
			}
		}(i, v)
	}
	wg.Wait()
	counts := map[string]int{}
	var regress, stale []string
	for _, r := range res {
		counts[r.Status]++
		if r.Status == "MISSED" || r.Status == "FALSE-ALARM" {
			regress = append(regress, r.Name+": "+r.Status+" (expected "+r.Expect+", fired "+strings.Join(r.Fired, " | ")+")")
		}
		if r.Status == "stale" || r.Status == "does-not-type-check" || strings.HasPrefix(r.Status, "error") {
			stale = append(stale, r.Name+": "+r.Status)
		}
	}
	fmt.Printf("SELF-VALIDATION property=%s variants=%d fired-as-expected=%d silent-on-benign=%d stale=%d regressions=%d\n", prop, len(vs), counts["ok-fired"], counts["ok-silent"], len(stale), len(regress))
	for _, s := range regress {
		fmt.Println("SELF-VALIDATION-REGRESSION " + s)
	}
	for _, s := range stale {
		fmt.Println("SELF-VALIDATION-SKIPPED " + s)
	}
	return map[string]any{"variants": len(vs), "by_status": counts, "regressions": regress, "skipped": stale, "results": res}
}
