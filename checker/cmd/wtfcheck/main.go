// Command wtfcheck decides the properties of /verif/properties.jsonl for the
// repository under /repo by static analysis only. See /verif/DESIGN.md.
package main

import (
	"flag"
	"fmt"
	"os"
	"runtime/debug"
	"sort"
	"strconv"
	"strings"
	"time"

	"wtfverif/checker/internal/load"
	"wtfverif/checker/internal/report"
	"wtfverif/checker/internal/rules"
)

func main() {
	prop := flag.String("prop", "", "property id (C01..C20)")
	tier := flag.String("tier", "quick", "quick|thorough")
	repo := flag.String("repo", "/repo", "repository root")
	verif := flag.String("verif", "/verif", "verif root (evidence, known findings)")
	only := flag.String("only", "", "restrict verdict lines to obligations whose rule/construct contains this string (replay)")
	list := flag.Bool("list", false, "list registered properties")
	dump := flag.String("symx", "", "debug: print the symbolic rendering of pkgsuffix:recv:func (e.g. internal/history:SearchHistory:AddEntry)")
	mo := flag.Bool("maporder", false, "debug: classify all map range loops")
	flag.Parse()
	// an analysis that does not come back is a broken check, not a pass: give
	// up loudly (the quick tier takes seconds, the thorough tier minutes)
	limit := 15 * time.Minute
	if *tier == "thorough" {
		limit = 90 * time.Minute
	}
	time.AfterFunc(limit, func() {
		fmt.Printf("ERROR analysis of %s did not finish within %v\n", *prop, limit)
		fmt.Printf("VIOLATION property=%s replay=%s/evidence/replay/%s-timeout.json\n", *prop, *verif, *prop)
		os.Exit(1)
	})
	if *mo {
		p, err := load.Load(*repo, "linux", "amd64")
		if err != nil {
			fmt.Println(err)
			os.Exit(2)
		}
		rules.DumpMapOrder(p)
		return
	}
	if *dump != "" {
		p, err := load.Load(*repo, "linux", "amd64")
		if err != nil {
			fmt.Println(err)
			os.Exit(2)
		}
		rules.DumpSymx(p, *dump)
		return
	}
	if *list {
		ps := rules.Props()
		sort.Strings(ps)
		fmt.Println(strings.Join(ps, " "))
		return
	}
	if t := os.Getenv("VERIF_TIER"); t != "" && !isFlagSet("tier") {
		*tier = t
	}
	seed, _ := strconv.Atoi(os.Getenv("VERIF_SEED"))
	rule := rules.Get(*prop)
	if rule == nil {
		fmt.Printf("ERROR: no rules registered for property %q\n", *prop)
		os.Exit(2)
	}
	rep := report.New(*prop, *tier, seed)
	rep.Explanation = rule.Explanation
	rep.NotDecided = rule.NotDecided
	rep.Assumptions = rule.Assumptions
	rep.SetOnly(*only)

	type cfg struct{ goos, goarch string }
	cfgs := []cfg{{"linux", "amd64"}}
	if *tier == "thorough" {
		cfgs = append(cfgs, cfg{"windows", "amd64"}, cfg{"darwin", "arm64"}, cfg{"linux", "386"})
	}
	code := func() (code int) {
		defer func() {
			if e := recover(); e != nil {
				fmt.Printf("ERROR: analyser panicked: %v\n%s\n", e, debug.Stack())
				code = 2
			}
		}()
		for _, c := range cfgs {
			p, err := load.Load(*repo, c.goos, c.goarch)
			if err != nil {
				fmt.Printf("ERROR: cannot analyse %s (%s/%s): %v\n", *repo, c.goos, c.goarch, err)
				return 2
			}
			rep.Configs = append(rep.Configs, fmt.Sprintf("%s/%s: %d repo packages, %d SSA functions", c.goos, c.goarch, len(p.Repo), p.NumFuncs()))
			rule.Run(&rules.Ctx{P: p, R: rep, Tier: *tier})
			p = nil
			debug.FreeOSMemory()
		}
		return -1
	}()
	if code >= 0 {
		// Could not analyse: no verdict. Still counts as a failing check.
		fmt.Printf("VIOLATION property=%s replay=%s/evidence/replay/%s-analysis-failure.json\n", *prop, *verif, *prop)
		os.Exit(code)
	}
	if *tier == "thorough" && os.Getenv("WTF_NO_SELFVAL") == "" {
		rep.Analysed["self_validation"] = selfValidate(*prop, *verif, *repo)
	}
	cmd := fmt.Sprintf("bin/wtfcheck -prop %s -tier %s -repo %s", *prop, *tier, *repo)
	os.Exit(rep.Finish(*verif, cmd))
}

func isFlagSet(name string) bool {
	set := false
	flag.Visit(func(f *flag.Flag) {
		if f.Name == name {
			set = true
		}
	})
	return set
}
