// Package interval derives integer bounds for SSA values at a program point
// from constants, phi nodes, branch conditions and versioned memory (package
// symx). It is a demand-driven, path-sensitive-at-joins analysis made for the
// guard idioms of the analysed repository:
//
//	if x <= 0 { x = c }            (default)
//	if x > M { x = M }             (clamp)
//	if x < 0 { return } ...         (early exit)
//
// A bound is reported only when every path from the function entry to the
// program point establishes it (by a branch condition on the same versioned
// expression, or by the stored/merged values); anything unrecognised is
// unbounded, the sound direction.
package interval

import (
	"go/token"
	"go/types"
	"math"

	"golang.org/x/tools/go/ssa"

	"wtfverif/checker/internal/ssau"
	"wtfverif/checker/internal/symx"
)

// Iv is a closed integer interval; LoOK/HiOK tell which ends are known.
type Iv struct {
	Lo, Hi     int64
	LoOK, HiOK bool
}

func (a Iv) hull(b Iv) Iv {
	o := Iv{}
	if a.LoOK && b.LoOK {
		o.LoOK, o.Lo = true, min64(a.Lo, b.Lo)
	}
	if a.HiOK && b.HiOK {
		o.HiOK, o.Hi = true, max64(a.Hi, b.Hi)
	}
	return o
}

func (a Iv) meet(b Iv) Iv {
	o := a
	if b.LoOK && (!o.LoOK || b.Lo > o.Lo) {
		o.LoOK, o.Lo = true, b.Lo
	}
	if b.HiOK && (!o.HiOK || b.Hi < o.Hi) {
		o.HiOK, o.Hi = true, b.Hi
	}
	return o
}

func min64(a, b int64) int64 {
	if a < b {
		return a
	}
	return b
}
func max64(a, b int64) int64 {
	if a > b {
		return a
	}
	return b
}

// Q answers queries for one function.
type Q struct {
	F     *symx.Fn
	fn    *ssa.Function
	conds []condFact
	depth int
	// Callee lets the caller supply summaries for calls (e.g. utils.Min).
	Callee func(q *Q, call *ssa.Call, at *ssa.BasicBlock) (Iv, bool)
	busy   map[busyKey]bool
}

type busyKey struct {
	v  ssa.Value
	at *ssa.BasicBlock
}

// condFact: on edge (Block, succ) the expression Expr is within Iv.
type condFact struct {
	block *ssa.BasicBlock
	succ  int
	expr  string
	iv    Iv
	neq   bool  // the edge establishes expr != ne
	ne    int64
}

func New(f *symx.Fn) *Q {
	q := &Q{F: f, fn: f.Func(), busy: map[busyKey]bool{}}
	q.collect()
	return q
}

const big = math.MaxInt64 / 4

// collect gathers, for every If on an integer comparison with a constant
// side, the interval each outgoing edge establishes for the other side.
func (q *Q) collect() {
	for _, iff := range ssau.Ifs(q.fn) {
		op, x, y, ok := ssau.CondOf(iff.Cond)
		if !ok {
			continue
		}
		cx, xc := ssau.ConstInt(x)
		cy, yc := ssau.ConstInt(y)
		var e ssa.Value
		var c int64
		switch {
		case yc && !xc:
			e, c = x, cy
		case xc && !yc:
			e, c, op = y, cx, ssau.Flip(op)
		default:
			continue
		}
		if b, ok := e.Type().Underlying().(*types.Basic); !ok || b.Info()&types.IsInteger == 0 {
			continue
		}
		s := q.F.E(e)
		add := func(succ int, o token.Token) {
			var iv Iv
			switch o {
			case token.GTR:
				iv = Iv{Lo: c + 1, LoOK: true}
			case token.GEQ:
				iv = Iv{Lo: c, LoOK: true}
			case token.LSS:
				iv = Iv{Hi: c - 1, HiOK: true}
			case token.LEQ:
				iv = Iv{Hi: c, HiOK: true}
			case token.EQL:
				iv = Iv{Lo: c, Hi: c, LoOK: true, HiOK: true}
			case token.NEQ:
				q.conds = append(q.conds, condFact{block: iff.Block(), succ: succ, expr: s, neq: true, ne: c})
				return
			default:
				return
			}
			q.conds = append(q.conds, condFact{block: iff.Block(), succ: succ, expr: s, iv: iv})
		}
		add(0, op)
		add(1, ssau.Negate(op))
	}
}

// guardBound: the tightest bounds on expression s that every path from the
// entry to block at establishes through branch conditions.
func (q *Q) guardBound(s string, at *ssa.BasicBlock) Iv {
	out := Iv{}
	// candidate thresholds
	var los, his []int64
	for _, c := range q.conds {
		if c.expr != s {
			continue
		}
		if c.iv.LoOK {
			los = append(los, c.iv.Lo)
		}
		if c.iv.HiOK {
			his = append(his, c.iv.Hi)
		}
	}
	for _, L := range los {
		cut := map[[2]int]bool{}
		for _, c := range q.conds {
			if c.expr == s && c.iv.LoOK && c.iv.Lo >= L {
				cut[[2]int{c.block.Index, c.succ}] = true
			}
		}
		if !ssau.ReachableAvoidingEdges(q.fn, at, cut) {
			if !out.LoOK || L > out.Lo {
				out.LoOK, out.Lo = true, L
			}
		}
	}
	for _, H := range his {
		cut := map[[2]int]bool{}
		for _, c := range q.conds {
			if c.expr == s && c.iv.HiOK && c.iv.Hi <= H {
				cut[[2]int{c.block.Index, c.succ}] = true
			}
		}
		if !ssau.ReachableAvoidingEdges(q.fn, at, cut) {
			if !out.HiOK || H < out.Hi {
				out.HiOK, out.Hi = true, H
			}
		}
	}
	// disequalities tighten a closed end: x >= c and x != c give x >= c+1.
	// An edge establishing a tighter bound (x > c) also establishes x != c.
	for changed := true; changed; {
		changed = false
		for _, end := range []int{0, 1} {
			var c0 int64
			if end == 0 {
				if !out.LoOK {
					continue
				}
				c0 = out.Lo
			} else {
				if !out.HiOK {
					continue
				}
				c0 = out.Hi
			}
			cut := map[[2]int]bool{}
			for _, c := range q.conds {
				if c.expr != s {
					continue
				}
				if (c.neq && c.ne == c0) || (c.iv.LoOK && c.iv.Lo > c0) || (c.iv.HiOK && c.iv.Hi < c0) {
					cut[[2]int{c.block.Index, c.succ}] = true
				}
			}
			if len(cut) > 0 && !ssau.ReachableAvoidingEdges(q.fn, at, cut) {
				if end == 0 {
					out.Lo++
				} else {
					out.Hi--
				}
				changed = true
			}
		}
	}
	return out
}

// edgeBound: what the edge pred->succ itself establishes about expression s.
func (q *Q) edgeBound(s string, pred, succ *ssa.BasicBlock) Iv {
	out := Iv{}
	for _, c := range q.conds {
		if c.block == pred && c.expr == s && c.succ < len(pred.Succs) && pred.Succs[c.succ] == succ {
			// both successors equal would make the fact unusable
			if len(pred.Succs) == 2 && pred.Succs[0] == pred.Succs[1] {
				continue
			}
			out = out.meet(c.iv)
		}
	}
	return out
}

// At returns the interval of v when control is at the start of block at (v
// must be available there: it dominates at, or is a phi of at).
func (q *Q) At(v ssa.Value, at *ssa.BasicBlock) Iv {
	k := busyKey{v, at}
	if q.busy[k] || q.depth > 40 {
		return Iv{}
	}
	q.busy[k] = true
	q.depth++
	defer func() { delete(q.busy, k); q.depth-- }()

	iv := q.structural(v, at)
	// guards on the very same (versioned) expression
	iv = iv.meet(q.guardBound(q.F.E(v), at))
	return iv
}

// onEdge: interval of v for control flowing along pred->succ.
func (q *Q) onEdge(v ssa.Value, pred, succ *ssa.BasicBlock) Iv {
	iv := q.At(v, pred)
	return iv.meet(q.edgeBound(q.F.E(v), pred, succ))
}

func (q *Q) structural(v ssa.Value, at *ssa.BasicBlock) Iv {
	switch x := v.(type) {
	case *ssa.Const:
		if c, ok := ssau.ConstInt(x); ok {
			return Iv{Lo: c, Hi: c, LoOK: true, HiOK: true}
		}
	case *ssa.Phi:
		var out Iv
		for i, e := range x.Edges {
			iv := q.onEdge(e, x.Block().Preds[i], x.Block())
			if i == 0 {
				out = iv
			} else {
				out = out.hull(iv)
			}
		}
		return out
	case *ssa.Convert:
		if b, ok := x.X.Type().Underlying().(*types.Basic); ok && b.Info()&types.IsInteger != 0 {
			if tb, ok := x.Type().Underlying().(*types.Basic); ok && tb.Info()&types.IsInteger != 0 {
				return q.At(x.X, at)
			}
		}
	case *ssa.ChangeType:
		return q.At(x.X, at)
	case *ssa.BinOp:
		a, b := q.At(x.X, at), q.At(x.Y, at)
		switch x.Op {
		case token.ADD:
			return addIv(a, b)
		case token.SUB:
			return addIv(a, Iv{Lo: -b.Hi, Hi: -b.Lo, LoOK: b.HiOK, HiOK: b.LoOK})
		case token.MUL:
			if a.LoOK && b.LoOK && a.Lo >= 0 && b.Lo >= 0 {
				o := Iv{LoOK: true, Lo: mulSat(a.Lo, b.Lo)}
				if a.HiOK && b.HiOK {
					o.HiOK, o.Hi = true, mulSat(a.Hi, b.Hi)
				}
				return o
			}
		}
	case *ssa.Call:
		if b, ok := x.Common().Value.(*ssa.Builtin); ok {
			switch b.Name() {
			case "len", "cap":
				return Iv{LoOK: true, Lo: 0}
			case "min":
				return q.minmax(x.Common().Args, at, true)
			case "max":
				return q.minmax(x.Common().Args, at, false)
			}
		}
		switch ssau.CallName(x) {
		case "github.com/Vedant9500/WTF/internal/utils.Min":
			return q.minmax(x.Common().Args, at, true)
		case "github.com/Vedant9500/WTF/internal/utils.Max":
			return q.minmax(x.Common().Args, at, false)
		}
		if q.Callee != nil {
			if iv, ok := q.Callee(q, x, at); ok {
				return iv
			}
		}
	case *ssa.UnOp:
		if x.Op == token.MUL {
			return q.load(x)
		}
	}
	return Iv{}
}

func (q *Q) minmax(args []ssa.Value, at *ssa.BasicBlock, isMin bool) Iv {
	var out Iv
	for i, a := range args {
		iv := q.At(a, at)
		if i == 0 {
			out = iv
			continue
		}
		o := Iv{}
		if isMin {
			// min: upper bound is the smaller known upper bound; lower needs both
			if out.HiOK && iv.HiOK {
				o.HiOK, o.Hi = true, min64(out.Hi, iv.Hi)
			} else if out.HiOK {
				o.HiOK, o.Hi = true, out.Hi
			} else if iv.HiOK {
				o.HiOK, o.Hi = true, iv.Hi
			}
			if out.LoOK && iv.LoOK {
				o.LoOK, o.Lo = true, min64(out.Lo, iv.Lo)
			}
		} else {
			if out.LoOK && iv.LoOK {
				o.LoOK, o.Lo = true, max64(out.Lo, iv.Lo)
			} else if out.LoOK {
				o.LoOK, o.Lo = true, out.Lo
			} else if iv.LoOK {
				o.LoOK, o.Lo = true, iv.Lo
			}
			if out.HiOK && iv.HiOK {
				o.HiOK, o.Hi = true, max64(out.Hi, iv.Hi)
			}
		}
		out = o
	}
	return out
}

func addIv(a, b Iv) Iv {
	o := Iv{}
	if a.LoOK && b.LoOK && a.Lo > -big && b.Lo > -big {
		o.LoOK, o.Lo = true, a.Lo+b.Lo
	}
	if a.HiOK && b.HiOK && a.Hi < big && b.Hi < big {
		o.HiOK, o.Hi = true, a.Hi+b.Hi
	}
	return o
}

func mulSat(a, b int64) int64 {
	if a != 0 && b > big/a {
		return big
	}
	return a * b
}

// load: interval of a memory load from its reaching definitions.
func (q *Q) load(u *ssa.UnOp) Iv {
	key, loc := q.F.LoadKey(u)
	if key == "" {
		return Iv{}
	}
	ver := q.F.Version(u)
	return q.memVersion(key, loc, ver, map[string]bool{})
}

// memVersion: interval of location loc (class key) while it has version ver.
func (q *Q) memVersion(key, loc, ver string, seen map[string]bool) Iv {
	if seen[ver] {
		// a cycle of joins: the value is one of the other inputs; returning
		// the neutral element of hull is not expressible, so give up.
		return Iv{}
	}
	seen[ver] = true
	defer delete(seen, ver)
	if in := q.F.InstrByID(ver); in != nil {
		st, ok := in.(*ssa.Store)
		if !ok {
			return Iv{}
		}
		// the store must be to this very location (same rendering), not just
		// the same class
		if _, l2 := q.F.LoadKeyOfAddr(st.Addr); l2 != loc {
			return Iv{}
		}
		return q.At(st.Val, st.Block())
	}
	if jb := q.F.JoinBlock(ver); jb != nil {
		var out Iv
		for i, p := range jb.Preds {
			pv := q.F.OutVersion(p, key)
			s := loc + "@" + pv
			iv := q.memVersion(key, loc, pv, seen)
			iv = iv.meet(q.guardBound(s, p)).meet(q.edgeBound(s, p, jb))
			if i == 0 {
				out = iv
			} else {
				out = out.hull(iv)
			}
		}
		return out
	}
	return Iv{}
}

// MemAt returns the interval of the memory location loc (class key) while it
// has version ver, for control at the start of block at.
func (q *Q) MemAt(key, loc, ver string, at *ssa.BasicBlock) Iv {
	iv := q.memVersion(key, loc, ver, map[string]bool{})
	return iv.meet(q.guardBound(loc+"@"+ver, at))
}
