// Package interval derives integer bounds for SSA values at a program point
// from constants, phi nodes, branch conditions and versioned memory (package
// symx). It is a demand-driven, path-sensitive-at-joins analysis made for the
// guard idioms of the analysed repository:
//
//	if x <= 0 { x = c }            (default)
//	if x > M { x = M }             (clamp)
//	if x < 0 { return } ...         (early exit)
//
// A bound is reported only when every path from the function entry to the
// program point establishes it (by a branch condition on the same versioned
// expression, or by the stored/merged values); anything unrecognised is
// unbounded, the sound direction.
package interval

import (
	"go/token"
	"go/types"
	"math"
	"strings"

	"golang.org/x/tools/go/ssa"

	"wtfverif/checker/internal/ssau"
	"wtfverif/checker/internal/symx"
)

// Iv is a closed integer interval; LoOK/HiOK tell which ends are known.
type Iv struct {
	Lo, Hi     int64
	LoOK, HiOK bool
}

func (a Iv) hull(b Iv) Iv {
	o := Iv{}
	if a.LoOK && b.LoOK {
		o.LoOK, o.Lo = true, min64(a.Lo, b.Lo)
	}
	if a.HiOK && b.HiOK {
		o.HiOK, o.Hi = true, max64(a.Hi, b.Hi)
	}
	return o
}

func (a Iv) meet(b Iv) Iv {
	o := a
	if b.LoOK && (!o.LoOK || b.Lo > o.Lo) {
		o.LoOK, o.Lo = true, b.Lo
	}
	if b.HiOK && (!o.HiOK || b.Hi < o.Hi) {
		o.HiOK, o.Hi = true, b.Hi
	}
	return o
}

func min64(a, b int64) int64 {
	if a < b {
		return a
	}
	return b
}
func max64(a, b int64) int64 {
	if a > b {
		return a
	}
	return b
}

// Q answers queries for one function.
type Q struct {
	F     *symx.Fn
	fn    *ssa.Function
	conds []condFact
	depth int
	// Callee lets the caller supply summaries for calls (e.g. utils.Min).
	Callee func(q *Q, call *ssa.Call, at *ssa.BasicBlock) (Iv, bool)
	// Strict makes the arithmetic sound for wrap-around: a sum, difference
	// or product is bounded only when neither end can overflow int64, and
	// len/cap are bounded above by MaxLen.
	Strict bool
	// Param supplies the interval of a parameter (from the call sites).
	Param func(p *ssa.Parameter) Iv
	// ParamField supplies the interval of field path of a struct parameter
	// as received (before any store to the local copy).
	ParamField func(p *ssa.Parameter, path string) Iv
	// FreeField supplies, inside a closure, the interval of (field path of) a
	// captured variable as it is when the closure is entered.
	FreeField func(fv *ssa.FreeVar, path string) Iv
	busy      map[busyKey]bool
}

// DebugRel traces relational facts.
var DebugRel = false

// MaxLen bounds len and cap in strict mode: no slice, string or map of the
// analysed program holds more elements than the address space has bytes.
const MaxLen = int64(1) << 48

// Hull is the smallest interval containing a and b.
func (a Iv) Hull(b Iv) Iv { return a.hull(b) }

// Meet intersects a and b.
func (a Iv) Meet(b Iv) Iv { return a.meet(b) }

// GuardBound is what the branch conditions on every path to block at
// establish for the versioned expression expr.
func (q *Q) GuardBound(expr string, at *ssa.BasicBlock) Iv { return q.guardBound(expr, at) }

// GuardBoundFrom is GuardBound for an expression already known to lie in
// base: disequalities tighten base's closed ends (len(x) >= 0 and
// len(x) != 0 give len(x) >= 1).
func (q *Q) GuardBoundFrom(expr string, at *ssa.BasicBlock, base Iv) Iv {
	return q.guardBoundBase(expr, at, base)
}

type busyKey struct {
	v  ssa.Value
	at *ssa.BasicBlock
}

// condFact: on edge (Block, succ) the expression Expr is within Iv.
type condFact struct {
	block *ssa.BasicBlock
	succ  int
	expr  string
	iv    Iv
	neq   bool // the edge establishes expr != ne
	ne    int64
	// relational fact: expr OP other, the interval is derived from other's
	// interval at the branch on first use
	other ssa.Value
	op    token.Token
	ready bool
}

func New(f *symx.Fn) *Q {
	q := &Q{F: f, fn: f.Func(), busy: map[busyKey]bool{}}
	q.collect()
	return q
}

const big = math.MaxInt64 / 4

// collect gathers, for every If on an integer comparison with a constant
// side, the interval each outgoing edge establishes for the other side.
func (q *Q) collect() {
	for _, iff := range ssau.Ifs(q.fn) {
		op, x, y, ok := ssau.CondOf(iff.Cond)
		if !ok {
			continue
		}
		cx, xc := ssau.ConstInt(x)
		cy, yc := ssau.ConstInt(y)
		var e ssa.Value
		var c int64
		switch {
		case yc && !xc:
			e, c = x, cy
		case xc && !yc:
			e, c, op = y, cx, ssau.Flip(op)
		default:
			if !xc && !yc {
				q.collectRel(iff, op, x, y)
			}
			continue
		}
		if b, ok := e.Type().Underlying().(*types.Basic); !ok || b.Info()&types.IsInteger == 0 {
			continue
		}
		s := q.F.E(e)
		add := func(succ int, o token.Token) {
			var iv Iv
			switch o {
			case token.GTR:
				iv = Iv{Lo: c + 1, LoOK: true}
			case token.GEQ:
				iv = Iv{Lo: c, LoOK: true}
			case token.LSS:
				iv = Iv{Hi: c - 1, HiOK: true}
			case token.LEQ:
				iv = Iv{Hi: c, HiOK: true}
			case token.EQL:
				iv = Iv{Lo: c, Hi: c, LoOK: true, HiOK: true}
			case token.NEQ:
				q.conds = append(q.conds, condFact{block: iff.Block(), succ: succ, expr: s, neq: true, ne: c})
				return
			default:
				return
			}
			q.conds = append(q.conds, condFact{block: iff.Block(), succ: succ, expr: s, iv: iv})
		}
		add(0, op)
		add(1, ssau.Negate(op))
	}
}

// collectRel records x OP y for two non-constant integer operands: each side
// is bounded through the other's interval at the branch.
func (q *Q) collectRel(iff *ssa.If, op token.Token, x, y ssa.Value) {
	if b, ok := x.Type().Underlying().(*types.Basic); !ok || b.Info()&types.IsInteger == 0 {
		return
	}
	add := func(e, other ssa.Value, succ int, o token.Token) {
		switch o {
		case token.GTR, token.GEQ, token.LSS, token.LEQ, token.EQL:
			q.conds = append(q.conds, condFact{block: iff.Block(), succ: succ, expr: q.F.E(e), other: other, op: o})
		}
	}
	add(x, y, 0, op)
	add(x, y, 1, ssau.Negate(op))
	add(y, x, 0, ssau.Flip(op))
	add(y, x, 1, ssau.Negate(ssau.Flip(op)))
}

// resolve turns the relational facts about expression s into intervals.
func (q *Q) resolve(s string) {
	for i := range q.conds {
		c := &q.conds[i]
		if c.other == nil || c.ready || c.expr != s {
			continue
		}
		// a result computed inside a cut-off recursion carries no information
		// and is not kept; ready doubles as the in-progress mark
		c.ready = true
		o := q.At(c.other, c.block)
		c = &q.conds[i]
		if !o.LoOK && !o.HiOK {
			c.ready = false
			continue
		}
		if DebugRel {
			println("resolve", s, c.op.String(), q.F.E(c.other), "lo", o.LoOK, o.Lo, "hi", o.HiOK, o.Hi, "depth", q.depth)
		}
		switch c.op {
		case token.GTR:
			if o.LoOK && o.Lo < math.MaxInt64 {
				c.iv = Iv{Lo: o.Lo + 1, LoOK: true}
			}
		case token.GEQ:
			if o.LoOK {
				c.iv = Iv{Lo: o.Lo, LoOK: true}
			}
		case token.LSS:
			if o.HiOK && o.Hi > math.MinInt64 {
				c.iv = Iv{Hi: o.Hi - 1, HiOK: true}
			}
		case token.LEQ:
			if o.HiOK {
				c.iv = Iv{Hi: o.Hi, HiOK: true}
			}
		case token.EQL:
			c.iv = o
		}
	}
}

// guardBound: the tightest bounds on expression s that every path from the
// entry to block at establishes through branch conditions.
func (q *Q) guardBound(s string, at *ssa.BasicBlock) Iv { return q.guardBoundBase(s, at, Iv{}) }

func (q *Q) guardBoundBase(s string, at *ssa.BasicBlock, base Iv) Iv {
	q.resolve(s)
	out := base
	// candidate thresholds
	var los, his []int64
	for _, c := range q.conds {
		if c.expr != s {
			continue
		}
		if c.iv.LoOK {
			los = append(los, c.iv.Lo)
		}
		if c.iv.HiOK {
			his = append(his, c.iv.Hi)
		}
	}
	for _, L := range los {
		cut := map[[2]int]bool{}
		for _, c := range q.conds {
			if c.expr == s && c.iv.LoOK && c.iv.Lo >= L {
				cut[[2]int{c.block.Index, c.succ}] = true
			}
		}
		if !ssau.ReachableAvoidingEdges(q.fn, at, cut) {
			if !out.LoOK || L > out.Lo {
				out.LoOK, out.Lo = true, L
			}
		}
	}
	for _, H := range his {
		cut := map[[2]int]bool{}
		for _, c := range q.conds {
			if c.expr == s && c.iv.HiOK && c.iv.Hi <= H {
				cut[[2]int{c.block.Index, c.succ}] = true
			}
		}
		if !ssau.ReachableAvoidingEdges(q.fn, at, cut) {
			if !out.HiOK || H < out.Hi {
				out.HiOK, out.Hi = true, H
			}
		}
	}
	// disequalities tighten a closed end: x >= c and x != c give x >= c+1.
	// An edge establishing a tighter bound (x > c) also establishes x != c.
	for changed := true; changed; {
		changed = false
		for _, end := range []int{0, 1} {
			var c0 int64
			if end == 0 {
				if !out.LoOK {
					continue
				}
				c0 = out.Lo
			} else {
				if !out.HiOK {
					continue
				}
				c0 = out.Hi
			}
			cut := map[[2]int]bool{}
			for _, c := range q.conds {
				if c.expr != s {
					continue
				}
				if (c.neq && c.ne == c0) || (c.iv.LoOK && c.iv.Lo > c0) || (c.iv.HiOK && c.iv.Hi < c0) {
					cut[[2]int{c.block.Index, c.succ}] = true
				}
			}
			if len(cut) > 0 && !ssau.ReachableAvoidingEdges(q.fn, at, cut) {
				if end == 0 {
					out.Lo++
				} else {
					out.Hi--
				}
				changed = true
			}
		}
	}
	return out
}

// edgeBound: what the edge pred->succ itself establishes about expression s.
func (q *Q) edgeBound(s string, pred, succ *ssa.BasicBlock) Iv {
	q.resolve(s)
	out := Iv{}
	for _, c := range q.conds {
		if c.block == pred && c.expr == s && c.succ < len(pred.Succs) && pred.Succs[c.succ] == succ {
			// both successors equal would make the fact unusable
			if len(pred.Succs) == 2 && pred.Succs[0] == pred.Succs[1] {
				continue
			}
			out = out.meet(c.iv)
		}
	}
	return out
}

// At returns the interval of v when control is at the start of block at (v
// must be available there: it dominates at, or is a phi of at).
func (q *Q) At(v ssa.Value, at *ssa.BasicBlock) Iv {
	k := busyKey{v, at}
	if q.busy[k] || q.depth > 40 {
		return Iv{}
	}
	q.busy[k] = true
	q.depth++
	defer func() { delete(q.busy, k); q.depth-- }()

	iv := q.structural(v, at).meet(typeRange(v.Type()))
	// guards on the very same (versioned) expression; what is already known
	// is the base, so that x != c tightens a closed end at c
	return q.guardBoundBase(q.F.E(v), at, iv)
}

// typeRange is the value range of an integer type of at most 32 bits (every
// such value is representable in the interval domain).
func typeRange(t types.Type) Iv {
	b, ok := t.Underlying().(*types.Basic)
	if !ok {
		return Iv{}
	}
	switch b.Kind() {
	case types.Uint8:
		return Iv{0, math.MaxUint8, true, true}
	case types.Uint16:
		return Iv{0, math.MaxUint16, true, true}
	case types.Uint32:
		return Iv{0, math.MaxUint32, true, true}
	case types.Int8:
		return Iv{math.MinInt8, math.MaxInt8, true, true}
	case types.Int16:
		return Iv{math.MinInt16, math.MaxInt16, true, true}
	case types.Int32:
		return Iv{math.MinInt32, math.MaxInt32, true, true}
	}
	return Iv{}
}

// onEdge: interval of v for control flowing along pred->succ.
func (q *Q) onEdge(v ssa.Value, pred, succ *ssa.BasicBlock) Iv {
	iv := q.At(v, pred)
	return iv.meet(q.edgeBound(q.F.E(v), pred, succ))
}

func (q *Q) structural(v ssa.Value, at *ssa.BasicBlock) Iv {
	switch x := v.(type) {
	case *ssa.Const:
		if c, ok := ssau.ConstInt(x); ok {
			return Iv{Lo: c, Hi: c, LoOK: true, HiOK: true}
		}
	case *ssa.Parameter:
		if q.Param != nil {
			return q.Param(x)
		}
	case *ssa.Phi:
		if iv, ok := q.monotonePhi(x); ok {
			return iv
		}
		var out Iv
		for i, e := range x.Edges {
			iv := q.onEdge(e, x.Block().Preds[i], x.Block())
			if i == 0 {
				out = iv
			} else {
				out = out.hull(iv)
			}
		}
		return out
	case *ssa.Convert:
		sb, ok1 := x.X.Type().Underlying().(*types.Basic)
		tb, ok2 := x.Type().Underlying().(*types.Basic)
		if ok1 && ok2 && sb.Info()&types.IsInteger != 0 && tb.Info()&types.IsInteger != 0 {
			if !q.Strict {
				return q.At(x.X, at)
			}
			return convertIv(q.At(x.X, at), sb, tb)
		}
	case *ssa.ChangeType:
		return q.At(x.X, at)
	case *ssa.BinOp:
		a, b := q.At(x.X, at), q.At(x.Y, at)
		switch x.Op {
		case token.ADD:
			if q.Strict {
				return addStrict(a, b)
			}
			return addIv(a, b)
		case token.SUB:
			nb := Iv{Lo: -b.Hi, Hi: -b.Lo, LoOK: b.HiOK && b.Hi != math.MinInt64, HiOK: b.LoOK && b.Lo != math.MinInt64}
			if q.Strict {
				return addStrict(a, nb)
			}
			return addIv(a, nb)
		case token.MUL:
			if q.Strict {
				// both operands need both ends, non-negative, and the product must fit
				if a.LoOK && b.LoOK && a.HiOK && b.HiOK && a.Lo >= 0 && b.Lo >= 0 {
					if a.Hi == 0 || b.Hi <= math.MaxInt64/max64(a.Hi, 1) {
						return Iv{LoOK: true, Lo: a.Lo * b.Lo, HiOK: true, Hi: a.Hi * b.Hi}
					}
				}
				return Iv{}
			}
			if a.LoOK && b.LoOK && a.Lo >= 0 && b.Lo >= 0 {
				o := Iv{LoOK: true, Lo: mulSat(a.Lo, b.Lo)}
				if a.HiOK && b.HiOK {
					o.HiOK, o.Hi = true, mulSat(a.Hi, b.Hi)
				}
				return o
			}
		case token.QUO:
			// non-negative dividend, positive divisor
			if a.LoOK && a.Lo >= 0 && b.LoOK && b.Lo >= 1 {
				o := Iv{LoOK: true, Lo: 0}
				if a.HiOK {
					o.HiOK, o.Hi = true, a.Hi/b.Lo
					if b.HiOK {
						o.Lo = a.Lo / b.Hi
					}
				}
				return o
			}
		case token.REM:
			if a.LoOK && a.Lo >= 0 && b.LoOK && b.Lo >= 1 {
				o := Iv{LoOK: true, Lo: 0}
				if b.HiOK {
					o.HiOK, o.Hi = true, b.Hi-1
				}
				if a.HiOK && (!o.HiOK || a.Hi < o.Hi) {
					o.HiOK, o.Hi = true, a.Hi
				}
				return o
			}
		case token.AND:
			// x & c for a non-negative constant mask
			if b.LoOK && b.HiOK && b.Lo == b.Hi && b.Lo >= 0 {
				return Iv{LoOK: true, Lo: 0, HiOK: true, Hi: b.Hi}
			}
		case token.SHR:
			if a.LoOK && a.Lo >= 0 {
				return Iv{LoOK: true, Lo: 0, HiOK: a.HiOK, Hi: a.Hi}
			}
		}
	case *ssa.Call:
		if b, ok := x.Common().Value.(*ssa.Builtin); ok {
			switch b.Name() {
			case "len", "cap":
				if q.Strict {
					if arr := arrayLen(x.Common().Args[0].Type()); arr >= 0 {
						return Iv{LoOK: true, Lo: arr, HiOK: true, Hi: arr}
					}
					return Iv{LoOK: true, Lo: 0, HiOK: true, Hi: MaxLen}
				}
				return Iv{LoOK: true, Lo: 0}
			case "min":
				return q.minmax(x.Common().Args, at, true)
			case "max":
				return q.minmax(x.Common().Args, at, false)
			}
		}
		switch ssau.CallName(x) {
		case "github.com/Vedant9500/WTF/internal/utils.Min":
			return q.minmax(x.Common().Args, at, true)
		case "github.com/Vedant9500/WTF/internal/utils.Max":
			return q.minmax(x.Common().Args, at, false)
		}
		if q.Callee != nil {
			if iv, ok := q.Callee(q, x, at); ok {
				return iv
			}
		}
	case *ssa.UnOp:
		if x.Op == token.MUL {
			return q.load(x)
		}
	case *ssa.Field:
		if p, ok := x.X.(*ssa.Parameter); ok && q.ParamField != nil {
			return q.ParamField(p, ssau.FieldName(x))
		}
	}
	return Iv{}
}

func arrayLen(t types.Type) int64 {
	if p, ok := t.Underlying().(*types.Pointer); ok {
		t = p.Elem()
	}
	if a, ok := t.Underlying().(*types.Array); ok {
		return a.Len()
	}
	return -1
}

// monotonePhi: a loop counter phi(c, phi+k, ...) with every step k >= 0 is
// bounded below by the smallest initial constant (k <= 0: bounded above).
// In strict mode the increasing counter must also be bounded above by a
// guard on the path to the increment, so that phi+k cannot wrap.
func (q *Q) monotonePhi(p *ssa.Phi) (Iv, bool) {
	// the phis that feed each other (a counter updated in one arm of a
	// conditional merges with itself before the loop header)
	group := map[*ssa.Phi]bool{p: true}
	work := []*ssa.Phi{p}
	for len(work) > 0 && len(group) <= 8 {
		x := work[len(work)-1]
		work = work[:len(work)-1]
		for _, e := range x.Edges {
			if ph, ok := e.(*ssa.Phi); ok && !group[ph] && dependsOnPhi(ph, p, 0) {
				group[ph] = true
				work = append(work, ph)
			}
		}
	}
	if len(group) > 8 {
		return Iv{}, false
	}
	var inits []int64
	up, down, steps := true, true, 0
	type stepEdge struct {
		bo   *ssa.BinOp
		pred *ssa.BasicBlock
		to   *ssa.Phi
		k    int64
	}
	var stepEdges []stepEdge
	for x := range group {
		for i, e := range x.Edges {
			if c, ok := ssau.ConstInt(e); ok {
				inits = append(inits, c)
				continue
			}
			if ph, ok := e.(*ssa.Phi); ok && group[ph] {
				continue
			}
			bo, ok := e.(*ssa.BinOp)
			var base *ssa.Phi
			if ok {
				base, _ = bo.X.(*ssa.Phi)
			}
			if !ok || (bo.Op != token.ADD && bo.Op != token.SUB) || base == nil || !group[base] {
				// an initial value that does not depend on the group
				for g := range group {
					if dependsOn(e, g, 0) {
						return Iv{}, false
					}
				}
				iv := q.onEdge(e, x.Block().Preds[i], x.Block())
				if !iv.LoOK && !iv.HiOK {
					return Iv{}, false
				}
				if iv.LoOK && iv.HiOK {
					inits = append(inits, iv.Lo, iv.Hi)
				} else if iv.LoOK {
					inits = append(inits, iv.Lo)
					down = false
				} else {
					inits = append(inits, iv.Hi)
					up = false
				}
				continue
			}
			k, ok := ssau.ConstInt(bo.Y)
			if !ok {
				return Iv{}, false
			}
			if bo.Op == token.SUB {
				k = -k
			}
			steps++
			if k < 0 {
				up = false
			}
			if k > 0 {
				down = false
			}
			stepEdges = append(stepEdges, stepEdge{bo, x.Block().Preds[i], x, k})
			if q.Strict && k != 0 {
				// the step must not wrap: a strict guard on the counter (i < n
				// implies i < MaxInt64), the rangeindex header guard, or a small
				// step (a counter cannot be stepped 2^43 times)
				g := q.guardBound(q.F.E(base), bo.Block())
				small := k <= 1<<20 && k >= -(1<<20)
				if k > 0 && !g.HiOK && !small {
					if !(k == 1 && q.hasStrictGuard(q.F.E(base), bo.Block(), true)) && !q.edgeBoundAny(q.F.E(bo), bo.Block()) {
						return Iv{}, false
					}
				}
				if k < 0 && !g.LoOK && !small {
					if !(k == -1 && q.hasStrictGuard(q.F.E(base), bo.Block(), false)) {
						return Iv{}, false
					}
				}
			}
		}
	}
	if len(inits) == 0 || steps == 0 {
		return Iv{}, false
	}
	lo, hi := inits[0], inits[0]
	for _, c := range inits {
		lo, hi = min64(lo, c), max64(hi, c)
	}
	out := Iv{}
	if up {
		out.LoOK, out.Lo = true, lo
	}
	if down {
		out.HiOK, out.Hi = true, hi
	}
	// the far end, from the guards the stepped value passed to re-enter
	farOK := true
	for _, se := range stepEdges {
		bo, k, pred := se.bo, se.k, se.pred
		base := bo.X.(*ssa.Phi)
		g := q.guardBound(q.F.E(bo), pred).meet(q.edgeBound(q.F.E(bo), pred, se.to.Block()))
		g2 := q.guardBound(q.F.E(base), bo.Block())
		if up && !down {
			switch {
			case g.HiOK:
				hi = max64(hi, g.Hi)
			case g2.HiOK && g2.Hi < math.MaxInt64-k:
				hi = max64(hi, g2.Hi+k)
			default:
				farOK = false
			}
		}
		if down && !up {
			switch {
			case g.LoOK:
				lo = min64(lo, g.Lo)
			case g2.LoOK && g2.Lo > math.MinInt64-k:
				lo = min64(lo, g2.Lo+k)
			default:
				farOK = false
			}
		}
	}
	if farOK && up && !down {
		out.HiOK, out.Hi = true, hi
	}
	if farOK && down && !up {
		out.LoOK, out.Lo = true, lo
	}
	return out, out.LoOK || out.HiOK
}

// dependsOnPhi: phi x (transitively through phis and +/- steps) reads p.
func dependsOnPhi(x, p *ssa.Phi, d int) bool {
	if d > 6 {
		return false
	}
	for _, e := range x.Edges {
		switch v := e.(type) {
		case *ssa.Phi:
			if v == p || dependsOnPhi(v, p, d+1) {
				return true
			}
		case *ssa.BinOp:
			if ph, ok := v.X.(*ssa.Phi); ok && (ph == p || dependsOnPhi(ph, p, d+1)) {
				return true
			}
		}
	}
	return false
}

// edgeBoundAny: the block ends in a branch whose condition bounds expression s
// from above on the edge that stays in the loop (rangeindex lowering: the
// incremented counter is compared with the length in the header itself).
func (q *Q) edgeBoundAny(s string, b *ssa.BasicBlock) bool {
	q.resolve(s)
	for _, c := range q.conds {
		if c.block == b && c.expr == s && c.iv.HiOK {
			return true
		}
	}
	return false
}

// hasStrictGuard: every path to block at passes an edge on which expression
// s is strictly below (above=false: strictly above) some value.
func (q *Q) hasStrictGuard(s string, at *ssa.BasicBlock, below bool) bool {
	q.resolve(s)
	cut := map[[2]int]bool{}
	for _, c := range q.conds {
		if c.expr != s {
			continue
		}
		if c.other != nil {
			if (below && c.op == token.LSS) || (!below && c.op == token.GTR) {
				cut[[2]int{c.block.Index, c.succ}] = true
			}
			continue
		}
		if (below && c.iv.HiOK && c.iv.Hi < math.MaxInt64) || (!below && c.iv.LoOK && c.iv.Lo > math.MinInt64) {
			cut[[2]int{c.block.Index, c.succ}] = true
		}
	}
	return len(cut) > 0 && !ssau.ReachableAvoidingEdges(q.fn, at, cut)
}

func dependsOn(v ssa.Value, p *ssa.Phi, d int) bool {
	if v == ssa.Value(p) {
		return true
	}
	if d > 6 {
		return true
	}
	switch x := v.(type) {
	case *ssa.BinOp:
		return dependsOn(x.X, p, d+1) || dependsOn(x.Y, p, d+1)
	case *ssa.Phi:
		for _, e := range x.Edges {
			if dependsOn(e, p, d+1) {
				return true
			}
		}
		return false
	case *ssa.Convert:
		return dependsOn(x.X, p, d+1)
	case *ssa.Const, *ssa.Parameter, *ssa.Call, *ssa.UnOp, *ssa.Extract, *ssa.Lookup:
		return false
	}
	return true
}

func convertIv(a Iv, from, to *types.Basic) Iv {
	bits := func(b *types.Basic) (int, bool) {
		switch b.Kind() {
		case types.Int8:
			return 8, true
		case types.Int16:
			return 16, true
		case types.Int32:
			return 32, true
		case types.Int64, types.Int:
			return 64, true
		case types.Uint8:
			return 8, false
		case types.Uint16:
			return 16, false
		case types.Uint32:
			return 32, false
		case types.Uint64, types.Uint, types.Uintptr:
			return 64, false
		}
		return 64, true
	}
	fb, fs := bits(from)
	tb, ts := bits(to)
	// the source's own range
	src := a
	if !fs {
		src = src.meet(Iv{LoOK: true, Lo: 0})
		if fb < 64 {
			src = src.meet(Iv{HiOK: true, Hi: int64(1)<<uint(fb) - 1})
		}
	} else if fb < 64 {
		src = src.meet(Iv{LoOK: true, Lo: -(int64(1) << uint(fb-1)), HiOK: true, Hi: int64(1)<<uint(fb-1) - 1})
	}
	// representable in the target?
	var tlo, thi int64
	switch {
	case ts && tb == 64:
		tlo, thi = math.MinInt64, math.MaxInt64
	case ts:
		tlo, thi = -(int64(1) << uint(tb-1)), int64(1)<<uint(tb-1)-1
	case tb == 64:
		tlo, thi = 0, math.MaxInt64
	default:
		tlo, thi = 0, int64(1)<<uint(tb)-1
	}
	if !fs && fb == 64 && !(src.HiOK) {
		// a uint64 above MaxInt64 wraps when made signed
		return Iv{}
	}
	if src.LoOK && src.HiOK && src.Lo >= tlo && src.Hi <= thi {
		return src
	}
	if src.LoOK && src.Lo >= tlo && !src.HiOK && thi == math.MaxInt64 {
		return src
	}
	if src.HiOK && src.Hi <= thi && !src.LoOK && tlo == math.MinInt64 {
		return src
	}
	return Iv{}
}

// addStrict adds two intervals; an end is known only when it cannot wrap.
func addStrict(a, b Iv) Iv {
	o := Iv{}
	if a.LoOK && b.LoOK {
		if s, ok := add64(a.Lo, b.Lo); ok {
			// the low end is meaningful only if the high end cannot wrap either
			o.LoOK, o.Lo = true, s
		}
	}
	if a.HiOK && b.HiOK {
		if s, ok := add64(a.Hi, b.Hi); ok {
			o.HiOK, o.Hi = true, s
		}
	}
	// a sum may wrap at the unknown end and land anywhere: both ends are
	// needed unless the unknown side cannot move further out
	if o.LoOK && !o.HiOK {
		// wrap upwards possible only if some operand is unbounded above and the other is positive
		if !(boundedAbove(a, b)) {
			return Iv{}
		}
	}
	if o.HiOK && !o.LoOK {
		if !(boundedBelow(a, b)) {
			return Iv{}
		}
	}
	return o
}

// boundedAbove: the sum cannot exceed MaxInt64 although an upper end is unknown.
func boundedAbove(a, b Iv) bool {
	// unknown upper end on one side means up to MaxInt64: safe only if the other side is <= 0
	if !a.HiOK && !b.HiOK {
		return false
	}
	if !a.HiOK {
		return b.Hi <= 0
	}
	if !b.HiOK {
		return a.Hi <= 0
	}
	_, ok := add64(a.Hi, b.Hi)
	return ok
}

func boundedBelow(a, b Iv) bool {
	if !a.LoOK && !b.LoOK {
		return false
	}
	if !a.LoOK {
		return b.Lo >= 0
	}
	if !b.LoOK {
		return a.Lo >= 0
	}
	_, ok := add64(a.Lo, b.Lo)
	return ok
}

func add64(a, b int64) (int64, bool) {
	s := a + b
	if (b > 0 && s < a) || (b < 0 && s > a) {
		return 0, false
	}
	return s, true
}

func (q *Q) minmax(args []ssa.Value, at *ssa.BasicBlock, isMin bool) Iv {
	var out Iv
	for i, a := range args {
		iv := q.At(a, at)
		if i == 0 {
			out = iv
			continue
		}
		o := Iv{}
		if isMin {
			// min: upper bound is the smaller known upper bound; lower needs both
			if out.HiOK && iv.HiOK {
				o.HiOK, o.Hi = true, min64(out.Hi, iv.Hi)
			} else if out.HiOK {
				o.HiOK, o.Hi = true, out.Hi
			} else if iv.HiOK {
				o.HiOK, o.Hi = true, iv.Hi
			}
			if out.LoOK && iv.LoOK {
				o.LoOK, o.Lo = true, min64(out.Lo, iv.Lo)
			}
		} else {
			if out.LoOK && iv.LoOK {
				o.LoOK, o.Lo = true, max64(out.Lo, iv.Lo)
			} else if out.LoOK {
				o.LoOK, o.Lo = true, out.Lo
			} else if iv.LoOK {
				o.LoOK, o.Lo = true, iv.Lo
			}
			if out.HiOK && iv.HiOK {
				o.HiOK, o.Hi = true, max64(out.Hi, iv.Hi)
			}
		}
		out = o
	}
	return out
}

func addIv(a, b Iv) Iv {
	o := Iv{}
	if a.LoOK && b.LoOK && a.Lo > -big && b.Lo > -big {
		o.LoOK, o.Lo = true, a.Lo+b.Lo
	}
	if a.HiOK && b.HiOK && a.Hi < big && b.Hi < big {
		o.HiOK, o.Hi = true, a.Hi+b.Hi
	}
	return o
}

func mulSat(a, b int64) int64 {
	if a != 0 && b > big/a {
		return big
	}
	return a * b
}

// load: interval of a memory load from its reaching definitions.
func (q *Q) load(u *ssa.UnOp) Iv {
	key, loc := q.F.LoadKey(u)
	if key == "" {
		return Iv{}
	}
	ver := q.F.Version(u)
	if DebugRel {
		println("load", q.F.Plain(u), "key", key, "loc", loc, "ver", ver)
	}
	if ver == "0" && q.FreeField != nil {
		// not written since the closure was entered: the captured variable's
		// value at the call
		switch a := u.X.(type) {
		case *ssa.FreeVar:
			return q.FreeField(a, "")
		case *ssa.FieldAddr:
			if fv, ok := a.X.(*ssa.FreeVar); ok {
				return q.FreeField(fv, ssau.FieldName(a))
			}
		}
	}
	return q.memVersion(key, loc, ver, map[string]bool{})
}

// memVersion: interval of location loc (class key) while it has version ver.
func (q *Q) memVersion(key, loc, ver string, seen map[string]bool) Iv {
	if seen[ver] {
		// a cycle of joins: the value is one of the other inputs; returning
		// the neutral element of hull is not expressible, so give up.
		return Iv{}
	}
	seen[ver] = true
	defer delete(seen, ver)
	if in := q.F.InstrByID(ver); in != nil {
		st, ok := in.(*ssa.Store)
		if !ok {
			return Iv{}
		}
		// the store must be to this very location (same rendering), not just
		// the same class
		if _, l2 := q.F.LoadKeyOfAddr(st.Addr); l2 != loc {
			// the whole struct parameter was copied into the local cell and
			// this field has not been written since
			if p, ok := st.Val.(*ssa.Parameter); ok && q.ParamField != nil && strings.HasPrefix(loc, l2+".") {
				return q.ParamField(p, loc[len(l2)+1:])
			}
			return Iv{}
		}
		return q.At(st.Val, st.Block())
	}
	if jb := q.F.JoinBlock(ver); jb != nil {
		var out Iv
		for i, p := range jb.Preds {
			pv := q.F.OutVersion(p, key)
			s := loc + "@" + pv
			iv := q.memVersion(key, loc, pv, seen)
			iv = iv.meet(q.guardBound(s, p)).meet(q.edgeBound(s, p, jb))
			if i == 0 {
				out = iv
			} else {
				out = out.hull(iv)
			}
		}
		return out
	}
	return Iv{}
}

// MemAt returns the interval of the memory location loc (class key) while it
// has version ver, for control at the start of block at.
func (q *Q) MemAt(key, loc, ver string, at *ssa.BasicBlock) Iv {
	iv := q.memVersion(key, loc, ver, map[string]bool{})
	return iv.meet(q.guardBound(loc+"@"+ver, at))
}

// WithCallees makes q evaluate calls of small repository functions of
// integer parameters: the result is the hull, over the callee's returns, of
// the returned value's interval computed in the callee with each parameter
// bounded by its argument's interval at the call (depth-limited; other
// callees stay unknown).
func (q *Q) WithCallees(sx *symx.Ctx, isRepo func(*ssa.Function) bool) *Q {
	var hook func(depth int) func(q *Q, call *ssa.Call, at *ssa.BasicBlock) (Iv, bool)
	hook = func(depth int) func(q *Q, call *ssa.Call, at *ssa.BasicBlock) (Iv, bool) {
		return func(cq *Q, call *ssa.Call, at *ssa.BasicBlock) (Iv, bool) {
			g := call.Common().StaticCallee()
			if g == nil || g.Blocks == nil || !isRepo(g) || depth > 2 || len(g.Blocks) > 12 || g.Signature.Results().Len() != 1 {
				return Iv{}, false
			}
			if b, ok := g.Signature.Results().At(0).Type().Underlying().(*types.Basic); !ok || b.Info()&types.IsInteger == 0 {
				return Iv{}, false
			}
			args := call.Common().Args
			argIv := map[*ssa.Parameter]Iv{}
			for i, p := range g.Params {
				if i < len(args) {
					if b, ok := p.Type().Underlying().(*types.Basic); ok && b.Info()&types.IsInteger != 0 {
						argIv[p] = cq.At(args[i], at)
					}
				}
			}
			gq := New(sx.Of(g))
			gq.Strict = cq.Strict
			gq.Param = func(p *ssa.Parameter) Iv { return argIv[p] }
			gq.Callee = hook(depth + 1)
			var out Iv
			first := true
			for _, b := range g.Blocks {
				ret, ok := b.Instrs[len(b.Instrs)-1].(*ssa.Return)
				if !ok || len(ret.Results) != 1 {
					continue
				}
				iv := gq.At(ret.Results[0], b)
				if first {
					out, first = iv, false
				} else {
					out = out.hull(iv)
				}
			}
			if first {
				return Iv{}, false
			}
			return out, true
		}
	}
	q.Callee = hook(0)
	return q
}
