// Package maporder classifies every `for k, v := range m` over a map by the
// effects of its body on state that outlives one iteration, to decide whether
// the (randomised) iteration order of the map can influence anything
// observable. It is the order-nondeterminism analysis of DESIGN.md (C02 O-1,
// C13 O-5, C18 O-1).
//
// Insensitive effects: integer += / ++ (commutative, exact), boolean flags set
// to constants, writes to a map/slice element keyed by the loop key itself
// with a value computed from the loop key/value and loop invariants, deletes
// of the loop key, constant early returns.
//
// Sensitive effects (kinds): E1 append to an outer slice, E2 floating-point
// accumulation (not associative), E3 string concatenation / writer calls,
// E4 numbering (a counter incremented per iteration whose value is stored),
// E5 loop-dependent early exit or last-writer-wins assignment, EX anything
// not recognised. E1 can be neutralised by a total-order sort of the slice
// that dominates every later use.
package maporder

import (
	"fmt"
	"go/token"
	"go/types"
	"strings"

	"golang.org/x/tools/go/ssa"

	"wtfverif/checker/internal/interval"
	"wtfverif/checker/internal/ssau"
	"wtfverif/checker/internal/symx"
)

// Effect is one order-relevant effect of a loop body.
type Effect struct {
	Kind        string // E1..E5, EX
	Pos         token.Pos
	Detail      string
	Var         ssa.Value // carried variable (header phi), cell address or container
	Neutralised bool
	How         string
}

// Pos is a source position inside the loop (the iterator itself has none).
func (l *Loop) Pos() token.Pos {
	if rg, ok := l.L.Next.Iter.(*ssa.Range); ok && rg.Pos().IsValid() {
		return rg.Pos()
	}
	for _, in := range l.L.Body.Instrs {
		if in.Pos().IsValid() {
			return in.Pos()
		}
	}
	return token.NoPos
}

// Loop is one classified map range.
type Loop struct {
	Fn      *ssa.Function
	L       ssau.RangeLoop
	Blocks  map[*ssa.BasicBlock]bool
	Effects []Effect
	// Notes lists recognised insensitive effects (for evidence).
	Notes []string
}

// Sensitive reports whether some effect is neither insensitive nor neutralised.
func (l *Loop) Sensitive() []Effect {
	var out []Effect
	for _, e := range l.Effects {
		if !e.Neutralised {
			out = append(out, e)
		}
	}
	return out
}

// Classify analyses all map range loops of fn (not of nested closures).
func Classify(fn *ssa.Function, sx *symx.Ctx) []*Loop {
	var out []*Loop
	for _, rl := range ssau.RangeLoops(fn) {
		if !rl.IsMap {
			continue
		}
		if _, ok := rl.Over.Type().Underlying().(*types.Map); !ok {
			continue // string iteration is ordered
		}
		l := &Loop{Fn: fn, L: rl, Blocks: map[*ssa.BasicBlock]bool{}}
		for _, b := range fn.Blocks {
			if b == rl.Header || rl.InLoop(b) {
				l.Blocks[b] = true
			}
		}
		// a map known to hold at most one entry where the loop starts has only
		// one iteration order
		if sx != nil {
			f := sx.Of(fn)
			q := interval.New(f)
			if rg, ok := rl.Next.Iter.(*ssa.Range); ok {
				at := rg.Block()
				iv := q.GuardBoundFrom("len("+f.E(rl.Over)+")", at, interval.Iv{Lo: 0, LoOK: true})
				if iv.HiOK && iv.Hi <= 1 {
					out = append(out, l)
					continue
				}
			}
		}
		l.classify(sx)
		out = append(out, l)
	}
	return out
}

func (l *Loop) add(kind string, pos token.Pos, v ssa.Value, format string, args ...any) {
	l.Effects = append(l.Effects, Effect{Kind: kind, Pos: pos, Var: v, Detail: fmt.Sprintf(format, args...)})
}

func (l *Loop) inLoop(v ssa.Value) bool {
	in, ok := v.(ssa.Instruction)
	return ok && in.Block() != nil && l.Blocks[in.Block()]
}

// dependsOnIter: v is computed (transitively, inside the loop) from the
// iterator's key or value.
func (l *Loop) dependsOnIter(v ssa.Value, seen map[ssa.Value]bool) bool {
	if v == nil || seen[v] {
		return false
	}
	seen[v] = true
	if ex, ok := v.(*ssa.Extract); ok && ex.Tuple == ssa.Value(l.L.Next) {
		return ex.Index > 0
	}
	if !l.inLoop(v) {
		return false
	}
	in := v.(ssa.Instruction)
	for _, op := range in.Operands(nil) {
		if *op != nil && l.dependsOnIter(*op, seen) {
			return true
		}
	}
	return false
}

// dependsOnIterAnywhere is dependsOnIter without the restriction to values
// defined inside the loop (used for values computed on the way out).
func (l *Loop) dependsOnIterAnywhere(v ssa.Value, seen map[ssa.Value]bool, d int) bool {
	if v == nil || seen[v] || d > 30 {
		return false
	}
	seen[v] = true
	if ex, ok := v.(*ssa.Extract); ok && ex.Tuple == ssa.Value(l.L.Next) {
		return ex.Index > 0
	}
	in, ok := v.(ssa.Instruction)
	if !ok {
		return false
	}
	for _, op := range in.Operands(nil) {
		if *op != nil && l.dependsOnIterAnywhere(*op, seen, d+1) {
			return true
		}
	}
	return false
}

// returnsFrom lists the returns reachable from block s without re-entering
// the loop or passing its regular exit.
func (l *Loop) returnsFrom(s *ssa.BasicBlock) []*ssa.Return {
	var out []*ssa.Return
	seen := map[*ssa.BasicBlock]bool{}
	st := []*ssa.BasicBlock{s}
	for len(st) > 0 {
		b := st[len(st)-1]
		st = st[:len(st)-1]
		if seen[b] || l.Blocks[b] || b == l.L.Done {
			continue
		}
		seen[b] = true
		if len(b.Instrs) > 0 {
			if r, ok := b.Instrs[len(b.Instrs)-1].(*ssa.Return); ok {
				out = append(out, r)
			}
		}
		st = append(st, b.Succs...)
	}
	return out
}

// isLoopKey: v is exactly the iteration key.
func (l *Loop) isLoopKey(v ssa.Value) bool {
	ex, ok := v.(*ssa.Extract)
	return ok && ex.Tuple == ssa.Value(l.L.Next) && ex.Index == 1
}

// derive walks from an updated value back to the carried variable p and
// collects the operations applied.
type deriv struct {
	reachesP bool
	ops      []string // "append", "add:string", "add:float", "add:int", "mul:float", "other:<T>"
	pos      token.Pos
}

func (l *Loop) derive(v, p ssa.Value, same func(ssa.Value) bool, seen map[ssa.Value]bool, d *deriv) {
	if v == nil || seen[v] {
		return
	}
	seen[v] = true
	if v == p || (same != nil && same(v)) {
		d.reachesP = true
		return
	}
	if !l.inLoop(v) {
		return
	}
	switch x := v.(type) {
	case *ssa.Phi:
		for _, e := range x.Edges {
			l.derive(e, p, same, seen, d)
		}
	case *ssa.BinOp:
		before := d.reachesP
		sub := &deriv{}
		l.derive(x.X, p, same, seen, sub)
		l.derive(x.Y, p, same, seen, sub)
		if sub.reachesP {
			d.reachesP = true
			d.ops = append(d.ops, sub.ops...)
			d.ops = append(d.ops, opKind(x))
			if d.pos == token.NoPos {
				d.pos = x.Pos()
			}
		}
		_ = before
	case *ssa.Call:
		if ssau.CallName(x) == "builtin.append" {
			sub := &deriv{}
			l.derive(x.Common().Args[0], p, same, seen, sub)
			if sub.reachesP {
				d.reachesP = true
				d.ops = append(append(d.ops, sub.ops...), "append")
				if d.pos == token.NoPos {
					d.pos = x.Pos()
				}
			}
			return
		}
		// a call taking the carried value: unknown transformation
		for _, a := range x.Common().Args {
			sub := &deriv{}
			l.derive(a, p, same, seen, sub)
			if sub.reachesP {
				d.reachesP = true
				d.ops = append(append(d.ops, sub.ops...), "other:call "+ssau.CallName(x))
				if d.pos == token.NoPos {
					d.pos = x.Pos()
				}
			}
		}
	case *ssa.Convert:
		l.derive(x.X, p, same, seen, d)
	case *ssa.ChangeType:
		l.derive(x.X, p, same, seen, d)
	case *ssa.Slice:
		sub := &deriv{}
		l.derive(x.X, p, same, seen, sub)
		if sub.reachesP {
			d.reachesP = true
			d.ops = append(append(d.ops, sub.ops...), "other:reslice")
		}
	case *ssa.UnOp:
		if x.Op != token.MUL {
			l.derive(x.X, p, same, seen, d)
		}
	}
}

func opKind(b *ssa.BinOp) string {
	t := b.Type().Underlying()
	k := "other"
	if bt, ok := t.(*types.Basic); ok {
		switch {
		case bt.Info()&types.IsString != 0:
			k = "string"
		case bt.Info()&types.IsFloat != 0:
			k = "float"
		case bt.Info()&types.IsInteger != 0:
			k = "int"
		case bt.Info()&types.IsBoolean != 0:
			k = "bool"
		}
	}
	switch b.Op {
	case token.ADD:
		return "add:" + k
	case token.MUL:
		return "mul:" + k
	case token.SUB:
		return "sub:" + k
	case token.OR, token.AND, token.LOR, token.LAND:
		return "logic:" + k
	}
	return "other:" + b.Op.String() + ":" + k
}

// classifyOps turns the collected operations on a carried variable into
// effects.
func (l *Loop) classifyOps(v ssa.Value, name string, d *deriv, updateIsConst bool, pos token.Pos) {
	if !d.reachesP {
		if updateIsConst {
			l.Notes = append(l.Notes, name+": set to a constant")
			return
		}
		l.add("E5", pos, v, "%s is overwritten in the loop with an iteration-dependent value (last writer wins)", name)
		return
	}
	for _, op := range d.ops {
		switch {
		case op == "append":
			l.add("E1", d.pos, v, "append to %s inside a map iteration: element order follows map order", name)
		case op == "add:string":
			l.add("E3", d.pos, v, "string concatenation into %s inside a map iteration", name)
		case op == "add:float" || op == "mul:float" || op == "sub:float":
			l.add("E2", d.pos, v, "floating-point accumulation into %s inside a map iteration (addition is not associative)", name)
		case op == "add:int" || op == "sub:int" || op == "logic:bool" || op == "logic:int" || op == "mul:int":
			l.Notes = append(l.Notes, name+": "+op+" (order-insensitive)")
		default:
			l.add("EX", d.pos, v, "%s is updated by an unrecognised operation (%s) inside a map iteration", name, op)
		}
	}
}

func isConstLike(v ssa.Value) bool {
	_, ok := v.(*ssa.Const)
	return ok
}

func (l *Loop) classify(sx *symx.Ctx) {
	fn := l.Fn
	f := sx.Of(fn)
	// 1. loop-carried SSA variables: phis of the header
	counters := map[ssa.Value]bool{}
	for _, in := range l.L.Header.Instrs {
		phi, ok := in.(*ssa.Phi)
		if !ok {
			continue
		}
		name := phi.Comment
		if name == "" {
			name = phi.Name()
		}
		for i, e := range phi.Edges {
			if !l.Blocks[l.L.Header.Preds[i]] {
				continue // initial value
			}
			d := &deriv{}
			l.derive(e, phi, nil, map[ssa.Value]bool{}, d)
			before := len(l.Effects)
			l.classifyOps(phi, name, d, isConstLike(e) || e == ssa.Value(phi), phi.Pos())
			if len(l.Effects) == before && d.reachesP {
				for _, op := range d.ops {
					if op == "add:int" {
						counters[phi] = true
					}
				}
			}
		}
	}
	// 2..6: instructions of the loop body
	for b := range l.Blocks {
		for _, in := range b.Instrs {
			switch x := in.(type) {
			case *ssa.Store:
				l.classifyStore(f, x, counters)
			case *ssa.MapUpdate:
				l.classifyMapUpdate(f, x, counters)
			case *ssa.Return:
				allConst := true
				for _, rv := range x.Results {
					if !isConstLike(rv) {
						allConst = false
					}
				}
				if allConst {
					l.Notes = append(l.Notes, "constant early return")
				} else {
					l.add("E5", x.Pos(), nil, "early return of an iteration-dependent value from inside a map iteration")
				}
			case ssa.CallInstruction:
				l.classifyCall(sx, x)
			}
		}
		// loop exits other than header -> done carrying loop-defined values
		for _, s := range b.Succs {
			if l.Blocks[s] || (b == l.L.Header && s == l.L.Done) {
				continue
			}
			if s != l.L.Done {
				for _, ret := range l.returnsFrom(s) {
					dep := false
					for _, rv := range ret.Results {
						if !isConstLike(rv) && l.dependsOnIterAnywhere(rv, map[ssa.Value]bool{}, 0) {
							dep = true
						}
					}
					if dep {
						l.add("E5", ret.Pos(), nil, "early return of an iteration-dependent value from inside a map iteration")
					} else {
						l.Notes = append(l.Notes, "early return of an iteration-independent value")
					}
				}
			}
			for _, in := range s.Instrs {
				phi, ok := in.(*ssa.Phi)
				if !ok {
					break
				}
				for i, p := range s.Preds {
					if p == b && !isConstLike(phi.Edges[i]) && l.dependsOnIter(phi.Edges[i], map[ssa.Value]bool{}) {
						l.add("E5", phi.Pos(), phi, "break out of a map iteration carrying an iteration-dependent value")
					}
				}
			}
		}
	}
	// 4b. counters whose value is used other than for their own update: numbering
	for c := range counters {
		phi := c.(*ssa.Phi)
		var users []ssa.Instruction
		var visit func(v ssa.Value, depth int)
		seen := map[ssa.Value]bool{}
		visit = func(v ssa.Value, depth int) {
			if seen[v] || depth > 6 {
				return
			}
			seen[v] = true
			for _, ref := range *v.Referrers() {
				if !l.Blocks[ref.Block()] {
					continue
				}
				switch u := ref.(type) {
				case *ssa.Phi:
					visit(u, depth+1)
				case *ssa.BinOp:
					visit(u, depth+1)
				case *ssa.Convert:
					visit(u, depth+1)
				case *ssa.MapUpdate, *ssa.Store, *ssa.IndexAddr, *ssa.Call, *ssa.MakeInterface:
					users = append(users, ref)
				}
			}
		}
		visit(phi, 0)
		for _, u := range users {
			l.add("E4", u.Pos(), phi, "the per-iteration counter %s is stored or used as an index inside a map iteration: the numbering follows map order", phi.Comment)
		}
	}
	l.neutralise()
}

func (l *Loop) loopLocalAddr(addr ssa.Value) bool {
	for i := 0; i < 10; i++ {
		switch a := addr.(type) {
		case *ssa.Alloc:
			return l.Blocks[a.Block()]
		case *ssa.FieldAddr:
			addr = a.X
		case *ssa.IndexAddr:
			addr = a.X
		case *ssa.MakeSlice, *ssa.MakeMap:
			return l.inLoop(addr)
		case *ssa.Slice:
			addr = a.X
		default:
			return false
		}
	}
	return false
}

func (l *Loop) classifyStore(f *symx.Fn, st *ssa.Store, counters map[ssa.Value]bool) {
	if l.loopLocalAddr(st.Addr) {
		return
	}
	_, loc := f.LoadKeyOfAddr(st.Addr)
	name := loc
	if name == "" {
		name = f.Plain(st.Addr)
	}
	// element store: slice[i] = v
	if ia, ok := st.Addr.(*ssa.IndexAddr); ok {
		switch {
		case l.isLoopKey(ia.Index):
			l.Notes = append(l.Notes, name+": element store at the loop key")
		case l.dependsOnIter(ia.Index, map[ssa.Value]bool{}):
			l.add("EX", st.Pos(), ia.X, "element store %s indexed by a value derived from the map iteration (distinctness of the index per iteration is not established)", name)
		default:
			l.add("E5", st.Pos(), ia.X, "element store %s at a loop-invariant index inside a map iteration (last writer wins)", name)
		}
		return
	}
	same := func(v ssa.Value) bool {
		u, ok := v.(*ssa.UnOp)
		if !ok || u.Op != token.MUL {
			return false
		}
		_, l2 := f.LoadKeyOfAddr(u.X)
		return l2 != "" && l2 == loc
	}
	d := &deriv{}
	l.derive(st.Val, nil, same, map[ssa.Value]bool{}, d)
	l.classifyOps(st.Addr, name, d, isConstLike(st.Val), st.Pos())
}

func (l *Loop) classifyMapUpdate(f *symx.Fn, mu *ssa.MapUpdate, counters map[ssa.Value]bool) {
	if l.loopLocalAddr(mu.Map) {
		return
	}
	name := f.Plain(mu.Map)
	valConst := isConstLike(mu.Value)
	switch {
	case l.isLoopKey(mu.Key):
		// distinct key per iteration; the value must not depend on carried state
		if l.dependsOnCarried(mu.Value) {
			l.add("E4", mu.Pos(), mu.Map, "%s[loop key] is assigned a value that depends on a variable carried across iterations", name)
		} else {
			l.Notes = append(l.Notes, name+"[loop key] = f(key, value)")
		}
	case valConst:
		l.Notes = append(l.Notes, name+"[...] = constant")
	default:
		// key is not the loop key: an accumulation keyed by something else
		if bo, ok := mu.Value.(*ssa.BinOp); ok {
			if lk, ok := bo.X.(*ssa.Lookup); ok && lk.X == mu.Map && f.E(lk.Index) == f.E(mu.Key) {
				k := opKind(bo)
				if k == "add:int" {
					l.Notes = append(l.Notes, name+"[k] += int")
					return
				}
				if k == "add:float" || k == "mul:float" {
					l.add("E2", mu.Pos(), mu.Map, "floating-point accumulation into %s[...] inside a map iteration", name)
					return
				}
			}
		}
		l.add("E5", mu.Pos(), mu.Map, "%s is assigned at a key that is not the loop key inside a map iteration (colliding keys: last writer wins)", name)
	}
}

// dependsOnCarried: v depends on a header phi (other than through the
// iterator itself).
func (l *Loop) dependsOnCarried(v ssa.Value) bool {
	seen := map[ssa.Value]bool{}
	var walk func(v ssa.Value) bool
	walk = func(v ssa.Value) bool {
		if v == nil || seen[v] {
			return false
		}
		seen[v] = true
		if phi, ok := v.(*ssa.Phi); ok && phi.Block() == l.L.Header {
			return true
		}
		if !l.inLoop(v) {
			return false
		}
		for _, op := range v.(ssa.Instruction).Operands(nil) {
			if *op != nil && walk(*op) {
				return true
			}
		}
		return false
	}
	return walk(v)
}

func (l *Loop) classifyCall(sx *symx.Ctx, c ssa.CallInstruction) {
	if _, ok := c.(*ssa.Defer); ok {
		l.add("EX", c.Pos(), nil, "defer inside a map iteration")
		return
	}
	if _, ok := c.(*ssa.Go); ok {
		l.add("EX", c.Pos(), nil, "goroutine started inside a map iteration")
		return
	}
	cc := c.Common()
	if b, ok := cc.Value.(*ssa.Builtin); ok {
		switch b.Name() {
		case "delete":
			if l.isLoopKey(cc.Args[1]) || l.loopLocalAddr(cc.Args[0]) {
				l.Notes = append(l.Notes, "delete of the loop key")
			} else {
				l.add("EX", c.Pos(), cc.Args[0], "delete of a key other than the loop key inside a map iteration")
			}
		case "copy", "clear":
			if !l.loopLocalAddr(cc.Args[0]) {
				l.add("EX", c.Pos(), cc.Args[0], "%s on an outer container inside a map iteration", b.Name())
			}
		}
		return
	}
	// a helper that merges one (key, value) into a map it is given
	if g := cc.StaticCallee(); g != nil && len(g.Blocks) > 0 {
		if mi, ki, vi, isMax, ok := mapMergeHelper(g); ok && mi < len(cc.Args) && ki < len(cc.Args) && vi < len(cc.Args) {
			m, k, v := cc.Args[mi], cc.Args[ki], cc.Args[vi]
			switch {
			case l.loopLocalAddr(m):
			case isMax:
				// keeps the larger value per key: commutative, associative, idempotent
				l.Notes = append(l.Notes, g.Name()+": max-merge into a map")
			case l.isLoopKey(k) && !l.dependsOnCarried(v):
				l.Notes = append(l.Notes, g.Name()+": map[loop key] = f(key, value)")
			default:
				l.add("E5", c.Pos(), m, "%s assigns the map at a key that is not the loop key inside a map iteration (colliding keys: last writer wins)", g.Name())
			}
			return
		}
	}
	all, keys := sx.CallWrites(c)
	name := ssau.CallName(c)
	if !all && len(keys) == 0 {
		return
	}
	// writer-style calls
	if strings.Contains(name, "Builder).Write") || strings.Contains(name, "Buffer).Write") || strings.HasPrefix(name, "fmt.Fprint") || strings.HasPrefix(name, "fmt.Print") {
		l.add("E3", c.Pos(), nil, "output written by %s inside a map iteration", name)
		return
	}
	if all {
		l.add("EX", c.Pos(), nil, "call of %s, whose effects are unknown, inside a map iteration", name)
		return
	}
	l.add("EX", c.Pos(), nil, "call of %s inside a map iteration writes %s", name, strings.Join(keys, ", "))
}

// neutralise marks E1 effects whose slice is totally sorted before any other
// use after the loop.
func (l *Loop) neutralise() {
	for i := range l.Effects {
		e := &l.Effects[i]
		if e.Kind != "E1" {
			continue
		}
		phi, ok := e.Var.(*ssa.Phi)
		if !ok {
			continue
		}
		var sortCall *ssa.Call
		var others []ssa.Instruction
		for _, ref := range *phi.Referrers() {
			if l.Blocks[ref.Block()] {
				continue
			}
			if call, ok := ref.(*ssa.Call); ok && TotalSortOfBasic(call) && call.Common().Args[0] == ssa.Value(phi) {
				if sortCall == nil || ssau.Dominates(call, sortCall) {
					sortCall = call
				}
				continue
			}
			others = append(others, ref)
		}
		if sortCall == nil {
			continue
		}
		// the sort may sit behind `if len(s) > 1`: with at most one element
		// there is no order to fix
		guard, lenCall, cmp := sortGuard(sortCall, phi)
		ok = true
		for _, o := range others {
			if ssau.Dominates(sortCall, o) {
				continue
			}
			if guard != nil {
				if o == ssa.Instruction(lenCall) {
					continue
				}
				if ssau.Dominates(guard, o) && !sortCall.Block().Dominates(o.Block()) {
					continue
				}
			}
			ok = false
		}
		_ = cmp
		if ok {
			e.Neutralised = true
			e.How = "the slice is sorted by " + ssau.CallName(sortCall) + " (a total order on its elements) before any other use"
			if guard != nil {
				e.How += ", unless it has at most one element"
			}
		}
	}
}

// sortGuard: the sort is the then-branch of `if len(s) > 1` (or >= 2, or the
// mirrored spellings) on the same slice; returns the If, the len call and the
// comparison.
func sortGuard(sortCall *ssa.Call, s ssa.Value) (*ssa.If, *ssa.Call, *ssa.BinOp) {
	b := sortCall.Block()
	if len(b.Preds) != 1 {
		return nil, nil, nil
	}
	p := b.Preds[0]
	if len(p.Instrs) == 0 || len(p.Succs) != 2 || p.Succs[0] != b {
		return nil, nil, nil
	}
	iff, ok := p.Instrs[len(p.Instrs)-1].(*ssa.If)
	if !ok {
		return nil, nil, nil
	}
	cmp, ok := iff.Cond.(*ssa.BinOp)
	if !ok {
		return nil, nil, nil
	}
	isLen := func(v ssa.Value) *ssa.Call {
		c, ok := v.(*ssa.Call)
		if !ok {
			return nil
		}
		bi, ok := c.Call.Value.(*ssa.Builtin)
		if !ok || bi.Name() != "len" || len(c.Call.Args) != 1 || c.Call.Args[0] != s {
			return nil
		}
		return c
	}
	konst := func(v ssa.Value) (int64, bool) {
		k, ok := v.(*ssa.Const)
		if !ok || k.Value == nil {
			return 0, false
		}
		return k.Int64(), true
	}
	if lc := isLen(cmp.X); lc != nil {
		if k, ok := konst(cmp.Y); ok && ((cmp.Op == token.GTR && k <= 1 && k >= 0) || (cmp.Op == token.GEQ && k <= 2 && k >= 0)) {
			return iff, lc, cmp
		}
	}
	if lc := isLen(cmp.Y); lc != nil {
		if k, ok := konst(cmp.X); ok && ((cmp.Op == token.LSS && k <= 1 && k >= 0) || (cmp.Op == token.LEQ && k <= 2 && k >= 0)) {
			return iff, lc, cmp
		}
	}
	return nil, nil, nil
}

// TotalSortOfBasic: a sort of a slice of strings/ints/floats by their natural
// total order.
func TotalSortOfBasic(call *ssa.Call) bool {
	switch ssau.CallName(call) {
	case "sort.Strings", "sort.Ints", "slices.Sort":
		return len(call.Common().Args) == 1
	}
	return false
}

// mapMergeHelper: g's only effect is m[k] = v for three of its parameters,
// either unconditionally or only to raise the entry (v > m[k], or no entry
// yet). Returns the parameter positions and whether it is the raising form.
func mapMergeHelper(g *ssa.Function) (mi, ki, vi int, isMax, ok bool) {
	pidx := func(v ssa.Value) int {
		for i, p := range g.Params {
			if v == ssa.Value(p) {
				return i
			}
		}
		return -1
	}
	var ups []*ssa.MapUpdate
	bad := false
	ssau.ForEachInstr(g, true, func(in ssa.Instruction) {
		switch x := in.(type) {
		case *ssa.MapUpdate:
			ups = append(ups, x)
		case *ssa.Store, *ssa.Send, *ssa.Go, *ssa.Defer, *ssa.Panic:
			bad = true
		case *ssa.Call:
			if _, isB := x.Common().Value.(*ssa.Builtin); !isB {
				bad = true
			}
		}
	})
	if bad || len(ups) != 1 {
		return 0, 0, 0, false, false
	}
	mu := ups[0]
	mi, ki, vi = pidx(mu.Map), pidx(mu.Key), pidx(mu.Value)
	if mi < 0 || ki < 0 || vi < 0 {
		return 0, 0, 0, false, false
	}
	// raising form: every path to the update passes `v > cur` (cur the entry
	// looked up under the same key) or `!ok` of that lookup
	cut := map[[2]int]bool{}
	for _, iff := range ssau.Ifs(g) {
		if ex, isEx := iff.Cond.(*ssa.Extract); isEx && ex.Index == 1 {
			if lk, isLk := ex.Tuple.(*ssa.Lookup); isLk && lk.X == mu.Map && lk.Index == mu.Key {
				cut[[2]int{iff.Block().Index, 1}] = true // !ok
			}
			continue
		}
		op, x, y, okc := ssau.CondOf(iff.Cond)
		if !okc {
			continue
		}
		isCur := func(v ssa.Value) bool {
			switch c := v.(type) {
			case *ssa.Lookup:
				return c.X == mu.Map && c.Index == mu.Key
			case *ssa.Extract:
				lk, isLk := c.Tuple.(*ssa.Lookup)
				return isLk && c.Index == 0 && lk.X == mu.Map && lk.Index == mu.Key
			}
			return false
		}
		switch {
		case x == mu.Value && isCur(y) && (op == token.GTR || op == token.GEQ):
			cut[[2]int{iff.Block().Index, 0}] = true
		case isCur(x) && y == mu.Value && (op == token.LSS || op == token.LEQ):
			cut[[2]int{iff.Block().Index, 0}] = true
		case x == mu.Value && isCur(y) && (op == token.LEQ || op == token.LSS):
			cut[[2]int{iff.Block().Index, 1}] = true
		case isCur(x) && y == mu.Value && (op == token.GEQ || op == token.GTR):
			cut[[2]int{iff.Block().Index, 1}] = true
		}
	}
	isMax = len(cut) > 0 && !ssau.ReachableAvoidingEdges(g, mu.Block(), cut)
	return mi, ki, vi, isMax, true
}
