// Package ssau holds small SSA utilities shared by the rules: resolved callee
// names, post-dominance and control dependence, instruction-level dominance.
package ssau

import (
	"fmt"
	"go/constant"
	"go/token"
	"go/types"
	"strings"

	"golang.org/x/tools/go/ssa"
)

// CallName returns the types.Func full name of the callee of a call
// instruction — "strings.ToLower", "(*sync.RWMutex).Lock",
// "(*container/list.List).PushFront", or for interface calls the interface
// method's full name. It is "" for calls of closures and other func values.
func CallName(c ssa.CallInstruction) string {
	cc := c.Common()
	if cc.IsInvoke() {
		return cc.Method.FullName()
	}
	if fn := cc.StaticCallee(); fn != nil {
		return FuncName(fn)
	}
	if b, ok := cc.Value.(*ssa.Builtin); ok {
		return "builtin." + b.Name()
	}
	return ""
}

// FuncName is the full name of a declared function (generic instances are
// named after their origin).
func FuncName(fn *ssa.Function) string {
	if fn == nil {
		return ""
	}
	if o := fn.Origin(); o != nil {
		fn = o
	}
	if obj, ok := fn.Object().(*types.Func); ok && obj != nil {
		return obj.FullName()
	}
	return fn.String()
}

// Callee returns the statically resolved callee or nil.
func Callee(c ssa.CallInstruction) *ssa.Function { return c.Common().StaticCallee() }

// AsCall returns instr as a call instruction (Call, Go or Defer) or nil.
func AsCall(instr ssa.Instruction) ssa.CallInstruction {
	if c, ok := instr.(ssa.CallInstruction); ok {
		return c
	}
	return nil
}

// ForEachInstr calls f for every instruction of fn and, when deep is set, of
// the anonymous functions nested in it.
func ForEachInstr(fn *ssa.Function, deep bool, f func(ssa.Instruction)) {
	if fn == nil {
		return
	}
	for _, b := range fn.Blocks {
		for _, in := range b.Instrs {
			f(in)
		}
	}
	if deep {
		for _, a := range fn.AnonFuncs {
			ForEachInstr(a, true, f)
		}
	}
}

// Calls returns the call instructions of fn (optionally including nested
// closures) whose callee full name is name.
func Calls(fn *ssa.Function, deep bool, name string) []ssa.CallInstruction {
	var out []ssa.CallInstruction
	ForEachInstr(fn, deep, func(in ssa.Instruction) {
		if c := AsCall(in); c != nil && CallName(c) == name {
			out = append(out, c)
		}
	})
	return out
}

// Strip removes value-preserving wrappers (ChangeType, MakeInterface,
// ChangeInterface) from v.
func Strip(v ssa.Value) ssa.Value {
	for {
		switch x := v.(type) {
		case *ssa.ChangeType:
			v = x.X
		case *ssa.MakeInterface:
			v = x.X
		case *ssa.ChangeInterface:
			v = x.X
		default:
			return v
		}
	}
}

// ConstInt returns the integer value of v if it is an integer constant.
func ConstInt(v ssa.Value) (int64, bool) {
	c, ok := v.(*ssa.Const)
	if !ok || c.Value == nil || c.Value.Kind() != constant.Int {
		return 0, false
	}
	return c.Int64(), true
}

// ConstFloat returns the numeric value of a constant (int or float).
func ConstFloat(v ssa.Value) (float64, bool) {
	c, ok := v.(*ssa.Const)
	if !ok || c.Value == nil {
		return 0, false
	}
	switch c.Value.Kind() {
	case constant.Int, constant.Float:
		f, _ := constant.Float64Val(constant.ToFloat(c.Value))
		return f, true
	}
	return 0, false
}

// ConstString returns the string value of a string constant.
func ConstString(v ssa.Value) (string, bool) {
	c, ok := v.(*ssa.Const)
	if !ok || c.Value == nil || c.Value.Kind() != constant.String {
		return "", false
	}
	return constant.StringVal(c.Value), true
}

// IsNilConst reports whether v is the nil constant.
func IsNilConst(v ssa.Value) bool {
	c, ok := v.(*ssa.Const)
	return ok && c.Value == nil
}

// ---------------------------------------------------------------------------
// dominance at instruction granularity

// InstrIndex returns the index of in within its block.
func InstrIndex(in ssa.Instruction) int {
	for i, x := range in.Block().Instrs {
		if x == in {
			return i
		}
	}
	return -1
}

// Dominates reports whether instruction a is executed before b on every path
// from the function entry to b.
func Dominates(a, b ssa.Instruction) bool {
	if a.Block() == b.Block() {
		return InstrIndex(a) < InstrIndex(b)
	}
	return a.Block().Dominates(b.Block())
}

// ---------------------------------------------------------------------------
// post-dominators and control dependence

// PostDom holds the post-dominator sets of a function. A virtual exit node
// post-dominates everything; blocks that end in return or panic flow to it.
type PostDom struct {
	fn   *ssa.Function
	sets []map[int]bool // sets[b] = blocks that post-dominate b (by index), including b
}

// NewPostDom computes post-dominator sets (iterative; functions are small).
func NewPostDom(fn *ssa.Function) *PostDom {
	n := len(fn.Blocks)
	pd := &PostDom{fn: fn, sets: make([]map[int]bool, n)}
	all := func() map[int]bool {
		m := make(map[int]bool, n)
		for i := 0; i < n; i++ {
			m[i] = true
		}
		return m
	}
	for i := range pd.sets {
		pd.sets[i] = all()
	}
	changed := true
	for changed {
		changed = false
		for i := n - 1; i >= 0; i-- {
			b := fn.Blocks[i]
			var ns map[int]bool
			if len(b.Succs) == 0 {
				ns = map[int]bool{}
			} else {
				for k, s := range b.Succs {
					if k == 0 {
						ns = map[int]bool{}
						for x := range pd.sets[s.Index] {
							ns[x] = true
						}
					} else {
						for x := range ns {
							if !pd.sets[s.Index][x] {
								delete(ns, x)
							}
						}
					}
				}
			}
			ns[i] = true
			if len(ns) != len(pd.sets[i]) {
				pd.sets[i] = ns
				changed = true
			}
		}
	}
	return pd
}

// PostDominates reports whether a post-dominates b (reflexive).
func (pd *PostDom) PostDominates(a, b *ssa.BasicBlock) bool { return pd.sets[b.Index][a.Index] }

// CtrlDep is one control dependence: the block depends on the If that ends
// block Branch taking its true (Then) or false successor.
type CtrlDep struct {
	Branch *ssa.BasicBlock
	Then   bool
}

// If returns the If instruction ending the branch block.
func (c CtrlDep) If() *ssa.If {
	if len(c.Branch.Instrs) == 0 {
		return nil
	}
	i, _ := c.Branch.Instrs[len(c.Branch.Instrs)-1].(*ssa.If)
	return i
}

// ControlDeps computes direct control dependences for every block of fn.
func ControlDeps(fn *ssa.Function) map[*ssa.BasicBlock][]CtrlDep {
	pd := NewPostDom(fn)
	out := map[*ssa.BasicBlock][]CtrlDep{}
	for _, a := range fn.Blocks {
		if len(a.Succs) != 2 {
			continue
		}
		for k, s := range a.Succs {
			for _, b := range fn.Blocks {
				// b is control dependent on edge a->s iff b postdominates s
				// and b does not strictly postdominate a.
				if pd.PostDominates(b, s) && !(b != a && pd.PostDominates(b, a)) {
					out[b] = append(out[b], CtrlDep{Branch: a, Then: k == 0})
				}
			}
		}
	}
	return out
}

// TransitiveControlDeps returns, for block b, every (branch, direction) it is
// directly or transitively control dependent on.
func TransitiveControlDeps(cd map[*ssa.BasicBlock][]CtrlDep, b *ssa.BasicBlock) []CtrlDep {
	var out []CtrlDep
	seen := map[*ssa.BasicBlock]bool{}
	seenDep := map[CtrlDep]bool{}
	var walk func(x *ssa.BasicBlock)
	walk = func(x *ssa.BasicBlock) {
		if seen[x] {
			return
		}
		seen[x] = true
		for _, d := range cd[x] {
			if !seenDep[d] {
				seenDep[d] = true
				out = append(out, d)
			}
			walk(d.Branch)
		}
	}
	walk(b)
	return out
}

// Reachable reports whether block to is reachable from block from following
// CFG edges, never passing through a block in cut (from itself is exempt).
func Reachable(from, to *ssa.BasicBlock, cut map[*ssa.BasicBlock]bool) bool {
	seen := map[*ssa.BasicBlock]bool{}
	var st []*ssa.BasicBlock
	st = append(st, from.Succs...)
	for len(st) > 0 {
		b := st[len(st)-1]
		st = st[:len(st)-1]
		if seen[b] || cut[b] {
			continue
		}
		seen[b] = true
		if b == to {
			return true
		}
		st = append(st, b.Succs...)
	}
	return false
}

// ReturnsOf lists the Return instructions of fn.
func ReturnsOf(fn *ssa.Function) []*ssa.Return {
	var out []*ssa.Return
	for _, b := range fn.Blocks {
		if len(b.Instrs) == 0 || b == fn.Recover {
			continue // the recover block only re-loads spilled results
		}
		if r, ok := b.Instrs[len(b.Instrs)-1].(*ssa.Return); ok {
			out = append(out, r)
		}
	}
	return out
}

// CondOf decomposes a comparison value into (op, x, y); ok is false if v is
// not a BinOp comparison.
func CondOf(v ssa.Value) (op token.Token, x, y ssa.Value, ok bool) {
	b, isb := v.(*ssa.BinOp)
	if !isb {
		return 0, nil, nil, false
	}
	switch b.Op {
	case token.LSS, token.LEQ, token.GTR, token.GEQ, token.EQL, token.NEQ:
		return b.Op, b.X, b.Y, true
	}
	return 0, nil, nil, false
}

// Negate returns the comparison that holds when op does not.
func Negate(op token.Token) token.Token {
	switch op {
	case token.LSS:
		return token.GEQ
	case token.LEQ:
		return token.GTR
	case token.GTR:
		return token.LEQ
	case token.GEQ:
		return token.LSS
	case token.EQL:
		return token.NEQ
	case token.NEQ:
		return token.EQL
	}
	return op
}

// Flip returns the comparison with operands swapped (x op y == y Flip(op) x).
func Flip(op token.Token) token.Token {
	switch op {
	case token.LSS:
		return token.GTR
	case token.LEQ:
		return token.GEQ
	case token.GTR:
		return token.LSS
	case token.GEQ:
		return token.LEQ
	}
	return op
}

// FieldName returns the name of the field selected by a FieldAddr or Field.
func FieldName(v ssa.Value) string {
	switch x := v.(type) {
	case *ssa.FieldAddr:
		st := derefStruct(x.X.Type())
		if st != nil && x.Field < st.NumFields() {
			return st.Field(x.Field).Name()
		}
	case *ssa.Field:
		st, _ := x.X.Type().Underlying().(*types.Struct)
		if st != nil && x.Field < st.NumFields() {
			return st.Field(x.Field).Name()
		}
	}
	return ""
}

func derefStruct(t types.Type) *types.Struct {
	if p, ok := t.Underlying().(*types.Pointer); ok {
		t = p.Elem()
	}
	st, _ := t.Underlying().(*types.Struct)
	return st
}

// NamedOf returns "pkgpath.Name" of the (pointer-to) named type t, or "".
func NamedOf(t types.Type) string {
	if p, ok := t.(*types.Pointer); ok {
		t = p.Elem()
	}
	if n, ok := t.(*types.Named); ok {
		if n.Obj().Pkg() == nil {
			return n.Obj().Name()
		}
		return n.Obj().Pkg().Path() + "." + n.Obj().Name()
	}
	return ""
}

// FieldOwner returns the named struct type a FieldAddr/Field selects from.
func FieldOwner(v ssa.Value) string {
	switch x := v.(type) {
	case *ssa.FieldAddr:
		return NamedOf(x.X.Type())
	case *ssa.Field:
		return NamedOf(x.X.Type())
	}
	return ""
}

// ---------------------------------------------------------------------------
// field access helpers

// IsFieldAddr reports whether v is &X.field where X has (pointer to) named
// type owner ("pkgpath.Name"); owner "" matches any.
func IsFieldAddr(v ssa.Value, owner, field string) (*ssa.FieldAddr, bool) {
	fa, ok := v.(*ssa.FieldAddr)
	if !ok || FieldName(fa) != field {
		return nil, false
	}
	if owner != "" && NamedOf(fa.X.Type()) != owner {
		return nil, false
	}
	return fa, true
}

// IsFieldLoad reports whether v is a load of X.field (through FieldAddr or a
// Field of a struct value).
func IsFieldLoad(v ssa.Value, owner, field string) (base ssa.Value, ok bool) {
	// a field of a named slice or map type converted to its plain type
	for {
		ct, isCT := v.(*ssa.ChangeType)
		if !isCT {
			break
		}
		v = ct.X
	}
	switch x := v.(type) {
	case *ssa.UnOp:
		if x.Op != token.MUL {
			return nil, false
		}
		if fa, ok := IsFieldAddr(x.X, owner, field); ok {
			return fa.X, true
		}
	case *ssa.Field:
		if FieldName(x) == field && (owner == "" || NamedOf(x.X.Type()) == owner) {
			return x.X, true
		}
	}
	return nil, false
}

// IsIncrement reports whether st is `X.field++` / `X.field += 1` on a field
// of owner.
func IsIncrement(st *ssa.Store, owner, field string) bool {
	fa, ok := IsFieldAddr(st.Addr, owner, field)
	if !ok {
		return false
	}
	b, ok := st.Val.(*ssa.BinOp)
	if !ok || b.Op != token.ADD {
		return false
	}
	one := func(v ssa.Value) bool { n, ok := ConstInt(v); return ok && n == 1 }
	ld := func(v ssa.Value) bool {
		base, ok := IsFieldLoad(v, owner, field)
		return ok && base == fa.X
	}
	return (ld(b.X) && one(b.Y)) || (ld(b.Y) && one(b.X))
}

// ResultValue resolves the i-th operand of a return through the spill that
// go/ssa introduces for functions with defers (results are stored to local
// cells and re-loaded after rundefers): it returns the value last stored to
// the cell in the returning block, or the operand itself.
func ResultValue(ret *ssa.Return, i int) ssa.Value {
	v := ret.Results[i]
	u, ok := v.(*ssa.UnOp)
	if !ok || u.Op != token.MUL {
		return v
	}
	al, ok := u.X.(*ssa.Alloc)
	if !ok {
		return v
	}
	// a deferred closure that assigns the result variable can change what is
	// returned after the last store seen here
	if closureStores(al) {
		return v
	}
	var last ssa.Value
	for _, in := range ret.Block().Instrs {
		if in == ssa.Instruction(u) {
			break
		}
		if st, ok := in.(*ssa.Store); ok && st.Addr == ssa.Value(al) {
			last = st.Val
		}
	}
	if last != nil {
		return last
	}
	return v
}

// closureStores: some closure capturing the cell stores to it.
func closureStores(al *ssa.Alloc) bool {
	found := false
	seen := map[ssa.Value]bool{}
	var visit func(addr ssa.Value, inClosure bool)
	visit = func(addr ssa.Value, inClosure bool) {
		if seen[addr] || addr.Referrers() == nil {
			return
		}
		seen[addr] = true
		for _, ref := range *addr.Referrers() {
			switch x := ref.(type) {
			case *ssa.Store:
				if x.Addr == addr && inClosure {
					found = true
				}
			case *ssa.MakeClosure:
				fn := x.Fn.(*ssa.Function)
				for i, b := range x.Bindings {
					if b == addr && i < len(fn.FreeVars) {
						visit(fn.FreeVars[i], true)
					}
				}
			}
		}
	}
	visit(al, false)
	return found
}

// IsConstBool reports whether v is the boolean constant b.
func IsConstBool(v ssa.Value, b bool) bool {
	c, ok := v.(*ssa.Const)
	if !ok || c.Value == nil || c.Value.Kind() != constant.Bool {
		return false
	}
	return constant.BoolVal(c.Value) == b
}

// ReachableAvoidingEdges reports whether target is reachable from the entry
// of fn when the given (block, successor-index) edges are removed.
func ReachableAvoidingEdges(fn *ssa.Function, target *ssa.BasicBlock, cut map[[2]int]bool) bool {
	if len(fn.Blocks) == 0 {
		return false
	}
	seen := map[*ssa.BasicBlock]bool{}
	st := []*ssa.BasicBlock{fn.Blocks[0]}
	for len(st) > 0 {
		b := st[len(st)-1]
		st = st[:len(st)-1]
		if seen[b] {
			continue
		}
		seen[b] = true
		if b == target {
			return true
		}
		for k, s := range b.Succs {
			if cut[[2]int{b.Index, k}] {
				continue
			}
			st = append(st, s)
		}
	}
	return false
}

// Ifs lists the If instructions of fn.
func Ifs(fn *ssa.Function) []*ssa.If {
	var out []*ssa.If
	for _, b := range fn.Blocks {
		if len(b.Instrs) == 0 {
			continue
		}
		if i, ok := b.Instrs[len(b.Instrs)-1].(*ssa.If); ok {
			out = append(out, i)
		}
	}
	return out
}

// ParamOf resolves v to a function parameter, looking through the local cell
// go/ssa introduces when a parameter is captured by a closure or has its
// address taken (the cell must have exactly one store, of the parameter).
func ParamOf(v ssa.Value) *ssa.Parameter {
	if p, ok := v.(*ssa.Parameter); ok {
		return p
	}
	u, ok := v.(*ssa.UnOp)
	if !ok || u.Op != token.MUL {
		return nil
	}
	al, ok := u.X.(*ssa.Alloc)
	if fv, isFV := u.X.(*ssa.FreeVar); isFV {
		// inside a closure: the captured cell of the enclosing function
		al, ok = FreeVarCell(fv), true
		if al == nil {
			return nil
		}
	}
	if !ok {
		return nil
	}
	var p *ssa.Parameter
	n := 0
	var visit func(addr ssa.Value)
	visit = func(addr ssa.Value) {
		for _, ref := range *addr.Referrers() {
			switch x := ref.(type) {
			case *ssa.Store:
				if x.Addr == addr {
					n++
					p, _ = x.Val.(*ssa.Parameter)
				}
			case *ssa.MakeClosure:
				fn := x.Fn.(*ssa.Function)
				for i, b := range x.Bindings {
					if b == addr && i < len(fn.FreeVars) {
						visit(fn.FreeVars[i])
					}
				}
			}
		}
	}
	visit(al)
	if n == 1 {
		return p
	}
	return nil
}

// ---------------------------------------------------------------------------
// range loops

// LenZeroTest recognises a branch condition that tests len(x) against zero in
// any of its spellings (== 0, != 0, > 0, < 1, >= 1, <= 0, with the constant
// on either side). It returns x and the index of the successor (0 = true
// edge, 1 = false edge) on which len(x) == 0 holds.
func LenZeroTest(cond ssa.Value) (x ssa.Value, zeroSucc int, ok bool) {
	op, a, b, okc := CondOf(cond)
	if !okc {
		return nil, 0, false
	}
	if _, isC := ConstInt(a); isC {
		a, b, op = b, a, Flip(op)
	}
	lc, isCall := a.(*ssa.Call)
	if !isCall {
		return nil, 0, false
	}
	if bi, isB := lc.Common().Value.(*ssa.Builtin); !isB || bi.Name() != "len" {
		return nil, 0, false
	}
	k, isC := ConstInt(b)
	if !isC {
		return nil, 0, false
	}
	switch {
	case k == 0 && (op == token.EQL || op == token.LEQ), k == 1 && op == token.LSS:
		return lc.Common().Args[0], 0, true
	case k == 0 && (op == token.NEQ || op == token.GTR), k == 1 && op == token.GEQ:
		return lc.Common().Args[0], 1, true
	}
	return nil, 0, false
}

// RangeLoop describes a `for ... range x` loop as go/ssa lowers it.
type RangeLoop struct {
	Header *ssa.BasicBlock // evaluates the continuation condition
	Body   *ssa.BasicBlock // first block of the body
	Done   *ssa.BasicBlock
	Over   ssa.Value // the slice, array, string or map ranged over (nil for range-over-int)
	IsMap  bool      // map or string iteration through Range/Next
	Index  ssa.Value // index phi (slice) or the Next tuple (map)
	Next   *ssa.Next
	// Counted: written as `for i := 0; i < len(x); i++` (len re-read per
	// iteration: users that need the length fixed must check the body)
	Counted bool
}

// RangeLoops finds the range loops of fn. Slice/array ranges are recognised
// structurally: a header whose condition is `idx < len(x)` with idx a phi of
// the header incremented by one on the back edge starting from -1
// (go/ssa's rangeindex lowering); map/string ranges by their Next.
func RangeLoops(fn *ssa.Function) []RangeLoop {
	var out []RangeLoop
	for _, b := range fn.Blocks {
		if len(b.Instrs) == 0 {
			continue
		}
		iff, ok := b.Instrs[len(b.Instrs)-1].(*ssa.If)
		if !ok {
			continue
		}
		// map / string: `ok = extract next #0`
		if ex, ok := iff.Cond.(*ssa.Extract); ok && ex.Index == 0 {
			if nx, ok := ex.Tuple.(*ssa.Next); ok {
				if rg, ok := nx.Iter.(*ssa.Range); ok {
					out = append(out, RangeLoop{Header: b, Body: b.Succs[0], Done: b.Succs[1], Over: rg.X, IsMap: true, Index: nx, Next: nx})
				}
			}
			continue
		}
		bo, ok := iff.Cond.(*ssa.BinOp)
		if !ok || bo.Op != token.LSS {
			continue
		}
		// the written-out form `for i := 0; i < len(x); i++`: a header phi(0, phi+1)
		// compared with len(x); the index is the phi itself
		if ph, isPhi := bo.X.(*ssa.Phi); isPhi && ph.Block() == b && len(ph.Edges) >= 2 {
			okShape, nInit := true, 0
			for _, e := range ph.Edges {
				if c, isC := ConstInt(e); isC && c == 0 {
					nInit++
					continue
				}
				inc, isInc := e.(*ssa.BinOp)
				one, isOne := int64(0), false
				if isInc {
					one, isOne = ConstInt(inc.Y)
				}
				if !isInc || inc.Op != token.ADD || inc.X != ssa.Value(ph) || !isOne || one != 1 {
					okShape = false
				}
			}
			if okShape && nInit == 1 {
				if call, isCall := bo.Y.(*ssa.Call); isCall {
					if bi, isB := call.Common().Value.(*ssa.Builtin); isB && bi.Name() == "len" {
						over := call.Common().Args[0]
						if _, isStr := over.Type().Underlying().(*types.Basic); !isStr {
							out = append(out, RangeLoop{Header: b, Body: b.Succs[0], Done: b.Succs[1], Over: over, Index: ph, Counted: true})
						}
					}
				}
			}
			continue
		}
		// idx is `phi + 1` computed in the header (rangeindex) with phi(-1, idx)
		inc, ok := bo.X.(*ssa.BinOp)
		if !ok || inc.Op != token.ADD || inc.Block() != b {
			continue
		}
		phi, ok := inc.X.(*ssa.Phi)
		if !ok || phi.Block() != b || len(phi.Edges) < 2 {
			continue
		}
		if one, ok := ConstInt(inc.Y); !ok || one != 1 {
			continue
		}
		okShape, nInit := true, 0
		for _, e := range phi.Edges {
			if c, ok := ConstInt(e); ok && c == -1 {
				nInit++
			} else if e != ssa.Value(inc) {
				okShape = false
			}
		}
		if !okShape || nInit != 1 {
			continue
		}
		var over ssa.Value
		if call, ok := bo.Y.(*ssa.Call); ok {
			if bi, ok := call.Common().Value.(*ssa.Builtin); ok && bi.Name() == "len" {
				over = call.Common().Args[0]
			}
		}
		out = append(out, RangeLoop{Header: b, Body: b.Succs[0], Done: b.Succs[1], Over: over, Index: inc})
	}
	return out
}

// InLoop reports whether block x belongs to the loop (reachable from the body
// entry without passing the header, and the header is reachable from it).
func (l RangeLoop) InLoop(x *ssa.BasicBlock) bool {
	if x == l.Body {
		return true
	}
	cut := map[*ssa.BasicBlock]bool{l.Header: true}
	if !Reachable(l.Body, x, cut) {
		return false
	}
	return x == l.Header || Reachable(x, l.Header, nil)
}

// SliceSources follows reslices and phis back to the values v's elements
// come from: every element of v is an element of one of the results.
func SliceSources(v ssa.Value) []ssa.Value {
	var out []ssa.Value
	seen := map[ssa.Value]bool{}
	var walk func(v ssa.Value)
	walk = func(v ssa.Value) {
		v = Strip(v)
		if seen[v] {
			return
		}
		seen[v] = true
		switch x := v.(type) {
		case *ssa.Slice:
			if _, isSlice := x.X.Type().Underlying().(*types.Slice); isSlice {
				walk(x.X)
				return
			}
		case *ssa.Phi:
			for _, e := range x.Edges {
				walk(e)
			}
			return
		case *ssa.Call:
			// a helper that hands back (a leading part of) one of its slice
			// parameters and does nothing else: first(list, n)
			if arg := PrefixHelperArg(x); arg != nil {
				walk(arg)
				return
			}
		}
		out = append(out, v)
	}
	walk(v)
	return out
}

// PrefixHelperArg: call invokes a function with a body, free of stores, map
// updates and calls other than len/min/max, every result of which is one of
// its slice parameters or a reslice of it; returns the argument passed for
// that parameter.
func PrefixHelperArg(call *ssa.Call) ssa.Value {
	g := call.Common().StaticCallee()
	if g == nil || g.Blocks == nil || g.Signature.Results().Len() != 1 || len(g.Blocks) > 8 {
		return nil
	}
	pure := true
	ForEachInstr(g, true, func(in ssa.Instruction) {
		switch x := in.(type) {
		case *ssa.Store, *ssa.MapUpdate, *ssa.Go, *ssa.Defer, *ssa.Send:
			pure = false
		case *ssa.Call:
			switch CallName(x) {
			case "builtin.len", "builtin.min", "builtin.max", "builtin.cap":
			default:
				pure = false
			}
		}
	})
	if !pure {
		return nil
	}
	var par *ssa.Parameter
	for _, b := range g.Blocks {
		ret, ok := b.Instrs[len(b.Instrs)-1].(*ssa.Return)
		if !ok {
			continue
		}
		v := ret.Results[0]
		for d := 0; d < 4; d++ {
			if sl, ok := v.(*ssa.Slice); ok {
				v = sl.X
				continue
			}
			if ct, ok := v.(*ssa.ChangeType); ok {
				v = ct.X
				continue
			}
			break
		}
		p, ok := v.(*ssa.Parameter)
		if !ok || (par != nil && par != p) {
			return nil
		}
		par = p
	}
	if par == nil {
		return nil
	}
	for i, q := range g.Params {
		if q == par && i < len(call.Common().Args) {
			return call.Common().Args[i]
		}
	}
	return nil
}

// SameListHelperArg: call invokes a function with a body every result of
// which is one of its slice parameters itself (not a part of it), whatever
// else the function does to the elements (a sort in place that hands its
// list back); returns the argument passed for that parameter.
func SameListHelperArg(call *ssa.Call) ssa.Value {
	g := call.Common().StaticCallee()
	if g == nil || g.Blocks == nil || g.Signature.Results().Len() != 1 {
		return nil
	}
	var par *ssa.Parameter
	for _, ret := range ReturnsOf(g) {
		v := ret.Results[0]
		for {
			ct, ok := v.(*ssa.ChangeType)
			if !ok {
				break
			}
			v = ct.X
		}
		p := ParamOf(v)
		if p == nil {
			return nil
		}
		if _, isSlice := p.Type().Underlying().(*types.Slice); !isSlice || (par != nil && par != p) {
			return nil
		}
		par = p
	}
	if par == nil {
		return nil
	}
	for i, q := range g.Params {
		if q == par && i < len(call.Common().Args) {
			return call.Common().Args[i]
		}
	}
	return nil
}

// PrefixHelperWindow: call invokes a prefix helper (PrefixHelperArg) whose
// reslices all end at one of its integer parameters, taken only where the
// list was found longer than it; returns the list argument and the argument
// passed as the window.
func PrefixHelperWindow(call *ssa.Call) (list, window ssa.Value, guarded bool) {
	list = PrefixHelperArg(call)
	if list == nil {
		return nil, nil, false
	}
	g := call.Common().StaticCallee()
	var win *ssa.Parameter
	guarded = true
	n := 0
	ForEachInstr(g, false, func(in ssa.Instruction) {
		sl, ok := in.(*ssa.Slice)
		if !ok {
			return
		}
		n++
		hp, ok := sl.High.(*ssa.Parameter)
		if !ok || sl.Low != nil || (win != nil && win != hp) {
			guarded = false
			return
		}
		win = hp
		// the cut lies on the true side of len(list) > n (or >=)
		okGuard := false
		for _, b := range g.Blocks {
			iff, isIf := b.Instrs[len(b.Instrs)-1].(*ssa.If)
			if !isIf {
				continue
			}
			op, x, y, okc := CondOf(iff.Cond)
			if !okc {
				continue
			}
			if y2, isLen := x.(*ssa.Call); isLen && CallName(y2) == "builtin.len" && Strip(y2.Common().Args[0]) == Strip(sl.X) && y == ssa.Value(hp) && (op == token.GTR || op == token.GEQ) {
				if b.Succs[0] == sl.Block() || b.Succs[0].Dominates(sl.Block()) {
					okGuard = true
				}
			}
		}
		if !okGuard {
			guarded = false
		}
	})
	if win == nil || n == 0 {
		return nil, nil, false
	}
	for i, q := range g.Params {
		if q == win && i < len(call.Common().Args) {
			window = call.Common().Args[i]
		}
	}
	if window == nil {
		return nil, nil, false
	}
	return list, window, guarded
}

// ElementsFrom reports whether every element of slice v is an element of
// origin (v is origin, a reslice of it, or a merge of such).
func ElementsFrom(v, origin ssa.Value) bool {
	src := SliceSources(v)
	if len(src) == 0 {
		return false
	}
	for _, s := range src {
		if s != Strip(origin) {
			return false
		}
	}
	return true
}

// FreeVarCell resolves a captured variable to the local cell (Alloc) of the
// enclosing function it is bound to (through nested closures), or nil.
func FreeVarCell(fv *ssa.FreeVar) *ssa.Alloc {
	for d := 0; d < 5; d++ {
		fn := fv.Parent()
		par := fn.Parent()
		if par == nil {
			return nil
		}
		idx := -1
		for i, f := range fn.FreeVars {
			if f == fv {
				idx = i
			}
		}
		var bound ssa.Value
		ForEachInstr(par, false, func(in ssa.Instruction) {
			if mc, ok := in.(*ssa.MakeClosure); ok && mc.Fn == ssa.Value(fn) && idx >= 0 && idx < len(mc.Bindings) {
				bound = mc.Bindings[idx]
			}
		})
		switch b := bound.(type) {
		case *ssa.Alloc:
			return b
		case *ssa.FreeVar:
			fv = b
			continue
		}
		return nil
	}
	return nil
}

// ValueSources enumerates the values v can take, looking through phis and
// through local aggregates (struct and array variables that never leave the
// function): a field read out of a table built from literals resolves to
// the constants stored into that field of the table's elements. ok is false
// when some origin is not accounted for.
func ValueSources(v ssa.Value) (leaves []ssa.Value, ok bool) {
	w := &srcWalk{seen: map[string]bool{}, ok: true}
	w.val(v, nil, 0)
	return w.out, w.ok && len(w.out) > 0
}

type srcWalk struct {
	out  []ssa.Value
	seen map[string]bool
	ok   bool
}

func (w *srcWalk) key(v ssa.Value, path []string) string {
	return fmt.Sprintf("%p|%s", v, strings.Join(path, "."))
}

func (w *srcWalk) val(v ssa.Value, path []string, d int) {
	if d > 24 {
		w.ok = false
		return
	}
	k := w.key(v, path)
	if w.seen[k] {
		return
	}
	w.seen[k] = true
	switch x := v.(type) {
	case *ssa.Phi:
		for _, e := range x.Edges {
			w.val(e, path, d+1)
		}
	case *ssa.Field:
		w.val(x.X, append([]string{FieldName(x)}, path...), d+1)
	case *ssa.Index:
		w.val(x.X, append([]string{"[]"}, path...), d+1)
	case *ssa.ChangeType:
		w.val(x.X, path, d+1)
	case *ssa.UnOp:
		if x.Op == token.MUL {
			w.addr(x.X, path, d+1)
			return
		}
		if len(path) == 0 {
			w.out = append(w.out, v)
		} else {
			w.ok = false
		}
	default:
		if len(path) == 0 {
			w.out = append(w.out, v)
		} else {
			w.ok = false
		}
	}
}

func (w *srcWalk) addr(a ssa.Value, path []string, d int) {
	switch x := a.(type) {
	case *ssa.FieldAddr:
		w.addr(x.X, append([]string{FieldName(x)}, path...), d+1)
	case *ssa.IndexAddr:
		w.addr(x.X, append([]string{"[]"}, path...), d+1)
	case *ssa.Alloc:
		w.stores(x, path, d+1)
	default:
		w.ok = false
	}
}

// stores: everything stored at sub-path path of the location addr names.
func (w *srcWalk) stores(addr ssa.Value, path []string, d int) {
	if d > 24 || addr.Referrers() == nil {
		w.ok = false
		return
	}
	for _, ref := range *addr.Referrers() {
		switch r := ref.(type) {
		case *ssa.Store:
			if r.Addr != addr {
				w.ok = false // the address itself is stored somewhere
				continue
			}
			w.val(r.Val, path, d+1)
		case *ssa.FieldAddr:
			if len(path) > 0 && path[0] == FieldName(r) {
				w.stores(r, path[1:], d+1)
			} else if len(path) == 0 {
				// a part of the value is written separately
				w.ok = false
			}
		case *ssa.IndexAddr:
			if len(path) > 0 && path[0] == "[]" {
				w.stores(r, path[1:], d+1)
			} else if len(path) == 0 {
				w.ok = false
			}
		case *ssa.UnOp, *ssa.DebugRef:
		default:
			w.ok = false
		}
	}
}

// FieldSources enumerates what field `field` of the local struct variable al
// can hold (see ValueSources): direct stores to the field and the field of
// every struct value assigned to the variable whole.
func FieldSources(al *ssa.Alloc, field string) (leaves []ssa.Value, ok bool) {
	w := &srcWalk{seen: map[string]bool{}, ok: true}
	w.stores(al, []string{field}, 0)
	return w.out, w.ok && len(w.out) > 0
}

// ResolveCell looks through loads of local variables that are assigned
// exactly once (also when captured by closures): the value stored. Other
// values are returned unchanged.
func ResolveCell(v ssa.Value) ssa.Value {
	for i := 0; i < 6; i++ {
		u, ok := v.(*ssa.UnOp)
		if !ok || u.Op != token.MUL {
			return v
		}
		var al *ssa.Alloc
		switch a := u.X.(type) {
		case *ssa.Alloc:
			al = a
		case *ssa.FreeVar:
			al = FreeVarCell(a)
		}
		if al == nil {
			return v
		}
		var val ssa.Value
		n := 0
		var visit func(addr ssa.Value)
		seen := map[ssa.Value]bool{}
		visit = func(addr ssa.Value) {
			if seen[addr] || addr.Referrers() == nil {
				return
			}
			seen[addr] = true
			for _, ref := range *addr.Referrers() {
				switch x := ref.(type) {
				case *ssa.Store:
					if x.Addr == addr {
						n++
						val = x.Val
					}
				case *ssa.MakeClosure:
					fn := x.Fn.(*ssa.Function)
					for i, b := range x.Bindings {
						if b == addr && i < len(fn.FreeVars) {
							visit(fn.FreeVars[i])
						}
					}
				}
			}
		}
		visit(al)
		if n != 1 {
			return v
		}
		v = val
	}
	return v
}
