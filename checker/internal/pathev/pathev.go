// Package pathev is the path-event engine (E2 of DESIGN.md), implemented on
// go/ssa blocks: for a set of tagged instructions ("events") it computes, for
// every exit of a function, with which multiplicities {0, 1, >=2} each event
// can occur along the paths from a start point to that exit.
//
// It is a forward may-analysis over the CFG with a saturating counter set per
// tag; branch conditions are not interpreted (every branch may go either way),
// which is the sound direction for "must occur" / "occurs at most once"
// verdicts. Calls to repository functions can be summarised recursively.
package pathev

import (
	"golang.org/x/tools/go/ssa"
)

// Mask is a set of possible occurrence counts: bit 0 = zero times, bit 1 =
// exactly once, bit 2 = twice or more.
type Mask uint8

const (
	Zero Mask = 1 << iota
	One
	Many
)

func (m Mask) String() string {
	s := "{"
	if m&Zero != 0 {
		s += "0"
	}
	if m&One != 0 {
		if len(s) > 1 {
			s += ","
		}
		s += "1"
	}
	if m&Many != 0 {
		if len(s) > 1 {
			s += ","
		}
		s += ">=2"
	}
	return s + "}"
}

// Always reports that the event occurs at least once on every path.
func (m Mask) Always() bool { return m != 0 && m&Zero == 0 }

// Never reports that the event occurs on no path.
func (m Mask) Never() bool { return m == Zero }

// ExactlyOnce reports that the event occurs exactly once on every path.
func (m Mask) ExactlyOnce() bool { return m == One }

// AtMostOnce reports that no path has the event twice.
func (m Mask) AtMostOnce() bool { return m != 0 && m&Many == 0 }

func add(a, b Mask) Mask {
	var out Mask
	for i := 0; i < 3; i++ {
		if a&(1<<i) == 0 {
			continue
		}
		for j := 0; j < 3; j++ {
			if b&(1<<j) == 0 {
				continue
			}
			k := i + j
			if k > 2 {
				k = 2
			}
			out |= 1 << k
		}
	}
	return out
}

// Masks maps a tag to its count set; a missing tag means {0}.
type Masks map[string]Mask

func (m Masks) Get(tag string) Mask {
	if v, ok := m[tag]; ok {
		return v
	}
	return Zero
}

func (m Masks) clone() Masks {
	o := make(Masks, len(m))
	for k, v := range m {
		o[k] = v
	}
	return o
}

// Tagger classifies an instruction into zero or more event tags.
type Tagger func(ssa.Instruction) []string

// Engine analyses functions with one tagger; callee summaries are memoised.
type Engine struct {
	Tag Tagger
	// Inline decides whether a statically resolved callee is summarised
	// (events inside it count at the call site). nil = never.
	Inline func(*ssa.Function) bool
	sum    map[*ssa.Function]Masks
	busy   map[*ssa.Function]bool
	stop   *ssa.BasicBlock
	atStop Masks
}

func New(tag Tagger, inline func(*ssa.Function) bool) *Engine {
	return &Engine{Tag: tag, Inline: inline, sum: map[*ssa.Function]Masks{}, busy: map[*ssa.Function]bool{}}
}

// Summary is the union over all returns of fn of the per-tag masks.
func (e *Engine) Summary(fn *ssa.Function) Masks {
	if s, ok := e.sum[fn]; ok {
		return s
	}
	if e.busy[fn] || fn.Blocks == nil {
		return Masks{}
	}
	e.busy[fn] = true
	per := e.Exits(fn)
	out := Masks{}
	tags := map[string]bool{}
	for _, m := range per {
		for t := range m {
			tags[t] = true
		}
	}
	for t := range tags {
		var u Mask
		for _, m := range per {
			u |= m.Get(t)
		}
		out[t] = u
	}
	delete(e.busy, fn)
	e.sum[fn] = out
	return out
}

// Exits analyses fn from its entry.
func (e *Engine) Exits(fn *ssa.Function) map[*ssa.Return]Masks {
	if len(fn.Blocks) == 0 {
		return nil
	}
	return e.From(fn.Blocks[0], 0)
}

// Between analyses the paths that start at the beginning of block start and
// end on first arrival at block stop (the events of stop itself are not
// counted); paths that return earlier are reported under the nil key... the
// result is the join over all arrivals at stop, and ok tells whether stop is
// reachable at all.
func (e *Engine) Between(start, stop *ssa.BasicBlock) (m Masks, early map[*ssa.Return]Masks, ok bool) {
	e.stop = stop
	e.atStop = nil
	early = e.From(start, 0)
	e.stop = nil
	if e.atStop == nil {
		return nil, early, false
	}
	return e.atStop, early, true
}

// From analyses the paths that start at instruction index idx of block start.
func (e *Engine) From(start *ssa.BasicBlock, idx int) map[*ssa.Return]Masks {
	fn := start.Parent()
	// transfer of a (suffix of a) block
	transfer := func(in Masks, b *ssa.BasicBlock, from int) Masks {
		out := in.clone()
		for i := from; i < len(b.Instrs); i++ {
			ins := b.Instrs[i]
			for _, t := range e.Tag(ins) {
				out[t] = add(out.Get(t), One)
			}
			if c, ok := ins.(*ssa.Call); ok && e.Inline != nil {
				if cal := c.Common().StaticCallee(); cal != nil && e.Inline(cal) {
					for t, m := range e.Summary(cal) {
						out[t] = add(out.Get(t), m)
					}
				}
			}
		}
		return out
	}
	in := make([]Masks, len(fn.Blocks))
	outs := make([]Masks, len(fn.Blocks))
	reached := make([]bool, len(fn.Blocks))
	work := []*ssa.BasicBlock{}
	// seed: the start block suffix
	first := transfer(Masks{}, start, idx)
	push := func(s *ssa.BasicBlock, m Masks) {
		if e.stop != nil && s == e.stop {
			if e.atStop == nil {
				e.atStop = m.clone()
			} else {
				keys := map[string]bool{}
				for k := range e.atStop {
					keys[k] = true
				}
				for k := range m {
					keys[k] = true
				}
				for k := range keys {
					e.atStop[k] = e.atStop.Get(k) | m.Get(k)
				}
			}
			return
		}
		if !reached[s.Index] {
			reached[s.Index] = true
			in[s.Index] = m.clone()
			work = append(work, s)
			return
		}
		changed := false
		cur := in[s.Index]
		keys := map[string]bool{}
		for k := range cur {
			keys[k] = true
		}
		for k := range m {
			keys[k] = true
		}
		for k := range keys {
			// a tag missing on one side means {0} there
			u := cur.Get(k) | m.Get(k)
			if u != cur.Get(k) {
				changed = true
			}
			cur[k] = u
		}
		if changed {
			work = append(work, s)
		}
	}
	res := map[*ssa.Return]Masks{}
	finish := func(b *ssa.BasicBlock, out Masks) {
		if len(b.Instrs) == 0 {
			return
		}
		if r, ok := b.Instrs[len(b.Instrs)-1].(*ssa.Return); ok {
			res[r] = out
		}
	}
	finish(start, first)
	for _, s := range start.Succs {
		push(s, first)
	}
	for len(work) > 0 {
		b := work[len(work)-1]
		work = work[:len(work)-1]
		out := transfer(in[b.Index], b, 0)
		outs[b.Index] = out
		finish(b, out)
		for _, s := range b.Succs {
			push(s, out)
		}
	}
	return res
}
