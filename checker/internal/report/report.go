// Package report collects obligations, matches them against the committed
// known-findings file, prints the verdict lines and writes the evidence file.
package report

import (
	"encoding/json"
	"fmt"
	"os"
	"path/filepath"
	"sort"
	"strings"
	"time"
)

type Status string

const (
	Discharged Status = "discharged"
	Violated   Status = "violated"
	Undecided  Status = "undecided"
)

// Obligation is one checked instance of a rule. It is identified by
// Property/Rule/Construct, never by a line number; Pos is informational.
type Obligation struct {
	Rule      string `json:"rule"`
	Construct string `json:"construct"`
	Status    Status `json:"status"`
	Pos       string `json:"pos,omitempty"`
	Detail    string `json:"detail,omitempty"`
	Known     bool   `json:"known_finding,omitempty"`
}

// Finding is an entry of known_findings.json.
type Finding struct {
	Status    string `json:"status"` // open | fixed
	Property  string `json:"property"`
	Rule      string `json:"rule,omitempty"`
	Construct string `json:"construct,omitempty"`
	Commit    string `json:"commit,omitempty"`
	What      string `json:"what"`
}

type findingsFile struct {
	Findings []Finding `json:"findings"`
}

// Report accumulates the outcome of one property check.
type Report struct {
	Prop        string
	Tier        string
	Seed        int
	Start       time.Time
	Obls        []*Obligation
	Analysed    map[string]any
	Assumptions []string
	NotDecided  []string
	Explanation string
	RuleTexts   map[string]string
	Configs     []string
	only        string
}

func New(prop, tier string, seed int) *Report {
	return &Report{Prop: prop, Tier: tier, Seed: seed, Start: time.Now(), Analysed: map[string]any{}, RuleTexts: map[string]string{}}
}

// SetOnly restricts verdict lines to obligations whose key contains s (replay).
func (r *Report) SetOnly(s string) { r.only = s }

// Rule registers the human-readable text of a rule (shown in replay files).
func (r *Report) Rule(id, text string) { r.RuleTexts[id] = text }

func (r *Report) add(rule, construct string, st Status, pos, detail string) *Obligation {
	// Keys are unique; a duplicate gets the worst status and a merged detail.
	for _, o := range r.Obls {
		if o.Rule == rule && o.Construct == construct {
			if rank(st) > rank(o.Status) {
				o.Status = st
				o.Pos = pos
			}
			if detail != "" && !strings.Contains(o.Detail, detail) {
				if o.Detail != "" {
					o.Detail += " | "
				}
				o.Detail += detail
			}
			return o
		}
	}
	o := &Obligation{Rule: rule, Construct: construct, Status: st, Pos: pos, Detail: detail}
	r.Obls = append(r.Obls, o)
	return o
}

func rank(s Status) int {
	switch s {
	case Violated:
		return 2
	case Undecided:
		return 1
	}
	return 0
}

func (r *Report) OK(rule, construct, pos, detail string) {
	r.add(rule, construct, Discharged, pos, detail)
}
func (r *Report) Bad(rule, construct, pos, detail string) {
	r.add(rule, construct, Violated, pos, detail)
}
func (r *Report) Unknown(rule, construct, pos, detail string) {
	r.add(rule, construct, Undecided, pos, detail)
}

// Check adds a discharged or violated obligation according to cond.
func (r *Report) Check(cond bool, rule, construct, pos, okDetail, badDetail string) bool {
	if cond {
		r.OK(rule, construct, pos, okDetail)
	} else {
		r.Bad(rule, construct, pos, badDetail)
	}
	return cond
}

// Floor is the vacuity guard: a rule that matched fewer instances than were
// confirmed by hand on the pinned tree fails instead of passing vacuously.
// Floor is the vacuity guard of a rule: confirmed is the number of instances
// counted by hand on the pinned tree. The rule fails when fewer than half of
// them (at least one) are matched: merging duplicated code into a helper
// legitimately lowers a count, a matcher that has stopped recognising the
// code lowers it to (nearly) zero.
func (r *Report) Floor(rule, what string, got, confirmed int) {
	c := "floor:" + what
	min := (confirmed + 1) / 2
	if min < 1 {
		min = 1
	}
	if got >= min {
		r.OK(rule, c, "", fmt.Sprintf("%d instances (%d confirmed by hand on the pinned tree, floor %d)", got, confirmed, min))
	} else {
		r.Bad(rule, c, "", fmt.Sprintf("only %d instances matched, floor is %d: the rule would pass vacuously", got, min))
	}
}

// Anchor records a hard requirement that a named construct resolves.
func (r *Report) Anchor(rule, name string, found bool) bool {
	if !found {
		r.Unknown(rule, "anchor:"+name, "", "anchor could not be resolved in the loaded program")
	}
	return found
}

func loadFindings(path string) ([]Finding, error) {
	b, err := os.ReadFile(path)
	if err != nil {
		if os.IsNotExist(err) {
			return nil, nil
		}
		return nil, err
	}
	var ff findingsFile
	if err := json.Unmarshal(b, &ff); err != nil {
		return nil, fmt.Errorf("%s: %w", path, err)
	}
	return ff.Findings, nil
}

// Finish prints verdict lines, writes evidence and replay files and returns
// the process exit code.
func (r *Report) Finish(verifDir, checkerCmd string) int {
	findings, err := loadFindings(filepath.Join(verifDir, "known_findings.json"))
	if err != nil {
		fmt.Printf("ERROR: cannot read known findings: %v\n", err)
		return 2
	}
	sort.SliceStable(r.Obls, func(i, j int) bool {
		if r.Obls[i].Rule != r.Obls[j].Rule {
			return r.Obls[i].Rule < r.Obls[j].Rule
		}
		return r.Obls[i].Construct < r.Obls[j].Construct
	})
	open := map[string]Finding{}
	for _, f := range findings {
		if f.Status == "open" && f.Property == r.Prop {
			open[f.Rule+"\x00"+f.Construct] = f
		}
	}
	replayDir := filepath.Join(verifDir, "evidence", "replay")
	_ = os.MkdirAll(replayDir, 0o755)
	old, _ := filepath.Glob(filepath.Join(replayDir, r.Prop+"-*.json"))
	for _, f := range old {
		_ = os.Remove(f)
	}
	nViol, nKnown, nDis := 0, 0, 0
	usedKnown := map[string]bool{}
	var stale []string
	for _, o := range r.Obls {
		if o.Status == Discharged {
			nDis++
			continue
		}
		k := o.Rule + "\x00" + o.Construct
		if f, ok := open[k]; ok && o.Status == Violated {
			o.Known = true
			usedKnown[k] = true
			nKnown++
			fmt.Printf("KNOWN-FINDING: property=%s rule=%s construct=%s %s\n", r.Prop, o.Rule, o.Construct, f.What)
			continue
		}
		if r.only != "" && !strings.Contains(o.Rule+"/"+o.Construct, r.only) {
			continue
		}
		nViol++
		rp := filepath.Join(replayDir, fmt.Sprintf("%s-%d.json", r.Prop, nViol))
		rb, _ := json.MarshalIndent(map[string]any{
			"property":  r.Prop,
			"rule":      o.Rule,
			"rule_text": r.RuleTexts[o.Rule],
			"construct": o.Construct,
			"status":    o.Status,
			"position":  o.Pos,
			"detail":    o.Detail,
			"configs":   r.Configs,
		}, "", "  ")
		_ = os.WriteFile(rp, rb, 0o644)
		fmt.Printf("%s %s/%s at %s: %s\n", strings.ToUpper(string(o.Status)), o.Rule, o.Construct, o.Pos, o.Detail)
		fmt.Printf("VIOLATION property=%s replay=%s\n", r.Prop, rp)
	}
	for k, f := range open {
		if !usedKnown[k] {
			stale = append(stale, f.Rule+"/"+f.Construct)
		}
	}
	sort.Strings(stale)

	// evidence
	samples := []any{}
	perRule := map[string]int{}
	for _, o := range r.Obls {
		perRule[o.Rule]++
	}
	seenRule := map[string]int{}
	for _, o := range r.Obls {
		if o.Status != Discharged || seenRule[o.Rule] < 3 {
			samples = append(samples, o)
		}
		seenRule[o.Rule]++
	}
	constructs := map[string]bool{}
	for _, o := range r.Obls {
		constructs[o.Rule+"/"+o.Construct] = true
	}
	cov := map[string]any{
		"explanation":          r.Explanation,
		"obligations":          len(r.Obls),
		"discharged":           nDis,
		"known_findings":       nKnown,
		"unlisted_violations":  nViol,
		"obligations_per_rule": perRule,
		"evaluations":          len(r.Obls),
		"distinct_nontrivial":  len(constructs),
		"rule":                 "one obligation per (rule, semantic construct) instance found in the type-checked/SSA program; distinct = distinct rule/construct keys; every one is non-trivial in that it names a concrete source construct that was inspected",
		"samples":              samples,
		"checker_cmd":          checkerCmd,
		"trusted_base":         []string{"go/types, go/ssa, go/cfg, callgraph/vta from golang.org/x/tools v0.50.0", "the rule implementations under /verif/checker/internal/rules"},
		"analysed":             r.Analysed,
		"rules":                r.RuleTexts,
		"not_decided":          r.NotDecided,
		"configurations":       r.Configs,
		"stale_known_findings": stale,
		"exhaustive":           false,
	}
	ev := map[string]any{
		"property_id": r.Prop,
		"tier":        r.Tier,
		"seed":        r.Seed,
		"level":       "other",
		"coverage":    cov,
		"assumptions": append([]string{}, r.Assumptions...),
		"wall_s":      time.Since(r.Start).Seconds(),
		"violations":  nViol,
	}
	eb, _ := json.MarshalIndent(ev, "", " ")
	evDir := filepath.Join(verifDir, "evidence")
	_ = os.MkdirAll(evDir, 0o755)
	if err := os.WriteFile(filepath.Join(evDir, r.Prop+".json"), eb, 0o644); err != nil {
		fmt.Printf("ERROR: cannot write evidence: %v\n", err)
		return 2
	}
	fmt.Printf("%s tier=%s obligations=%d discharged=%d known=%d violations=%d wall=%.1fs\n",
		r.Prop, r.Tier, len(r.Obls), nDis, nKnown, nViol, time.Since(r.Start).Seconds())
	if nViol > 0 {
		return 1
	}
	return 0
}
