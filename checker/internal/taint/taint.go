// Package taint is the interprocedural flow engine (E3 of DESIGN.md): a
// forward, context-insensitive may-taint propagation over the SSA form of a
// set of functions.
//
//   - values: an SSA value is tainted if it is a source or computed from a
//     tainted operand (unless the computing instruction is a sanitiser);
//   - memory: local cells (including closure-captured ones) by identity,
//     struct fields by (type, field), package-level variables by name,
//     containers (slices, maps, arrays) as a whole — storing a tainted value
//     into an element taints the container, loading an element of a tainted
//     container yields a tainted value;
//   - calls: arguments flow to parameters of repository callees (static calls
//     and call-graph edges), tainted returns flow to every call site;
//     library calls propagate from any argument to the result unless listed;
//   - implicit flow: a phi merging paths that separate at a tainted branch is
//     tainted (one level), so flags set under tainted conditions are tracked.
//
// Over-approximation is the sound direction for "no tainted value reaches a
// sink" rules.
package taint

import (
	"go/token"
	"go/types"

	"golang.org/x/tools/go/ssa"

	"wtfverif/checker/internal/ssau"
)

// Config parameterises one analysis.
type Config struct {
	// Funcs is the analysed set (with bodies).
	Funcs []*ssa.Function
	// IsSource marks source values.
	IsSource func(v ssa.Value) bool
	// Sanitizer: the call's result is clean whatever its arguments.
	Sanitizer func(call ssa.CallInstruction, name string) bool
	// PropagateArg decides for library calls which argument indices taint the
	// result; nil = all arguments.
	PropagateArg func(call ssa.CallInstruction, name string, idx int) bool
	// Callees resolves dynamic calls.
	Callees func(site ssa.CallInstruction) []*ssa.Function
	// Implicit enables control-dependence tainting of phis.
	Implicit bool
	// DropType: values of these types never carry taint (e.g. ints when only
	// strings matter). nil = keep all.
	DropType func(t types.Type) bool
}

// Result of the propagation.
type Result struct {
	cfg    Config
	vals   map[ssa.Value]bool
	fields map[string]bool
	glob   map[*ssa.Global]bool
	inSet  map[*ssa.Function]bool
	// Why records one predecessor for explanation.
	why map[ssa.Value]ssa.Value
}

// Tainted reports whether v may carry source data.
func (r *Result) Tainted(v ssa.Value) bool { return r.vals[v] }

// FieldTainted reports whether (owner, field) may hold source data.
func (r *Result) FieldTainted(owner, field string) bool { return r.fields[owner+"."+field] }

// Path explains why v is tainted (chain of values back to a source).
func (r *Result) Path(v ssa.Value) []ssa.Value {
	var out []ssa.Value
	seen := map[ssa.Value]bool{}
	for v != nil && !seen[v] {
		seen[v] = true
		out = append(out, v)
		v = r.why[v]
	}
	return out
}

func named(t types.Type) string { return ssau.NamedOf(t) }

// Run performs the propagation to a fixpoint.
func Run(cfg Config) *Result {
	r := &Result{cfg: cfg, vals: map[ssa.Value]bool{}, fields: map[string]bool{}, glob: map[*ssa.Global]bool{}, inSet: map[*ssa.Function]bool{}, why: map[ssa.Value]ssa.Value{}}
	for _, fn := range cfg.Funcs {
		r.inSet[fn] = true
	}
	// call sites per callee for return propagation
	type site struct {
		call ssa.CallInstruction
	}
	callers := map[*ssa.Function][]ssa.CallInstruction{}
	calleesOf := func(c ssa.CallInstruction) []*ssa.Function {
		if cal := c.Common().StaticCallee(); cal != nil {
			return []*ssa.Function{cal}
		}
		if cfg.Callees != nil {
			return cfg.Callees(c)
		}
		return nil
	}
	for _, fn := range cfg.Funcs {
		ssau.ForEachInstr(fn, false, func(in ssa.Instruction) {
			if c, ok := in.(ssa.CallInstruction); ok {
				for _, cal := range calleesOf(c) {
					callers[cal] = append(callers[cal], c)
				}
			}
		})
	}
	changed := true
	mark := func(v, from ssa.Value) {
		if v == nil || r.vals[v] {
			return
		}
		if cfg.DropType != nil && cfg.DropType(v.Type()) {
			return
		}
		r.vals[v] = true
		r.why[v] = from
		changed = true
	}
	markField := func(k string) {
		if !r.fields[k] {
			r.fields[k] = true
			changed = true
		}
	}
	cellOf := func(addr ssa.Value) ssa.Value {
		for i := 0; i < 8; i++ {
			switch a := addr.(type) {
			case *ssa.Alloc:
				return a
			case *ssa.FreeVar:
				// resolve through MakeClosure bindings
				fn := a.Parent()
				par := fn.Parent()
				if par == nil {
					return a
				}
				idx := -1
				for i, f := range fn.FreeVars {
					if f == a {
						idx = i
					}
				}
				var b ssa.Value
				ssau.ForEachInstr(par, true, func(in ssa.Instruction) {
					if mc, ok := in.(*ssa.MakeClosure); ok && mc.Fn == ssa.Value(fn) && idx >= 0 && idx < len(mc.Bindings) {
						b = mc.Bindings[idx]
					}
				})
				if b == nil {
					return a
				}
				addr = b
			default:
				return nil
			}
		}
		return nil
	}
	// container root of an element address
	var containerOf func(addr ssa.Value) ssa.Value
	containerOf = func(addr ssa.Value) ssa.Value {
		switch a := addr.(type) {
		case *ssa.IndexAddr:
			return a.X
		}
		return nil
	}
	for _, fn := range cfg.Funcs {
		for _, p := range fn.Params {
			if cfg.IsSource(p) {
				mark(p, nil)
			}
		}
		ssau.ForEachInstr(fn, false, func(in ssa.Instruction) {
			if v, ok := in.(ssa.Value); ok && cfg.IsSource(v) {
				mark(v, nil)
			}
		})
	}
	for iter := 0; changed && iter < 200; iter++ {
		changed = false
		for _, fn := range cfg.Funcs {
			var cd map[*ssa.BasicBlock][]ssau.CtrlDep
			for _, b := range fn.Blocks {
				for _, ins := range b.Instrs {
					switch x := ins.(type) {
					case *ssa.Phi:
						for _, e := range x.Edges {
							if r.vals[e] {
								mark(x, e)
							}
						}
						if cfg.Implicit && !r.vals[x] {
							if cd == nil {
								cd = ssau.ControlDeps(fn)
							}
							// the predecessors are selected by tainted branches
							for _, p := range b.Preds {
								for _, d := range ssau.TransitiveControlDeps(cd, p) {
									if iff := d.If(); iff != nil && r.vals[iff.Cond] && !ctrlEq(fn, cd, b, d) {
										mark(x, iff.Cond)
									}
								}
							}
						}
					case *ssa.UnOp:
						if x.Op == token.MUL {
							// loads
							if c := cellOf(x.X); c != nil && r.vals[c] {
								mark(x, c)
							}
							if fa, ok := x.X.(*ssa.FieldAddr); ok {
								if r.fields[named(fa.X.Type())+"."+ssau.FieldName(fa)] {
									mark(x, fa)
								}
								if c := cellOf(fa.X); c != nil && r.vals[c] {
									mark(x, c)
								}
								if r.vals[fa.X] {
									mark(x, fa.X)
								}
							}
							if cont := containerOf(x.X); cont != nil && r.vals[cont] {
								mark(x, cont)
							}
							if g, ok := x.X.(*ssa.Global); ok && r.glob[g] {
								mark(x, g)
							}
						} else if r.vals[x.X] {
							mark(x, x.X)
						}
					case *ssa.Store:
						if !r.vals[x.Val] {
							continue
						}
						if c := cellOf(x.Addr); c != nil {
							mark(c, x.Val)
						}
						if fa, ok := x.Addr.(*ssa.FieldAddr); ok {
							markField(named(fa.X.Type()) + "." + ssau.FieldName(fa))
						}
						if cont := containerOf(x.Addr); cont != nil {
							mark(cont, x.Val)
							// the container may itself be a load of a field / cell: taint that too
							if u, ok := cont.(*ssa.UnOp); ok {
								if fa, ok := u.X.(*ssa.FieldAddr); ok {
									markField(named(fa.X.Type()) + "." + ssau.FieldName(fa))
								}
								if c := cellOf(u.X); c != nil {
									mark(c, x.Val)
								}
							}
						}
						if g, ok := x.Addr.(*ssa.Global); ok && !r.glob[g] {
							r.glob[g] = true
							changed = true
						}
					case *ssa.MapUpdate:
						if r.vals[x.Key] || r.vals[x.Value] {
							from := x.Key
							if r.vals[x.Value] {
								from = x.Value
							}
							mark(x.Map, from)
							if u, ok := x.Map.(*ssa.UnOp); ok {
								if fa, ok := u.X.(*ssa.FieldAddr); ok {
									markField(named(fa.X.Type()) + "." + ssau.FieldName(fa))
								}
								if c := cellOf(u.X); c != nil {
									mark(c, from)
								}
							}
						}
					case *ssa.Lookup:
						if r.vals[x.X] {
							mark(x, x.X)
						}
					case *ssa.Index:
						if r.vals[x.X] {
							mark(x, x.X)
						}
					case *ssa.IndexAddr:
						// address of an element of a tainted container: loads handled above
					case *ssa.Slice:
						if r.vals[x.X] {
							mark(x, x.X)
						}
					case *ssa.Field:
						if r.vals[x.X] {
							mark(x, x.X)
						}
						if st, ok := x.X.Type().Underlying().(*types.Struct); ok && x.Field < st.NumFields() {
							if r.fields[named(x.X.Type())+"."+st.Field(x.Field).Name()] {
								mark(x, x.X)
							}
						}
					case *ssa.BinOp:
						if r.vals[x.X] {
							mark(x, x.X)
						}
						if r.vals[x.Y] {
							mark(x, x.Y)
						}
					case *ssa.Convert:
						if r.vals[x.X] {
							mark(x, x.X)
						}
					case *ssa.ChangeType:
						if r.vals[x.X] {
							mark(x, x.X)
						}
					case *ssa.MakeInterface:
						if r.vals[x.X] {
							mark(x, x.X)
						}
					case *ssa.ChangeInterface:
						if r.vals[x.X] {
							mark(x, x.X)
						}
					case *ssa.TypeAssert:
						if r.vals[x.X] {
							mark(x, x.X)
						}
					case *ssa.Extract:
						if r.vals[x.Tuple] {
							mark(x, x.Tuple)
						}
					case *ssa.Range:
						if r.vals[x.X] {
							mark(x, x.X)
						}
					case *ssa.Next:
						if r.vals[x.Iter] {
							mark(x, x.Iter)
						}
					case *ssa.MakeClosure:
						for _, bnd := range x.Bindings {
							if r.vals[bnd] {
								mark(x, bnd)
							}
						}
					case ssa.CallInstruction:
						r.call(x, calleesOf, mark)
					case *ssa.Return:
						for _, rv := range x.Results {
							if r.vals[rv] {
								for _, cs := range callers[fn] {
									if v, ok := cs.(ssa.Value); ok {
										mark(v, rv)
									}
								}
							}
						}
					}
				}
			}
		}
	}
	return r
}

// ctrlEq: the phi's own block is also controlled by the same dependence (then
// the branch does not select between the phi's inputs).
func ctrlEq(fn *ssa.Function, cd map[*ssa.BasicBlock][]ssau.CtrlDep, blk *ssa.BasicBlock, d ssau.CtrlDep) bool {
	for _, x := range ssau.TransitiveControlDeps(cd, blk) {
		if x == d {
			return true
		}
	}
	return false
}

func (r *Result) call(c ssa.CallInstruction, calleesOf func(ssa.CallInstruction) []*ssa.Function, mark func(v, from ssa.Value)) {
	cc := c.Common()
	name := ssau.CallName(c)
	res, _ := c.(ssa.Value)
	if b, ok := cc.Value.(*ssa.Builtin); ok {
		switch b.Name() {
		case "append":
			for _, a := range cc.Args {
				if r.vals[a] && res != nil {
					mark(res, a)
				}
			}
		case "copy":
			if r.vals[cc.Args[1]] {
				mark(cc.Args[0], cc.Args[1])
			}
		case "len", "cap":
			// lengths carry no content
		case "min", "max":
			for _, a := range cc.Args {
				if r.vals[a] && res != nil {
					mark(res, a)
				}
			}
		}
		return
	}
	if r.cfg.Sanitizer != nil && r.cfg.Sanitizer(c, name) {
		return
	}
	args := cc.Args
	if cc.IsInvoke() {
		args = append([]ssa.Value{cc.Value}, cc.Args...)
	}
	handled := false
	for _, cal := range calleesOf(c) {
		if !r.inSet[cal] || cal.Blocks == nil {
			continue
		}
		handled = true
		for i, a := range args {
			if r.vals[a] && i < len(cal.Params) {
				mark(cal.Params[i], a)
			}
		}
		// closures: tainted bindings are handled through cells; tainted closure value as callee
	}
	if handled {
		return
	}
	// library call
	r.closureArgs(c, mark)
	if res == nil {
		return
	}
	for i, a := range args {
		if !r.vals[a] {
			continue
		}
		if r.cfg.PropagateArg != nil && !r.cfg.PropagateArg(c, name, i) {
			continue
		}
		mark(res, a)
	}
}

// closureParams: a library call given a function value and a tainted argument
// calls the function on pieces of that argument (FieldsFunc, Map): taint the
// function's parameters.
func (r *Result) closureArgs(c ssa.CallInstruction, mark func(v, from ssa.Value)) {
	cc := c.Common()
	var taintedArg ssa.Value
	for _, a := range cc.Args {
		if r.vals[a] {
			taintedArg = a
		}
	}
	if taintedArg == nil {
		return
	}
	for _, a := range cc.Args {
		var fn *ssa.Function
		switch x := a.(type) {
		case *ssa.MakeClosure:
			fn, _ = x.Fn.(*ssa.Function)
		case *ssa.Function:
			fn = x
		}
		if fn == nil || !r.inSet[fn] {
			continue
		}
		for _, p := range fn.Params {
			mark(p, taintedArg)
		}
	}
}
