// Package modref classifies the memory a set of functions writes as "fresh"
// (allocated by the running activation) or "shared" (reachable from a
// receiver, argument of the entry point or package-level variable). It is the
// mod/ref part of engine E3 in DESIGN.md, used for C11 O-5 ("searches write
// nothing shared") and reused for purity arguments elsewhere.
package modref

import (
	"fmt"
	"go/token"
	"go/types"
	"sort"
	"strings"

	"golang.org/x/tools/go/ssa"

	"wtfverif/checker/internal/ssau"
)

// Write is one write site with the verdict about its target.
type Write struct {
	Fn     *ssa.Function
	Instr  ssa.Instruction
	Kind   string // store | map-update | delete | copy | append | sort
	Shared bool
	Why    string
}

// Analysis holds the reach set and memoised root classifications.
type Analysis struct {
	Entry  []*ssa.Function
	Reach  []*ssa.Function
	inSet  map[*ssa.Function]bool
	isRepo func(*ssa.Function) bool
	// Skip lists callees that are not traversed (reasoned exceptions), with
	// the call sites that reach them.
	Skipped map[*ssa.Function][]ssa.CallInstruction
	sites   map[*ssa.Function][]ssa.CallInstruction
	memo    map[ssa.Value]*verdict
	busy    map[ssa.Value]bool
}

type verdict struct {
	shared bool
	why    string
}

// New computes the set of repo functions reachable from entries through
// static calls and closures created on the way. skipCall may veto an edge.
func New(entries []*ssa.Function, isRepo func(*ssa.Function) bool, skipCall func(caller *ssa.Function, c ssa.CallInstruction, callee *ssa.Function) bool) *Analysis {
	a := &Analysis{Entry: entries, inSet: map[*ssa.Function]bool{}, isRepo: isRepo, Skipped: map[*ssa.Function][]ssa.CallInstruction{},
		sites: map[*ssa.Function][]ssa.CallInstruction{}, memo: map[ssa.Value]*verdict{}, busy: map[ssa.Value]bool{}}
	var work []*ssa.Function
	push := func(f *ssa.Function) {
		if f != nil && f.Blocks != nil && isRepo(f) && !a.inSet[f] {
			a.inSet[f] = true
			work = append(work, f)
		}
	}
	for _, e := range entries {
		push(e)
	}
	for len(work) > 0 {
		fn := work[len(work)-1]
		work = work[:len(work)-1]
		a.Reach = append(a.Reach, fn)
		ssau.ForEachInstr(fn, false, func(in ssa.Instruction) {
			if mc, ok := in.(*ssa.MakeClosure); ok {
				push(mc.Fn.(*ssa.Function))
			}
			c := ssau.AsCall(in)
			if c == nil {
				return
			}
			cal := c.Common().StaticCallee()
			if cal == nil || !isRepo(cal) {
				return
			}
			if skipCall != nil && skipCall(fn, c, cal) {
				a.Skipped[cal] = append(a.Skipped[cal], c)
				return
			}
			a.sites[cal] = append(a.sites[cal], c)
			push(cal)
		})
	}
	sort.Slice(a.Reach, func(i, j int) bool { return a.Reach[i].String() < a.Reach[j].String() })
	return a
}

func pointerLike(t types.Type) bool {
	switch u := t.Underlying().(type) {
	case *types.Pointer, *types.Slice, *types.Map, *types.Chan, *types.Interface, *types.Signature:
		return true
	case *types.Struct:
		for i := 0; i < u.NumFields(); i++ {
			if pointerLike(u.Field(i).Type()) {
				return true
			}
		}
	case *types.Array:
		return pointerLike(u.Elem())
	}
	return false
}

// indirect: the type is itself a reference to other memory (as opposed to a
// struct or array that merely contains one).
func indirect(t types.Type) bool {
	switch t.Underlying().(type) {
	case *types.Pointer, *types.Slice, *types.Map, *types.Chan, *types.Interface, *types.Signature:
		return true
	}
	return false
}

// fieldStores: every value the reach set stores into field f of struct type
// owner (given as the struct or a pointer to it).
func (a *Analysis) fieldStores(owner types.Type, f int) []ssa.Value {
	if p, ok := owner.Underlying().(*types.Pointer); ok {
		owner = p.Elem()
	}
	var vals []ssa.Value
	for _, fn := range a.Reach {
		for _, b := range fn.Blocks {
			for _, in := range b.Instrs {
				st, ok := in.(*ssa.Store)
				if !ok {
					continue
				}
				fa2, ok := st.Addr.(*ssa.FieldAddr)
				if !ok || fa2.Field != f {
					continue
				}
				if p, ok := fa2.X.Type().Underlying().(*types.Pointer); ok && types.Identical(p.Elem(), owner) {
					vals = append(vals, st.Val)
				}
			}
		}
	}
	return vals
}

func (a *Analysis) isEntry(fn *ssa.Function) bool {
	for _, e := range a.Entry {
		if e == fn {
			return true
		}
	}
	return false
}

// Root classifies the memory v points to (v is an address, slice, map or
// pointer-carrying value).
func (a *Analysis) Root(v ssa.Value) (shared bool, why string) {
	if m, ok := a.memo[v]; ok {
		return m.shared, m.why
	}
	if a.busy[v] {
		return false, "" // optimistic for cycles (loop-carried values)
	}
	a.busy[v] = true
	s, w := a.root(v)
	delete(a.busy, v)
	a.memo[v] = &verdict{s, w}
	return s, w
}

func (a *Analysis) join(vs ...ssa.Value) (bool, string) {
	for _, v := range vs {
		if s, w := a.Root(v); s {
			return s, w
		}
	}
	return false, ""
}

// cellStores returns the values stored into a local cell (Alloc), including
// stores made by closures that capture it.
func cellStores(al *ssa.Alloc) []ssa.Value {
	var out []ssa.Value
	var visit func(addr ssa.Value)
	visit = func(addr ssa.Value) {
		refs := addr.Referrers()
		if refs == nil {
			return
		}
		for _, ref := range *refs {
			switch u := ref.(type) {
			case *ssa.Store:
				if u.Addr == addr {
					out = append(out, u.Val)
				}
			case *ssa.MakeClosure:
				fn := u.Fn.(*ssa.Function)
				for i, b := range u.Bindings {
					if b == addr && i < len(fn.FreeVars) {
						visit(fn.FreeVars[i])
					}
				}
			}
		}
	}
	visit(al)
	return out
}

// resolveFreeVar finds what a free variable is bound to in the enclosing
// function's MakeClosure.
func resolveFreeVar(fv *ssa.FreeVar) ssa.Value {
	fn := fv.Parent()
	par := fn.Parent()
	if par == nil {
		return nil
	}
	idx := -1
	for i, f := range fn.FreeVars {
		if f == fv {
			idx = i
		}
	}
	var out ssa.Value
	ssau.ForEachInstr(par, false, func(in ssa.Instruction) {
		if mc, ok := in.(*ssa.MakeClosure); ok && mc.Fn == ssa.Value(fn) && idx >= 0 && idx < len(mc.Bindings) {
			out = mc.Bindings[idx]
		}
	})
	return out
}

func (a *Analysis) root(v ssa.Value) (bool, string) {
	switch x := v.(type) {
	case *ssa.Alloc, *ssa.MakeMap, *ssa.MakeSlice, *ssa.MakeChan, *ssa.MakeClosure, *ssa.Function, *ssa.Builtin:
		return false, ""
	case *ssa.Const:
		return false, ""
	case *ssa.Global:
		return true, "package-level variable " + x.Name()
	case *ssa.Parameter:
		fn := x.Parent()
		if !pointerLike(x.Type()) {
			return false, ""
		}
		if a.isEntry(fn) {
			return true, fmt.Sprintf("parameter %s of entry point %s", x.Name(), fn.Name())
		}
		sites := a.sites[fn]
		if len(sites) == 0 {
			return true, fmt.Sprintf("parameter %s of %s (no resolved call site)", x.Name(), fn.Name())
		}
		idx := -1
		for i, p := range fn.Params {
			if p == x {
				idx = i
			}
		}
		for _, s := range sites {
			args := s.Common().Args
			if idx < 0 || idx >= len(args) {
				return true, "parameter binding not resolved"
			}
			if sh, w := a.Root(args[idx]); sh {
				return true, w
			}
		}
		return false, ""
	case *ssa.FreeVar:
		b := resolveFreeVar(x)
		if b == nil {
			return true, "free variable " + x.Name() + " not resolved"
		}
		return a.Root(b)
	case *ssa.FieldAddr:
		return a.Root(x.X)
	case *ssa.IndexAddr:
		return a.Root(x.X)
	case *ssa.Field:
		if s, w := a.Root(x.X); s {
			return true, w
		}
		if indirect(x.Type()) {
			// a pointer held in a field of a struct value taken out of fresh
			// memory is not itself fresh: it is whatever the reach set stores
			// into that field of that struct type
			return a.join(a.fieldStores(x.X.Type(), x.Field)...)
		}
		return false, ""
	case *ssa.Index:
		return a.Root(x.X)
	case *ssa.Slice:
		return a.Root(x.X)
	case *ssa.ChangeType:
		return a.Root(x.X)
	case *ssa.Convert:
		return a.Root(x.X)
	case *ssa.MakeInterface:
		return a.Root(x.X)
	case *ssa.ChangeInterface:
		return a.Root(x.X)
	case *ssa.TypeAssert:
		return a.Root(x.X)
	case *ssa.SliceToArrayPointer:
		return a.Root(x.X)
	case *ssa.Phi:
		return a.join(x.Edges...)
	case *ssa.Extract:
		return a.Root(x.Tuple)
	case *ssa.Lookup:
		return a.Root(x.X)
	case *ssa.Next:
		return a.Root(x.Iter)
	case *ssa.Range:
		return a.Root(x.X)
	case *ssa.Select, *ssa.BinOp:
		return false, ""
	case *ssa.UnOp:
		if x.Op != token.MUL {
			return false, ""
		}
		if !pointerLike(x.Type()) {
			return false, ""
		}
		addr := x.X
		if fv, ok := addr.(*ssa.FreeVar); ok {
			if b := resolveFreeVar(fv); b != nil {
				addr = b
			}
		}
		if al, ok := addr.(*ssa.Alloc); ok {
			// local variable cell: what was stored there
			st := cellStores(al)
			if len(st) == 0 {
				return false, "" // zero value
			}
			return a.join(st...)
		}
		if s, w := a.Root(addr); s {
			return true, w
		}
		// pointer loaded from fresh memory: track stores to the same field of the same fresh object
		if fa, ok := addr.(*ssa.FieldAddr); ok {
			if al, ok := fa.X.(*ssa.Alloc); ok {
				var vals []ssa.Value
				escaped := false
				for _, ref := range *al.Referrers() {
					switch u := ref.(type) {
					case *ssa.FieldAddr:
						if u.Field == fa.Field {
							for _, r2 := range *u.Referrers() {
								if st, ok := r2.(*ssa.Store); ok && st.Addr == ssa.Value(u) {
									vals = append(vals, st.Val)
								}
							}
						}
					case *ssa.Store:
						if u.Val == ssa.Value(al) {
							escaped = true
						}
						if u.Addr == ssa.Value(al) {
							// the whole struct assigned at once (a range copy, a
							// composite literal): the field holds what that value's
							// field holds
							if s, w := a.Root(u.Val); s {
								return true, w
							}
							vals = append(vals, a.fieldStores(al.Type(), fa.Field)...)
						}
					}
				}
				if !escaped {
					return a.join(vals...)
				}
			}
		}
		// a field of an object that is fresh in this activation although it is
		// reached through a parameter (a helper given the object under
		// construction): whatever is in the field was stored by code of the
		// reach set — every store to that field of that struct type
		if fa, ok := addr.(*ssa.FieldAddr); ok {
			if sh, _ := a.Root(fa.X); !sh {
				var vals []ssa.Value
				owner := fa.X.Type()
				for _, fn := range a.Reach {
					for _, b := range fn.Blocks {
						for _, in := range b.Instrs {
							st, ok := in.(*ssa.Store)
							if !ok {
								continue
							}
							fa2, ok := st.Addr.(*ssa.FieldAddr)
							if ok && fa2.Field == fa.Field && types.Identical(fa2.X.Type(), owner) {
								vals = append(vals, st.Val)
							}
						}
					}
				}
				return a.join(vals...)
			}
		}
		return true, "pointer loaded from memory whose contents are not tracked (" + x.String() + ")"
	case *ssa.Call:
		name := ssau.CallName(x)
		switch name {
		case "builtin.append":
			return a.join(x.Call.Args[0])
		case "builtin.min", "builtin.max", "builtin.len", "builtin.cap":
			return false, ""
		}
		cal := x.Common().StaticCallee()
		if cal != nil && a.isRepo(cal) && cal.Blocks != nil {
			if !pointerLike(x.Type()) {
				return false, ""
			}
			// returns-fresh summary: every returned value is fresh
			for _, ret := range ssau.ReturnsOf(cal) {
				for i := range ret.Results {
					rv := ssau.ResultValue(ret, i)
					if !pointerLike(rv.Type()) {
						continue
					}
					if s, w := a.Root(rv); s {
						return true, "returned by " + cal.Name() + ": " + w
					}
				}
			}
			return false, ""
		}
		// library call: the result is newly allocated unless the callee can hand
		// back memory reachable from one of its pointer-like operands (a
		// sync.Pool, a container, a cache held in a package-level variable...).
		// Callees documented to return fresh values whatever they are given are
		// listed in freshLibrary.
		if !pointerLike(x.Type()) || freshLibrary(name) || shallowCloneOfValues(name, x.Type()) {
			return false, ""
		}
		ops := append([]ssa.Value{}, x.Common().Args...)
		if x.Common().IsInvoke() {
			ops = append(ops, x.Common().Value)
		}
		for _, o := range ops {
			if !pointerLike(o.Type()) {
				continue
			}
			if s, w := a.Root(o); s {
				return true, "returned by library call " + name + " on shared operand (" + w + ")"
			}
		}
		return false, ""
	}
	return true, fmt.Sprintf("unclassified value %T", v)
}

// freshLibrary lists library callees whose pointer-like results are always
// newly allocated, independent of where their operands live.
func freshLibrary(name string) bool {
	for _, p := range []string{"strings.", "(*regexp.Regexp).", "regexp.", "fmt.", "strconv.", "unicode.", "sort.", "errors.", "path/filepath.", "os.", "(*strings.Builder).", "encoding/json.Marshal", "time.", "(time."} {
		if strings.HasPrefix(name, p) {
			return true
		}
	}
	return false
}

var sorters = map[string]bool{
	"sort.Slice": true, "sort.SliceStable": true, "sort.Sort": true, "sort.Stable": true,
	"sort.Strings": true, "sort.Ints": true, "sort.Float64s": true,
}

// Writes enumerates the write sites of the reach set with their verdicts.
func (a *Analysis) Writes() []Write {
	var out []Write
	for _, fn := range a.Reach {
		ssau.ForEachInstr(fn, false, func(in ssa.Instruction) {
			add := func(kind string, target ssa.Value) {
				s, w := a.Root(target)
				out = append(out, Write{Fn: fn, Instr: in, Kind: kind, Shared: s, Why: w})
			}
			switch x := in.(type) {
			case *ssa.Store:
				if _, ok := x.Addr.(*ssa.Alloc); ok {
					return // initialisation of a local cell
				}
				add("store", x.Addr)
			case *ssa.MapUpdate:
				add("map-update", x.Map)
			case ssa.CallInstruction:
				name := ssau.CallName(x)
				args := x.Common().Args
				switch {
				case name == "builtin.delete":
					add("delete", args[0])
				case name == "builtin.copy":
					add("copy", args[0])
				case name == "builtin.clear":
					add("clear", args[0])
				case name == "builtin.append":
					add("append", args[0])
				case sorters[name] || strings.HasPrefix(name, "slices.Sort"):
					add("sort", args[0])
				}
			}
		})
	}
	return out
}

// shallowCloneOfValues: maps.Clone / slices.Clone of a container whose
// elements hold no pointers: the copy shares nothing with its operand.
func shallowCloneOfValues(name string, t types.Type) bool {
	if !strings.HasPrefix(name, "maps.Clone") && !strings.HasPrefix(name, "slices.Clone") {
		return false
	}
	switch u := t.Underlying().(type) {
	case *types.Map:
		return !pointerLike(u.Elem()) && !pointerLike(u.Key())
	case *types.Slice:
		return !pointerLike(u.Elem())
	}
	return false
}
