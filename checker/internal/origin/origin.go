// Package origin is a backward value tracer on SSA ("where can this value come
// from?"). It follows identity-like data flow — phi nodes, local cells
// (including cells captured by closures and fields of local struct cells),
// parameters back to the actual arguments at every call site of the call
// graph, value-preserving conversions and a configurable set of propagating
// calls — and stops at roots: constants, results of other calls, loads of
// struct fields of non-local objects, globals, container element loads.
//
// It is flow-insensitive for cells (every store into a cell is a possible
// origin), which is the conservative direction for "may originate from"
// queries. Part of engine E3 of DESIGN.md.
package origin

import (
	"fmt"
	"go/token"
	"go/types"
	"sort"

	"golang.org/x/tools/go/callgraph"
	"golang.org/x/tools/go/ssa"

	"wtfverif/checker/internal/ssau"
	"wtfverif/checker/internal/symx"
)

// Root is a terminal origin of a traced value.
type Root struct {
	// Kind is one of: const, call, field, global, param, elem, alloc, make,
	// func, op, other.
	Kind string
	// Name refines the kind: the callee's full name (plus "#i" for the i-th
	// result), "pkg.Type.field", the constant's text, the operator...
	Name string
	V    ssa.Value
}

func (r Root) String() string { return r.Kind + ":" + r.Name }

// Tracer holds the configuration of one tracing task.
type Tracer struct {
	// CG is used to map parameters back to call-site arguments; nil = stop
	// at parameters.
	CG *callgraph.Graph
	// Through decides, for a call whose result is being traced, which of its
	// operands carry the traced value (identity-like callees). Returning nil
	// makes the call a root.
	Through func(call *ssa.Call, resultIdx int) []ssa.Value
	// StopAt makes a value a root before any other rule is tried; the string
	// becomes Root.Name with Kind "stop".
	StopAt func(v ssa.Value) (string, bool)
	// ThroughOps lists binary operators whose operands are followed (e.g.
	// token.ADD for string concatenation). Others are roots of kind op.
	ThroughOps map[token.Token]bool
	// Sx, when set, makes loads of local cells and of fields of local struct
	// cells flow-sensitive: only the stores that can reach the load (by the
	// versioned-memory analysis of package symx) are followed.
	Sx *symx.Ctx
	// ThroughFields follows loads of struct fields of non-local objects to
	// every store into the same (type, field) in the functions listed.
	FieldStoresIn []*ssa.Function
	fieldStores   map[string][]ssa.Value
}

// Roots returns the distinct terminal origins of v, sorted by String().
func (t *Tracer) Roots(v ssa.Value) []Root {
	seen := map[ssa.Value]bool{}
	out := map[string]Root{}
	t.walk(v, seen, out, 0)
	var rs []Root
	for _, r := range out {
		rs = append(rs, r)
	}
	sort.Slice(rs, func(i, j int) bool { return rs[i].String() < rs[j].String() })
	return rs
}

// Has reports whether some root of v satisfies pred.
func (t *Tracer) Has(v ssa.Value, pred func(Root) bool) (Root, bool) {
	for _, r := range t.Roots(v) {
		if pred(r) {
			return r, true
		}
	}
	return Root{}, false
}

// All reports whether every root of v satisfies pred (false for no roots).
func (t *Tracer) All(v ssa.Value, pred func(Root) bool) bool {
	rs := t.Roots(v)
	if len(rs) == 0 {
		return false
	}
	for _, r := range rs {
		if !pred(r) {
			return false
		}
	}
	return true
}

func add(out map[string]Root, kind, name string, v ssa.Value) {
	k := kind + ":" + name
	if _, ok := out[k]; !ok {
		out[k] = Root{Kind: kind, Name: name, V: v}
	}
}

// CellStores returns the values stored into a local cell, including stores
// made by closures capturing it.
func CellStores(cell ssa.Value) []ssa.Value {
	var out []ssa.Value
	seen := map[ssa.Value]bool{}
	var visit func(addr ssa.Value)
	visit = func(addr ssa.Value) {
		if seen[addr] {
			return
		}
		seen[addr] = true
		refs := addr.Referrers()
		if refs == nil {
			return
		}
		for _, ref := range *refs {
			switch u := ref.(type) {
			case *ssa.Store:
				if u.Addr == addr {
					out = append(out, u.Val)
				}
			case *ssa.MakeClosure:
				fn := u.Fn.(*ssa.Function)
				for i, b := range u.Bindings {
					if b == addr && i < len(fn.FreeVars) {
						visit(fn.FreeVars[i])
					}
				}
			}
		}
	}
	visit(cell)
	return out
}

// ResolveFreeVar returns what a free variable is bound to in the enclosing
// function (the captured cell), or nil.
func ResolveFreeVar(fv *ssa.FreeVar) ssa.Value {
	fn := fv.Parent()
	par := fn.Parent()
	if par == nil {
		return nil
	}
	idx := -1
	for i, f := range fn.FreeVars {
		if f == fv {
			idx = i
		}
	}
	var out ssa.Value
	ssau.ForEachInstr(par, true, func(in ssa.Instruction) {
		if mc, ok := in.(*ssa.MakeClosure); ok && mc.Fn == ssa.Value(fn) && idx >= 0 && idx < len(mc.Bindings) {
			out = mc.Bindings[idx]
		}
	})
	return out
}

// CellOf normalises an address to the local cell it denotes: an Alloc, or the
// Alloc a FreeVar is bound to (transitively). nil if addr is not a local cell.
func CellOf(addr ssa.Value) *ssa.Alloc {
	for i := 0; i < 8; i++ {
		switch x := addr.(type) {
		case *ssa.Alloc:
			return x
		case *ssa.FreeVar:
			addr = ResolveFreeVar(x)
			if addr == nil {
				return nil
			}
		default:
			return nil
		}
	}
	return nil
}

// fieldCellStores: stores into field f of the local struct cell al (through
// any FieldAddr of al, also in closures).
func fieldCellStores(al *ssa.Alloc, field int) []ssa.Value {
	var out []ssa.Value
	seen := map[ssa.Value]bool{}
	var visit func(addr ssa.Value)
	visit = func(addr ssa.Value) {
		if seen[addr] {
			return
		}
		seen[addr] = true
		refs := addr.Referrers()
		if refs == nil {
			return
		}
		for _, ref := range *refs {
			switch u := ref.(type) {
			case *ssa.FieldAddr:
				if u.X == addr && u.Field == field {
					for _, r2 := range *u.Referrers() {
						if st, ok := r2.(*ssa.Store); ok && st.Addr == ssa.Value(u) {
							out = append(out, st.Val)
						}
					}
				}
			case *ssa.Store:
				// whole-struct store: the field comes from the stored value
				if u.Addr == addr {
					out = append(out, wholeStruct{u.Val, field})
				}
			case *ssa.MakeClosure:
				fn := u.Fn.(*ssa.Function)
				for i, b := range u.Bindings {
					if b == addr && i < len(fn.FreeVars) {
						visit(fn.FreeVars[i])
					}
				}
			}
		}
	}
	visit(al)
	return out
}

// wholeStruct marks "field #Field of struct value V" in fieldCellStores
// results.
type wholeStruct struct {
	ssa.Value
	Field int
}

func (t *Tracer) walk(v ssa.Value, seen map[ssa.Value]bool, out map[string]Root, depth int) {
	if v == nil {
		return
	}
	if ws, ok := v.(wholeStruct); ok {
		t.walkStructField(ws.Value, ws.Field, seen, out, depth)
		return
	}
	if seen[v] {
		return
	}
	seen[v] = true
	if depth > 60 {
		add(out, "other", "depth-limit", v)
		return
	}
	if t.StopAt != nil {
		if n, ok := t.StopAt(v); ok {
			add(out, "stop", n, v)
			return
		}
	}
	switch x := v.(type) {
	case *ssa.Const:
		if x.Value == nil {
			add(out, "const", "nil", v)
		} else {
			add(out, "const", x.Value.ExactString(), v)
		}
	case *ssa.Phi:
		for _, e := range x.Edges {
			t.walk(e, seen, out, depth+1)
		}
	case *ssa.ChangeType:
		t.walk(x.X, seen, out, depth+1)
	case *ssa.MakeInterface:
		t.walk(x.X, seen, out, depth+1)
	case *ssa.ChangeInterface:
		t.walk(x.X, seen, out, depth+1)
	case *ssa.Convert:
		t.walk(x.X, seen, out, depth+1)
	case *ssa.TypeAssert:
		t.walk(x.X, seen, out, depth+1)
	case *ssa.Parameter:
		t.walkParam(x, seen, out, depth)
	case *ssa.FreeVar:
		// the free variable itself is an address; its value is traced on load
		add(out, "other", "freevar-address", v)
	case *ssa.UnOp:
		if x.Op != token.MUL {
			add(out, "op", x.Op.String(), v)
			return
		}
		t.walkLoad(x, seen, out, depth)
	case *ssa.Field:
		t.walkStructField(x.X, x.Field, seen, out, depth)
	case *ssa.Extract:
		if call, ok := x.Tuple.(*ssa.Call); ok {
			t.walkCall(call, x.Index, v, seen, out, depth)
			return
		}
		add(out, "other", fmt.Sprintf("extract#%d", x.Index), v)
	case *ssa.Call:
		t.walkCall(x, 0, v, seen, out, depth)
	case *ssa.BinOp:
		if t.ThroughOps[x.Op] {
			t.walk(x.X, seen, out, depth+1)
			t.walk(x.Y, seen, out, depth+1)
			return
		}
		add(out, "op", x.Op.String(), v)
	case *ssa.Global:
		add(out, "global", x.String(), v)
	case *ssa.Alloc:
		add(out, "alloc", x.Comment, v)
	case *ssa.MakeSlice, *ssa.MakeMap, *ssa.MakeChan:
		add(out, "make", v.Type().String(), v)
	case *ssa.MakeClosure:
		add(out, "func", x.Fn.Name(), v)
	case *ssa.Function:
		add(out, "func", x.Name(), v)
	case *ssa.Slice:
		add(out, "slice", "reslice", v)
	case *ssa.Lookup:
		add(out, "elem", "lookup", v)
	case *ssa.Index:
		add(out, "elem", "index", v)
	case *ssa.Next, *ssa.Range:
		add(out, "elem", "range", v)
	default:
		add(out, "other", fmt.Sprintf("%T", v), v)
	}
}

func (t *Tracer) walkCall(call *ssa.Call, idx int, v ssa.Value, seen map[ssa.Value]bool, out map[string]Root, depth int) {
	if t.Through != nil {
		if ops := t.Through(call, idx); ops != nil {
			for _, o := range ops {
				t.walk(o, seen, out, depth+1)
			}
			return
		}
	}
	name := ssau.CallName(call)
	if name == "" {
		name = "dynamic"
	}
	if idx > 0 {
		name = fmt.Sprintf("%s#%d", name, idx)
	}
	add(out, "call", name, v)
}

func (t *Tracer) walkParam(p *ssa.Parameter, seen map[ssa.Value]bool, out map[string]Root, depth int) {
	fn := p.Parent()
	idx := -1
	for i, q := range fn.Params {
		if q == p {
			idx = i
		}
	}
	pname := fmt.Sprintf("%s#%d", ssau.FuncName(fn), idx)
	if t.CG == nil || idx < 0 {
		add(out, "param", pname, p)
		return
	}
	node := t.CG.Nodes[fn]
	if node == nil || len(node.In) == 0 {
		if fn.Synthetic != "" {
			return // an uncalled promoted-method / bound-method wrapper contributes nothing
		}
		add(out, "param", pname, p)
		return
	}
	n := 0
	for _, e := range node.In {
		if e.Site == nil {
			continue
		}
		cc := e.Site.Common()
		var args []ssa.Value
		if cc.IsInvoke() {
			args = append([]ssa.Value{cc.Value}, cc.Args...)
		} else {
			args = cc.Args
			// a bound method value / closure call passes no receiver here
			if len(args) != len(fn.Params) {
				continue
			}
		}
		if idx < len(args) {
			n++
			t.walk(args[idx], seen, out, depth+1)
		}
	}
	if n == 0 && fn.Synthetic == "" {
		add(out, "param", pname, p)
	}
}

// reaching returns the values that the stores reaching load u wrote, when the
// versioned-memory analysis can enumerate them exactly.
func (t *Tracer) reaching(u *ssa.UnOp) ([]ssa.Value, bool) {
	if t.Sx == nil || u.Parent() == nil {
		return nil, false
	}
	f := t.Sx.Of(u.Parent())
	key, loc := f.LoadKey(u)
	if key == "" {
		return nil, false
	}
	var vals []ssa.Value
	seen := map[string]bool{}
	var resolve func(ver string) bool
	resolve = func(ver string) bool {
		if seen[ver] {
			return true
		}
		seen[ver] = true
		if in := f.InstrByID(ver); in != nil {
			st, ok := in.(*ssa.Store)
			if !ok {
				return false
			}
			_, l2 := f.LoadKeyOfAddr(st.Addr)
			if l2 != loc {
				return false
			}
			vals = append(vals, st.Val)
			return true
		}
		if jb := f.JoinBlock(ver); jb != nil {
			for _, p := range jb.Preds {
				if !resolve(f.OutVersion(p, key)) {
					return false
				}
			}
			return true
		}
		return false
	}
	if !resolve(f.Version(u)) {
		return nil, false
	}
	return vals, len(vals) > 0
}

func (t *Tracer) walkLoad(u *ssa.UnOp, seen map[ssa.Value]bool, out map[string]Root, depth int) {
	if vals, ok := t.reaching(u); ok {
		for _, v := range vals {
			t.walk(v, seen, out, depth+1)
		}
		return
	}
	switch a := u.X.(type) {
	case *ssa.Alloc, *ssa.FreeVar:
		cell := CellOf(a)
		if cell == nil {
			add(out, "other", "unresolved-freevar", u)
			return
		}
		sts := CellStores(cell)
		if len(sts) == 0 {
			add(out, "const", "zero-value", u)
		}
		for _, s := range sts {
			t.walk(s, seen, out, depth+1)
		}
	case *ssa.FieldAddr:
		if cell := CellOf(a.X); cell != nil {
			sts := fieldCellStores(cell, a.Field)
			if live, ok := liveFieldStores(cell, a.Field, u); ok {
				sts = live
			}
			if len(sts) == 0 {
				add(out, "const", "zero-value", u)
			}
			for _, s := range sts {
				t.walk(s, seen, out, depth+1)
			}
			return
		}
		name := ssau.NamedOf(a.X.Type()) + "." + ssau.FieldName(a)
		// object-sensitive case: the base pointer is the result of a call that
		// returns a fresh object — only stores through that very pointer in
		// this function, and the callee's own initialisation, can be seen.
		if sts, ok := t.freshObjectStores(a); ok {
			if len(sts) == 0 {
				add(out, "const", "zero-value", u)
			}
			for _, s := range sts {
				t.walk(s, seen, out, depth+1)
			}
			return
		}
		if t.FieldStoresIn != nil {
			t.indexFieldStores()
			if sts := t.fieldStores[name]; len(sts) > 0 {
				for _, s := range sts {
					t.walk(s, seen, out, depth+1)
				}
				return
			}
		}
		add(out, "field", name, u)
	case *ssa.IndexAddr:
		add(out, "elem", "index", u)
	case *ssa.Global:
		add(out, "global", a.String(), u)
	default:
		add(out, "other", fmt.Sprintf("load(%T)", u.X), u)
	}
}

// walkStructField traces field #field of the struct value sv.
func (t *Tracer) walkStructField(sv ssa.Value, field int, seen map[ssa.Value]bool, out map[string]Root, depth int) {
	switch s := sv.(type) {
	case *ssa.UnOp:
		if s.Op == token.MUL {
			if cell := CellOf(s.X); cell != nil {
				sts := fieldCellStores(cell, field)
				if live, ok := liveFieldStores(cell, field, s); ok {
					sts = live
				}
				if len(sts) == 0 {
					add(out, "const", "zero-value", sv)
				}
				for _, x := range sts {
					t.walk(x, seen, out, depth+1)
				}
				return
			}
		}
	case *ssa.Parameter:
		// field of a struct passed by value: go to the callers
		key := wholeStructKey{s, field}
		_ = key
		fn := s.Parent()
		idx := -1
		for i, q := range fn.Params {
			if q == s {
				idx = i
			}
		}
		if t.CG != nil && idx >= 0 {
			if node := t.CG.Nodes[fn]; node != nil {
				n := 0
				for _, e := range node.In {
					if e.Site == nil {
						continue
					}
					// a compiler-made wrapper (pointer-receiver form of a value
					// method, bound-method thunk) that nothing calls
					if e.Caller.Func.Synthetic != "" && len(e.Caller.In) == 0 {
						continue
					}
					args := e.Site.Common().Args
					if e.Site.Common().IsInvoke() || len(args) != len(fn.Params) {
						continue
					}
					n++
					t.walkStructField(args[idx], field, seen, out, depth+1)
				}
				if n > 0 {
					return
				}
			}
		}
	case *ssa.Phi:
		for _, e := range s.Edges {
			t.walkStructField(e, field, seen, out, depth+1)
		}
		return
	case *ssa.Const:
		add(out, "const", "zero-value", sv)
		return
	case *ssa.Call:
		// a struct built and returned by a function with a body: the field of
		// what it returns
		if g := s.Common().StaticCallee(); g != nil && len(g.Blocks) > 0 && depth < 12 {
			n := 0
			for _, ret := range ssau.ReturnsOf(g) {
				if len(ret.Results) != 1 {
					n = 0
					break
				}
				n++
				t.walkStructField(ssau.ResultValue(ret, 0), field, seen, out, depth+1)
			}
			if n > 0 {
				return
			}
		}
	}
	name := ssau.NamedOf(sv.Type())
	if st := structOf(sv); st != "" {
		name = st
	}
	add(out, "field", fmt.Sprintf("%s.#%d", name, field), sv)
}

type wholeStructKey struct {
	v ssa.Value
	f int
}

func structOf(v ssa.Value) string { return ssau.NamedOf(v.Type()) }

func (t *Tracer) indexFieldStores() {
	if t.fieldStores != nil {
		return
	}
	t.fieldStores = map[string][]ssa.Value{}
	for _, fn := range t.FieldStoresIn {
		ssau.ForEachInstr(fn, false, func(in ssa.Instruction) {
			st, ok := in.(*ssa.Store)
			if !ok {
				return
			}
			if fa, ok := st.Addr.(*ssa.FieldAddr); ok {
				name := ssau.NamedOf(fa.X.Type()) + "." + ssau.FieldName(fa)
				t.fieldStores[name] = append(t.fieldStores[name], st.Val)
			}
		})
	}
}

// FieldRoots traces field #field of the struct value sv (e.g. an options
// struct passed by value) back to its origins.
func (t *Tracer) FieldRoots(sv ssa.Value, field int) []Root {
	seen := map[ssa.Value]bool{}
	out := map[string]Root{}
	t.walkStructField(sv, field, seen, out, 0)
	var rs []Root
	for _, r := range out {
		rs = append(rs, r)
	}
	sort.Slice(rs, func(i, j int) bool { return rs[i].String() < rs[j].String() })
	return rs
}

// FieldIndex returns the index of the named field in the struct type of v
// (pointers dereferenced), or -1.
func FieldIndex(t types.Type, name string) int {
	if p, ok := t.Underlying().(*types.Pointer); ok {
		t = p.Elem()
	}
	st, ok := t.Underlying().(*types.Struct)
	if !ok {
		return -1
	}
	for i := 0; i < st.NumFields(); i++ {
		if st.Field(i).Name() == name {
			return i
		}
	}
	return -1
}

// freshObjectStores: when fa selects a field of an object returned fresh by a
// statically known callee (every return is a composite literal / new of the
// callee), returns the values stored to that field through the same pointer
// in the loading function plus the callee's initialising stores.
func (t *Tracer) freshObjectStores(fa *ssa.FieldAddr) ([]ssa.Value, bool) {
	// the pointer is a parameter that every caller fills with a fresh object of
	// its own: the field holds what the constructor and that caller stored
	if p, isP := fa.X.(*ssa.Parameter); isP && t.CG != nil {
		fn := p.Parent()
		idx := -1
		for i, q := range fn.Params {
			if q == p {
				idx = i
			}
		}
		node := t.CG.Nodes[fn]
		if node == nil || idx < 0 || len(node.In) == 0 {
			return nil, false
		}
		var vals []ssa.Value
		for _, e := range node.In {
			if e.Site == nil || e.Site.Common().IsInvoke() || e.Site.Common().StaticCallee() != fn || idx >= len(e.Site.Common().Args) {
				return nil, false
			}
			call, ok := e.Site.Common().Args[idx].(*ssa.Call)
			if !ok {
				return nil, false
			}
			vs, ok := t.freshObjectFieldStores(call, fa.Field, e.Caller.Func)
			if !ok {
				return nil, false
			}
			vals = append(vals, vs...)
		}
		return vals, true
	}
	call, ok := fa.X.(*ssa.Call)
	if !ok {
		return nil, false
	}
	return t.freshObjectFieldStores(call, fa.Field, fa.Parent())
}

// freshObjectFieldStores: what field #field of the fresh object returned by
// call can hold inside fn: the constructor's initialisation and the stores
// through that very pointer in fn.
func (t *Tracer) freshObjectFieldStores(call *ssa.Call, field int, fn *ssa.Function) ([]ssa.Value, bool) {
	fa := struct {
		X     ssa.Value
		Field int
	}{call, field}
	cal := call.Common().StaticCallee()
	if cal == nil || cal.Blocks == nil {
		return nil, false
	}
	var vals []ssa.Value
	for _, ret := range ssau.ReturnsOf(cal) {
		if len(ret.Results) == 0 {
			return nil, false
		}
		al, ok := ssau.ResultValue(ret, 0).(*ssa.Alloc)
		if !ok || !al.Heap {
			return nil, false
		}
		vals = append(vals, fieldCellStores(al, fa.Field)...)
	}
	// the pointer must not escape to other functions that could write the field:
	// accept uses as FieldAddr base, method receiver of repo methods that do not
	// store to the field, and nothing else is checked (conservative enough for
	// configuration objects; the caller lists the origins in its evidence).
	ssau.ForEachInstr(fn, true, func(in ssa.Instruction) {
		st, ok := in.(*ssa.Store)
		if !ok {
			return
		}
		if f2, ok := st.Addr.(*ssa.FieldAddr); ok && f2.X == fa.X && f2.Field == fa.Field {
			vals = append(vals, st.Val)
		}
	})
	return vals, true
}

// liveFieldStores: for a whole-struct load of a local struct variable that no
// closure captures, the values of field #field that can still be there: the
// store that dominates the load and is nearest to it kills every store that
// dominates it in turn (flags.limit, _ = GetInt(..); ...; flags.limit = valid).
func liveFieldStores(cell *ssa.Alloc, field int, load *ssa.UnOp) ([]ssa.Value, bool) {
	if load.Parent() != cell.Parent() {
		return nil, false
	}
	type st struct {
		in  *ssa.Store
		val ssa.Value
	}
	var all []st
	for _, ref := range *cell.Referrers() {
		switch u := ref.(type) {
		case *ssa.FieldAddr:
			if u.Field != field {
				continue
			}
			for _, r2 := range *u.Referrers() {
				switch x := r2.(type) {
				case *ssa.Store:
					if x.Addr == ssa.Value(u) {
						all = append(all, st{x, x.Val})
					}
				case *ssa.UnOp:
				default:
					return nil, false // the field's address goes elsewhere
				}
			}
		case *ssa.Store:
			if u.Addr == ssa.Value(cell) {
				all = append(all, st{u, wholeStruct{u.Val, field}})
			} else {
				return nil, false
			}
		case *ssa.UnOp, *ssa.DebugRef:
		default:
			return nil, false // captured, or its address passed on
		}
	}
	dominates := func(a, b ssa.Instruction) bool {
		if a.Block() == b.Block() {
			for _, in := range a.Block().Instrs {
				if in == a {
					return true
				}
				if in == b {
					return false
				}
			}
		}
		return a.Block().Dominates(b.Block())
	}
	var last *st
	for i := range all {
		if dominates(all[i].in, load) && (last == nil || dominates(last.in, all[i].in)) {
			last = &all[i]
		}
	}
	if last == nil {
		return nil, false
	}
	var out []ssa.Value
	for i := range all {
		if &all[i] == last {
			out = append(out, all[i].val)
			continue
		}
		if dominates(all[i].in, last.in) {
			continue // overwritten before the load on every path
		}
		out = append(out, all[i].val)
	}
	return out, true
}
