// Package bounds proves, site by site, that the implicit run-time checks of a
// function cannot fail: index and slice expressions stay inside their
// operand, make sizes are non-negative and bounded, integer divisors are not
// zero. It combines the overflow-aware interval analysis (package interval,
// strict mode, with parameter intervals gathered from the call sites) with
// symbolic facts of the form `a < len(x)` taken from branch conditions and
// loop headers and matched through the canonical versioned renderings of
// package symx: `len(db.Commands@3)` at the guard and at the access are the
// same string exactly when no write to db.Commands can lie between them.
//
// Everything unrecognised is "not proven": the sound direction.
package bounds

import (
	"fmt"
	"go/constant"
	"go/token"
	"go/types"
	"sort"
	"strings"

	"golang.org/x/tools/go/callgraph"
	"golang.org/x/tools/go/ssa"

	"wtfverif/checker/internal/interval"
	"wtfverif/checker/internal/ssau"
	"wtfverif/checker/internal/symx"
)

// Debug prints the interprocedural steps.
var Debug = false

// Site is one implicit run-time check.
type Site struct {
	Fn    *ssa.Function
	Instr ssa.Instruction
	Kind  string // index, string-index, slice, make, divide, assert, call-precondition
	Desc  string
	OK    bool
	How   string
	Why   string
	// for index sites: the operands and which halves are still open
	X, I               ssa.Value
	NeedNonNeg, NeedLT bool
}

// Domain declares that the values held by a location class are valid indices
// of the slices held by another: "every posting.docID is an index into
// Database.Commands". Holder and Into are symx-style names (see Engine.holder).
type Domain struct {
	Holder string // e.g. "field:database.posting.docID", "mapkey:map[int]float64@scores"
	Into   []string
}

// Engine holds the per-program state.
type Engine struct {
	lenEq  map[[2]*ssa.Parameter]bool
	nnBusy map[ssa.Value]bool
	Sx     *symx.Ctx
	CG     *callgraph.Graph
	IsRepo func(*ssa.Function) bool
	// Roots are the entry points: their parameters are unconstrained.
	Roots map[*ssa.Function]bool
	// InScope restricts the call sites used for parameter intervals (nil = all
	// repo callers).
	InScope func(*ssa.Function) bool
	// IndexOK lets the client discharge an index by a declared invariant.
	IndexOK func(c *Fn, x, i ssa.Value, in ssa.Instruction) (bool, string)
	// LenLo lets the client supply lower bounds for len(x) (library contracts).
	LenLo func(c *Fn, x ssa.Value) (int64, bool)
	// UpperOf lets the client name an expression L with i < L for library results.
	UpperOf func(c *Fn, i ssa.Value) []string
	// BoundedOf lets the client prove that v has a finite upper bound of the
	// size of loaded data.
	BoundedOf func(c *Fn, v ssa.Value) bool
	// NonNegOf lets the client prove v >= 0 from what is ever stored in the
	// location class v is read from.
	NonNegOf func(c *Fn, v ssa.Value) bool

	fns   map[*ssa.Function]*Fn
	pmemo map[*ssa.Parameter]interval.Iv
	pbusy map[*ssa.Parameter]bool
	fmemo map[string]interval.Iv
	fbusy map[string]bool
	rmemo map[*ssa.Function]interval.Iv
	rbusy map[*ssa.Function]bool
	depth int
}

func New(sx *symx.Ctx, cg *callgraph.Graph, isRepo func(*ssa.Function) bool) *Engine {
	return &Engine{Sx: sx, CG: cg, IsRepo: isRepo, Roots: map[*ssa.Function]bool{},
		fns: map[*ssa.Function]*Fn{}, pmemo: map[*ssa.Parameter]interval.Iv{}, pbusy: map[*ssa.Parameter]bool{},
		fmemo: map[string]interval.Iv{}, fbusy: map[string]bool{}, rmemo: map[*ssa.Function]interval.Iv{}, rbusy: map[*ssa.Function]bool{}}
}

// relFact: on edge (block, succ): a < b (strict) or a <= b.
type relFact struct {
	block  *ssa.BasicBlock
	succ   int
	a, b   string
	bv     ssa.Value
	strict bool
}

// Fn is the per-function view.
type Fn struct {
	E       *Engine
	fn      *ssa.Function
	F       *symx.Fn
	Q       *interval.Q
	rel     []relFact
	busy    map[string]bool
	subBusy map[*ssa.BinOp]bool
}

func (e *Engine) Of(fn *ssa.Function) *Fn {
	if c, ok := e.fns[fn]; ok {
		return c
	}
	f := e.Sx.Of(fn)
	c := &Fn{E: e, fn: fn, F: f, Q: interval.New(f), busy: map[string]bool{}}
	c.Q.Strict = true
	interval.DebugRel = Debug
	c.Q.Param = func(p *ssa.Parameter) interval.Iv { return e.param(p) }
	c.Q.ParamField = func(p *ssa.Parameter, path string) interval.Iv { return e.paramField(p, path) }
	c.Q.FreeField = func(fv *ssa.FreeVar, path string) interval.Iv { return e.freeField(fv, path) }
	c.Q.Callee = func(q *interval.Q, call *ssa.Call, at *ssa.BasicBlock) (interval.Iv, bool) {
		return e.callResult(c, call, at)
	}
	e.fns[fn] = c
	c.collect()
	return c
}

func isInt(t types.Type) bool {
	b, ok := t.Underlying().(*types.Basic)
	return ok && b.Info()&types.IsInteger != 0
}

func (c *Fn) collect() {
	for _, iff := range ssau.Ifs(c.fn) {
		op, x, y, ok := ssau.CondOf(iff.Cond)
		if !ok || !isInt(x.Type()) {
			continue
		}
		xs, ys := c.F.E(x), c.F.E(y)
		add := func(succ int, o token.Token) {
			switch o {
			case token.LSS:
				c.rel = append(c.rel, relFact{iff.Block(), succ, xs, ys, y, true})
			case token.LEQ:
				c.rel = append(c.rel, relFact{iff.Block(), succ, xs, ys, y, false})
			case token.GTR:
				c.rel = append(c.rel, relFact{iff.Block(), succ, ys, xs, x, true})
			case token.GEQ:
				c.rel = append(c.rel, relFact{iff.Block(), succ, ys, xs, x, false})
			case token.EQL:
				c.rel = append(c.rel, relFact{iff.Block(), succ, xs, ys, y, false}, relFact{iff.Block(), succ, ys, xs, x, false})
			}
		}
		add(0, op)
		add(1, ssau.Negate(op))
	}
}

// holds: every path to block at passes an edge establishing a < b (strict) or
// a <= b.
func (c *Fn) holds(a, b string, strict bool, at *ssa.BasicBlock) bool {
	cut := map[[2]int]bool{}
	for _, r := range c.rel {
		if r.a == a && r.b == b && (r.strict || !strict) {
			if len(r.block.Succs) == 2 && r.block.Succs[0] == r.block.Succs[1] {
				continue
			}
			cut[[2]int{r.block.Index, r.succ}] = true
		}
	}
	return len(cut) > 0 && !ssau.ReachableAvoidingEdges(c.fn, at, cut)
}

// holdsOnEdge: the edge pred->succ itself establishes the fact.
func (c *Fn) holdsOnEdge(a, b string, strict bool, pred, succ *ssa.BasicBlock) bool {
	for _, r := range c.rel {
		if r.block == pred && r.a == a && r.b == b && (r.strict || !strict) && r.succ < len(pred.Succs) && pred.Succs[r.succ] == succ {
			if len(pred.Succs) == 2 && pred.Succs[0] == pred.Succs[1] {
				continue
			}
			return true
		}
	}
	return false
}

// LenExprs: renderings known to equal len(x).
func (c *Fn) LenExprs(x ssa.Value, d int) []string {
	out := []string{"len(" + c.F.E(x) + ")"}
	if d > 6 {
		return out
	}
	switch v := x.(type) {
	case *ssa.MakeSlice:
		out = append(out, c.valueExprs(v.Len)...)
	case *ssa.Slice:
		if v.Low == nil || isConst(v.Low, 0) {
			if v.High != nil {
				out = append(out, c.F.E(v.High))
			} else if _, isStr := v.X.Type().Underlying().(*types.Basic); isStr || isSlice(v.X.Type()) {
				out = append(out, c.LenExprs(v.X, d+1)...)
			}
		}
	case *ssa.UnOp:
		if v.Op == token.MUL {
			if vals, ok := c.F.ReachingStores(v); ok && len(vals) == 1 {
				out = append(out, c.LenExprs(vals[0], d+1)...)
			}
			out = append(out, c.siblingLens(v)...)
		}
	case *ssa.ChangeType:
		out = append(out, c.LenExprs(v.X, d+1)...)
	case *ssa.Call:
		out = append(out, c.builtLen(v)...)
	case *ssa.Parameter:
		// another slice parameter that every caller passes with the same length
		for _, q := range c.fn.Params {
			if q != v && (isSlice(q.Type()) || isString(q.Type())) && c.E.paramLensEqual(c.fn, v, q) {
				out = append(out, "len("+c.F.E(q)+")")
			}
		}
	case *ssa.Phi:
		var common map[string]bool
		for _, e := range v.Edges {
			m := map[string]bool{}
			for _, s := range c.LenExprs(e, d+1) {
				m[s] = true
			}
			if common == nil {
				common = m
			} else {
				for k := range common {
					if !m[k] {
						delete(common, k)
					}
				}
			}
		}
		var ks []string
		for k := range common {
			ks = append(ks, k)
		}
		sort.Strings(ks)
		out = append(out, ks...)
	}
	return out
}

// builtLen: the call returns a slice that a helper of the repository makes
// with len(<parameter>.<field>) elements on every path; when the helper does
// not write that field, this is the length of the same field of the argument
// at the call, named through a load of it in this function that sees the
// same version.
func (c *Fn) builtLen(call *ssa.Call) []string {
	g := call.Common().StaticCallee()
	if g == nil || !c.E.IsRepo(g) || len(g.Blocks) == 0 || g.Signature.Results().Len() != 1 {
		return nil
	}
	var mk *ssa.MakeSlice
	for _, ret := range ssau.ReturnsOf(g) {
		m, ok := ret.Results[0].(*ssa.MakeSlice)
		if !ok || (mk != nil && mk != m) {
			return nil
		}
		mk = m
	}
	if mk == nil {
		return nil
	}
	lc, ok := mk.Len.(*ssa.Call)
	if !ok || ssau.CallName(lc) != "builtin.len" {
		return nil
	}
	// made with len(<slice parameter>): the length of the argument itself
	if sp, isP := lc.Common().Args[0].(*ssa.Parameter); isP {
		for i, q := range g.Params {
			if q == sp && i < len(call.Common().Args) {
				return c.LenExprs(call.Common().Args[i], 1)
			}
		}
		return nil
	}
	ld, ok := lc.Common().Args[0].(*ssa.UnOp)
	if !ok || ld.Op != token.MUL {
		return nil
	}
	fa, ok := ld.X.(*ssa.FieldAddr)
	if !ok {
		return nil
	}
	p, ok := fa.X.(*ssa.Parameter)
	if !ok {
		return nil
	}
	gf := c.E.Sx.Of(g)
	if gf.Version(ld) != "0" {
		return nil // the helper changed the field before sizing the slice
	}
	key, _ := gf.LoadKey(ld)
	if key == "" || c.E.Sx.MayWrite(g, key) {
		return nil
	}
	pi := -1
	for i, q := range g.Params {
		if q == p {
			pi = i
		}
	}
	if pi < 0 || pi >= len(call.Common().Args) {
		return nil
	}
	arg := call.Common().Args[pi]
	ver := c.F.VersionBefore(call, key)
	var out []string
	for _, b := range c.fn.Blocks {
		for _, in := range b.Instrs {
			u, ok := in.(*ssa.UnOp)
			if !ok || u.Op != token.MUL {
				continue
			}
			fa2, ok := u.X.(*ssa.FieldAddr)
			if !ok || fa2.Field != fa.Field || ssau.FieldOwner(fa2) != ssau.FieldOwner(fa) {
				continue
			}
			if c.F.E(fa2.X) == c.F.E(arg) && c.F.Version(u) == ver {
				out = append(out, "len("+c.F.E(u)+")")
			}
		}
	}
	return out
}

// siblingLens: u loads slice field g of the struct a pointer parameter p
// points to, untouched since entry. When at every call site the caller built
// arg.g with exactly len(arg.f) elements for a sibling slice field f (and
// arg.f has not changed since), len(p.g) == len(p.f) on entry: the length is
// named through the loads of p.f in this function that still see the entry
// version.
func (c *Fn) siblingLens(u *ssa.UnOp) []string {
	fa, ok := u.X.(*ssa.FieldAddr)
	if !ok || c.F.Version(u) != "0" {
		return nil
	}
	p, ok := fa.X.(*ssa.Parameter)
	if !ok {
		return nil
	}
	st, ok := derefStruct(p.Type())
	if !ok || !isSlice(st.Field(fa.Field).Type()) {
		return nil
	}
	var out []string
	for f := 0; f < st.NumFields(); f++ {
		if f == fa.Field || !isSlice(st.Field(f).Type()) {
			continue
		}
		if !c.E.siblingLenHolds(p, fa.Field, f) {
			continue
		}
		for _, b := range c.fn.Blocks {
			for _, in := range b.Instrs {
				u2, ok := in.(*ssa.UnOp)
				if !ok || u2.Op != token.MUL {
					continue
				}
				fa2, ok := u2.X.(*ssa.FieldAddr)
				if ok && fa2.X == ssa.Value(p) && fa2.Field == f && c.F.Version(u2) == "0" {
					out = append(out, "len("+c.F.E(u2)+")")
				}
			}
		}
	}
	return out
}

func derefStruct(t types.Type) (*types.Struct, bool) {
	if pt, ok := t.Underlying().(*types.Pointer); ok {
		t = pt.Elem()
	}
	st, ok := t.Underlying().(*types.Struct)
	return st, ok
}

// siblingLenHolds: at every call site of p's function the argument is the
// address of a local struct whose field #g was last assigned a slice made
// with len(<the same struct>.#f) elements, #f unchanged since.
func (e *Engine) siblingLenHolds(p *ssa.Parameter, g, f int) bool {
	key := fmt.Sprintf("sib%p.%d.%d", p, g, f)
	if iv, ok := e.fmemo[key]; ok {
		return iv.LoOK
	}
	res := false
	defer func() { e.fmemo[key] = interval.Iv{LoOK: res} }()
	fn := p.Parent()
	sites, open := e.callers(fn)
	if open || len(sites) == 0 {
		return false
	}
	for _, s := range sites {
		al, ok := argFor(s.Site, fn, p).(*ssa.Alloc)
		if !ok {
			return false
		}
		cc := e.Of(s.Caller.Func)
		var addrG, addrF *ssa.FieldAddr
		for _, ref := range *al.Referrers() {
			if a, ok := ref.(*ssa.FieldAddr); ok {
				if a.Field == g && addrG == nil {
					addrG = a
				}
				if a.Field == f && addrF == nil {
					addrF = a
				}
			}
		}
		if addrG == nil || addrF == nil {
			return false
		}
		call, ok := s.Site.(ssa.Instruction)
		if !ok {
			return false
		}
		keyG, _ := cc.F.LoadKeyOfAddr(addrG)
		keyF, locF := cc.F.LoadKeyOfAddr(addrF)
		if keyG == "" || keyF == "" {
			return false
		}
		def, ok := cc.F.InstrByID(cc.F.VersionBefore(call, keyG)).(*ssa.Store)
		if !ok {
			return false
		}
		if da, ok := def.Addr.(*ssa.FieldAddr); !ok || da.X != ssa.Value(al) || da.Field != g {
			return false
		}
		want := "len(" + locF + "@" + cc.F.VersionBefore(call, keyF) + ")"
		found := false
		for _, x := range cc.LenExprs(def.Val, 0) {
			if x == want {
				found = true
			}
		}
		if Debug {
			fmt.Printf("siblingLen %s #%d~#%d at %s: want %s have %v\n", p.Name(), g, f, s.Caller.Func.Name(), want, cc.LenExprs(def.Val, 0))
		}
		if !found {
			return false
		}
	}
	res = true
	return true
}

// valueExprs: renderings equal to v: its own, and for a load with a single
// reaching store the stored value's.
func (c *Fn) valueExprs(v ssa.Value) []string {
	out := []string{c.F.E(v)}
	if u, ok := v.(*ssa.UnOp); ok && u.Op == token.MUL {
		if vals, ok := c.F.ReachingStores(u); ok && len(vals) == 1 {
			out = append(out, c.F.E(vals[0]))
		}
	}
	return out
}

func isSlice(t types.Type) bool {
	_, ok := t.Underlying().(*types.Slice)
	return ok
}

func isConst(v ssa.Value, k int64) bool {
	c, ok := ssau.ConstInt(v)
	return ok && c == k
}

// LenLo: a numeric lower bound of len(x) at block at.
func (c *Fn) LenLo(x ssa.Value, at *ssa.BasicBlock, d int) int64 {
	var lo int64
	up := func(v int64) {
		if v > lo {
			lo = v
		}
	}
	for k, s := range c.LenExprs(x, 0) {
		base := interval.Iv{}
		if k == 0 {
			base = interval.Iv{LoOK: true, Lo: 0}
		}
		if g := c.Q.GuardBoundFrom(s, at, base); g.LoOK {
			up(g.Lo)
		}
	}
	if d > 6 {
		return lo
	}
	if c.E.LenLo != nil {
		if v, ok := c.E.LenLo(c, x); ok {
			up(v)
		}
	}
	t := x.Type()
	if p, ok := t.Underlying().(*types.Pointer); ok {
		t = p.Elem()
	}
	if a, ok := t.Underlying().(*types.Array); ok {
		up(a.Len())
	}
	switch v := x.(type) {
	case *ssa.Const:
		if v.Value != nil && v.Value.Kind() == constant.String {
			up(int64(len(constant.StringVal(v.Value))))
		}
	case *ssa.MakeSlice:
		if iv := c.Q.At(v.Len, at); iv.LoOK {
			up(iv.Lo)
		}
	case *ssa.Slice:
		// s[lo:hi]: hi - lo
		if v.High != nil {
			hi := c.Q.At(v.High, at)
			var l interval.Iv
			if v.Low == nil {
				l = interval.Iv{LoOK: true, HiOK: true}
			} else {
				l = c.Q.At(v.Low, at)
			}
			if hi.LoOK && l.HiOK {
				up(hi.Lo - l.Hi)
			}
		} else if v.Low == nil {
			up(c.LenLo(v.X, at, d+1))
		} else if iv := c.Q.At(v.Low, at); iv.HiOK {
			up(c.LenLo(v.X, at, d+1) - iv.Hi)
		}
	case *ssa.Call:
		if ssau.CallName(v) == "builtin.append" {
			a := v.Common().Args
			base := c.LenLo(a[0], at, d+1)
			if len(a) == 2 {
				// the variadic operand is a slice: its length adds
				base += c.LenLo(a[1], at, d+1)
			}
			up(base)
		}
	case *ssa.UnOp:
		if v.Op == token.MUL {
			if vals, ok := c.F.ReachingStores(v); ok && len(vals) > 0 {
				m := int64(-1)
				for _, sv := range vals {
					l := c.LenLo(sv, at, d+1)
					if m < 0 || l < m {
						m = l
					}
				}
				up(m)
			}
		}
	case *ssa.Phi:
		m := int64(-1)
		for i, e := range v.Edges {
			l := c.LenLo(e, v.Block().Preds[i], d+1)
			if m < 0 || l < m {
				m = l
			}
		}
		if m > 0 {
			up(m)
		}
	case *ssa.ChangeType:
		up(c.LenLo(v.X, at, d+1))
	}
	return lo
}

// lt proves i < L (strict) or i <= L for the rendering L at block at.
func (c *Fn) lt(i ssa.Value, L string, strict bool, at *ssa.BasicBlock, d int) bool {
	e := c.F.E(i)
	if !strict && e == L {
		return true
	}
	if c.holds(e, L, strict, at) {
		return true
	}
	if d > 8 {
		return false
	}
	key := fmt.Sprintf("%s|%s|%v|%d", e, L, strict, at.Index)
	if c.busy[key] {
		return false
	}
	c.busy[key] = true
	defer delete(c.busy, key)
	if c.E.UpperOf != nil {
		for _, u := range c.E.UpperOf(c, i) {
			if u == L {
				return true
			}
		}
	}
	// transitivity through one intermediate bound: e < B and B <= L
	{
		tried := map[string]bool{}
		for _, r := range c.rel {
			if r.a != e || r.b == L || tried[r.b+fmt.Sprint(r.strict)] {
				continue
			}
			tried[r.b+fmt.Sprint(r.strict)] = true
			if !c.holds(e, r.b, r.strict, at) {
				continue
			}
			// e < B: B <= L suffices; e <= B: B < L needed (for a strict goal)
			need := strict && !r.strict
			if c.holds(r.b, L, need, at) || (r.bv != nil && availableAt(r.bv, at) && c.lt(r.bv, L, need, at, d+1)) {
				return true
			}
		}
	}
	switch v := i.(type) {
	case *ssa.BinOp:
		k, isK := ssau.ConstInt(v.Y)
		switch v.Op {
		case token.SUB:
			if isK && k >= 1 && c.lt(v.X, L, false, at, d+1) {
				return true
			}
			if isK && k >= 0 && c.lt(v.X, L, strict, at, d+1) {
				return true
			}
			// len(x) - y with y >= 1 (y >= 0 for non-strict)
			if iv := c.Q.At(v.Y, at); iv.LoOK && ((strict && iv.Lo >= 1) || (!strict && iv.Lo >= 0)) && c.lt(v.X, L, false, at, d+1) {
				return true
			}
		case token.ADD:
			// a + 1 <= L when a < L
			if isK && k == 1 && !strict && c.lt(v.X, L, true, at, d+1) {
				return true
			}
			if isK && k <= 0 && c.lt(v.X, L, strict, at, d+1) {
				return true
			}
		case token.QUO:
			// a / k <= a for a >= 0, k >= 1
			if iv, ik := c.Q.At(v.X, at), c.Q.At(v.Y, at); iv.LoOK && iv.Lo >= 0 && ik.LoOK && ik.Lo >= 1 && c.lt(v.X, L, strict, at, d+1) {
				return true
			}
		case token.REM:
			// a % L' < L' when L' > 0
			if c.F.E(v.Y) == L {
				if iv, ik := c.Q.At(v.X, at), c.Q.At(v.Y, at); iv.LoOK && iv.Lo >= 0 && ik.LoOK && ik.Lo >= 1 {
					return true
				}
			}
		}
	case *ssa.Convert:
		if isInt(v.X.Type()) && isInt(v.Type()) {
			return c.lt(v.X, L, strict, at, d+1)
		}
	case *ssa.ChangeType:
		return c.lt(v.X, L, strict, at, d+1)
	case *ssa.Phi:
		if len(v.Edges) == 0 {
			return false
		}
		for k, ed := range v.Edges {
			p := v.Block().Preds[k]
			if c.holdsOnEdge(c.F.E(ed), L, strict, p, v.Block()) {
				continue
			}
			// a descending counter: phi - k (k >= 0) stays below whatever the
			// phi is below; no wrap-around while the phi is non-negative there
			if bo, ok := ed.(*ssa.BinOp); ok && bo.X == ssa.Value(v) {
				if k, isK := ssau.ConstInt(bo.Y); isK && ((bo.Op == token.SUB && k >= 0) || (bo.Op == token.ADD && k <= 0)) && k > -1<<32 && k < 1<<32 && c.NonNeg(v, bo.Block()) {
					continue
				}
			}
			// evaluate at the end of the predecessor: facts of its own out-edges do not count
			if !c.ltEnd(ed, L, strict, p, d+1) {
				return false
			}
		}
		return true
	case *ssa.Const:
		// a negative constant is below every length
		if k, ok := ssau.ConstInt(v); ok && k < 0 && strings.HasPrefix(L, "len(") {
			return true
		}
	case *ssa.Call:
		n := ssau.CallName(v)
		// copy(dst, src) returns min(len(dst), len(src))
		if n == "builtin.copy" && !strict && len(v.Common().Args) == 2 {
			for _, a := range v.Common().Args {
				for _, le := range c.LenExprs(a, 0) {
					if le == L {
						return true
					}
				}
			}
		}
		// strings.Index*, strings.LastIndex*, bytes.Index*: -1 or a position in
		// the text (at most len for an empty separator, below len for the
		// byte / rune / set / predicate forms)
		if (strings.HasPrefix(n, "strings.Index") || strings.HasPrefix(n, "strings.LastIndex") || strings.HasPrefix(n, "bytes.Index") || strings.HasPrefix(n, "bytes.LastIndex")) && len(v.Common().Args) >= 1 {
			single := strings.HasSuffix(n, "Byte") || strings.HasSuffix(n, "Any") || strings.HasSuffix(n, "Rune") || strings.HasSuffix(n, "Func")
			if !strict || single {
				for _, le := range c.LenExprs(v.Common().Args[0], 0) {
					if le == L {
						return true
					}
				}
			}
		}
		// slices.Index / IndexFunc / BinarySearch...: -1 or a position in the slice
		if strings.HasPrefix(n, "slices.Index") && len(v.Common().Args) >= 1 {
			for _, le := range c.LenExprs(v.Common().Args[0], 0) {
				if le == L {
					return true
				}
			}
		}
		if n == "builtin.min" || strings.HasSuffix(n, "/internal/utils.Min") {
			for _, a := range v.Common().Args {
				if c.lt(a, L, strict, at, d+1) {
					return true
				}
			}
		}
		// max(a, b, ...): every argument is below L (0 <= any length)
		if (n == "builtin.max" || strings.HasSuffix(n, "/internal/utils.Max")) && len(v.Common().Args) > 0 {
			all := true
			for _, a := range v.Common().Args {
				if k, isK := ssau.ConstInt(a); isK && k == 0 && !strict && strings.HasPrefix(L, "len(") {
					continue
				}
				if !c.lt(a, L, strict, at, d+1) {
					all = false
					break
				}
			}
			if all {
				return true
			}
		}
	case *ssa.Extract:
		// index of a string range: for i, r := range s
		if nx, ok := v.Tuple.(*ssa.Next); ok && v.Index == 1 && nx.IsString {
			if rg, ok := nx.Iter.(*ssa.Range); ok && "len("+c.F.E(rg.X)+")" == L {
				return true
			}
		}
	case *ssa.UnOp:
		if v.Op == token.MUL {
			if vals, ok := c.F.ReachingStores(v); ok && len(vals) > 0 {
				all := true
				for _, sv := range vals {
					in, ok := sv.(ssa.Instruction)
					blk := at
					if ok && in.Block() != nil {
						blk = in.Block()
					}
					_ = blk
					if !c.lt(sv, L, strict, at, d+1) {
						all = false
						break
					}
				}
				if all {
					return true
				}
			}
		}
	}
	// numeric: Hi(i) < Lo(L) when L is a len rendering with a numeric lower bound
	if iv := c.Q.At(i, at); iv.HiOK {
		if g := c.Q.GuardBound(L, at); g.LoOK && ((strict && iv.Hi < g.Lo) || (!strict && iv.Hi <= g.Lo)) {
			return true
		}
	}
	return false
}

// availableAt: the value is defined in a block dominating at (so facts about
// it may be evaluated there).
func availableAt(v ssa.Value, at *ssa.BasicBlock) bool {
	in, ok := v.(ssa.Instruction)
	if !ok || in.Block() == nil {
		return true
	}
	return in.Block() == at || in.Block().Dominates(at)
}

// ltEnd: i < L for control at the end of block b (every fact that holds at
// the start of b, or that b's position in the graph implies).
func (c *Fn) ltEnd(i ssa.Value, L string, strict bool, b *ssa.BasicBlock, d int) bool {
	return c.lt(i, L, strict, b, d)
}

// LT proves i < expr (strict) or i <= expr at block at, for a canonical
// rendering expr of an integer value (symx.Fn.E).
func (c *Fn) LT(i ssa.Value, expr string, strict bool, at *ssa.BasicBlock) bool {
	return c.lt(i, expr, strict, at, 0)
}

// Below proves i < len(x) (strict) or i <= len(x) at block at.
func (c *Fn) Below(i, x ssa.Value, strict bool, at *ssa.BasicBlock) bool {
	for _, L := range c.LenExprs(x, 0) {
		if c.lt(i, L, strict, at, 0) {
			return true
		}
	}
	if call, ok := i.(*ssa.Call); ok && c.calleeBelow(call, x, strict) {
		return true
	}
	if iv := c.Q.At(i, at); iv.HiOK {
		lo := c.LenLo(x, at, 0)
		if (strict && iv.Hi < lo) || (!strict && iv.Hi <= lo) {
			return true
		}
	}
	return false
}

// calleeBelow: the index is the result of a helper of the repository, x is a
// load of a field of one of the helper's arguments that neither the helper
// nor anything between the call and the load writes, and every return of the
// helper is proven below (or at most) the length of that same field of its
// parameter as seen at its entry (h.counts[h.bucketIndex(v)]).
func (c *Fn) calleeBelow(call *ssa.Call, x ssa.Value, strict bool) bool {
	g := call.Common().StaticCallee()
	if g == nil || !c.E.IsRepo(g) || len(g.Blocks) == 0 || g.Signature.Results().Len() != 1 || c.E.depth > 10 {
		return false
	}
	ld, ok := x.(*ssa.UnOp)
	if !ok || ld.Op != token.MUL {
		return false
	}
	fa, ok := ld.X.(*ssa.FieldAddr)
	if !ok {
		return false
	}
	key, _ := c.F.LoadKey(ld)
	if key == "" || c.E.Sx.MayWrite(g, key) || c.F.Version(ld) != c.F.VersionBefore(call, key) {
		return false
	}
	pi := -1
	for k, a := range call.Common().Args {
		if c.F.E(a) == c.F.E(fa.X) && k < len(g.Params) {
			pi = k
		}
	}
	if pi < 0 {
		return false
	}
	gc := c.E.Of(g)
	var xs []ssa.Value
	for _, b := range g.Blocks {
		for _, in := range b.Instrs {
			u, ok := in.(*ssa.UnOp)
			if !ok || u.Op != token.MUL {
				continue
			}
			fa2, ok := u.X.(*ssa.FieldAddr)
			if ok && fa2.Field == fa.Field && fa2.X == ssa.Value(g.Params[pi]) && gc.F.Version(u) == "0" {
				xs = append(xs, u)
			}
		}
	}
	if len(xs) == 0 {
		return false
	}
	c.E.depth++
	defer func() { c.E.depth-- }()
	rets := ssau.ReturnsOf(g)
	for _, ret := range rets {
		ok := false
		for _, xg := range xs {
			if gc.Below(ret.Results[0], xg, strict, ret.Block()) {
				ok = true
				break
			}
		}
		if !ok {
			return false
		}
	}
	return len(rets) > 0
}

// NonNeg proves i >= 0 at block at.
func (c *Fn) NonNeg(i ssa.Value, at *ssa.BasicBlock) bool {
	if iv := c.Q.At(i, at); iv.LoOK && iv.Lo >= 0 {
		return true
	}
	// unsigned
	if b, ok := i.Type().Underlying().(*types.Basic); ok && b.Info()&types.IsUnsigned != 0 {
		return true
	}
	if ex, ok := i.(*ssa.Extract); ok {
		if nx, ok := ex.Tuple.(*ssa.Next); ok && ex.Index == 1 && nx.IsString {
			return true
		}
	}
	if c.E.NonNegOf != nil && c.E.NonNegOf(c, i) {
		return true
	}
	// min of non-negatives; max with a non-negative
	if call, ok := i.(*ssa.Call); ok {
		n := ssau.CallName(call)
		if n == "builtin.copy" || n == "builtin.len" || n == "builtin.cap" {
			return true
		}
		isMin := n == "builtin.min" || strings.HasSuffix(n, "/internal/utils.Min")
		isMax := n == "builtin.max" || strings.HasSuffix(n, "/internal/utils.Max")
		if (isMin || isMax) && len(call.Common().Args) > 0 {
			all, any := true, false
			for _, a := range call.Common().Args {
				if c.NonNeg(a, at) {
					any = true
				} else {
					all = false
				}
			}
			if (isMin && all) || (isMax && any) {
				return true
			}
		}
	}
	// a parameter that every caller fills with a non-negative argument
	if p, ok := i.(*ssa.Parameter); ok && !c.E.nnBusy[p] {
		if c.E.nnBusy == nil {
			c.E.nnBusy = map[ssa.Value]bool{}
		}
		c.E.nnBusy[p] = true
		defer delete(c.E.nnBusy, p)
		if sites, open := c.E.callers(c.fn); !open && len(sites) > 0 {
			all := true
			for _, s := range sites {
				a := argFor(s.Site, c.fn, p)
				if a == nil || !c.E.Of(s.Caller.Func).NonNeg(a, s.Site.Block()) {
					all = false
					break
				}
			}
			if all {
				return true
			}
		}
	}
	// a field of a struct that a helper of the repository built and returned
	// (opts := buildOptions(..); opts.Limit): what the helper put there
	if u, ok := i.(*ssa.UnOp); ok && u.Op == token.MUL && !c.E.nnBusy[u] {
		if fa, ok := u.X.(*ssa.FieldAddr); ok {
			if cell, ok := fa.X.(*ssa.Alloc); ok {
				if call := onlyCallStored(cell, fa.Field); call != nil {
					if c.E.nnBusy == nil {
						c.E.nnBusy = map[ssa.Value]bool{}
					}
					c.E.nnBusy[u] = true
					defer delete(c.E.nnBusy, u)
					if c.E.callFieldNonNeg(call, fa.Field) {
						return true
					}
				}
			}
		}
	}
	// x - y with 0 <= y <= x (no wrap-around: the difference lies in [0, x])
	if bo, ok := i.(*ssa.BinOp); ok && bo.Op == token.SUB && !c.subBusy[bo] {
		if c.subBusy == nil {
			c.subBusy = map[*ssa.BinOp]bool{}
		}
		c.subBusy[bo] = true
		defer delete(c.subBusy, bo)
		if c.NonNeg(bo.Y, at) && c.NonNeg(bo.X, at) && c.leqVals(bo.Y, bo.X, at) {
			return true
		}
	}
	return false
}

// leqVals proves a <= b for two values at block at.
func (c *Fn) leqVals(a, b ssa.Value, at *ssa.BasicBlock) bool {
	ea, eb := c.F.E(a), c.F.E(b)
	if ea == eb || c.holds(ea, eb, false, at) {
		return true
	}
	ia, ib := c.Q.At(a, at), c.Q.At(b, at)
	if ia.HiOK && ib.LoOK && ia.Hi <= ib.Lo {
		return true
	}
	return c.lt(a, eb, false, at, 0)
}

// Sites enumerates and decides the implicit checks of fn.
func (e *Engine) Sites(fn *ssa.Function) []Site {
	c := e.Of(fn)
	var out []Site
	add := func(in ssa.Instruction, kind, desc string, ok bool, how, why string) {
		out = append(out, Site{Fn: fn, Instr: in, Kind: kind, Desc: desc, OK: ok, How: how, Why: why})
	}
	addIdx := func(in ssa.Instruction, kind string, x, i ssa.Value) {
		ok, how, why, nn, lt := c.indexParts(x, i, in)
		out = append(out, Site{Fn: fn, Instr: in, Kind: kind, Desc: c.F.Plain(x) + "[" + c.F.Plain(i) + "]", OK: ok, How: how, Why: why, X: x, I: i, NeedNonNeg: nn, NeedLT: lt})
	}
	for _, b := range fn.Blocks {
		for _, in := range b.Instrs {
			switch x := in.(type) {
			case *ssa.IndexAddr:
				addIdx(in, "index", x.X, x.Index)
			case *ssa.Index:
				addIdx(in, "index", x.X, x.Index)
			case *ssa.Lookup:
				if bt, ok := x.X.Type().Underlying().(*types.Basic); ok && bt.Info()&types.IsString != 0 {
					addIdx(in, "string-index", x.X, x.Index)
				}
			case *ssa.Slice:
				ok, how, why := c.slice(x)
				add(in, "slice", c.F.Plain(x), ok, how, why)
			case *ssa.MakeSlice:
				ok, how, why := c.makeSlice(x)
				add(in, "make", c.F.Plain(x.Len)+", "+c.F.Plain(x.Cap), ok, how, why)
			case *ssa.BinOp:
				if (x.Op == token.QUO || x.Op == token.REM) && isInt(x.Type()) {
					iv := c.Q.At(x.Y, b)
					ok := (iv.LoOK && iv.Lo >= 1) || (iv.HiOK && iv.Hi <= -1)
					add(in, "divide", c.F.Plain(x), ok, "divisor interval excludes zero", "the divisor "+c.F.Plain(x.Y)+" is not proven non-zero")
				}
			case *ssa.TypeAssert:
				if !x.CommaOk {
					ok := false
					if mi, isMI := x.X.(*ssa.MakeInterface); isMI && types.Identical(mi.X.Type(), x.AssertedType) {
						ok = true
					}
					add(in, "assert", c.F.Plain(x), ok, "asserted type is the boxed type", "a single-result type assertion panics when the dynamic type differs")
				}
			case *ssa.SliceToArrayPointer:
				add(in, "slice", c.F.Plain(x), false, "", "slice-to-array conversion panics when the slice is too short")
			}
		}
	}
	return out
}

func (c *Fn) index(x, i ssa.Value, in ssa.Instruction) (bool, string, string) {
	ok, how, why, _, _ := c.indexParts(x, i, in)
	return ok, how, why
}

func (c *Fn) indexParts(x, i ssa.Value, in ssa.Instruction) (ok bool, how, why string, needNN, needLT bool) {
	at := in.Block()
	if c.E.IndexOK != nil {
		if ok, how := c.E.IndexOK(c, x, i, in); ok {
			return true, how, "", false, false
		}
	}
	if ok, how := c.sortCallback(x, i); ok {
		return true, how, "", false, false
	}
	needNN = !c.NonNeg(i, at)
	needLT = !c.Below(i, x, true, at)
	switch {
	case needNN && needLT:
		why = "the index " + c.F.Plain(i) + " is proven neither non-negative nor below len(" + c.F.Plain(x) + ")"
	case needNN:
		why = "the index " + c.F.Plain(i) + " is not proven non-negative"
	case needLT:
		why = "the index " + c.F.Plain(i) + " is not proven below len(" + c.F.Plain(x) + ")"
	default:
		return true, "0 <= index < len by guard, loop header, construction or interval", "", false, false
	}
	return false, "", why, needNN, needLT
}

func (c *Fn) slice(x *ssa.Slice) (bool, string, string) {
	at := x.Block()
	// bound: len for strings and arrays, cap for slices (len suffices)
	if x.Max != nil {
		return false, "", "three-index slices are not analysed"
	}
	if x.Low != nil && !c.NonNeg(x.Low, at) {
		return false, "", "the low bound " + c.F.Plain(x.Low) + " is not proven non-negative"
	}
	if x.High != nil {
		if !c.NonNeg(x.High, at) {
			return false, "", "the high bound " + c.F.Plain(x.High) + " is not proven non-negative"
		}
		if !c.Below(x.High, x.X, false, at) && !c.belowCap(x.High, x.X, at) {
			return false, "", "the high bound " + c.F.Plain(x.High) + " is not proven <= len(" + c.F.Plain(x.X) + ")"
		}
		if x.Low != nil && !c.leqVals(x.Low, x.High, at) {
			return false, "", "low bound " + c.F.Plain(x.Low) + " is not proven <= high bound " + c.F.Plain(x.High)
		}
		return true, "0 <= low <= high <= len", ""
	}
	if x.Low != nil && !c.Below(x.Low, x.X, false, at) && !c.summandOfLen(x.Low, x.X, at) {
		return false, "", "the low bound " + c.F.Plain(x.Low) + " is not proven <= len(" + c.F.Plain(x.X) + ")"
	}
	return true, "0 <= low <= len", ""
}

// summandOfLen: x was made with a + b elements, v is a (or b) and the other
// summand is non-negative: v <= len(x).
func (c *Fn) summandOfLen(v, x ssa.Value, at *ssa.BasicBlock) bool {
	mk, ok := ssau.ResolveCell(x).(*ssa.MakeSlice)
	if !ok {
		return false
	}
	sum, ok := mk.Len.(*ssa.BinOp)
	if !ok || sum.Op != token.ADD {
		return false
	}
	same := func(a ssa.Value) bool { return a == v || c.F.E(a) == c.F.E(v) }
	if same(sum.X) && c.NonNeg(sum.Y, mk.Block()) {
		return true
	}
	return same(sum.Y) && c.NonNeg(sum.X, mk.Block())
}

// boundedByData: v is read from loaded data (a field), not computed from a
// request parameter: its size is that of something already in memory.
func (c *Fn) boundedByData(v ssa.Value, at *ssa.BasicBlock) bool {
	if c.E.BoundedOf != nil {
		return c.E.BoundedOf(c, v)
	}
	return false
}

// belowCap: hi <= cap(x) through a guard on cap or because x[:0] keeps its capacity.
func (c *Fn) belowCap(hi, x ssa.Value, at *ssa.BasicBlock) bool {
	return c.lt(hi, "cap("+c.F.E(x)+")", false, at, 0)
}

func (c *Fn) makeSlice(x *ssa.MakeSlice) (bool, string, string) {
	at := x.Block()
	l := c.Q.At(x.Len, at)
	if !(l.LoOK && l.Lo >= 0) && !c.NonNeg(x.Len, at) {
		return false, "", "the length " + c.F.Plain(x.Len) + " is not proven non-negative"
	}
	if !l.HiOK && !c.boundedByData(x.Len, at) {
		return false, "", "the length " + c.F.Plain(x.Len) + " has no upper bound: an arbitrary request would allocate without limit"
	}
	if x.Cap != x.Len {
		k := c.Q.At(x.Cap, at)
		if !(k.LoOK && k.Lo >= 0) && !c.NonNeg(x.Cap, at) {
			return false, "", "the capacity " + c.F.Plain(x.Cap) + " is not proven non-negative"
		}
		if !k.HiOK && !c.boundedByData(x.Cap, at) {
			return false, "", "the capacity " + c.F.Plain(x.Cap) + " has no upper bound: an arbitrary request would allocate without limit"
		}
		if !(l.HiOK && l.Hi <= k.Lo) && !c.leqVals(x.Len, x.Cap, at) {
			return false, "", "length " + c.F.Plain(x.Len) + " is not proven <= capacity " + c.F.Plain(x.Cap)
		}
	}
	return true, "0 <= len <= cap, both bounded", ""
}

// ---------------------------------------------------------------------------
// interprocedural intervals

func (e *Engine) callers(fn *ssa.Function) (sites []*callgraph.Edge, open bool) {
	if e.Roots[fn] {
		return nil, true
	}
	node := e.CG.Nodes[fn]
	if node == nil || len(node.In) == 0 {
		return nil, true
	}
	for _, in := range node.In {
		cf := in.Caller.Func
		if Debug {
			fmt.Printf("   in-edge of %s from %v site=%v synthetic=%q\n", fn.Name(), cf, in.Site != nil, func() string {
				if cf != nil {
					return cf.Synthetic
				}
				return ""
			}())
		}
		if cf == nil || in.Site == nil {
			return nil, true
		}
		if cf.Synthetic != "" {
			// a promoted-method or bound-method wrapper that nothing calls
			// contributes no arguments; a called one forwards unknown ones
			if wn := e.CG.Nodes[cf]; wn == nil || len(wn.In) == 0 {
				continue
			}
			return nil, true
		}
		if !e.IsRepo(cf) {
			return nil, true
		}
		if e.InScope != nil && !e.InScope(cf) {
			continue
		}
		sites = append(sites, in)
	}
	if len(sites) == 0 {
		return nil, true
	}
	return sites, false
}

func argFor(site ssa.CallInstruction, fn *ssa.Function, p *ssa.Parameter) ssa.Value {
	idx := -1
	for i, q := range fn.Params {
		if q == p {
			idx = i
		}
	}
	if idx < 0 {
		return nil
	}
	cm := site.Common()
	args := cm.Args
	if cm.IsInvoke() {
		if idx == 0 {
			return cm.Value
		}
		idx--
	}
	if idx >= len(args) {
		return nil
	}
	return args[idx]
}

func (e *Engine) param(p *ssa.Parameter) interval.Iv {
	if iv, ok := e.pmemo[p]; ok {
		return iv
	}
	if e.pbusy[p] || e.depth > 12 {
		return interval.Iv{}
	}
	if !isInt(p.Type()) {
		return interval.Iv{}
	}
	e.pbusy[p] = true
	e.depth++
	defer func() { delete(e.pbusy, p); e.depth-- }()
	fn := p.Parent()
	sites, open := e.callers(fn)
	if Debug {
		fmt.Printf("param %s of %s: %d sites open=%v\n", p.Name(), fn, len(sites), open)
	}
	if open {
		e.pmemo[p] = interval.Iv{}
		return interval.Iv{}
	}
	var out interval.Iv
	for k, s := range sites {
		a := argFor(s.Site, fn, p)
		var iv interval.Iv
		if a != nil {
			iv = e.Of(s.Caller.Func).Q.At(a, s.Site.Block())
		}
		if Debug {
			fmt.Printf("   site in %s: arg %v -> %+v\n", s.Caller.Func, a, iv)
		}
		if k == 0 {
			out = iv
		} else {
			out = out.Hull(iv)
		}
	}
	e.pmemo[p] = out
	return out
}

func (e *Engine) paramField(p *ssa.Parameter, path string) interval.Iv {
	key := fmt.Sprintf("%p.%s", p, path)
	if iv, ok := e.fmemo[key]; ok {
		return iv
	}
	if e.fbusy[key] || e.depth > 12 {
		return interval.Iv{}
	}
	e.fbusy[key] = true
	e.depth++
	defer func() { delete(e.fbusy, key); e.depth-- }()
	fn := p.Parent()
	sites, open := e.callers(fn)
	if open {
		e.fmemo[key] = interval.Iv{}
		return interval.Iv{}
	}
	var out interval.Iv
	for k, s := range sites {
		a := argFor(s.Site, fn, p)
		iv := e.fieldOfValue(e.Of(s.Caller.Func), a, path, s.Site)
		if k == 0 {
			out = iv
		} else {
			out = out.Hull(iv)
		}
	}
	e.fmemo[key] = out
	return out
}

// freeField: interval of (field path of) a captured variable when closure
// fv.Parent() is entered: the hull, over the closure's call sites, of the
// variable's value just before the call. Only for a closure whose every use
// is a direct call in the function that creates it (it cannot run later).
func (e *Engine) freeField(fv *ssa.FreeVar, path string) interval.Iv {
	key := fmt.Sprintf("fv%p.%s", fv, path)
	if iv, ok := e.fmemo[key]; ok {
		return iv
	}
	if e.fbusy[key] || e.depth > 12 {
		return interval.Iv{}
	}
	e.fbusy[key] = true
	e.depth++
	defer func() { delete(e.fbusy, key); e.depth-- }()
	clo := fv.Parent()
	par := clo.Parent()
	cell := ssau.FreeVarCell(fv)
	if par == nil || cell == nil || cell.Parent() != par {
		return interval.Iv{}
	}
	var calls []*ssa.Call
	escapes := false
	ssau.ForEachInstr(par, false, func(in ssa.Instruction) {
		mc, ok := in.(*ssa.MakeClosure)
		if !ok || mc.Fn != ssa.Value(clo) {
			return
		}
		for _, ref := range *mc.Referrers() {
			switch r := ref.(type) {
			case *ssa.Call:
				if r.Common().Value == ssa.Value(mc) {
					calls = append(calls, r)
				} else {
					escapes = true
				}
			case *ssa.DebugRef:
			default:
				escapes = true
			}
		}
	})
	if escapes || len(calls) == 0 {
		e.fmemo[key] = interval.Iv{}
		return interval.Iv{}
	}
	pc := e.Of(par)
	var out interval.Iv
	for k, call := range calls {
		var mk, loc string
		if path == "" {
			mk, loc = symx.Cell(cell)
		} else {
			mk, loc = symx.CellField(cell, path)
		}
		if mk == "" {
			return interval.Iv{}
		}
		ver := pc.F.VersionBefore(call, mk)
		iv := pc.Q.MemAt(mk, loc, ver, call.Block())
		if Debug {
			fmt.Printf("freeField %s.%s at call %s: key=%s loc=%s ver=%s -> %+v\n", fv.Name(), path, call, mk, loc, ver, iv)
		}
		if k == 0 {
			out = iv
		} else {
			out = out.Hull(iv)
		}
	}
	e.fmemo[key] = out
	return out
}

// fieldOfValue: interval of field path of the struct value a, read just
// before instruction at.
func (e *Engine) fieldOfValue(c *Fn, a ssa.Value, path string, at ssa.Instruction) interval.Iv {
	switch v := a.(type) {
	case *ssa.Parameter:
		return e.paramField(v, path)
	case *ssa.UnOp:
		if v.Op != token.MUL {
			return interval.Iv{}
		}
		if al, ok := v.X.(*ssa.Alloc); ok {
			key, loc := symx.CellField(al, path)
			if key == "" {
				return interval.Iv{}
			}
			ver := c.F.VersionBefore(v, key)
			return c.Q.MemAt(key, loc, ver, v.Block())
		}
	}
	return interval.Iv{}
}

// callResult: the interval of an integer result of a repo function, from its
// return statements evaluated with the parameter intervals of all its callers
// (a sound over-approximation for this call).
func (e *Engine) callResult(c *Fn, call *ssa.Call, at *ssa.BasicBlock) (interval.Iv, bool) {
	fn := call.Common().StaticCallee()
	if fn == nil || !e.IsRepo(fn) || len(fn.Blocks) == 0 || fn.Signature.Results().Len() != 1 || !isInt(fn.Signature.Results().At(0).Type()) {
		return interval.Iv{}, false
	}
	if iv, ok := e.rmemo[fn]; ok {
		return iv, true
	}
	if e.rbusy[fn] || e.depth > 12 {
		return interval.Iv{}, false
	}
	e.rbusy[fn] = true
	e.depth++
	defer func() { delete(e.rbusy, fn); e.depth-- }()
	cc := e.Of(fn)
	var out interval.Iv
	first := true
	for _, ret := range ssau.ReturnsOf(fn) {
		iv := cc.Q.At(ret.Results[0], ret.Block())
		if Debug {
			fmt.Printf("result of %s: return %s -> %+v\n", fn.Name(), cc.F.Plain(ret.Results[0]), iv)
			if bo, ok := ret.Results[0].(*ssa.BinOp); ok {
				fmt.Printf("    X=%+v Y=%+v guard=%+v\n", cc.Q.At(bo.X, ret.Block()), cc.Q.At(bo.Y, ret.Block()), cc.Q.GuardBound(cc.F.E(bo.X), ret.Block()))
			}
		}
		if first {
			out, first = iv, false
		} else {
			out = out.Hull(iv)
		}
	}
	e.rmemo[fn] = out
	return out, true
}

// sortCallback: fn is the less function handed to sort.Slice/SliceStable
// together with the very slice variable it indexes: the sort calls it only
// with 0 <= i, j < len(slice).
func (c *Fn) sortCallback(x, i ssa.Value) (bool, string) {
	p, ok := i.(*ssa.Parameter)
	if !ok || c.fn.Parent() == nil || len(c.fn.Params) != 2 {
		return false, ""
	}
	_ = p
	u, ok := x.(*ssa.UnOp)
	if !ok || u.Op != token.MUL {
		return false, ""
	}
	fv, ok := u.X.(*ssa.FreeVar)
	if !ok {
		return false, ""
	}
	// the closure never assigns the captured variable
	for _, ref := range *fv.Referrers() {
		if st, ok := ref.(*ssa.Store); ok && st.Addr == ssa.Value(fv) {
			return false, ""
		}
	}
	fvIdx := -1
	for k, f := range c.fn.FreeVars {
		if f == fv {
			fvIdx = k
		}
	}
	if fvIdx < 0 {
		return false, ""
	}
	parent := c.fn.Parent()
	found, good := 0, 0
	ssau.ForEachInstr(parent, false, func(in ssa.Instruction) {
		mc, ok := in.(*ssa.MakeClosure)
		if !ok || mc.Fn != ssa.Value(c.fn) {
			return
		}
		found++
		cell := mc.Bindings[fvIdx]
		refs := mc.Referrers()
		if refs == nil || len(*refs) != 1 {
			return
		}
		call, ok := (*refs)[0].(*ssa.Call)
		if !ok {
			return
		}
		n := ssau.CallName(call)
		if n != "sort.Slice" && n != "sort.SliceStable" {
			return
		}
		a := call.Common().Args
		if len(a) != 2 || a[1] != ssa.Value(mc) {
			return
		}
		mi, ok := a[0].(*ssa.MakeInterface)
		if !ok {
			return
		}
		ld, ok := mi.X.(*ssa.UnOp)
		if !ok || ld.Op != token.MUL || ld.X != cell {
			return
		}
		// no store to the variable between its load and the sort
		if ld.Block() != call.Block() {
			return
		}
		seen := false
		for _, x := range call.Block().Instrs {
			if x == ssa.Instruction(ld) {
				seen = true
				continue
			}
			if x == ssa.Instruction(call) {
				break
			}
			if st, ok := x.(*ssa.Store); ok && seen && st.Addr == cell {
				return
			}
		}
		good++
	})
	if found > 0 && found == good {
		return true, "index parameter of the less function of sort.Slice over the same slice variable"
	}
	return false, ""
}

func isString(t types.Type) bool {
	b, ok := t.Underlying().(*types.Basic)
	return ok && b.Info()&types.IsString != 0
}

// paramLensEqual: at every call site of fn (all known, all in scope) the
// arguments for p and q have the same length: a dominating test established
// len(arg p) == len(arg q).
func (e *Engine) paramLensEqual(fn *ssa.Function, p, q *ssa.Parameter) bool {
	key := [2]*ssa.Parameter{p, q}
	if v, ok := e.lenEq[key]; ok {
		return v
	}
	if e.lenEq == nil {
		e.lenEq = map[[2]*ssa.Parameter]bool{}
	}
	e.lenEq[key] = false // recursion guard
	sites, open := e.callers(fn)
	if open || len(sites) == 0 {
		return false
	}
	for _, s := range sites {
		cc := e.Of(s.Caller.Func)
		a, b := argFor(s.Site, fn, p), argFor(s.Site, fn, q)
		if a == nil || b == nil {
			return false
		}
		ok := false
		for _, la := range cc.LenExprs(a, 0) {
			for _, lb := range cc.LenExprs(b, 0) {
				if la == lb || (cc.holds(la, lb, false, s.Site.Block()) && cc.holds(lb, la, false, s.Site.Block())) {
					ok = true
				}
			}
		}
		if !ok {
			return false
		}
	}
	e.lenEq[key] = true
	return true
}

// onlyCallStored: the local struct cell is assigned exactly once, as a whole,
// from the result of a call, and field #field is never stored to separately.
func onlyCallStored(cell *ssa.Alloc, field int) *ssa.Call {
	var call *ssa.Call
	n := 0
	for _, ref := range *cell.Referrers() {
		switch r := ref.(type) {
		case *ssa.Store:
			if r.Addr == ssa.Value(cell) {
				n++
				call, _ = r.Val.(*ssa.Call)
			}
		case *ssa.FieldAddr:
			if r.Field != field {
				continue
			}
			for _, r2 := range *r.Referrers() {
				if st, ok := r2.(*ssa.Store); ok && st.Addr == ssa.Value(r) {
					return nil
				}
			}
		}
	}
	if n != 1 {
		return nil
	}
	return call
}

// callFieldNonNeg: every return of the repository function called hands back
// a struct whose field #field holds a value proven non-negative in the callee.
func (e *Engine) callFieldNonNeg(call *ssa.Call, field int) bool {
	g := call.Common().StaticCallee()
	if g == nil || !e.IsRepo(g) || len(g.Blocks) == 0 || g.Signature.Results().Len() != 1 {
		return false
	}
	gc := e.Of(g)
	n := 0
	for _, ret := range ssau.ReturnsOf(g) {
		ld, ok := ret.Results[0].(*ssa.UnOp)
		if !ok {
			return false
		}
		lit, ok := ld.X.(*ssa.Alloc)
		if !ok {
			return false
		}
		stores := 0
		for _, ref := range *lit.Referrers() {
			switch r := ref.(type) {
			case *ssa.Store:
				if r.Addr == ssa.Value(lit) {
					return false
				}
			case *ssa.FieldAddr:
				if r.Field != field {
					continue
				}
				for _, r2 := range *r.Referrers() {
					if st, ok := r2.(*ssa.Store); ok && st.Addr == ssa.Value(r) {
						stores++
						if !gc.NonNeg(st.Val, st.Block()) {
							return false
						}
					}
				}
			}
		}
		if stores == 0 {
			// the zero value
		}
		n++
	}
	return n > 0
}
