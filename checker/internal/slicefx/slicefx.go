// Package slicefx is the slice-derivation engine (E6 of DESIGN.md). For
// slice-typed SSA values it derives
//
//   - length bounds: a set of symbolic upper bounds, each of which alone is
//     valid: "limit:<expr>" (len <= expr, expr rendered by package symx in
//     the analysed function's own terms) and "len:<expr>" (len <= len(expr)),
//     plus the fact Empty; function summaries translate bounds across calls;
//   - order: whether the slice is known to be sorted by descending Score at a
//     program point, by a forward must-dataflow in which a total sort call
//     with a Score-descending comparator establishes the fact, element writes
//     and unknown calls kill it, prefix reslices and pass-through callees
//     preserve it.
//
// Anything unrecognised yields no bound / not sorted, the sound direction.
package slicefx

import (
	"fmt"
	"go/token"
	"go/types"
	"sort"
	"strings"

	"golang.org/x/tools/go/ssa"

	"wtfverif/checker/internal/pathev"
	"wtfverif/checker/internal/ssau"
	"wtfverif/checker/internal/symx"
)

// Engine holds the configuration shared by bound and order analyses.
type Engine struct {
	Sx     *symx.Ctx
	IsRepo func(*ssa.Function) bool
	// IsDescCmp recognises a comparator closure that orders by descending
	// Score (first key).
	IsDescCmp func(*ssa.Function) bool
	// ElemType is the slice element type whose order matters (SearchResult);
	// ElemTypes lists further element types treated alike (the cache's copy).
	ElemType  string
	ElemTypes []string
	// Callees resolves dynamic calls through the call graph (nil: unknown).
	Callees func(site ssa.CallInstruction) []*ssa.Function
	// BoundCall lets rules give bounds for special calls (cache lookups).
	BoundCall  func(c *BCtx, call *ssa.Call, idx int) (Bounds, bool)
	sortsParam map[*ssa.Function][]int
	// SortedCall lets rules decide sortedness of special calls' results.
	SortedCall func(call *ssa.Call, idx int) (sorted bool, known bool)
	// ExtraSortedCall lets the caller declare library calls whose result is
	// sorted by descending score of its elements (not used for SearchResult).
	boundSum  map[*ssa.Function]*BoundSummary
	boundBusy map[*ssa.Function]bool
	ordSum    map[ordKey]OrderSummary
	ordBusy   map[*ssa.Function]bool
}

func New(sx *symx.Ctx, isRepo func(*ssa.Function) bool, isDesc func(*ssa.Function) bool, elem string) *Engine {
	return &Engine{Sx: sx, IsRepo: isRepo, IsDescCmp: isDesc, ElemType: elem,
		boundSum: map[*ssa.Function]*BoundSummary{}, boundBusy: map[*ssa.Function]bool{},
		ordSum: map[ordKey]OrderSummary{}, ordBusy: map[*ssa.Function]bool{}}
}

// ---------------------------------------------------------------------------
// bounds

// Bounds is a set of alternative upper bounds on the length of a slice.
type Bounds struct {
	Empty  bool
	Limits map[string]ssa.Value // E-string of an int expression -> one SSA value rendering to it
	Lens   map[string]ssa.Value // E-string of a slice expression
	Why    string
}

func top(why string) Bounds { return Bounds{Why: why} }

func (b Bounds) IsTop() bool { return !b.Empty && len(b.Limits) == 0 && len(b.Lens) == 0 }

func (b Bounds) String() string {
	if b.Empty {
		return "empty"
	}
	var parts []string
	for k := range b.Limits {
		parts = append(parts, "<= "+k)
	}
	for k := range b.Lens {
		parts = append(parts, "<= len("+k+")")
	}
	sort.Strings(parts)
	if len(parts) == 0 {
		return "unbounded (" + b.Why + ")"
	}
	return strings.Join(parts, " and ")
}

func meet(a, b Bounds) Bounds {
	if a.Empty {
		return b
	}
	if b.Empty {
		return a
	}
	o := Bounds{Limits: map[string]ssa.Value{}, Lens: map[string]ssa.Value{}}
	for k, v := range a.Limits {
		if _, ok := b.Limits[k]; ok {
			o.Limits[k] = v
		}
	}
	for k, v := range a.Lens {
		if _, ok := b.Lens[k]; ok {
			o.Lens[k] = v
		}
	}
	if o.IsTop() {
		o.Why = "paths disagree: " + a.String() + " vs " + b.String()
	}
	return o
}

func (b Bounds) with(o Bounds) Bounds {
	if b.Empty || o.Empty {
		return Bounds{Empty: true}
	}
	n := Bounds{Limits: map[string]ssa.Value{}, Lens: map[string]ssa.Value{}}
	for k, v := range b.Limits {
		n.Limits[k] = v
	}
	for k, v := range b.Lens {
		n.Lens[k] = v
	}
	for k, v := range o.Limits {
		n.Limits[k] = v
	}
	for k, v := range o.Lens {
		n.Lens[k] = v
	}
	return n
}

// BoundSummary describes the result of a function in terms of its parameters.
type BoundSummary struct {
	Empty bool
	// LimitParams: len(result) <= eff(param i [.field path]) for each entry.
	LimitParams []ParamPath
	// LenParams: len(result) <= len(param i).
	LenParams []int
	Why       string
	// Alts: when the returns of the function are bounded in different ways
	// (one by the list it was given, another by a limit), one summary per
	// return: the result obeys one of them, and the caller joins what they
	// mean for its own arguments.
	Alts []*BoundSummary
}

// ParamPath names an int parameter or an int field of a struct parameter.
type ParamPath struct {
	Param int
	Field string // "" for the parameter itself
	// Outer: for a closure, a (field of a) parameter of the enclosing
	// function that the closure reads through a captured variable
	// (Param is -1 then).
	Outer *ssa.Parameter
}

// BCtx is the per-function bound context (exported for hooks).
type BCtx = bctx

type bctx struct {
	depthFieldOf int
	e            *Engine
	fn           *ssa.Function
	f            *symx.Fn
	memo         map[ssa.Value]Bounds
	busy         map[ssa.Value]bool
}

// FieldLimitKey names, as a canonical limit key, the value of field name of
// struct value sv in fn ("" when it cannot be resolved): through local
// literals, parameter copies and projection helpers.
func (e *Engine) FieldLimitKey(fn *ssa.Function, sv ssa.Value, name string) string {
	c := &bctx{e: e, fn: fn, f: e.Sx.Of(fn), memo: map[ssa.Value]Bounds{}, busy: map[ssa.Value]bool{}}
	fv := c.fieldOf(sv, name)
	if fv == nil {
		return ""
	}
	return c.limKey(fv)
}

// BoundsOf computes the bounds of slice value v of function fn.
func (e *Engine) BoundsOf(fn *ssa.Function, v ssa.Value) Bounds {
	c := &bctx{e: e, fn: fn, f: e.Sx.Of(fn), memo: map[ssa.Value]Bounds{}, busy: map[ssa.Value]bool{}}
	return c.of(v, 0)
}

func (c *bctx) of(v ssa.Value, d int) Bounds {
	if b, ok := c.memo[v]; ok {
		return b
	}
	if c.busy[v] || d > 50 {
		return top("cyclic derivation")
	}
	c.busy[v] = true
	b := c.compute(v, d)
	delete(c.busy, v)
	c.memo[v] = b
	return b
}

// limKey canonicalises a limit expression: a (defaulted) limit parameter or
// limit field of a struct parameter is named "param:<name>.<field>" whatever
// SSA value carries it; anything else by its symbolic rendering.
func (c *bctx) limKey(v ssa.Value) string {
	if pp, ok := limitParam(c, v); ok {
		return "param:" + pp.p.Name() + "." + pp.field
	}
	// a field of a struct value held in a register (options := build(...);
	// options.Limit): named by the value and the field, however it is read
	switch x := v.(type) {
	case valueField:
		return "field:" + c.f.E(x.sv) + "." + x.field
	case *ssa.Field:
		if _, isCall := x.X.(*ssa.Call); isCall {
			return "field:" + c.f.E(x.X) + "." + ssau.FieldName(x)
		}
	case *ssa.UnOp:
		if fa, ok := x.X.(*ssa.FieldAddr); ok && x.Op == token.MUL {
			if cell, ok := fa.X.(*ssa.Alloc); ok {
				// the cell holds nothing but one call's result
				var call *ssa.Call
				n := 0
				for _, ref := range *cell.Referrers() {
					switch r := ref.(type) {
					case *ssa.Store:
						if r.Addr == ssa.Value(cell) {
							n++
							call, _ = r.Val.(*ssa.Call)
						}
					case *ssa.FieldAddr:
						for _, r2 := range *r.Referrers() {
							if st, ok := r2.(*ssa.Store); ok && st.Addr == ssa.Value(r) {
								n += 2
							}
						}
					}
				}
				if n == 1 && call != nil {
					if fv, ok := c.fieldOf(call, ssau.FieldName(fa)).(valueField); ok {
						return c.limKey(fv)
					}
				}
			}
		}
	}
	// a load of a field of a local struct that was initialised once from a
	// literal: name the value the literal gave that field
	if u, ok := v.(*ssa.UnOp); ok && u.Op == token.MUL {
		if fa, ok := u.X.(*ssa.FieldAddr); ok {
			if cell, ok := fa.X.(*ssa.Alloc); ok {
				if v2 := c.initialField(cell, fa.Field, ssau.FieldName(fa), u); v2 != nil && v2 != v {
					return c.limKey(v2)
				}
			}
		}
	}
	return c.f.E(v)
}

// initialField: the local struct cell has no store to field #f, exactly one
// whole-struct store, which dominates the use, copying a literal whose field
// was stored once; returns that stored value.
func (c *bctx) initialField(cell *ssa.Alloc, f int, name string, use ssa.Instruction) ssa.Value {
	var whole []*ssa.Store
	for _, ref := range *cell.Referrers() {
		switch r := ref.(type) {
		case *ssa.FieldAddr:
			if r.Field == f {
				for _, r2 := range *r.Referrers() {
					if st, ok := r2.(*ssa.Store); ok && st.Addr == ssa.Value(r) {
						return nil
					}
				}
			}
		case *ssa.Store:
			if r.Addr == ssa.Value(cell) {
				whole = append(whole, r)
			}
		}
	}
	if len(whole) != 1 || !ssau.Dominates(whole[0], use) {
		return nil
	}
	ld, ok := whole[0].Val.(*ssa.UnOp)
	if !ok {
		return nil
	}
	tmp, ok := ld.X.(*ssa.Alloc)
	if !ok {
		return nil
	}
	var val ssa.Value
	n := 0
	for _, ref := range *tmp.Referrers() {
		if fa, ok := ref.(*ssa.FieldAddr); ok && fa.Field == f {
			for _, r2 := range *fa.Referrers() {
				if st, ok := r2.(*ssa.Store); ok && st.Addr == ssa.Value(fa) {
					val = st.Val
					n++
				}
			}
		}
	}
	if n == 1 {
		return val
	}
	return nil
}

// LimitKey is limKey for rules.
func (e *Engine) LimitKey(fn *ssa.Function, v ssa.Value) string {
	c := &bctx{e: e, fn: fn, f: e.Sx.Of(fn), memo: map[ssa.Value]Bounds{}, busy: map[ssa.Value]bool{}}
	return c.limKey(v)
}

func lenBound(f *symx.Fn, v ssa.Value) Bounds {
	return Bounds{Limits: map[string]ssa.Value{}, Lens: map[string]ssa.Value{f.E(v): v}}
}

func (c *bctx) compute(v ssa.Value, d int) Bounds {
	switch x := v.(type) {
	case *ssa.Const:
		if x.Value == nil {
			return Bounds{Empty: true}
		}
	case *ssa.MakeSlice:
		if n, ok := ssau.ConstInt(x.Len); ok && n == 0 {
			return Bounds{Empty: true}
		}
		// make([]T, len(src)): bounded by len(src)
		if lc, ok := x.Len.(*ssa.Call); ok && ssau.CallName(lc) == "builtin.len" {
			src := lc.Common().Args[0]
			return c.of(src, d+1).with(lenBound(c.f, src))
		}
		return top("make with a non-constant length")
	case *ssa.Slice:
		base := c.of(x.X, d+1).with(lenBound(c.f, x.X))
		if x.Low != nil {
			if n, ok := ssau.ConstInt(x.Low); !ok || n != 0 {
				// a suffix/infix is no longer than the base only if High is nil or guarded; keep base bounds when High == nil
				if x.High == nil {
					return base
				}
				return top("reslice with both bounds")
			}
		}
		if x.High == nil {
			return base
		}
		// x[:min(len(x), L)] — bounded by L without any guard
		if mc, ok := x.High.(*ssa.Call); ok {
			n := ssau.CallName(mc)
			if (n == "builtin.min" || strings.HasSuffix(n, "/utils.Min")) && len(mc.Common().Args) == 2 {
				a0, a1 := mc.Common().Args[0], mc.Common().Args[1]
				isLenX := func(v ssa.Value) bool {
					lc, ok := v.(*ssa.Call)
					return ok && ssau.CallName(lc) == "builtin.len" && c.f.E(lc.Common().Args[0]) == c.f.E(x.X)
				}
				var lim ssa.Value
				if isLenX(a0) {
					lim = a1
				} else if isLenX(a1) {
					lim = a0
				}
				if lim != nil {
					nb := Bounds{Limits: map[string]ssa.Value{c.limKey(lim): lim}, Lens: map[string]ssa.Value{}}
					return base.with(nb)
				}
			}
		}
		// prefix x[:H]: len == H, valid as "<= H" only if H <= len(x) is established (otherwise the reslice can extend into the capacity)
		if c.guardedLE(x.High, x.X, x.Block()) {
			nb := Bounds{Limits: map[string]ssa.Value{c.limKey(x.High): x.High}, Lens: map[string]ssa.Value{}}
			return base.with(nb)
		}
		return top("x[:n] without an established n <= len(x): the reslice may extend the slice up to its capacity")
	case *ssa.Phi:
		if b, ok := c.builder(x, d); ok {
			return b
		}
		var out Bounds
		for i, e := range x.Edges {
			b := c.at(e, x.Block().Preds[i], x.Block(), d+1)
			if i == 0 {
				out = b
			} else {
				out = meet(out, b)
			}
		}
		return out
	case *ssa.UnOp:
		if x.Op == token.MUL {
			sts, ok := c.f.ReachingStores(x)
			if !ok {
				return top("value loaded from memory whose writers cannot be enumerated: " + c.f.Plain(x))
			}
			var out Bounds
			for i, st := range sts {
				b := c.of(st, d+1)
				if !b.Empty {
					// bounds established for this stored value on every path from its store to the load
					if g := c.storeGuards(x, st); len(g.Limits) > 0 {
						b = b.with(g)
					}
				}
				if i == 0 {
					out = b
				} else {
					out = meet(out, b)
				}
			}
			return out
		}
	case *ssa.ChangeType:
		return c.of(x.X, d+1)
	case *ssa.Parameter:
		return lenBound(c.f, x)
	case *ssa.Extract:
		if call, ok := x.Tuple.(*ssa.Call); ok {
			return c.call(call, x.Index, d)
		}
	case *ssa.Call:
		if ssau.CallName(x) == "builtin.append" {
			return top("append")
		}
		return c.call(x, 0, d)
	case *ssa.TypeAssert:
		return top("type assertion")
	}
	return top(fmt.Sprintf("unrecognised derivation %T", v))
}

// guardedLE: on every path to block at, hi <= len(x) has been established by
// a branch `len(x) > hi` (true edge) / `len(x) >= hi` / `hi < len(x)` ...
func (c *bctx) guardedLE(hi, x ssa.Value, at *ssa.BasicBlock) bool {
	sh, sx := c.f.E(hi), "len("+c.f.E(x)+")"
	cut := map[[2]int]bool{}
	for _, iff := range ssau.Ifs(c.fn) {
		op, a, b, ok := ssau.CondOf(iff.Cond)
		if !ok {
			continue
		}
		sa, sb := c.f.E(a), c.f.E(b)
		if sa == sh && sb == sx {
			sa, sb, op = sb, sa, ssau.Flip(op)
		}
		if sa != sx || sb != sh {
			continue
		}
		switch op {
		case token.GTR, token.GEQ:
			cut[[2]int{iff.Block().Index, 0}] = true
		case token.LSS, token.LEQ:
			cut[[2]int{iff.Block().Index, 1}] = true
		}
	}
	if len(cut) == 0 {
		return false
	}
	return !ssau.ReachableAvoidingEdges(c.fn, at, cut)
}

// builder recognises `out := <empty>; for ... range src { ...; out = append(out, one) }`
// and returns len(out) <= len(src) when every iteration appends at most once.
func (c *bctx) builder(phi *ssa.Phi, d int) (Bounds, bool) {
	blk := phi.Block()
	var loop *ssau.RangeLoop
	for _, l := range ssau.RangeLoops(c.fn) {
		l := l
		if l.Header == blk {
			loop = &l
		}
	}
	if loop == nil {
		return Bounds{}, false
	}
	var init ssa.Value
	for i, e := range phi.Edges {
		p := blk.Preds[i]
		if !loop.InLoop(p) && p != loop.Header {
			init = e
			continue
		}
		// loop-carried value: must derive from phi by at most appends of one element
		if !derivesByAppend(e, phi, 0) {
			return Bounds{}, false
		}
	}
	if init == nil {
		return Bounds{}, false
	}
	ib := c.of(init, d+1)
	if !ib.Empty {
		return Bounds{}, false
	}
	// at most one append (to this variable) per iteration
	eng := pathev.New(func(in ssa.Instruction) []string {
		if call, ok := in.(*ssa.Call); ok && ssau.CallName(call) == "builtin.append" && reachesPhi(call.Common().Args[0], phi, 0) {
			if !singleElem(call) {
				return []string{"append", "append"}
			}
			return []string{"append"}
		}
		return nil
	}, nil)
	m, _, ok := eng.Between(loop.Body, loop.Header)
	if ok && !m.Get("append").AtMostOnce() {
		return Bounds{}, false
	}
	if loop.Over == nil {
		return Bounds{}, false
	}
	if loop.IsMap {
		return Bounds{Limits: map[string]ssa.Value{}, Lens: map[string]ssa.Value{c.f.E(loop.Over): loop.Over}}, true
	}
	return c.of(loop.Over, d+1).with(lenBound(c.f, loop.Over)), true
}

func singleElem(call *ssa.Call) bool {
	if len(call.Common().Args) < 2 {
		return false
	}
	sl, ok := call.Common().Args[1].(*ssa.Slice)
	if !ok {
		return false
	}
	al, ok := sl.X.(*ssa.Alloc)
	if !ok {
		return false
	}
	at, ok := derefArr(al.Type())
	return ok && at.Len() == 1
}

func derefArr(t types.Type) (*types.Array, bool) {
	if p, ok := t.Underlying().(*types.Pointer); ok {
		t = p.Elem()
	}
	a, ok := t.Underlying().(*types.Array)
	return a, ok
}

func reachesPhi(v ssa.Value, phi *ssa.Phi, d int) bool {
	if v == ssa.Value(phi) {
		return true
	}
	if d > 10 {
		return false
	}
	switch x := v.(type) {
	case *ssa.Phi:
		for _, e := range x.Edges {
			if reachesPhi(e, phi, d+1) {
				return true
			}
		}
	case *ssa.Call:
		if ssau.CallName(x) == "builtin.append" {
			return reachesPhi(x.Common().Args[0], phi, d+1)
		}
	}
	return false
}

func derivesByAppend(v ssa.Value, phi *ssa.Phi, d int) bool {
	if v == ssa.Value(phi) {
		return true
	}
	if d > 10 {
		return false
	}
	switch x := v.(type) {
	case *ssa.Phi:
		for _, e := range x.Edges {
			if !derivesByAppend(e, phi, d+1) {
				return false
			}
		}
		return true
	case *ssa.Call:
		if ssau.CallName(x) == "builtin.append" {
			return derivesByAppend(x.Common().Args[0], phi, d+1)
		}
	case *ssa.MakeSlice:
		// if list == nil { list = make([]T, 0, n) }: an empty list put in the
		// place of the list only when that is nil — the same sequence
		if k, ok := x.Len.(*ssa.Const); !ok || k.Value == nil || k.Int64() != 0 {
			return false
		}
		b := x.Block()
		if len(b.Preds) != 1 {
			return false
		}
		p := b.Preds[0]
		if len(p.Instrs) == 0 || len(p.Succs) != 2 || p.Succs[0] != b {
			return false
		}
		iff, ok := p.Instrs[len(p.Instrs)-1].(*ssa.If)
		if !ok {
			return false
		}
		cmp, ok := iff.Cond.(*ssa.BinOp)
		if !ok || cmp.Op != token.EQL {
			return false
		}
		switch {
		case ssau.IsNilConst(cmp.Y):
			return derivesByAppend(cmp.X, phi, d+1)
		case ssau.IsNilConst(cmp.X):
			return derivesByAppend(cmp.Y, phi, d+1)
		}
	}
	return false
}

func (c *bctx) call(call *ssa.Call, idx int, d int) Bounds {
	if c.e.BoundCall != nil {
		if b, ok := c.e.BoundCall(c, call, idx); ok {
			return b
		}
	}
	cal := call.Common().StaticCallee()
	if cal == nil && c.e.Callees != nil {
		// dynamic call: every possible callee must give the bound
		cs := c.e.Callees(call)
		if len(cs) == 0 {
			return top("dynamic call with no resolved callee")
		}
		var out Bounds
		for i, t := range cs {
			b := c.callee(call, t, idx, d)
			if i == 0 {
				out = b
			} else {
				out = meet(out, b)
			}
		}
		return out
	}
	if cal == nil || !c.e.IsRepo(cal) || cal.Blocks == nil {
		return top("result of " + ssau.CallName(call))
	}
	return c.callee(call, cal, idx, d)
}

func (c *bctx) callee(call *ssa.Call, cal *ssa.Function, idx int, d int) Bounds {
	sum := c.e.BoundSummaryOf(cal, idx)
	if len(sum.Alts) > 0 {
		var acc Bounds
		for i, alt := range sum.Alts {
			b := c.applySummary(call, cal, alt, d)
			if i == 0 {
				acc = b
			} else {
				acc = meet(acc, b)
			}
		}
		return acc
	}
	return c.applySummary(call, cal, sum, d)
}

func (c *bctx) applySummary(call *ssa.Call, cal *ssa.Function, sum *BoundSummary, d int) Bounds {
	if sum.Empty {
		return Bounds{Empty: true}
	}
	out := Bounds{Limits: map[string]ssa.Value{}, Lens: map[string]ssa.Value{}, Why: sum.Why}
	args := call.Common().Args
	for _, lp := range sum.LimitParams {
		if lp.Param >= len(args) {
			continue
		}
		if lp.Outer != nil {
			// the closure reads the enclosing function's own limit: meaningful
			// only when the caller is that function
			if lp.Outer.Parent() == c.fn {
				var v ssa.Value = lp.Outer
				if lp.Field != "" {
					v = paramField{lp.Outer, lp.Field}
				}
				out.Limits[c.limKey(v)] = v
			}
			continue
		}
		a := args[lp.Param]
		if lp.Field == "" {
			out.Limits[c.limKey(a)] = a
			continue
		}
		if fv := c.fieldOf(a, lp.Field); fv != nil {
			out.Limits[c.limKey(fv)] = fv
		}
	}
	for _, p := range sum.LenParams {
		if p >= len(args) {
			continue
		}
		a := args[p]
		ab := c.of(a, d+1)
		if ab.Empty {
			return Bounds{Empty: true}
		}
		out = out.with(ab).with(lenBound(c.f, a))
	}
	if out.IsTop() && out.Why == "" {
		out.Why = "callee " + cal.Name() + " gives no bound"
	}
	return out
}

// fieldOf resolves the value of field name of the struct value sv (a load of
// a local struct cell): the single store reaching the load, or a load of the
// field itself when the struct is passed on unchanged.
func (c *bctx) fieldOf(sv ssa.Value, name string) ssa.Value {
	if p, ok := sv.(*ssa.Parameter); ok {
		return paramField{p, name}
	}
	// a struct built by a helper of the repository from its parameters
	// (cacheOptions := toCacheOptions(options)): the field is what the helper
	// puts there, expressed over this call's arguments
	if call, ok := sv.(*ssa.Call); ok {
		g := call.Common().StaticCallee()
		if g == nil || !c.e.IsRepo(g) || g.Blocks == nil || c.depthFieldOf > 3 {
			return nil
		}
		gc := &bctx{e: c.e, fn: g, f: c.e.Sx.Of(g), memo: map[ssa.Value]Bounds{}, busy: map[ssa.Value]bool{}, depthFieldOf: c.depthFieldOf + 1}
		var out ssa.Value
		for _, ret := range ssau.ReturnsOf(g) {
			if len(ret.Results) != 1 {
				return nil
			}
			fv := gc.fieldOf(ret.Results[0], name)
			// normalise what the helper stored: a field of one of its parameters, or a parameter
			if fld, ok := fv.(*ssa.Field); ok {
				if p, ok := fld.X.(*ssa.Parameter); ok {
					fv = paramField{p, ssau.FieldName(fld)}
				}
			} else if ld, ok := fv.(*ssa.UnOp); ok && ld.Op == token.MUL && isParamFieldAddr(ld.X) {
				// the helper takes the struct by pointer: options.Limit through *SearchOptions
				fa := ld.X.(*ssa.FieldAddr)
				fv = paramField{fa.X.(*ssa.Parameter), ssau.FieldName(fa)}
			} else if _, ok := fv.(paramField); !ok && fv != nil {
				if pp, ok := limitParam(gc, fv); ok {
					if pp.field != "" {
						fv = paramField{pp.p, pp.field}
					} else {
						fv = pp.p
					}
				}
			}
			pf, isPF := fv.(paramField)
			if !isPF {
				// a plain parameter of the helper
				if p, isP := fv.(*ssa.Parameter); isP {
					for i, q := range g.Params {
						if q == p && i < len(call.Common().Args) {
							fv = call.Common().Args[i]
						}
					}
				} else {
					return nil
				}
			} else {
				var arg ssa.Value
				for i, q := range g.Params {
					if q == pf.Parameter && i < len(call.Common().Args) {
						arg = call.Common().Args[i]
					}
				}
				if arg == nil {
					return nil
				}
				fv = c.fieldOf(arg, pf.field)
			}
			if fv == nil || (out != nil && c.limKey(out) != c.limKey(fv)) {
				return valueField{sv, name}
			}
			out = fv
		}
		if out == nil {
			return valueField{sv, name}
		}
		return out
	}
	var u *ssa.UnOp
	cell, isAddr := sv.(*ssa.Alloc) // the address of a struct variable handed to a helper
	if !isAddr {
		var ok bool
		u, ok = sv.(*ssa.UnOp)
		if !ok || u.Op != token.MUL {
			return nil
		}
		cell, ok = u.X.(*ssa.Alloc)
		if !ok {
			return nil
		}
	}
	// look for a load of cell.name in the same function with the same version as this whole-struct load would see:
	// simplest exact case — exactly one store to cell.name (or none: then take whole-struct stores)
	var stores []*ssa.Store
	var whole []*ssa.Store
	for _, ref := range *cell.Referrers() {
		switch r := ref.(type) {
		case *ssa.FieldAddr:
			if ssau.FieldName(r) == name {
				for _, r2 := range *r.Referrers() {
					if st, ok := r2.(*ssa.Store); ok && st.Addr == ssa.Value(r) {
						stores = append(stores, st)
					}
				}
			}
		case *ssa.Store:
			if r.Addr == ssa.Value(cell) {
				whole = append(whole, r)
			}
		}
	}
	// the field store(s) reaching this load: require that every field store dominates the load and take the last dominating one;
	// conditional stores (defaulting) are represented by a fresh load of the field at the call: synthesise via versions
	if len(stores) == 0 && len(whole) == 1 {
		// struct copied from another value (parameter spill): field of that value
		if p, ok := whole[0].Val.(*ssa.Parameter); ok {
			return paramField{p, name}
		}
		if ld, ok := whole[0].Val.(*ssa.UnOp); ok {
			return c.fieldOf(ld, name)
		}
		if call, ok := whole[0].Val.(*ssa.Call); ok {
			return c.fieldOf(call, name) // options := buildOptions(...)
		}
		return nil
	}
	if len(stores) == 1 && (u == nil || ssau.Dominates(stores[0], u)) {
		if u != nil || stores[0].Block() == cell.Block() {
			return stores[0].Val
		}
	}
	if u == nil {
		return nil
	}
	// several stores (e.g. defaulting `if L <= 0 { opts.Limit = 10 }`): name the location at this point
	return cellField{c.f, u, cell, name}
}

func isParamFieldAddr(a ssa.Value) bool {
	fa, ok := a.(*ssa.FieldAddr)
	if !ok {
		return false
	}
	_, ok = fa.X.(*ssa.Parameter)
	return ok
}

// paramField / cellField are symbolic stand-ins rendered specially by E().
type paramField struct {
	*ssa.Parameter
	field string
}

func (p paramField) Name() string { return p.Parameter.Name() + "." + p.field }

// valueField names field `field` of a struct value held in a register (the
// result of a call): the value is immutable, so the name denotes one number.
type valueField struct {
	sv    ssa.Value
	field string
}

func (vf valueField) Name() string                  { return vf.sv.Name() + "." + vf.field }
func (vf valueField) String() string                { return vf.Name() }
func (vf valueField) Type() types.Type              { return types.Typ[types.Int] }
func (vf valueField) Parent() *ssa.Function         { return vf.sv.Parent() }
func (vf valueField) Referrers() *[]ssa.Instruction { return nil }
func (vf valueField) Pos() token.Pos                { return vf.sv.Pos() }

type cellField struct {
	f     *symx.Fn
	at    *ssa.UnOp
	cell  *ssa.Alloc
	field string
}

func (cf cellField) Name() string                  { return cf.cell.Comment + "." + cf.field }
func (cf cellField) String() string                { return cf.Name() }
func (cf cellField) Type() types.Type              { return types.Typ[types.Int] }
func (cf cellField) Parent() *ssa.Function         { return cf.cell.Parent() }
func (cf cellField) Referrers() *[]ssa.Instruction { return nil }
func (cf cellField) Pos() token.Pos                { return cf.at.Pos() }

// BoundSummaryOf computes (memoised) the bound summary of result idx of fn.
func (e *Engine) BoundSummaryOf(fn *ssa.Function, idx int) *BoundSummary {
	if s, ok := e.boundSum[fn]; ok {
		return s
	}
	if e.boundBusy[fn] {
		return &BoundSummary{Why: "recursive"}
	}
	e.boundBusy[fn] = true
	defer delete(e.boundBusy, fn)
	c := &bctx{e: e, fn: fn, f: e.Sx.Of(fn), memo: map[ssa.Value]Bounds{}, busy: map[ssa.Value]bool{}}
	var acc Bounds
	var per []Bounds
	first := true
	for _, ret := range ssau.ReturnsOf(fn) {
		if idx >= len(ret.Results) {
			continue
		}
		b := c.at(ssau.ResultValue(ret, idx), nil, ret.Block(), 0)
		per = append(per, b)
		if first {
			acc, first = b, false
		} else {
			acc = meet(acc, b)
		}
	}
	s := c.summarise(acc)
	if first {
		s.Why = "no return"
	}
	if !s.Empty && len(s.LimitParams) == 0 && len(s.LenParams) == 0 && len(per) > 1 {
		for _, b := range per {
			if a := c.summarise(b); a.Empty || len(a.LimitParams) > 0 || len(a.LenParams) > 0 {
				s.Alts = append(s.Alts, a)
			} else {
				s.Alts = nil
				break
			}
		}
	}
	e.boundSum[fn] = s
	return s
}

// summarise expresses bounds of a value of c.fn over the function's parameters.
func (c *bctx) summarise(acc Bounds) *BoundSummary {
	fn := c.fn
	s := &BoundSummary{Empty: acc.Empty, Why: acc.Why}
	pidx := func(p *ssa.Parameter) int {
		for i, q := range fn.Params {
			if q == p {
				return i
			}
		}
		return -1
	}
	for _, v := range acc.Limits {
		if pp, ok := limitParam(c, v); ok {
			if i := pidx(pp.p); i >= 0 {
				s.LimitParams = append(s.LimitParams, ParamPath{Param: i, Field: pp.field})
			} else if pp.p.Parent() != fn {
				s.LimitParams = append(s.LimitParams, ParamPath{Param: -1, Field: pp.field, Outer: pp.p})
			}
		}
	}
	for _, v := range acc.Lens {
		if p, ok := v.(*ssa.Parameter); ok {
			if i := pidx(p); i >= 0 {
				s.LenParams = append(s.LenParams, i)
			}
		} else if p := ssau.ParamOf(v); p != nil {
			if i := pidx(p); i >= 0 {
				s.LenParams = append(s.LenParams, i)
			}
		}
	}
	sort.Slice(s.LimitParams, func(i, j int) bool { return s.LimitParams[i].Param < s.LimitParams[j].Param })
	sort.Ints(s.LenParams)
	return s
}

type pfield struct {
	p     *ssa.Parameter
	field string
}

// limitParam: the limit expression v is (a defaulted version of) an int
// parameter or of an int field of a struct parameter.
func limitParam(c *bctx, v ssa.Value) (pfield, bool) {
	switch x := v.(type) {
	case *ssa.Parameter:
		return pfield{x, ""}, true
	case paramField:
		return pfield{x.Parameter, x.field}, true
	case cellField:
		// the struct parameter's local copy handed on whole to a callee: the
		// field the callee reads is the (possibly defaulted) field of the parameter
		if p := spilledParam(x.cell); p != nil {
			if st, ok := derefStructOf(x.cell.Type()); ok {
				for i := 0; i < st.NumFields(); i++ {
					if st.Field(i).Name() == x.field && onlyConstFieldStores(x.cell, i) {
						return pfield{p, x.field}, true
					}
				}
			}
		}
		return pfield{}, false
	case *ssa.Phi:
		// defaulting: phi(param, const)
		var pp pfield
		ok := false
		for _, e := range x.Edges {
			if _, isC := e.(*ssa.Const); isC {
				continue
			}
			q, k := limitParam(c, e)
			if !k || (ok && q != pp) {
				return pfield{}, false
			}
			pp, ok = q, true
		}
		return pp, ok
	case *ssa.UnOp:
		if x.Op != token.MUL {
			return pfield{}, false
		}
		// load of <param-cell>.field or of a param cell, possibly after a defaulting store of a constant
		if fa, ok := x.X.(*ssa.FieldAddr); ok {
			cell, ok := fa.X.(*ssa.Alloc)
			if fv, isFV := fa.X.(*ssa.FreeVar); isFV {
				// a closure reading the enclosing function's captured parameter
				cell = ssau.FreeVarCell(fv)
				ok = cell != nil
			}
			if ok {
				if p := spilledParam(cell); p != nil {
					if onlyConstFieldStores(cell, fa.Field) {
						return pfield{p, ssau.FieldName(fa)}, true
					}
				}
			}
		}
		if p := ssau.ParamOf(x); p != nil {
			return pfield{p, ""}, true
		}
	}
	return pfield{}, false
}

func derefStructOf(t types.Type) (*types.Struct, bool) {
	if p, ok := t.Underlying().(*types.Pointer); ok {
		t = p.Elem()
	}
	st, ok := t.Underlying().(*types.Struct)
	return st, ok
}

// spilledParam: the cell is the spill of a by-value struct parameter.
func spilledParam(cell *ssa.Alloc) *ssa.Parameter {
	var p *ssa.Parameter
	n := 0
	forCellAliases(cell, func(addr ssa.Value) {
		for _, ref := range *addr.Referrers() {
			if st, ok := ref.(*ssa.Store); ok && st.Addr == addr {
				n++
				p, _ = st.Val.(*ssa.Parameter)
			}
		}
	})
	if n == 1 {
		return p
	}
	return nil
}

// forCellAliases calls f on the cell and on every captured variable of a
// closure that is bound to it (transitively).
func forCellAliases(cell *ssa.Alloc, f func(addr ssa.Value)) {
	seen := map[ssa.Value]bool{}
	var visit func(addr ssa.Value)
	visit = func(addr ssa.Value) {
		if seen[addr] || addr.Referrers() == nil {
			return
		}
		seen[addr] = true
		f(addr)
		for _, ref := range *addr.Referrers() {
			if mc, ok := ref.(*ssa.MakeClosure); ok {
				fn := mc.Fn.(*ssa.Function)
				for i, b := range mc.Bindings {
					if b == addr && i < len(fn.FreeVars) {
						visit(fn.FreeVars[i])
					}
				}
			}
		}
	}
	visit(cell)
}

// onlyConstFieldStores: every store to field #f of the cell stores a constant
// (a default), so the field is the parameter's field or that default.
func onlyConstFieldStores(cell *ssa.Alloc, f int) bool {
	okAll := true
	forCellAliases(cell, func(addr ssa.Value) {
		for _, ref := range *addr.Referrers() {
			fa, ok := ref.(*ssa.FieldAddr)
			if !ok || fa.Field != f {
				continue
			}
			for _, r2 := range *fa.Referrers() {
				if st, ok := r2.(*ssa.Store); ok && st.Addr == ssa.Value(fa) {
					if _, isC := st.Val.(*ssa.Const); !isC && !keepsOrDefaults(st.Val, fa) {
						okAll = false
					}
				}
			}
		}
	})
	return okAll
}

// keepsOrDefaults: v is the result of a helper every result of which is one
// of its own parameters, called with this very field and constants
// (options.Limit = limitOrDefault(options.Limit, 10)): the field keeps its
// value or takes a constant, as with the written-out default.
func keepsOrDefaults(v ssa.Value, fa *ssa.FieldAddr) bool {
	call, ok := v.(*ssa.Call)
	if !ok {
		return false
	}
	g := call.Common().StaticCallee()
	if g == nil || g.Blocks == nil || g.Signature.Results().Len() != 1 {
		return false
	}
	rets := ssau.ReturnsOf(g)
	for _, ret := range rets {
		p, isP := ret.Results[0].(*ssa.Parameter)
		if !isP {
			return false
		}
		idx := -1
		for i, q := range g.Params {
			if q == p {
				idx = i
			}
		}
		if idx < 0 || idx >= len(call.Common().Args) {
			return false
		}
		a := call.Common().Args[idx]
		if _, isC := a.(*ssa.Const); isC {
			continue
		}
		ld, isLoad := a.(*ssa.UnOp)
		if !isLoad || ld.Op != token.MUL {
			return false
		}
		fa2, isFA := ld.X.(*ssa.FieldAddr)
		if !isFA || fa2.X != fa.X || fa2.Field != fa.Field {
			return false
		}
	}
	return len(rets) > 0
}

// FieldOf resolves the value of a field of a struct-valued argument.
func (c *bctx) FieldOf(sv ssa.Value, name string) ssa.Value { return c.fieldOf(sv, name) }

// E renders a value in the context's function.
func (c *bctx) E(v ssa.Value) string { return c.f.E(v) }

// LimitBound builds the bound "len <= v".
func LimitBound(c *bctx, v ssa.Value) Bounds {
	return Bounds{Limits: map[string]ssa.Value{c.limKey(v): v}, Lens: map[string]ssa.Value{}}
}

// edgeGuards: upper bounds on len(v) established by branch conditions on
// every path to the edge pred->blk (pred nil: to the start of blk).
func (c *bctx) edgeGuards(v ssa.Value, pred, blk *ssa.BasicBlock) Bounds {
	out := Bounds{Limits: map[string]ssa.Value{}, Lens: map[string]ssa.Value{}}
	sl := "len(" + c.f.E(v) + ")"
	type cand struct {
		h   ssa.Value
		cut map[[2]int]bool
	}
	cands := map[string]*cand{}
	for _, iff := range ssau.Ifs(c.fn) {
		op, a, b, ok := ssau.CondOf(iff.Cond)
		if !ok {
			continue
		}
		if c.f.E(b) == sl {
			a, b, op = b, a, ssau.Flip(op)
		}
		if c.f.E(a) != sl {
			continue
		}
		hs := c.f.E(b)
		cd := cands[hs]
		if cd == nil {
			cd = &cand{h: b, cut: map[[2]int]bool{}}
			cands[hs] = cd
		}
		switch op {
		case token.GTR, token.GEQ: // false edge: len <= h
			cd.cut[[2]int{iff.Block().Index, 1}] = true
		case token.LEQ, token.LSS:
			cd.cut[[2]int{iff.Block().Index, 0}] = true
		}
	}
	for _, cd := range cands {
		if len(cd.cut) == 0 {
			continue
		}
		ok := false
		at := blk
		if pred != nil {
			for k, sc := range pred.Succs {
				if sc == blk && cd.cut[[2]int{pred.Index, k}] {
					ok = true
				}
			}
			at = pred
		}
		if !ok && !ssau.ReachableAvoidingEdges(c.fn, at, cd.cut) {
			ok = true
		}
		if ok {
			out.Limits[c.limKey(cd.h)] = cd.h
		}
	}
	return out
}

// at: bounds of v for control arriving along pred->blk.
func (c *bctx) at(v ssa.Value, pred, blk *ssa.BasicBlock, d int) Bounds {
	b := c.of(v, d)
	if b.Empty {
		return b
	}
	g := c.edgeGuards(v, pred, blk)
	if len(g.Limits) == 0 {
		return b
	}
	return b.with(g)
}

// storeGuards: upper bounds on len(val) that hold whenever val, stored into
// the cell that load reads, is still the cell's content at the load: every
// path from a store of val to the load that passes no other store to the
// cell passes an edge establishing len(val) <= H.
func (c *bctx) storeGuards(load *ssa.UnOp, val ssa.Value) Bounds {
	out := Bounds{Limits: map[string]ssa.Value{}, Lens: map[string]ssa.Value{}}
	cell := load.X
	var starts []*ssa.Store
	barrier := map[*ssa.BasicBlock]bool{}
	if refs := cell.Referrers(); refs != nil {
		for _, ref := range *refs {
			if st, ok := ref.(*ssa.Store); ok && st.Addr == cell {
				if st.Val == val {
					starts = append(starts, st)
				} else {
					barrier[st.Block()] = true
				}
			}
		}
	}
	if len(starts) == 0 {
		return out
	}
	sl := "len(" + c.f.E(val) + ")"
	type cand struct {
		h   ssa.Value
		cut map[[2]int]bool
	}
	cands := map[string]*cand{}
	for _, iff := range ssau.Ifs(c.fn) {
		op, a, b, ok := ssau.CondOf(iff.Cond)
		if !ok {
			continue
		}
		if c.f.E(b) == sl {
			a, b, op = b, a, ssau.Flip(op)
		}
		if c.f.E(a) != sl {
			continue
		}
		hs := c.f.E(b)
		cd := cands[hs]
		if cd == nil {
			cd = &cand{h: b, cut: map[[2]int]bool{}}
			cands[hs] = cd
		}
		switch op {
		case token.GTR, token.GEQ:
			cd.cut[[2]int{iff.Block().Index, 1}] = true
		case token.LEQ, token.LSS:
			cd.cut[[2]int{iff.Block().Index, 0}] = true
		}
	}
	for _, cd := range cands {
		ok := len(cd.cut) > 0
		for _, st := range starts {
			if reachAvoiding(st.Block(), load.Block(), cd.cut, barrier) {
				ok = false
			}
		}
		if ok {
			out.Limits[c.limKey(cd.h)] = cd.h
		}
	}
	return out
}

// reachAvoiding: to is reachable from from without taking an edge in cut and
// without passing through a barrier block (other than from itself).
func reachAvoiding(from, to *ssa.BasicBlock, cut map[[2]int]bool, barrier map[*ssa.BasicBlock]bool) bool {
	if from == to {
		return true
	}
	seen := map[*ssa.BasicBlock]bool{}
	st := []*ssa.BasicBlock{from}
	for len(st) > 0 {
		b := st[len(st)-1]
		st = st[:len(st)-1]
		if seen[b] {
			continue
		}
		seen[b] = true
		for k, sc := range b.Succs {
			if cut[[2]int{b.Index, k}] {
				continue
			}
			if sc == to {
				return true
			}
			if barrier[sc] {
				continue
			}
			st = append(st, sc)
		}
	}
	return false
}
