package slicefx

import (
	"fmt"
	"go/token"
	"go/types"
	"os"
	"strings"

	"golang.org/x/tools/go/ssa"

	"wtfverif/checker/internal/ssau"
)

// OrderSummary describes whether a function's slice result is sorted by
// descending score.
type OrderSummary struct {
	Always  bool
	IfParam int // >= 0: sorted whenever that parameter is; -1: none
	Why     string
}

type ordKey struct {
	fn  *ssa.Function
	idx int
}

// SortedSource lets rules declare values that are sorted by contract (the
// result of fuzzy.Find). Set by the caller.
type SortedSourceFunc func(v ssa.Value) bool

// OrderConfig carries optional hooks.
type OrderConfig struct {
	SortedSource SortedSourceFunc
	// ScoreField / KeyField name the score field of the element type and of
	// a contract-sorted source's elements.
	ScoreField string
	SrcKey     string
}

type ostate map[ssa.Value]bool

func (s ostate) clone() ostate {
	o := ostate{}
	for k, v := range s {
		o[k] = v
	}
	return o
}

func intersect(a, b ostate) ostate {
	o := ostate{}
	for k := range a {
		if b[k] {
			o[k] = true
		}
	}
	return o
}

type octx struct {
	e      *Engine
	cfg    OrderConfig
	fn     *ssa.Function
	assume map[ssa.Value]bool
	in     []ostate
	out    []ostate
	seen   []bool
	// per-return verdicts
	retSorted map[*ssa.Return]bool
	retWhy    map[*ssa.Return]string
	atInstr   map[ssa.Instruction]ostate
	wantAt    map[ssa.Instruction]bool
}

func (c *octx) isElemSlice(t types.Type) bool {
	sl, ok := t.Underlying().(*types.Slice)
	if !ok {
		return false
	}
	n := ssau.NamedOf(sl.Elem())
	if n == c.e.ElemType {
		return true
	}
	for _, x := range c.e.ElemTypes {
		if n == x {
			return true
		}
	}
	return false
}

func (c *octx) sorted(s ostate, v ssa.Value) bool {
	if v == nil {
		return false
	}
	if cst, ok := v.(*ssa.Const); ok && cst.Value == nil {
		return true
	}
	if c.assume[v] {
		return true
	}
	if p := ssau.ParamOf(v); p != nil && c.assume[p] {
		// a spilled parameter that was never re-assigned
		if _, isParam := v.(*ssa.Parameter); isParam {
			return true
		}
	}
	switch x := v.(type) {
	case *ssa.ChangeType:
		return c.sorted(s, x.X)
	case *ssa.MakeInterface:
		return c.sorted(s, x.X)
	}
	return s[v]
}

func cellOf(addr ssa.Value) ssa.Value {
	switch a := addr.(type) {
	case *ssa.Alloc:
		return a
	case *ssa.FreeVar:
		return a
	}
	return nil
}

// elemWrite: the store writes an element (or a field of an element) of a
// slice of the element type.
func (c *octx) elemWrite(addr ssa.Value) bool {
	for i := 0; i < 6; i++ {
		switch a := addr.(type) {
		case *ssa.FieldAddr:
			addr = a.X
		case *ssa.IndexAddr:
			if c.isElemSlice(a.X.Type()) {
				return true
			}
			return false
		default:
			return false
		}
	}
	return false
}

func (c *octx) killAll(s ostate) ostate { return ostate{} }

// freshBase: the element address is rooted at a slice made by this function.
func freshBase(addr ssa.Value) ssa.Value {
	for i := 0; i < 6; i++ {
		switch a := addr.(type) {
		case *ssa.FieldAddr:
			addr = a.X
		case *ssa.IndexAddr:
			if mk, ok := a.X.(*ssa.MakeSlice); ok {
				return mk
			}
			return nil
		default:
			return nil
		}
	}
	return nil
}

func (c *octx) transfer(b *ssa.BasicBlock, in ostate) ostate {
	s := in.clone()
	for _, ins := range b.Instrs {
		if c.wantAt != nil && c.wantAt[ins] {
			c.atInstr[ins] = s.clone()
		}
		switch x := ins.(type) {
		case *ssa.Store:
			if cell := cellOf(x.Addr); cell != nil {
				if c.isElemSlice(x.Val.Type()) {
					if c.sorted(s, x.Val) {
						s[cell] = true
					} else {
						delete(s, cell)
					}
				}
				continue
			}
			if c.elemWrite(x.Addr) {
				if mk := freshBase(x.Addr); mk != nil {
					delete(s, mk) // a slice made here aliases nothing else
				} else {
					s = c.killAll(s)
				}
			}
		case *ssa.UnOp:
			if x.Op == token.MUL {
				if cell := cellOf(x.X); cell != nil && s[cell] {
					s[x] = true
				}
			}
		case *ssa.Slice:
			if c.sorted(s, x.X) {
				s[x] = true
			}
		case *ssa.ChangeType:
			if c.sorted(s, x.X) {
				s[x] = true
			}
		case *ssa.Extract:
			if call, ok := x.Tuple.(*ssa.Call); ok && s[callRes{call, x.Index}] {
				s[x] = true
			}
		case *ssa.Call:
			s = c.call(s, x)
		case *ssa.Return:
			if c.retSorted != nil {
				idx := c.resultIndex()
				if idx >= 0 && idx < len(x.Results) {
					// the value as returned (a cell re-read after a sort in
					// place), or the value last stored into the result cell
					v := ssau.ResultValue(x, idx)
					c.retSorted[x] = c.sorted(s, v) || c.sorted(s, x.Results[idx])
				}
			}
		}
	}
	return s
}

// callRes is a synthetic key for "result #i of call" in the state.
type callRes struct {
	*ssa.Call
	idx int
}

func (c *octx) resultIndex() int {
	res := c.fn.Signature.Results()
	for i := 0; i < res.Len(); i++ {
		if c.isElemSlice(res.At(i).Type()) {
			return i
		}
	}
	return -1
}

func (c *octx) call(s ostate, call *ssa.Call) ostate {
	name := ssau.CallName(call)
	args := call.Common().Args
	elemKey := "e:" + c.e.ElemType
	if (strings.HasPrefix(name, "sort.Slice") || name == "slices.SortFunc" || name == "slices.SortStableFunc") && len(args) == 2 {
		x := ssau.Strip(args[0])
		if !c.isElemSlice(x.Type()) {
			return s
		}
		desc := false
		var cf *ssa.Function
		switch cv := args[1].(type) {
		case *ssa.MakeClosure:
			cf, _ = cv.Fn.(*ssa.Function)
		case *ssa.Function:
			cf = cv
		}
		if cf != nil && c.e.IsDescCmp != nil && c.e.IsDescCmp(cf) {
			desc = true
		}
		if os.Getenv("WTF_DEBUG_ORDER") != "" {
			fmt.Fprintf(os.Stderr, "order-sort in %s: x=%s desc=%v cf=%v\n", c.fn, x, desc, cf)
		}
		s = c.killAll(s)
		if desc {
			s[x] = true
			if u, ok := x.(*ssa.UnOp); ok && u.Op == token.MUL {
				if cell := cellOf(u.X); cell != nil {
					s[cell] = true
				}
			}
		}
		return s
	}
	if strings.HasPrefix(name, "sort.") || strings.HasPrefix(name, "slices.Sort") {
		if len(args) > 0 && c.isElemSlice(ssau.Strip(args[0]).Type()) {
			return c.killAll(s)
		}
		return s
	}
	if _, isB := call.Common().Value.(*ssa.Builtin); isB {
		if name == "builtin.copy" && len(args) > 0 && c.isElemSlice(args[0].Type()) {
			return c.killAll(s)
		}
		return s
	}
	if c.e.SortedCall != nil {
		if srt, known := c.e.SortedCall(call, 0); known {
			if srt {
				if _, isTup := call.Type().(*types.Tuple); isTup {
					s[callRes{call, 0}] = true
				} else {
					s[call] = true
				}
			}
			return s
		}
	}
	cal := call.Common().StaticCallee()
	if cal == nil && c.e.Callees != nil && !call.Common().IsInvoke() {
		cs := c.e.Callees(call)
		allSorted := len(cs) > 0
		writes := false
		ri := -1
		for _, t := range cs {
			sig := t.Signature.Results()
			for i := 0; i < sig.Len(); i++ {
				if c.isElemSlice(sig.At(i).Type()) {
					ri = i
					if !c.e.OrderSummaryOf(t, i, c.cfg).Always {
						allSorted = false
					}
				}
			}
			if c.e.Sx.MayWrite(t, elemKey) {
				writes = true
			}
		}
		if writes || len(cs) == 0 {
			s = c.killAll(s)
		}
		if allSorted && ri >= 0 {
			if _, isTup := call.Type().(*types.Tuple); isTup {
				s[callRes{call, ri}] = true
			} else {
				s[call] = true
			}
		}
		return s
	}
	if cal != nil && c.e.IsRepo(cal) && cal.Blocks != nil {
		// result summaries evaluated against the state before the call's own effects
		type res struct {
			idx int
			ok  bool
		}
		var marks []res
		sig := cal.Signature.Results()
		for i := 0; i < sig.Len(); i++ {
			if !c.isElemSlice(sig.At(i).Type()) {
				continue
			}
			sum := c.e.OrderSummaryOf(cal, i, c.cfg)
			ok := sum.Always
			if !ok && sum.IfParam >= 0 && sum.IfParam < len(args) {
				ok = c.sorted(s, args[sum.IfParam])
			}
			marks = append(marks, res{i, ok})
		}
		if c.e.Sx.MayWrite(cal, elemKey) {
			s = c.killAll(s)
		}
		// a helper that sorts its slice parameter in place on every path
		// (sortByScoreDesc(results)) is a sort of the argument
		for _, pi := range c.e.SortsParamInPlace(cal, c.cfg) {
			if pi < len(args) {
				x := ssau.Strip(args[pi])
				s[x] = true
				if u, ok := x.(*ssa.UnOp); ok && u.Op == token.MUL {
					if cell := cellOf(u.X); cell != nil {
						s[cell] = true
					}
				}
			}
		}
		for _, m := range marks {
			if !m.ok {
				continue
			}
			if sig.Len() == 1 {
				s[call] = true
			} else {
				s[callRes{call, m.idx}] = true
			}
		}
		return s
	}
	all, keys := c.e.Sx.CallWrites(call)
	if all {
		return c.killAll(s)
	}
	for _, k := range keys {
		if k == elemKey {
			return c.killAll(s)
		}
	}
	return s
}

// run performs the forward must-analysis.
func (c *octx) run() {
	n := len(c.fn.Blocks)
	c.in = make([]ostate, n)
	c.out = make([]ostate, n)
	c.seen = make([]bool, n)
	loops := ssau.RangeLoops(c.fn)
	for iter := 0; iter < 40; iter++ {
		changed := false
		for _, b := range c.fn.Blocks {
			var st ostate
			if b.Index == 0 {
				st = ostate{}
			} else {
				first := true
				for _, p := range b.Preds {
					if !c.seen[p.Index] {
						continue // optimistic: unvisited predecessors impose nothing yet
					}
					if first {
						st, first = c.out[p.Index].clone(), false
					} else {
						st = intersect(st, c.out[p.Index])
					}
				}
				if first {
					continue
				}
			}
			// phis
			for _, ins := range b.Instrs {
				phi, ok := ins.(*ssa.Phi)
				if !ok {
					break
				}
				if !c.isElemSlice(phi.Type()) {
					continue
				}
				all := true
				for i, e := range phi.Edges {
					p := b.Preds[i]
					if !c.seen[p.Index] {
						continue
					}
					if !c.sorted(c.out[p.Index], e) {
						all = false
					}
				}
				if all {
					st[phi] = true
				} else {
					delete(st, phi)
				}
			}
			// builder loops: at the loop's exit the built slice may be sorted by construction
			for _, l := range loops {
				if l.Done != b {
					continue
				}
				for _, ins := range l.Header.Instrs {
					phi, ok := ins.(*ssa.Phi)
					if !ok {
						break
					}
					if c.isElemSlice(phi.Type()) && c.builderSorted(l, phi, st) {
						st[phi] = true
					}
				}
				if mk := c.indexwiseMap(l, st); mk != nil {
					st[mk] = true
				}
			}
			o := c.transfer(b, st)
			if !c.seen[b.Index] || !sameState(o, c.out[b.Index]) {
				changed = true
			}
			c.in[b.Index], c.out[b.Index], c.seen[b.Index] = st, o, true
		}
		if !changed {
			break
		}
	}
}

func sameState(a, b ostate) bool {
	if len(a) != len(b) {
		return false
	}
	for k := range a {
		if !b[k] {
			return false
		}
	}
	return true
}

// builderSorted: the slice built by the range loop l in header phi p is
// sorted by descending score by construction:
//
//	(a) every appended element carries the same constant score, or
//	(b) l ranges over a contract-sorted source in order and every appended
//	    element's score is a monotone non-decreasing function of the source
//	    element's key; iterations may only skip or stop.
func (c *octx) builderSorted(l ssau.RangeLoop, p *ssa.Phi, st ostate) bool {
	var appends []*ssa.Call
	for _, b := range c.fn.Blocks {
		if !(b == l.Header || l.InLoop(b)) {
			continue
		}
		for _, ins := range b.Instrs {
			if call, ok := ins.(*ssa.Call); ok && ssau.CallName(call) == "builtin.append" && reachesPhi(call.Common().Args[0], p, 0) {
				appends = append(appends, call)
			}
		}
	}
	if len(appends) == 0 {
		return false
	}
	// all loop-carried values must derive from p by append (no reorder)
	for i, e := range p.Edges {
		pr := p.Block().Preds[i]
		if (l.InLoop(pr) || pr == l.Header) && !derivesByAppend(e, p, 0) {
			return false
		}
	}
	scoreOf := func(call *ssa.Call) ssa.Value {
		if !singleElem(call) {
			return nil
		}
		sl := call.Common().Args[1].(*ssa.Slice)
		arr := sl.X.(*ssa.Alloc)
		var el ssa.Value
		for _, ref := range *arr.Referrers() {
			if ia, ok := ref.(*ssa.IndexAddr); ok {
				for _, r2 := range *ia.Referrers() {
					if st, ok := r2.(*ssa.Store); ok {
						el = st.Val
					}
				}
			}
		}
		u, ok := el.(*ssa.UnOp)
		if !ok {
			return nil
		}
		lit, ok := u.X.(*ssa.Alloc)
		if !ok {
			return nil
		}
		var sc ssa.Value
		n := 0
		for _, ref := range *lit.Referrers() {
			if fa, ok := ref.(*ssa.FieldAddr); ok && ssau.FieldName(fa) == c.cfg.ScoreField {
				for _, r2 := range *fa.Referrers() {
					if st, ok := r2.(*ssa.Store); ok && st.Addr == ssa.Value(fa) {
						sc = st.Val
						n++
					}
				}
			}
		}
		if n != 1 {
			return nil
		}
		return sc
	}
	// (a) constant scores
	allConst := true
	var k0 float64
	for i, ap := range appends {
		sc := scoreOf(ap)
		k, ok := ssau.ConstFloat(sc)
		if sc == nil || !ok {
			allConst = false
			break
		}
		if i == 0 {
			k0 = k
		} else if k != k0 {
			allConst = false
		}
	}
	if allConst {
		return true
	}
	// (a') one loop-invariant score for every element (a parameter or a value
	// computed before the loop): all scores are equal, any order is sorted
	var inv ssa.Value
	allSame := true
	for _, ap := range appends {
		sc := scoreOf(ap)
		if sc == nil || (inv != nil && sc != inv) {
			allSame = false
			break
		}
		inv = sc
		if in, ok := sc.(ssa.Instruction); ok && in.Block() != nil && (in.Block() == l.Header || l.InLoop(in.Block())) {
			allSame = false
			break
		}
	}
	if allSame && inv != nil {
		return true
	}
	// (b) monotone map over a contract-sorted source
	if l.IsMap || l.Over == nil {
		return false
	}
	if !(c.cfg.SortedSource != nil && c.cfg.SortedSource(l.Over)) && !c.sorted(st, l.Over) {
		return false
	}
	for _, ap := range appends {
		sc := scoreOf(ap)
		if sc == nil || !c.monotoneInKey(sc, l, 0) {
			return false
		}
	}
	return true
}

// monotoneInKey: v is a monotone non-decreasing function of the key field of
// the current element of loop l (over a contract-sorted source).
func (c *octx) monotoneInKey(v ssa.Value, l ssau.RangeLoop, d int) bool {
	if d > 12 {
		return false
	}
	isKey := func(v ssa.Value) bool {
		u, ok := v.(*ssa.UnOp)
		if !ok || u.Op != token.MUL {
			return false
		}
		fa, ok := u.X.(*ssa.FieldAddr)
		if !ok || ssau.FieldName(fa) != c.cfg.SrcKey {
			return false
		}
		switch b := fa.X.(type) {
		case *ssa.IndexAddr:
			return b.X == l.Over && b.Index == l.Index
		case *ssa.Alloc:
			n, good := 0, false
			for _, ref := range *b.Referrers() {
				if st, ok := ref.(*ssa.Store); ok && st.Addr == ssa.Value(b) {
					n++
					if ld, ok := st.Val.(*ssa.UnOp); ok {
						if ia, ok := ld.X.(*ssa.IndexAddr); ok && ia.X == l.Over && ia.Index == l.Index {
							good = true
						}
					}
				}
			}
			return n == 1 && good
		}
		return false
	}
	if isKey(v) {
		return true
	}
	switch x := v.(type) {
	case *ssa.Call:
		if n := ssau.CallName(x); n == "math.Min" || n == "math.Max" || n == "builtin.min" || n == "builtin.max" {
			nv := 0
			for _, a := range x.Common().Args {
				if _, isC := ssau.ConstFloat(a); isC {
					continue
				}
				nv++
				if !c.monotoneInKey(a, l, d+1) {
					return false
				}
			}
			return nv > 0
		}
		// f(key-expression) with f monotone in its only numeric parameter
		cal := x.Common().StaticCallee()
		if cal != nil && c.e.IsRepo(cal) && cal.Blocks != nil && len(x.Common().Args) == 1 && len(cal.Params) == 1 {
			if c.monotoneInKey(x.Common().Args[0], l, d+1) && c.monotoneFn(cal, d+1) {
				return true
			}
		}
		return false
	case *ssa.Convert:
		return c.monotoneInKey(x.X, l, d+1)
	case *ssa.BinOp:
		_, cx := x.X.(*ssa.Const)
		ky, cy := ssau.ConstFloat(x.Y)
		switch x.Op {
		case token.ADD:
			if cy {
				return c.monotoneInKey(x.X, l, d+1)
			}
			if cx {
				return c.monotoneInKey(x.Y, l, d+1)
			}
			return c.monotoneInKey(x.X, l, d+1) && c.monotoneInKey(x.Y, l, d+1)
		case token.SUB:
			if cy {
				return c.monotoneInKey(x.X, l, d+1)
			}
		case token.MUL:
			if cy && ky > 0 {
				return c.monotoneInKey(x.X, l, d+1)
			}
			if kx, ok := ssau.ConstFloat(x.X); ok && kx > 0 {
				return c.monotoneInKey(x.Y, l, d+1)
			}
		case token.QUO:
			if cy && ky > 0 {
				return c.monotoneInKey(x.X, l, d+1)
			}
		}
	case *ssa.Phi:
		// clamp: phi(w, const) where the const edge is taken under a comparison of w (or an earlier stage) with that const
		ok := true
		nonConst := 0
		for _, e := range x.Edges {
			if _, isC := e.(*ssa.Const); isC {
				continue
			}
			nonConst++
			if !c.monotoneInKey(e, l, d+1) {
				ok = false
			}
		}
		if !ok || nonConst == 0 {
			return false
		}
		// the constant edges must be clamps: lower clamp (w < k -> k) or upper clamp (w > k -> k)
		for i, e := range x.Edges {
			k, isC := ssau.ConstFloat(e)
			if !isC {
				continue
			}
			pred := x.Block().Preds[i]
			// find the If that routes to pred (pred is the then-block of `if w < k` / `if w > k`)
			good := false
			for _, pp := range pred.Preds {
				iff, ok := pp.Instrs[len(pp.Instrs)-1].(*ssa.If)
				if !ok || pp.Succs[0] != pred {
					continue
				}
				op, a, bb, okc := ssau.CondOf(iff.Cond)
				if !okc {
					continue
				}
				kb, isK := ssau.ConstFloat(bb)
				if isK && kb == k && (op == token.LSS || op == token.GTR || op == token.LEQ || op == token.GEQ) && c.monotoneInKey(a, l, d+1) {
					good = true
				}
			}
			if !good {
				return false
			}
		}
		return true
	}
	return false
}

// OrderSummaryOf computes whether result idx of fn is sorted: always, or
// whenever one of its slice parameters is.
func (e *Engine) OrderSummaryOf(fn *ssa.Function, idx int, cfg OrderConfig) OrderSummary {
	k := ordKey{fn, idx}
	if s, ok := e.ordSum[k]; ok {
		return s
	}
	if e.ordBusy[fn] {
		return OrderSummary{IfParam: -1, Why: "recursive"}
	}
	e.ordBusy[fn] = true
	defer delete(e.ordBusy, fn)
	try := func(assume map[ssa.Value]bool) bool {
		c := &octx{e: e, cfg: cfg, fn: fn, assume: assume, retSorted: map[*ssa.Return]bool{}}
		c.run()
		n := 0
		for _, ret := range ssau.ReturnsOf(fn) {
			n++
			if !c.retSorted[ret] {
				return false
			}
		}
		return n > 0
	}
	s := OrderSummary{IfParam: -1}
	if try(nil) {
		s.Always = true
	} else {
		c0 := &octx{e: e, fn: fn}
		for i, p := range fn.Params {
			if c0.isElemSlice(p.Type()) && try(map[ssa.Value]bool{p: true}) {
				s.IfParam = i
				break
			}
		}
	}
	e.ordSum[k] = s
	if os.Getenv("WTF_DEBUG_ORDER") != "" {
		fmt.Fprintf(os.Stderr, "order-summary %s #%d: always=%v ifParam=%d\n", fn, idx, s.Always, s.IfParam)
	}
	return s
}

// SortsParamInPlace lists the parameters of fn (element-slice typed) that are
// sorted by descending score at every return of fn, whatever they were at
// entry: fn is a sorting helper for them.
func (e *Engine) SortsParamInPlace(fn *ssa.Function, cfg OrderConfig) []int {
	if r, ok := e.sortsParam[fn]; ok {
		return r
	}
	if e.ordBusy[fn] || fn.Blocks == nil {
		return nil
	}
	e.ordBusy[fn] = true
	defer delete(e.ordBusy, fn)
	c := &octx{e: e, cfg: cfg, fn: fn, wantAt: map[ssa.Instruction]bool{}, atInstr: map[ssa.Instruction]ostate{}, retSorted: map[*ssa.Return]bool{}}
	rets := ssau.ReturnsOf(fn)
	for _, r := range rets {
		c.wantAt[r] = true
	}
	var out []int
	has := false
	for _, p := range fn.Params {
		if c.isElemSlice(p.Type()) {
			has = true
		}
	}
	if has && len(rets) > 0 {
		c.run()
		for i, p := range fn.Params {
			if !c.isElemSlice(p.Type()) {
				continue
			}
			// a parameter captured by the comparator closure lives in a cell
			var cell *ssa.Alloc
			if refs := p.Referrers(); refs != nil {
				for _, ref := range *refs {
					if st, ok := ref.(*ssa.Store); ok && st.Val == ssa.Value(p) {
						if al, ok := st.Addr.(*ssa.Alloc); ok && spilledParam(al) == p {
							cell = al
						}
					}
				}
			}
			all := true
			for _, r := range rets {
				st, ok := c.atInstr[r]
				if !ok || !(c.sorted(st, p) || (cell != nil && st[cell])) {
					all = false
				}
			}
			if all {
				out = append(out, i)
			}
		}
	}
	if e.sortsParam == nil {
		e.sortsParam = map[*ssa.Function][]int{}
	}
	e.sortsParam[fn] = out
	return out
}

// ReturnsSorted runs the analysis on fn and reports, per return, whether the
// slice result is sorted (with no assumption on parameters).
func (e *Engine) ReturnsSorted(fn *ssa.Function, cfg OrderConfig) map[*ssa.Return]bool {
	c := &octx{e: e, cfg: cfg, fn: fn, retSorted: map[*ssa.Return]bool{}}
	c.run()
	return c.retSorted
}

// SortedAt reports whether slice value v is known sorted immediately before
// instruction at in fn.
func (e *Engine) SortedAt(fn *ssa.Function, at ssa.Instruction, v ssa.Value, cfg OrderConfig) bool {
	c := &octx{e: e, cfg: cfg, fn: fn, wantAt: map[ssa.Instruction]bool{at: true}, atInstr: map[ssa.Instruction]ostate{}}
	c.run()
	s, ok := c.atInstr[at]
	return ok && c.sorted(s, v)
}

// SortedAtAssuming is SortedAt under the assumption that the given values
// (parameters of fn) are sorted on entry.
func (e *Engine) SortedAtAssuming(fn *ssa.Function, at ssa.Instruction, v ssa.Value, cfg OrderConfig, assume map[ssa.Value]bool) bool {
	c := &octx{e: e, cfg: cfg, fn: fn, assume: assume, wantAt: map[ssa.Instruction]bool{at: true}, atInstr: map[ssa.Instruction]ostate{}}
	c.run()
	s, ok := c.atInstr[at]
	return ok && c.sorted(s, v)
}

// indexwiseMap recognises
//
//	out := make([]T, len(src)); for i, r := range src { out[i] = T{..., Score: r.Score} }
//
// and returns out when src is sorted at the loop's entry (the copy has the
// same scores in the same order).
func (c *octx) indexwiseMap(l ssau.RangeLoop, st ostate) ssa.Value {
	if l.IsMap || l.Over == nil || !c.sorted(st, l.Over) {
		return nil
	}
	var out *ssa.MakeSlice
	okAll := true
	n := 0
	for _, b := range c.fn.Blocks {
		if !l.InLoop(b) {
			continue
		}
		for _, ins := range b.Instrs {
			stt, ok := ins.(*ssa.Store)
			if !ok {
				continue
			}
			ia, ok := stt.Addr.(*ssa.IndexAddr)
			if !ok || !c.isElemSlice(ia.X.Type()) {
				if c.elemWrite(stt.Addr) {
					okAll = false
				}
				continue
			}
			mk, ok := ia.X.(*ssa.MakeSlice)
			if !ok || ia.Index != l.Index {
				okAll = false
				continue
			}
			// length of out is len(src)
			lc, ok := mk.Len.(*ssa.Call)
			if !ok || ssau.CallName(lc) != "builtin.len" || lc.Common().Args[0] != l.Over {
				okAll = false
				continue
			}
			// stored element: literal whose Score is the source element's Score
			u, ok := stt.Val.(*ssa.UnOp)
			if !ok {
				okAll = false
				continue
			}
			lit, ok := u.X.(*ssa.Alloc)
			if !ok {
				okAll = false
				continue
			}
			good := false
			for _, ref := range *lit.Referrers() {
				fa, ok := ref.(*ssa.FieldAddr)
				if !ok || ssau.FieldName(fa) != c.cfg.ScoreField {
					continue
				}
				for _, r2 := range *fa.Referrers() {
					if s2, ok := r2.(*ssa.Store); ok && s2.Addr == ssa.Value(fa) && c.monotoneInKey(s2.Val, l, 0) {
						good = true
					}
				}
			}
			if !good {
				okAll = false
			}
			out = mk
			n++
		}
	}
	if okAll && n == 1 {
		return out
	}
	return nil
}

// monotoneFn: every return of fn is a monotone non-decreasing function of its
// single parameter (same arithmetic/clamp rules as monotoneInKey).
func (c *octx) monotoneFn(fn *ssa.Function, d int) bool {
	if d > 12 {
		return false
	}
	p := fn.Params[0]
	sub := &octx{e: c.e, cfg: c.cfg, fn: fn}
	var mono func(v ssa.Value, d int) bool
	mono = func(v ssa.Value, d int) bool {
		if d > 14 {
			return false
		}
		if v == ssa.Value(p) {
			return true
		}
		switch x := v.(type) {
		case *ssa.Call:
			if n := ssau.CallName(x); n == "math.Min" || n == "math.Max" || n == "builtin.min" || n == "builtin.max" {
				nv := 0
				for _, a := range x.Common().Args {
					if _, isC := ssau.ConstFloat(a); isC {
						continue
					}
					nv++
					if !mono(a, d+1) {
						return false
					}
				}
				return nv > 0
			}
			return false
		case *ssa.Convert:
			return mono(x.X, d+1)
		case *ssa.BinOp:
			ky, cy := ssau.ConstFloat(x.Y)
			kx, cx := ssau.ConstFloat(x.X)
			switch x.Op {
			case token.ADD:
				if cy {
					return mono(x.X, d+1)
				}
				if cx {
					return mono(x.Y, d+1)
				}
			case token.SUB:
				if cy {
					return mono(x.X, d+1)
				}
			case token.MUL:
				if cy && ky > 0 {
					return mono(x.X, d+1)
				}
				if cx && kx > 0 {
					return mono(x.Y, d+1)
				}
			case token.QUO:
				if cy && ky > 0 {
					return mono(x.X, d+1)
				}
			}
		case *ssa.Phi:
			n := 0
			for i, e := range x.Edges {
				if k, isC := ssau.ConstFloat(e); isC {
					pred := x.Block().Preds[i]
					good := false
					for _, pp := range pred.Preds {
						iff, ok := pp.Instrs[len(pp.Instrs)-1].(*ssa.If)
						if !ok || pp.Succs[0] != pred {
							continue
						}
						_, a, bb, okc := ssau.CondOf(iff.Cond)
						if kb, isK := ssau.ConstFloat(bb); okc && isK && kb == k && mono(a, d+1) {
							good = true
						}
					}
					if !good {
						return false
					}
					continue
				}
				n++
				if !mono(e, d+1) {
					return false
				}
			}
			return n > 0
		}
		return false
	}
	_ = sub
	rets := ssau.ReturnsOf(fn)
	if len(rets) == 0 {
		return false
	}
	for _, ret := range rets {
		v := ret.Results[0]
		// early-return clamps: `if w > k { return k }` — a constant return under a comparison of a monotone value with that constant
		if k, isC := ssau.ConstFloat(v); isC {
			good := false
			for _, pp := range ret.Block().Preds {
				iff, ok := pp.Instrs[len(pp.Instrs)-1].(*ssa.If)
				if !ok {
					continue
				}
				_, a, bb, okc := ssau.CondOf(iff.Cond)
				if kb, isK := ssau.ConstFloat(bb); okc && isK && kb == k && mono(a, 0) {
					good = true
				}
			}
			if !good {
				return false
			}
			continue
		}
		if !mono(v, 0) {
			return false
		}
	}
	return true
}
