package rules

import (
	"fmt"
	"go/token"
	"go/types"
	"strings"

	"golang.org/x/tools/go/ssa"

	"wtfverif/checker/internal/load"
	"wtfverif/checker/internal/origin"
	"wtfverif/checker/internal/ssau"
)

const (
	cfgType  = load.ModulePath + "/internal/config.Config"
	fileMeth = "(*os.File)."
)

func init() {
	register(&Rule{
		Prop: "C09",
		Explanation: "\"Old content or new content, never a mix\" has one implementation on a POSIX file system — write a temporary file in the same directory, then rename it over the target — and whether the code follows it is a fact about its shape, decided here for every crash point and every failing call: " +
			"(O-1) no value that denotes a data file (the personal notebook path from Config, the history path of SearchHistory) reaches, through parameters, cells and identity-like path functions over the whole call graph, the path argument of a truncating or in-place opener (os.WriteFile, os.Create, os.OpenFile with write flags, os.Truncate); " +
			"(O-2) the data paths do reach the destination of an os.Rename, and the function that renames follows the protocol: temporary created in filepath.Dir(dest), Write and Close on that temporary dominate the Rename, the error of each of CreateTemp/Write/Close blocks every later step, and no nil return is reachable unless the Rename succeeded; both writers (writePersonalDatabase, SearchHistory.Save) hand the marshalled bytes and the data path to that function and propagate its error; " +
			"(O-3) saveToPersonalDatabase propagates the write error and both save commands, when it is non-nil, print only messages that carry the error and return. Atomicity of rename(2) itself and durability across power loss are operating-system assumptions.",
		NotDecided:  []string{"atomicity of rename(2) and behaviour of the file system under power loss", "that a crash between Write and Rename leaves a stray temporary file (harmless for the property)", "whether the search command reports history-save failures (the property only requires that they do no damage)"},
		Assumptions: []string{"rename(2) within one directory atomically replaces the destination", "os.File.Write reports short writes as errors"},
		Run:         runC09,
	})
}

// dataPathRoot reports whether a traced root denotes one of the two data files.
func dataPathRoot(r origin.Root) (string, bool) {
	switch {
	case r.Kind == "stop":
		return r.Name, true
	case r.Kind == "call" && r.Name == "(*"+cfgType+").GetPersonalDatabasePath":
		return "notebook", true
	case r.Kind == "field" && r.Name == cfgType+".PersonalDBPath":
		return "notebook", true
	case r.Kind == "field" && r.Name == histType+".FilePath":
		return "history", true
	case r.Kind == "call" && r.Name == load.ModulePath+"/internal/history.DefaultHistoryPath":
		return "history", true
	}
	return "", false
}

func pathTracer(c *Ctx) *origin.Tracer {
	return &origin.Tracer{
		CG: c.P.CallGraph(),
		// a path kept in a field of some other object (a notebook or writer
		// object) is followed to what was stored there; the two data-path
		// fields themselves are where the walk ends
		FieldStoresIn: shippedFuncs(c),
		StopAt: func(v ssa.Value) (string, bool) {
			if u, ok := v.(*ssa.UnOp); ok {
				if fa, ok := u.X.(*ssa.FieldAddr); ok {
					switch ssau.FieldOwner(fa) + "." + ssau.FieldName(fa) {
					case cfgType + ".PersonalDBPath":
						return "notebook", true
					case histType + ".FilePath":
						return "history", true
					}
				}
			}
			return "", false
		},
		Through: func(call *ssa.Call, idx int) []ssa.Value {
			switch ssau.CallName(call) {
			case "path/filepath.Clean", "path/filepath.FromSlash", "path/filepath.ToSlash", "path.Clean", "strings.TrimSpace":
				return call.Common().Args[:1]
			case "path/filepath.Abs", "path/filepath.EvalSymlinks":
				if idx == 0 {
					return call.Common().Args[:1]
				}
			}
			return nil
		},
	}
}

// destructiveOpen classifies a call that opens its path argument for writing
// in place; it returns the index of the path argument.
func destructiveOpen(call *ssa.Call) (int, string, bool) {
	switch n := ssau.CallName(call); n {
	case "os.WriteFile", "io/ioutil.WriteFile", "os.Create", "os.Truncate":
		return 0, n, true
	case "os.OpenFile":
		flag, ok := ssau.ConstInt(call.Common().Args[1])
		// O_WRONLY=1, O_RDWR=2, O_TRUNC=0x200 (linux), O_CREATE: any write access counts;
		// a non-constant flag is treated as writing.
		if !ok || flag&0x3 != 0 || flag&0x200 != 0 {
			return 0, n, true
		}
	}
	return 0, "", false
}

func runC09(c *Ctx) {
	r := c.R
	r.Rule("O-1", "no in-place rewrite: no data-file path (Config.PersonalDBPath / GetPersonalDatabasePath, SearchHistory.FilePath / DefaultHistoryPath) reaches the path argument of os.WriteFile, os.Create, os.Truncate or a writing os.OpenFile anywhere in the module")
	r.Rule("O-2", "replace protocol: both data paths reach the destination of os.Rename; in the renaming function the temporary is created in filepath.Dir(dest), Write and Close on it dominate Rename, each error blocks the later steps and is what the caller gets back (not the error of a later call, which may be nil), and nil is returned only after Rename succeeded; the two writers pass (data path, marshalled bytes) and propagate the error")
	r.Rule("O-3", "failure is reported: saveToPersonalDatabase propagates the write error; after a failed save both save commands print only messages carrying the error and return")

	tr := pathTracer(c)
	fns := shippedFuncs(c)

	// ---------------- O-1
	nOpen := 0
	ord := newOrdinal()
	for _, fn := range fns {
		for _, call := range callsMatching(fn, false, func(string) bool { return true }) {
			ai, name, ok := destructiveOpen(call)
			if !ok {
				continue
			}
			nOpen++
			key := ord.next(load.FuncKey(fn) + "#" + name)
			roots := tr.Roots(call.Common().Args[ai])
			var bad []string
			var desc []string
			for _, rt := range roots {
				desc = append(desc, rt.String())
				if which, isData := dataPathRoot(rt); isData {
					bad = append(bad, which+" ("+rt.String()+")")
				}
			}
			if len(bad) > 0 {
				r.Bad("O-1", key, c.P.Pos(call.Pos()), fmt.Sprintf("%s truncates or rewrites in place a data file: its path argument can be the %s path; a crash or failed write leaves a truncated file", name, strings.Join(bad, ", ")))
			} else {
				r.OK("O-1", key, c.P.Pos(call.Pos()), "path origins: "+shortName(strings.Join(desc, ", ")))
			}
		}
	}
	// the live file must never be moved or removed either
	for _, fn := range fns {
		for _, call := range callsMatching(fn, false, func(n string) bool { return n == "os.Rename" || n == "os.Remove" || n == "os.RemoveAll" }) {
			for _, rt := range tr.Roots(call.Common().Args[0]) {
				if which, isData := dataPathRoot(rt); isData {
					r.Bad("O-1", ord.next(load.FuncKey(fn)+"#"+ssau.CallName(call)+"-of-live-file"), c.P.Pos(call.Pos()), "the live "+which+" file is renamed away or removed ("+ssau.CallName(call)+"): a crash right after leaves no file with either the old or the new content")
				}
			}
		}
	}
	r.Floor("O-1", "in-place opener call sites examined", nOpen, 4)
	r.Analysed["destructive_open_sites"] = nOpen

	// ---------------- O-2
	var renamers []*ssa.Function
	reached := map[string]bool{}
	for _, fn := range fns {
		for _, call := range callsTo(fn, "os.Rename") {
			roots := tr.Roots(call.Common().Args[1])
			isData := false
			for _, rt := range roots {
				if which, ok := dataPathRoot(rt); ok {
					reached[which] = true
					isData = true
				}
			}
			if isData {
				renamers = append(renamers, fn)
				c09Protocol(c, fn, call)
			}
		}
	}
	r.Check(reached["notebook"], "O-2", "data-path:notebook#reaches-rename", "", "the notebook path reaches an os.Rename destination", "the personal notebook path never reaches the destination of an os.Rename: the notebook is not replaced atomically")
	r.Check(reached["history"], "O-2", "data-path:history#reaches-rename", "", "the history path reaches an os.Rename destination", "the history path never reaches the destination of an os.Rename: the history file is not replaced atomically")
	r.Analysed["renaming_functions"] = funcKeys(renamers)

	// the two writers
	isRenamer := func(fn *ssa.Function) bool {
		for _, x := range renamers {
			if x == fn {
				return true
			}
		}
		return false
	}
	// the notebook writer: the function under saveToPersonalDatabase (itself
	// included) that hands the marshalled notebook to the atomic replace
	var nbWriter *ssa.Function
	if save := c.P.Func("internal/cli", "", "saveToPersonalDatabase"); save != nil {
		for _, fn := range reachClosure(c, []*ssa.Function{save}) {
			if pk := c.P.PkgOfFunc(fn); pk == nil || !strings.HasSuffix(pk.PkgPath, "internal/cli") {
				continue
			}
			ssau.ForEachInstr(fn, false, func(in ssa.Instruction) {
				if call, ok := in.(*ssa.Call); ok && nbWriter == nil {
					if cal := call.Common().StaticCallee(); cal != nil && isRenamer(cal) {
						nbWriter = fn
					}
				}
			})
		}
	}
	writers := []struct {
		key  string
		fn   *ssa.Function
		mars string
	}{
		{"cli.writePersonalDatabase", nbWriter, yamlPkg + ".Marshal"},
		{"history.(*SearchHistory).Save", c.P.Func("internal/history", "SearchHistory", "Save"), "encoding/json.Marshal"},
	}
	for _, w := range writers {
		if !r.Anchor("O-2", w.key, w.fn != nil) {
			continue
		}
		var wc []*ssa.Call
		ssau.ForEachInstr(w.fn, false, func(in ssa.Instruction) {
			if call, ok := in.(*ssa.Call); ok {
				if cal := call.Common().StaticCallee(); cal != nil && isRenamer(cal) {
					wc = append(wc, call)
				}
			}
		})
		if len(wc) != 1 {
			r.Bad("O-2", w.key+"#atomic-write-call", c.P.Pos(w.fn.Pos()), fmt.Sprintf("%d calls of the atomic replace function (want exactly 1)", len(wc)))
			continue
		}
		call := wc[0]
		// bytes come from the marshal call of this function
		local := &origin.Tracer{}
		dataOK := false
		// the marshal call itself, or a helper of the repository whose data result
		// is the marshal call's (nil on its error path)
		var fromMarshal func(v ssa.Value, d int) bool
		fromMarshal = func(v ssa.Value, d int) bool {
			rs := local.Roots(v)
			if len(rs) == 0 || d > 2 {
				return false
			}
			for _, x := range rs {
				switch {
				case x.Kind == "call" && strings.HasPrefix(x.Name, w.mars):
				case x.Kind == "const" && d > 0:
				case x.Kind == "call":
					cc, _ := x.V.(*ssa.Call)
					if ex, isEx := x.V.(*ssa.Extract); isEx {
						cc, _ = ex.Tuple.(*ssa.Call)
					}
					if cc == nil {
						return false
					}
					g := cc.Common().StaticCallee()
					if g == nil || g.Blocks == nil || !c.P.IsRepoFunc(g) {
						return false
					}
					some := false
					for _, ret := range ssau.ReturnsOf(g) {
						if ssau.IsNilConst(ret.Results[0]) {
							continue
						}
						if !fromMarshal(ret.Results[0], d+1) {
							return false
						}
						some = true
					}
					if !some {
						return false
					}
				default:
					return false
				}
			}
			return true
		}
		for _, a := range call.Common().Args {
			if _, isBytes := a.Type().Underlying().(*types.Slice); isBytes && fromMarshal(a, 0) {
				dataOK = true
			}
		}
		r.Check(dataOK, "O-2", w.key+"#writes-marshalled-bytes", c.P.Pos(call.Pos()), "the bytes written are exactly the result of "+shortName(w.mars), "the bytes handed to the atomic writer are not (only) the marshalled content")
		ok, why := failurePropagates(call)
		r.Check(ok, "O-2", w.key+"#write-error-propagates", c.P.Pos(call.Pos()), "a failed write makes the function return a non-nil error", "a failed write is not reported: "+why)
		// a marshal failure must not reach the write
		for _, m := range callsMatching(w.fn, false, func(n string) bool { return strings.HasPrefix(n, w.mars) }) {
			okm, whym := errorBlocksTargets(m, []*ssa.Call{call})
			r.Check(okm, "O-2", w.key+"#marshal-error-blocks-write", c.P.Pos(m.Pos()), "a marshal failure returns before writing", whym)
		}
	}

	// ---------------- O-3
	save := c.P.Func("internal/cli", "", "saveToPersonalDatabase")
	wpd := nbWriter
	if r.Anchor("O-3", "cli.saveToPersonalDatabase", save != nil) && wpd != nil {
		n := 0
		var calls []*ssa.Call
		if wpd == save {
			// the write is written out in the save function itself
			ssau.ForEachInstr(save, false, func(in ssa.Instruction) {
				if call, ok := in.(*ssa.Call); ok {
					if cal := call.Common().StaticCallee(); cal != nil && isRenamer(cal) {
						calls = append(calls, call)
					}
				}
			})
		} else {
			calls = callsTo(save, ssau.FuncName(wpd))
		}
		for _, call := range calls {
			n++
			ok, why := failurePropagates(call)
			r.Check(ok, "O-3", fmt.Sprintf("cli.saveToPersonalDatabase#write-%d-error-propagates", n), c.P.Pos(call.Pos()), "returns the write error", "a failed notebook write is swallowed: "+why)
		}
		r.Floor("O-3", "write calls in saveToPersonalDatabase", n, 1)
	}
	for _, cv := range []string{"saveCmd", "savePipelineCmd"} {
		run := runClosure(c, cv)
		if !r.Anchor("O-3", "cli."+cv+".Run", run != nil) || save == nil {
			continue
		}
		calls := callsTo(run, ssau.FuncName(save))
		if len(calls) == 0 {
			// through a helper whose error is the save's own error
			ssau.ForEachInstr(run, false, func(in ssa.Instruction) {
				if call, ok := in.(*ssa.Call); ok && c09DelegatesError(c, call.Common().StaticCallee(), save, 0) {
					calls = append(calls, call)
				}
			})
		}
		if len(calls) == 0 {
			r.Bad("O-3", "cli."+cv+"#save-call", c.P.Pos(run.Pos()), "the command does not call saveToPersonalDatabase")
			continue
		}
		for i, call := range calls {
			key := fmt.Sprintf("cli.%s#save-%d-failure-reported", cv, i+1)
			ev := errValue(call)
			succ, _ := nilTests(ev)
			if ev == nil || len(succ) == 0 {
				r.Bad("O-3", key, c.P.Pos(call.Pos()), "the error of saveToPersonalDatabase is discarded or never tested: a save that did not take effect reports success")
				continue
			}
			reach := blocksReachable(call.Block(), succ)
			nErrPrint, silent := 0, ""
			for b := range reach {
				for _, in := range b.Instrs {
					pc, ok := in.(*ssa.Call)
					if !ok || !isPrintCall(pc) {
						continue
					}
					if printCarries(pc, ev) {
						nErrPrint++
					} else if silent == "" {
						silent = c.P.Pos(pc.Pos())
					}
				}
			}
			switch {
			case silent != "":
				r.Bad("O-3", key, c.P.Pos(call.Pos()), "after a failed save the command still prints a message that does not carry the error (at "+silent+"): the failure path falls through to the success output")
			case nErrPrint == 0:
				r.Bad("O-3", key, c.P.Pos(call.Pos()), "a failed save prints nothing: the failure is not reported")
			default:
				r.OK("O-3", key, c.P.Pos(call.Pos()), fmt.Sprintf("on failure only %d message(s) carrying the error are printed, then the command returns", nErrPrint))
			}
		}
	}
}

// printCarries: one of the variadic arguments of the print call is ev.
func printCarries(pc *ssa.Call, ev ssa.Value) bool {
	found := false
	var visit func(v ssa.Value, d int)
	visit = func(v ssa.Value, d int) {
		if d > 6 || found {
			return
		}
		if v == ev {
			found = true
			return
		}
		switch x := v.(type) {
		case *ssa.MakeInterface:
			visit(x.X, d+1)
		case *ssa.ChangeInterface:
			visit(x.X, d+1)
		case *ssa.ChangeType:
			visit(x.X, d+1)
		case *ssa.Slice:
			// variadic slice literal: look at the stores into the backing array
			if al, ok := x.X.(*ssa.Alloc); ok {
				for _, ref := range *al.Referrers() {
					if ia, ok := ref.(*ssa.IndexAddr); ok {
						for _, r2 := range *ia.Referrers() {
							if st, ok := r2.(*ssa.Store); ok {
								visit(st.Val, d+1)
							}
						}
					}
				}
			}
		}
	}
	for _, a := range pc.Common().Args {
		visit(a, 0)
	}
	return found
}

// c09Protocol checks the write-temp-then-rename protocol in fn around the
// rename call ren (whose destination is a data path).
func c09Protocol(c *Ctx, fn *ssa.Function, ren *ssa.Call) {
	r := c.R
	fk := load.FuncKey(fn)
	pos := c.P.Pos(ren.Pos())
	local := &origin.Tracer{}
	dest := ren.Common().Args[1]
	destRoots := fmt.Sprint(local.Roots(dest))

	// temp creation
	var temp *ssa.Call
	for _, call := range callsTo(fn, "os.CreateTemp") {
		temp = call
	}
	if temp == nil && c09StagingHelper(c, fn, ren) {
		return
	}
	if temp == nil {
		r.Bad("O-2", fk+"#temp-created", pos, "no os.CreateTemp in the function that renames over the data file: the new content is not staged in a fresh file")
		return
	}
	dirOK := false
	if d, ok := temp.Common().Args[0].(*ssa.Call); ok && ssau.CallName(d) == "path/filepath.Dir" {
		dirOK = fmt.Sprint(local.Roots(d.Common().Args[0])) == destRoots
	}
	r.Check(dirOK, "O-2", fk+"#temp-in-dest-dir", c.P.Pos(temp.Pos()), "temporary file is created in filepath.Dir(dest): same file system, so the rename is atomic", "the temporary file is not created in filepath.Dir(<rename destination>): rename may cross file systems and stop being atomic")
	tmpFile := resultValue(temp, 0)
	onTemp := func(call *ssa.Call) bool {
		a := call.Common().Args
		return len(a) > 0 && tmpFile != nil && ssau.ResolveCell(a[0]) == tmpFile
	}
	// rename source is the temp's name
	srcOK := false
	for _, rt := range local.Roots(ren.Common().Args[0]) {
		if rt.Kind == "call" && rt.Name == fileMeth+"Name" {
			if nc, ok := rt.V.(*ssa.Call); ok && onTemp(nc) {
				srcOK = true
			}
		}
	}
	srcOK = srcOK && len(local.Roots(ren.Common().Args[0])) == 1
	r.Check(srcOK, "O-2", fk+"#rename-source-is-temp", pos, "the file renamed over the destination is the temporary", "the source of the rename is not (only) the temporary file's name")

	var writes, closes []*ssa.Call
	ssau.ForEachInstr(fn, false, func(in ssa.Instruction) {
		call, ok := in.(*ssa.Call)
		if !ok || !onTemp(call) {
			return
		}
		switch ssau.CallName(call) {
		case fileMeth + "Write", fileMeth + "WriteString":
			writes = append(writes, call)
		case fileMeth + "Close":
			closes = append(closes, call)
		}
	})
	// the write that dominates the rename
	var w *ssa.Call
	for _, x := range writes {
		if ssau.Dominates(x, ren) {
			w = x
		}
	}
	var cl *ssa.Call
	for _, x := range closes {
		if ssau.Dominates(x, ren) && (w == nil || ssau.Dominates(w, x)) {
			cl = x
		}
	}
	// or the writing (and closing) is a step handed the temporary and the data
	stepData := -1
	if w == nil {
		ssau.ForEachInstr(fn, false, func(in ssa.Instruction) {
			call, ok := in.(*ssa.Call)
			if !ok || w != nil || !onTemp(call) || !ssau.Dominates(call, ren) {
				return
			}
			g := call.Common().StaticCallee()
			if g == nil || g.Blocks == nil || !c.P.IsRepoFunc(g) {
				return
			}
			for di := 1; di < len(g.Params) && di < len(call.Common().Args); di++ {
				if _, isBytes := g.Params[di].Type().Underlying().(*types.Slice); !isBytes {
					continue
				}
				wr, cls := c09FileStep(c, g, 0, di, 0)
				if wr {
					w, stepData = call, di
					if cls && cl == nil {
						cl = call
					}
				}
			}
		})
	}
	if !r.Check(w != nil, "O-2", fk+"#write-before-rename", pos, "a Write on the temporary dominates the Rename", "no Write on the temporary file dominates the Rename: the destination can be replaced by an empty or partial file") {
		return
	}
	// the data written is the data parameter
	dataOK := false
	if stepData >= 0 {
		rs := local.Roots(w.Common().Args[stepData])
		dataOK = len(rs) == 1 && rs[0].Kind == "param"
	} else if len(w.Common().Args) > 1 {
		rs := local.Roots(w.Common().Args[1])
		dataOK = len(rs) == 1 && rs[0].Kind == "param"
	}
	r.Check(dataOK, "O-2", fk+"#writes-all-data", c.P.Pos(w.Pos()), "the whole data parameter is written", "the Write does not write exactly the data parameter (a reslice or other value): the new file may be incomplete")
	r.Check(cl != nil, "O-2", fk+"#close-before-rename", pos, "Close on the temporary lies between Write and Rename on every path", "the temporary is not closed (between Write and Rename) on every path to the Rename: buffered or failed data can be renamed into place")

	steps := []struct {
		name string
		call *ssa.Call
	}{{"CreateTemp", temp}, {"Write", w}, {"Close", cl}}
	for _, s := range steps {
		if s.call == nil {
			continue
		}
		ok, why := errorBlocksTargets(s.call, []*ssa.Call{ren})
		r.Check(ok, "O-2", fk+"#"+s.name+"-error-blocks-rename", c.P.Pos(s.call.Pos()), "a failed "+s.name+" never reaches the Rename", "after a failed "+s.name+" the Rename can still run and replace the data file with an incomplete one: "+why)
		// and the failure is what the caller gets to see
		okp, whyp := failurePropagates(s.call)
		r.Check(okp, "O-2", fk+"#"+s.name+"-error-returned", c.P.Pos(s.call.Pos()), "a failed "+s.name+" makes the function return a non-nil error", "a failed "+s.name+" is not reported to the caller (the save would report success although nothing was written): "+whyp)
	}
	// nil is returned only after the rename succeeded
	ei := errorIndex(fn)
	ev := errValue(ren)
	succ, _ := nilTests(ev)
	switch {
	case ei < 0:
		r.Bad("O-2", fk+"#success-only-after-rename", pos, "the renaming function returns no error")
	case ev == nil:
		r.Bad("O-2", fk+"#success-only-after-rename", pos, "the error of os.Rename is discarded")
	default:
		direct := false
		for _, ret := range ssau.ReturnsOf(fn) {
			if ei < len(ret.Results) && ssau.ResultValue(ret, ei) == ev {
				direct = true
			}
		}
		bad := ""
		if len(succ) == 0 && !direct {
			bad = "the error of os.Rename is neither tested nor returned"
		} else {
			reach := reachableFromEntry(fn, succ)
			for _, ret := range ssau.ReturnsOf(fn) {
				if !reach[ret.Block()] {
					continue
				}
				v := ssau.ResultValue(ret, ei)
				if ssau.IsNilConst(v) {
					bad = "a `return nil` at " + c.P.Pos(ret.Pos()) + " is reachable without a successful Rename"
				}
			}
			n := 0
			for _, ret := range ssau.ReturnsOf(fn) {
				if ssau.IsNilConst(ssau.ResultValue(ret, ei)) || (direct && ssau.ResultValue(ret, ei) == ev) {
					n++
				}
			}
			if n == 0 {
				bad = "the function has no success exit"
			}
		}
		if bad != "" && nilOnlyAfterSuccess(fn, ren) {
			bad = "" // the error variable accumulates: decided path by path (nilpaths.go)
		}
		r.Check(bad == "", "O-2", fk+"#success-only-after-rename", pos, "every nil return lies behind a successful Rename", bad)
	}
	_ = token.NoPos
}

// c09DelegatesError: g is a repository function every return of which hands
// back, as its error, the error of its own call of target (or of another such
// delegate): g fails exactly when target does.
func c09DelegatesError(c *Ctx, g, target *ssa.Function, d int) bool {
	if g == nil || g.Blocks == nil || !c.P.IsRepoFunc(g) || d > 2 {
		return false
	}
	ei := errorIndex(g)
	if ei < 0 {
		return false
	}
	rets := ssau.ReturnsOf(g)
	if len(rets) == 0 {
		return false
	}
	for _, ret := range rets {
		v := ssau.ResultValue(ret, ei)
		var call *ssa.Call
		switch x := v.(type) {
		case *ssa.Call:
			call = x
		case *ssa.Extract:
			call, _ = x.Tuple.(*ssa.Call)
		}
		if call == nil || errValue(call) != v {
			return false
		}
		cal := call.Common().StaticCallee()
		if cal != target && !c09DelegatesError(c, cal, target, d+1) {
			return false
		}
	}
	return true
}

// c09FileStep summarises a repository function handed an open file
// (parameter #fi) and the bytes to store (parameter #di):
// writes — on every path to a return the whole of the bytes was written to the
// file (directly or by a step of the same kind) and a failed write makes the
// function fail; closes — every return is preceded by a Close of the file
// (directly or by such a step) and a Close whose error is looked at makes the
// function fail when it fails.
func c09FileStep(c *Ctx, g *ssa.Function, fi, di, depth int) (writes, closes bool) {
	if g == nil || g.Blocks == nil || depth > 3 || fi >= len(g.Params) || di >= len(g.Params) || errorIndex(g) < 0 {
		return false, false
	}
	isP := func(v ssa.Value, i int) bool {
		return v == ssa.Value(g.Params[i]) || ssau.ParamOf(v) == g.Params[i]
	}
	var ws, cs []*ssa.Call
	ssau.ForEachInstr(g, false, func(in ssa.Instruction) {
		call, ok := in.(*ssa.Call)
		if !ok || len(call.Common().Args) == 0 || !isP(call.Common().Args[0], fi) {
			return
		}
		a := call.Common().Args
		switch ssau.CallName(call) {
		case fileMeth + "Write":
			if len(a) > 1 && isP(a[1], di) {
				ws = append(ws, call)
			}
			return
		case fileMeth + "Close":
			cs = append(cs, call)
			return
		}
		h := call.Common().StaticCallee()
		if h == nil || !c.P.IsRepoFunc(h) {
			return
		}
		for k := 1; k < len(a) && k < len(h.Params); k++ {
			if isP(a[k], di) {
				wr, cl := c09FileStep(c, h, 0, k, depth+1)
				if wr {
					ws = append(ws, call)
				}
				if cl {
					cs = append(cs, call)
				}
			}
		}
	})
	rets := ssau.ReturnsOf(g)
	domAll := func(call *ssa.Call) bool {
		for _, ret := range rets {
			if !(call.Block() == ret.Block() || call.Block().Dominates(ret.Block())) {
				return false
			}
		}
		return len(rets) > 0
	}
	for _, w := range ws {
		if ok, _ := failurePropagates(w); ok && domAll(w) {
			writes = true
		}
	}
	closes = len(cs) > 0
	for _, ret := range rets {
		pre := false
		for _, cl := range cs {
			if cl.Block() == ret.Block() || cl.Block().Dominates(ret.Block()) {
				pre = true
			}
		}
		if !pre {
			closes = false
		}
	}
	for _, cl := range cs {
		if ev := errValue(cl); ev != nil && ev.Referrers() != nil && len(*ev.Referrers()) > 0 {
			if ok, _ := failurePropagates(cl); !ok {
				closes = false
			}
		}
	}
	return
}

// c09StagingHelper: the staging of the new content is a helper of the
// repository that creates the temporary, fills and closes it and hands back
// its name: name, err := writeTempFile(filepath.Dir(dest), pattern, data, perm).
// The obligations of the replace protocol are then split between the helper
// (a nil error only after CreateTemp, Write and Close each succeeded; the
// name handed back is the temporary's; the data written is the parameter) and
// the renaming function (the helper's failure blocks the rename and is
// returned; nil only after the rename succeeded). Reports them and answers
// true when the form applies.
func c09StagingHelper(c *Ctx, fn *ssa.Function, ren *ssa.Call) bool {
	r := c.R
	fk := load.FuncKey(fn)
	pos := c.P.Pos(ren.Pos())
	local := &origin.Tracer{}
	var hc *ssa.Call
	var g *ssa.Function
	ssau.ForEachInstr(fn, false, func(in ssa.Instruction) {
		call, ok := in.(*ssa.Call)
		if !ok || !ssau.Dominates(call, ren) {
			return
		}
		h := call.Common().StaticCallee()
		if h == nil || h.Blocks == nil || !c.P.IsRepoFunc(h) || errorIndex(h) < 0 || len(callsTo(h, "os.CreateTemp")) != 1 {
			return
		}
		if resultValue(call, 0) != nil && ssau.ResolveCell(ren.Common().Args[0]) == resultValue(call, 0) {
			hc, g = call, h
		}
	})
	if hc == nil {
		return false
	}
	gk := load.FuncKey(g)
	temp := callsTo(g, "os.CreateTemp")[0]
	tmpFile := resultValue(temp, 0)
	r.OK("O-2", fk+"#temp-created", c.P.Pos(hc.Pos()), "the new content is staged by "+g.Name()+", which creates the temporary")
	// the temporary lives next to the destination
	dirOK := false
	if dp, ok := temp.Common().Args[0].(*ssa.Parameter); ok {
		for i, q := range g.Params {
			if q == dp && i < len(hc.Common().Args) {
				if d, ok := hc.Common().Args[i].(*ssa.Call); ok && ssau.CallName(d) == "path/filepath.Dir" {
					dirOK = fmt.Sprint(local.Roots(d.Common().Args[0])) == fmt.Sprint(local.Roots(ren.Common().Args[1]))
				}
			}
		}
	}
	r.Check(dirOK, "O-2", fk+"#temp-in-dest-dir", c.P.Pos(temp.Pos()), "temporary file is created in filepath.Dir(dest): same file system, so the rename is atomic", "the temporary file is not created in filepath.Dir(<rename destination>): rename may cross file systems and stop being atomic")
	onTemp := func(call *ssa.Call) bool {
		a := call.Common().Args
		return len(a) > 0 && tmpFile != nil && ssau.ResolveCell(a[0]) == tmpFile
	}
	var w, cl, nameCall *ssa.Call
	ssau.ForEachInstr(g, false, func(in ssa.Instruction) {
		call, ok := in.(*ssa.Call)
		if !ok || !onTemp(call) {
			return
		}
		switch ssau.CallName(call) {
		case fileMeth + "Write":
			w = call
		case fileMeth + "Close":
			cl = call
		case fileMeth + "Name":
			nameCall = call
		}
	})
	if !r.Check(w != nil, "O-2", fk+"#write-before-rename", pos, "the staging helper writes the temporary before the Rename", "the staging helper never writes the temporary file") {
		return true
	}
	// the data written is the data parameter of the renaming function
	dataOK := false
	if dp := ssau.ParamOf(w.Common().Args[1]); dp != nil || true {
		var par *ssa.Parameter
		if p, ok := w.Common().Args[1].(*ssa.Parameter); ok {
			par = p
		} else {
			par = ssau.ParamOf(w.Common().Args[1])
		}
		for i, q := range g.Params {
			if par != nil && q == par && i < len(hc.Common().Args) {
				rs := local.Roots(hc.Common().Args[i])
				dataOK = len(rs) == 1 && rs[0].Kind == "param"
			}
		}
	}
	r.Check(dataOK, "O-2", fk+"#writes-all-data", c.P.Pos(w.Pos()), "the whole data parameter is written", "the Write does not write exactly the data parameter (a reslice or other value): the new file may be incomplete")
	r.Check(cl != nil, "O-2", fk+"#close-before-rename", pos, "the staging helper closes the temporary", "the temporary is never closed by the staging helper: buffered or failed data can be renamed into place")
	// inside the helper: a nil error only after every step succeeded
	for _, st := range []struct {
		name string
		call *ssa.Call
	}{{"CreateTemp", temp}, {"Write", w}, {"Close", cl}} {
		if st.call == nil {
			continue
		}
		ok := nilOnlyAfterSuccess(g, st.call)
		r.Check(ok, "O-2", fk+"#"+st.name+"-error-blocks-rename", c.P.Pos(st.call.Pos()), "the staging helper reports success only after "+st.name+" succeeded", "the staging helper "+g.Name()+" can report success although "+st.name+" failed: the Rename then replaces the data file with an incomplete one")
		r.Check(ok, "O-2", fk+"#"+st.name+"-error-returned", c.P.Pos(st.call.Pos()), "a failed "+st.name+" makes the staging helper fail", "a failed "+st.name+" is not reported by "+g.Name())
	}
	// the name handed back on success is the temporary's
	nameOK := nameCall != nil
	if nameOK {
		ei := errorIndex(g)
		nameOK = nilPaths(g.Blocks[0], nil, func(ret *ssa.Return, s *nilState) bool {
			if ei >= len(ret.Results) || s.nilness(ret.Results[ei]) == nlNonNil {
				return true // a failing exit: the name does not matter
			}
			return s.resolve(ret.Results[0]) == ssa.Value(nameCall)
		})
	}
	if !nameOK && nameCall != nil {
		// the name lives in a variable that a clean-up closure may blank: it is
		// then never anything but the temporary's name or "" (renaming "" fails
		// and is reported; nothing is replaced)
		nameOK = true
		for _, ret := range ssau.ReturnsOf(g) {
			ld, ok := ret.Results[0].(*ssa.UnOp)
			if !ok {
				if k, isC := ssau.ConstString(ret.Results[0]); !(isC && k == "") && ret.Results[0] != ssa.Value(nameCall) {
					nameOK = false
				}
				continue
			}
			cell, ok := ld.X.(*ssa.Alloc)
			if !ok {
				nameOK = false
				continue
			}
			var visit func(addr ssa.Value)
			visit = func(addr ssa.Value) {
				for _, ref := range *addr.Referrers() {
					switch x := ref.(type) {
					case *ssa.Store:
						if x.Addr != addr {
							nameOK = false
							continue
						}
						if k, isC := ssau.ConstString(x.Val); isC && k == "" {
							continue
						}
						if x.Val == ssa.Value(nameCall) {
							continue
						}
						if l2, isLoad := x.Val.(*ssa.UnOp); isLoad && l2.X == addr {
							continue
						}
						nameOK = false
					case *ssa.MakeClosure:
						h, _ := x.Fn.(*ssa.Function)
						for i, bnd := range x.Bindings {
							if bnd == addr && h != nil && i < len(h.FreeVars) {
								visit(h.FreeVars[i])
							}
						}
					}
				}
			}
			visit(cell)
		}
	}
	r.Check(nameOK, "O-2", fk+"#rename-source-is-temp", pos, "the file renamed over the destination is the temporary the helper staged", "the name the staging helper hands back on success is not (only) the temporary file's name")
	_ = gk
	// in the renaming function: the helper's failure blocks the rename and is returned
	okB, whyB := errorBlocksTargets(hc, []*ssa.Call{ren})
	r.Check(okB, "O-2", fk+"#staging-error-blocks-rename", c.P.Pos(hc.Pos()), "a failed staging never reaches the Rename", "after a failed staging the Rename can still run: "+whyB)
	okP, whyP := failurePropagates(hc)
	r.Check(okP, "O-2", fk+"#staging-error-returned", c.P.Pos(hc.Pos()), "a failed staging makes the function return a non-nil error", "a failed staging is not reported to the caller: "+whyP)
	r.Check(nilOnlyAfterSuccess(fn, ren) || c09NilOnlyAfterRename(fn, ren), "O-2", fk+"#success-only-after-rename", pos, "every nil return lies behind a successful Rename", "a nil error can be returned without a successful Rename")
	return true
}

// c09NilOnlyAfterRename: the edge-cut form of the same question.
func c09NilOnlyAfterRename(fn *ssa.Function, ren *ssa.Call) bool {
	ei := errorIndex(fn)
	ev := errValue(ren)
	if ei < 0 || ev == nil {
		return false
	}
	succ, _ := nilTests(ev)
	if len(succ) == 0 {
		return false
	}
	reach := reachableFromEntry(fn, succ)
	for _, ret := range ssau.ReturnsOf(fn) {
		if reach[ret.Block()] && ssau.IsNilConst(ssau.ResultValue(ret, ei)) {
			return false
		}
	}
	return true
}
