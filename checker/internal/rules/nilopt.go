package rules

import (
	"fmt"
	"os"
	"go/token"
	"go/types"
	"sort"
	"strings"

	"golang.org/x/tools/go/ssa"

	"wtfverif/checker/internal/load"
	"wtfverif/checker/internal/ssau"
)

// nilopt: references the code itself believes may be absent are never used
// unguarded (belief contradiction, Engler et al.).
//
// Sources of "may be nil":
//   S1  a struct field of a repository type, of pointer/map/func/interface/
//       chan type, that shipped code compares with nil somewhere (the code
//       says it can be nil);
//   S2  a pointer/map/func value that merges a nil constant (var p *T; if c
//       { p = f() });
//   S3  a nil constant handed to a repository function as an argument;
// (Results of helpers that can return a literal nil are not a source: whether
// the caller may rely on the result is a correlation with the helper's
// arguments — "last entry of a non-empty list" — that this rule cannot see.)
// Uses that need the reference: field access or load through it, store
// through it, assignment into a map, call of a function value or interface
// method, call of a library method with it as receiver, and handing it to a
// repository function that does one of these with its parameter unguarded.
// A use is safe when, on every path to it, the reference was found non-nil:
// a nil test of that value, or — for a field — a nil test of the same field of
// the same object, a store of a fresh object into it or a call that makes
// such a store on all its returns, with nothing in between that may store a
// possibly-nil value into the field; or when the function is only ever
// called with the field established (helpers behind their callers' guard).

type nilOpt struct {
	c        *Ctx
	believed map[*types.Var]string // field -> "Struct.field"
	storeNil map[*types.Var]map[*ssa.Function]bool
	storeAny map[*types.Var]map[*ssa.Function]bool
	estMemo  map[string]int8
	derefMem map[string]string
	entryMem map[string]int8
	funcs    []*ssa.Function
}

func pointerish(t types.Type) bool {
	switch t.Underlying().(type) {
	case *types.Pointer, *types.Map, *types.Signature, *types.Interface, *types.Chan:
		return true
	}
	return false
}

// fieldOfLoad: v reads a struct field; base is the struct (pointer or value).
func fieldOfLoad(v ssa.Value) (base ssa.Value, fld *types.Var, ok bool) {
	switch x := v.(type) {
	case *ssa.UnOp:
		if x.Op != token.MUL {
			return nil, nil, false
		}
		fa, ok := x.X.(*ssa.FieldAddr)
		if !ok {
			return nil, nil, false
		}
		st, ok := derefT(fa.X.Type()).Underlying().(*types.Struct)
		if !ok {
			return nil, nil, false
		}
		return fa.X, st.Field(fa.Field), true
	case *ssa.Field:
		st, ok := x.X.Type().Underlying().(*types.Struct)
		if !ok {
			return nil, nil, false
		}
		return x.X, st.Field(x.Field), true
	}
	return nil, nil, false
}

func fieldTok(f *types.Var) string { return fmt.Sprintf("<%s@%d>", f.Name(), f.Pos()) }

// baseKey names the object a field is read from, stably within one function.
func baseKey(v ssa.Value, d int) string {
	if d > 4 {
		return fmt.Sprintf("?%p", v)
	}
	switch x := v.(type) {
	case *ssa.Parameter:
		return "p:" + x.Name()
	case *ssa.FreeVar:
		return "fv:" + x.Name()
	case *ssa.Alloc:
		return fmt.Sprintf("a:%s@%d", x.Name(), x.Pos())
	case *ssa.Global:
		return "g:" + x.String()
	case *ssa.UnOp:
		if x.Op == token.MUL {
			if fa, ok := x.X.(*ssa.FieldAddr); ok {
				if st, ok := derefT(fa.X.Type()).Underlying().(*types.Struct); ok {
					return baseKey(fa.X, d+1) + "." + fieldTok(st.Field(fa.Field))
				}
			}
			switch x.X.(type) {
			case *ssa.Alloc, *ssa.FreeVar, *ssa.Global:
				return "*" + baseKey(x.X, d+1)
			}
		}
	case *ssa.FieldAddr:
		// address of an embedded struct: base.field (no load)
		if st, ok := derefT(x.X.Type()).Underlying().(*types.Struct); ok {
			return baseKey(x.X, d+1) + "&" + fieldTok(st.Field(x.Field))
		}
	case *ssa.ChangeType:
		return baseKey(x.X, d+1)
	}
	return fmt.Sprintf("v:%s@%p", v.Name(), v)
}

func valKey(v ssa.Value) string { return fmt.Sprintf("val:%s@%p", v.Name(), v) }

func fieldKey(base ssa.Value, f *types.Var) string { return baseKey(base, 0) + "." + fieldTok(f) + "$" }

// nonNilValue: v is a fresh or otherwise certainly present reference.
func (n *nilOpt) nonNilValue(v ssa.Value, d int) bool {
	if d > 3 {
		return false
	}
	switch x := v.(type) {
	case *ssa.Alloc, *ssa.MakeMap, *ssa.MakeChan, *ssa.MakeSlice, *ssa.MakeClosure, *ssa.MakeInterface, *ssa.Function, *ssa.Global, *ssa.FieldAddr, *ssa.IndexAddr:
		return true
	case *ssa.Const:
		return x.Value != nil
	case *ssa.ChangeType:
		return n.nonNilValue(x.X, d)
	case *ssa.ChangeInterface:
		return n.nonNilValue(x.X, d)
	case *ssa.Phi:
		for _, e := range x.Edges {
			if e == ssa.Value(x) {
				continue
			}
			if !n.nonNilValue(e, d+1) {
				return false
			}
		}
		return true
	case *ssa.Call:
		return n.callNonNil(x, 0, d)
	case *ssa.Extract:
		if call, ok := x.Tuple.(*ssa.Call); ok {
			return n.callNonNil(call, x.Index, d)
		}
	}
	return false
}

var nilOptLibNonNil = map[string]bool{
	"time.NewTicker": true, "time.NewTimer": true, "regexp.MustCompile": true, "container/list.New": true,
	"strings.NewReplacer": true, "fmt.Errorf": true, "errors.New": true, "sync.NewCond": true, "bufio.NewReader": true,
	"bufio.NewWriter": true, "bufio.NewScanner": true, "strings.NewReader": true, "bytes.NewReader": true, "bytes.NewBuffer": true,
}

func (n *nilOpt) callNonNil(call *ssa.Call, idx, d int) bool {
	g := call.Call.StaticCallee()
	if g == nil {
		return false
	}
	if !isShipped(n.c, g) {
		return nilOptLibNonNil[g.String()]
	}
	if g.Blocks == nil {
		return false
	}
	any := false
	for _, b := range g.Blocks {
		ret, ok := b.Instrs[len(b.Instrs)-1].(*ssa.Return)
		if !ok || idx >= len(ret.Results) {
			continue
		}
		any = true
		if !n.nonNilValue(ret.Results[idx], d+1) {
			return false
		}
	}
	return any
}

// use of a reference
type nilUse struct {
	in   ssa.Instruction
	what string
	// callee/param when the reference is handed to a repository function
	callee *ssa.Function
	param  int
}

func (n *nilOpt) callees(ci ssa.CallInstruction) []*ssa.Function {
	if g := ci.Common().StaticCallee(); g != nil {
		return []*ssa.Function{g}
	}
	if call, ok := ci.(*ssa.Call); ok {
		return dynamicCallees(n.c, call)
	}
	node := n.c.P.CallGraph().Nodes[ci.Parent()]
	var out []*ssa.Function
	if node != nil {
		for _, e := range node.Out {
			if e.Site == ci && e.Callee != nil && e.Callee.Func != nil {
				out = append(out, e.Callee.Func)
			}
		}
	}
	return out
}

// uses lists what is done with reference v: direct needs and hand-overs.
func (n *nilOpt) uses(v ssa.Value) []nilUse {
	var out []nilUse
	if v.Referrers() == nil {
		return nil
	}
	for _, ref := range *v.Referrers() {
		switch x := ref.(type) {
		case *ssa.FieldAddr:
			if x.X == v {
				out = append(out, nilUse{in: x, what: "field access"})
			}
		case *ssa.IndexAddr:
			if x.X == v && isPtr(v.Type()) {
				out = append(out, nilUse{in: x, what: "array element access"})
			}
		case *ssa.UnOp:
			if x.Op == token.MUL && x.X == v {
				out = append(out, nilUse{in: x, what: "load through it"})
			}
		case *ssa.Store:
			if x.Addr == v {
				out = append(out, nilUse{in: x, what: "store through it"})
			}
		case *ssa.MapUpdate:
			if x.Map == v {
				out = append(out, nilUse{in: x, what: "assignment into the map"})
			}
		case ssa.CallInstruction:
			cm := x.Common()
			if cm.IsInvoke() {
				if cm.Value == v {
					out = append(out, nilUse{in: x, what: "interface method call"})
				}
				continue
			}
			if cm.Value == v {
				out = append(out, nilUse{in: x, what: "call of the function value"})
				continue
			}
			for i, a := range cm.Args {
				if a != v {
					continue
				}
				for _, g := range n.callees(x) {
					if g.Blocks == nil || !isShipped(n.c, g) {
						if i == 0 && g.Signature.Recv() != nil && isPtr(v.Type()) {
							out = append(out, nilUse{in: x, what: "receiver of library method " + g.Name()})
						}
						continue
					}
					pi := i
					if _, isClosure := cm.Value.(*ssa.MakeClosure); isClosure || len(g.Params) != len(cm.Args) {
						// bound/closure forms: parameters line up from the end
						pi = i + len(g.Params) - len(cm.Args)
					}
					if pi >= 0 && pi < len(g.Params) {
						out = append(out, nilUse{in: x, what: "handed to " + load.FuncKey(g), callee: g, param: pi})
					}
				}
			}
		}
	}
	return out
}

// nilTestEdges: the branch edges on which a value with one of the keys is
// known non-nil.
func (n *nilOpt) nilTestEdges(fn *ssa.Function, match func(ssa.Value) bool, pred func(*ssa.Call) bool) map[[2]int]bool {
	cut := map[[2]int]bool{}
	classify := func(cond ssa.Value) (onTrue, onFalse bool) {
		neg := false
		for {
			u, ok := cond.(*ssa.UnOp)
			if !ok || u.Op != token.NOT {
				break
			}
			cond, neg = u.X, !neg
		}
		if call, isCall := cond.(*ssa.Call); isCall && pred != nil && pred(call) {
			// a predicate helper that answers true only when the reference is present
			return !neg, neg
		}
		b, ok := cond.(*ssa.BinOp)
		if !ok || (b.Op != token.EQL && b.Op != token.NEQ) {
			return false, false
		}
		var x ssa.Value
		switch {
		case ssau.IsNilConst(b.Y):
			x = b.X
		case ssau.IsNilConst(b.X):
			x = b.Y
		default:
			return false, false
		}
		if !match(x) {
			return false, false
		}
		t := b.Op == token.NEQ
		if neg {
			t = !t
		}
		return t, !t
	}
	for _, iff := range ssau.Ifs(fn) {
		t, f := classify(iff.Cond)
		if t {
			cut[[2]int{iff.Block().Index, 0}] = true
		}
		if f {
			cut[[2]int{iff.Block().Index, 1}] = true
		}
	}
	boolPhiCuts(fn, cut, classify)
	return cut
}

// mayStore computes, per believed field, the functions that (transitively)
// store into it — any value, and a possibly-nil value.
func (n *nilOpt) mayStore(f *types.Var) (anyS, nilS map[*ssa.Function]bool) {
	if m, ok := n.storeAny[f]; ok {
		return m, n.storeNil[f]
	}
	anyS, nilS = map[*ssa.Function]bool{}, map[*ssa.Function]bool{}
	for _, fn := range n.funcs {
		for _, b := range fn.Blocks {
			for _, in := range b.Instrs {
				st, ok := in.(*ssa.Store)
				if !ok {
					continue
				}
				fa, ok := st.Addr.(*ssa.FieldAddr)
				if !ok {
					continue
				}
				s, ok := derefT(fa.X.Type()).Underlying().(*types.Struct)
				if !ok || s.Field(fa.Field) != f {
					continue
				}
				anyS[fn] = true
				if !n.nonNilValue(st.Val, 0) {
					nilS[fn] = true
				}
			}
		}
	}
	cg := n.c.P.CallGraph()
	grow := func(m map[*ssa.Function]bool) {
		var work []*ssa.Function
		for fn := range m {
			work = append(work, fn)
		}
		for len(work) > 0 {
			fn := work[len(work)-1]
			work = work[:len(work)-1]
			node := cg.Nodes[fn]
			if node == nil {
				continue
			}
			for _, e := range node.In {
				cf := e.Caller.Func
				if cf != nil && !m[cf] && isShipped(n.c, cf) {
					m[cf] = true
					work = append(work, cf)
				}
			}
			if p := fn.Parent(); p != nil && !m[p] {
				// a closure that stores: its maker may run it
				m[p] = true
				work = append(work, p)
			}
		}
	}
	grow(anyS)
	grow(nilS)
	n.storeAny[f], n.storeNil[f] = anyS, nilS
	return
}

// fieldsInKey: the fields a key depends on besides its last one.
func keyMentions(key string, f *types.Var) (last, inner bool) {
	tok := fieldTok(f)
	if strings.HasSuffix(key, "."+tok+"$") {
		last = true
		key = strings.TrimSuffix(key, "."+tok+"$")
	}
	return last, strings.Contains(key, tok)
}

// holdsAt: the must-fact "the field named by key is non-nil" just before
// instruction at, in fn. entry says whether it holds on entry.
func (n *nilOpt) holdsAt(fn *ssa.Function, key string, f *types.Var, at ssa.Instruction, entry bool, d int) bool {
	if len(fn.Blocks) == 0 {
		return false
	}
	cut := n.nilTestEdges(fn, func(x ssa.Value) bool {
		b, fl, ok := fieldOfLoad(x)
		return ok && fl == f && fieldKey(b, fl) == key
	}, func(call *ssa.Call) bool {
		g := call.Call.StaticCallee()
		if g == nil || g.Blocks == nil || !isShipped(n.c, g) || d >= 3 || len(g.Params) != len(call.Call.Args) {
			return false
		}
		for i, a := range call.Call.Args {
			if fieldKey(a, f) == key && n.impliesField(g, i, f, d+1) {
				return true
			}
		}
		return false
	})
	// transfer within a block
	step := func(in ssa.Instruction, st bool) bool {
		switch x := in.(type) {
		case *ssa.Store:
			if fa, ok := x.Addr.(*ssa.FieldAddr); ok {
				if s, ok := derefT(fa.X.Type()).Underlying().(*types.Struct); ok {
					sf := s.Field(fa.Field)
					last, inner := keyMentions(key, sf)
					if inner {
						return false
					}
					if last && sf == f {
						if fieldKey(fa.X, sf) == key {
							return n.nonNilValue(x.Val, 0)
						}
						if !n.nonNilValue(x.Val, 0) {
							return false // another object of the type, possibly this one
						}
					}
				}
				return st
			}
			switch x.Addr.(type) {
			case *ssa.Alloc, *ssa.FreeVar, *ssa.Global:
				if strings.Contains(key, "*"+baseKey(x.Addr, 0)) {
					return false
				}
			}
			return st
		case ssa.CallInstruction:
			if _, isDefer := in.(*ssa.Defer); isDefer {
				return st
			}
			if _, isGo := in.(*ssa.Go); isGo {
				return st
			}
			res := st
			for _, g := range n.callees(x) {
				if g.Blocks == nil || !isShipped(n.c, g) {
					continue
				}
				// does the callee establish the field of the object we hand it?
				if d < 3 {
					est := false
					for i, a := range x.Common().Args {
						if i < len(g.Params) && len(g.Params) == len(x.Common().Args) && fieldKey(a, f) == key {
							if n.establishes(g, i, f, d+1) {
								est = true
							}
						}
					}
					if est {
						res = true
						continue
					}
				}
				anyS, nilS := n.mayStore(f)
				if nilS[g] {
					return false
				}
				_ = anyS
				// inner fields of the key written by the callee
				for bf := range n.believed {
					if _, inner := keyMentions(key, bf); inner {
						a2, _ := n.mayStore(bf)
						if a2[g] {
							return false
						}
					}
				}
			}
			return res
		}
		return st
	}
	nb := len(fn.Blocks)
	in := make([]bool, nb)
	out := make([]bool, nb)
	for i := range in {
		in[i], out[i] = true, true
	}
	in[0] = entry
	for changed, iter := true, 0; changed && iter < 4*nb+8; iter++ {
		changed = false
		for _, b := range fn.Blocks {
			v := true
			if b.Index == 0 {
				v = entry
				// the entry block may also be a loop head
			}
			for _, p := range b.Preds {
				for si, sc := range p.Succs {
					if sc == b && !cut[[2]int{p.Index, si}] && !out[p.Index] {
						v = false
					}
				}
			}
			if len(b.Preds) == 0 && b.Index != 0 {
				v = true // unreachable
			}
			st := v
			for _, ins := range b.Instrs {
				st = step(ins, st)
			}
			if v != in[b.Index] || st != out[b.Index] {
				in[b.Index], out[b.Index] = v, st
				changed = true
			}
		}
	}
	if at == nil {
		return false
	}
	b := at.Block()
	st := in[b.Index]
	for _, ins := range b.Instrs {
		if ins == at {
			return st
		}
		st = step(ins, st)
	}
	return st
}

// establishes: on every return of g the field f of parameter i is non-nil.
func (n *nilOpt) establishes(g *ssa.Function, i int, f *types.Var, d int) bool {
	mk := fmt.Sprintf("%s/%d/%s", g.String(), i, fieldTok(f))
	if v, ok := n.estMemo[mk]; ok {
		return v == 1
	}
	n.estMemo[mk] = 0
	if i >= len(g.Params) {
		return false
	}
	key := fieldKey(g.Params[i], f)
	rets := 0
	ok := true
	for _, b := range g.Blocks {
		if len(b.Instrs) == 0 {
			continue
		}
		if ret, isRet := b.Instrs[len(b.Instrs)-1].(*ssa.Return); isRet {
			rets++
			if !n.holdsAt(g, key, f, ret, false, d) {
				ok = false
			}
		}
	}
	if ok && rets > 0 {
		n.estMemo[mk] = 1
		return true
	}
	return false
}

// impliesField: g is a predicate (one boolean result) that answers true only
// when field f of its parameter i is non-nil: every return hands back false,
// the nil test itself, or a value computed where the field is known present.
func (n *nilOpt) impliesField(g *ssa.Function, i int, f *types.Var, d int) bool {
	mk := fmt.Sprintf("imp/%s/%d/%s", g.String(), i, fieldTok(f))
	if v, ok := n.estMemo[mk]; ok {
		return v == 1
	}
	n.estMemo[mk] = 0
	res := g.Signature.Results()
	if res.Len() != 1 || i >= len(g.Params) {
		return false
	}
	if b, ok := res.At(0).Type().Underlying().(*types.Basic); !ok || b.Kind() != types.Bool {
		return false
	}
	key := fieldKey(g.Params[i], f)
	isFalse := func(v ssa.Value) bool {
		k, ok := v.(*ssa.Const)
		return ok && k.Value != nil && k.Value.String() == "false"
	}
	isTest := func(v ssa.Value) bool {
		b, ok := v.(*ssa.BinOp)
		if !ok || b.Op != token.NEQ {
			return false
		}
		x := b.X
		if ssau.IsNilConst(b.X) {
			x = b.Y
		} else if !ssau.IsNilConst(b.Y) {
			return false
		}
		base, fl, ok := fieldOfLoad(x)
		return ok && fl == f && fieldKey(base, fl) == key
	}
	rets := 0
	for _, b := range g.Blocks {
		if len(b.Instrs) == 0 {
			continue
		}
		ret, ok := b.Instrs[len(b.Instrs)-1].(*ssa.Return)
		if !ok {
			continue
		}
		rets++
		v := ret.Results[0]
		if isFalse(v) || isTest(v) {
			continue
		}
		if ph, ok := v.(*ssa.Phi); ok {
			for j, e := range ph.Edges {
				if isFalse(e) || isTest(e) {
					continue
				}
				pb := ph.Block().Preds[j]
				if len(pb.Instrs) == 0 || !n.holdsAt(g, key, f, pb.Instrs[len(pb.Instrs)-1], false, d) {
					return false
				}
			}
			continue
		}
		if !n.holdsAt(g, key, f, ret, false, d) {
			return false
		}
	}
	if rets == 0 {
		return false
	}
	n.estMemo[mk] = 1
	return true
}

// entryHolds: fn is a helper that every caller enters with the field of the
// object it hands over established.
func (n *nilOpt) entryHolds(fn *ssa.Function, p *ssa.Parameter, f *types.Var, d int) bool {
	if d > 3 {
		return false
	}
	mk := fmt.Sprintf("%s/%s/%s", fn.String(), p.Name(), fieldTok(f))
	if v, ok := n.entryMem[mk]; ok {
		return v == 1
	}
	n.entryMem[mk] = 0
	pi := -1
	for i, q := range fn.Params {
		if q == p {
			pi = i
		}
	}
	node := n.c.P.CallGraph().Nodes[fn]
	if pi < 0 || node == nil {
		return false
	}
	sites := 0
	dbg := os.Getenv("NILOPT_DEBUG") != ""
	for _, e := range node.In {
		if dbg {
			fmt.Fprintf(os.Stderr, "entryHolds %s <- %v site=%v\n", fn, e.Caller.Func, e.Site)
		}
		cf := e.Caller.Func
		if cf == nil || !isShipped(n.c, cf) {
			if cf != nil && cf.Synthetic != "" {
				// a promoted-method or bound-method wrapper: counts only when something calls it
				if wn := n.c.P.CallGraph().Nodes[cf]; wn != nil && len(wn.In) > 0 {
					return false
				}
			}
			continue
		}
		args := e.Site.Common().Args
		if len(args) != len(fn.Params) {
			return false
		}
		sites++
		a := args[pi]
		key := fieldKey(a, f)
		if n.holdsAt(cf, key, f, e.Site, false, 1) {
			continue
		}
		if ap, ok := a.(*ssa.Parameter); ok && n.entryHolds(cf, ap, f, d+1) && n.holdsAt(cf, key, f, e.Site, true, 1) {
			continue
		}
		return false
	}
	if sites == 0 {
		return false
	}
	n.entryMem[mk] = 1
	return true
}

// valueGuarded: instruction at is reachable only over edges on which v was
// found non-nil.
func (n *nilOpt) valueGuarded(v ssa.Value, at ssa.Instruction) bool {
	fn := at.Parent()
	cut := n.nilTestEdges(fn, func(x ssa.Value) bool { return x == v }, nil)
	if len(cut) == 0 {
		return false
	}
	return !ssau.ReachableAvoidingEdges(fn, at.Block(), cut)
}

// paramNeeds: g uses its parameter i as a present reference on some path
// without testing it (where: first such place).
func (n *nilOpt) paramNeeds(g *ssa.Function, i, d int) string {
	mk := fmt.Sprintf("%s/%d", g.String(), i)
	if v, ok := n.derefMem[mk]; ok {
		return v
	}
	n.derefMem[mk] = ""
	if i >= len(g.Params) || d > 3 {
		return ""
	}
	p := g.Params[i]
	res := ""
	for _, u := range n.uses(p) {
		if n.valueGuarded(p, u.in) {
			continue
		}
		if u.callee != nil {
			if w := n.paramNeeds(u.callee, u.param, d+1); w != "" {
				res = w
				break
			}
			continue
		}
		res = fmt.Sprintf("%s in %s at %s", u.what, load.FuncKey(g), n.c.P.Pos(u.in.Pos()))
		break
	}
	n.derefMem[mk] = res
	return res
}

// checkValue: all uses of the possibly-nil value v (read at instruction def)
// are safe; fieldSafe tells whether the field fact covers the read itself.
func (n *nilOpt) checkValue(v ssa.Value, fieldSafe bool) (bad []string, nUses int) {
	for _, u := range n.uses(v) {
		nUses++
		if fieldSafe || n.valueGuarded(v, u.in) {
			continue
		}
		if u.callee != nil {
			if w := n.paramNeeds(u.callee, u.param, 0); w != "" {
				bad = append(bad, fmt.Sprintf("%s (%s), which needs it: %s", u.what, n.c.P.Pos(u.in.Pos()), w))
			}
			continue
		}
		bad = append(bad, fmt.Sprintf("%s at %s", u.what, n.c.P.Pos(u.in.Pos())))
	}
	return
}

func newNilOpt(c *Ctx) *nilOpt {
	n := &nilOpt{c: c, believed: map[*types.Var]string{}, storeNil: map[*types.Var]map[*ssa.Function]bool{}, storeAny: map[*types.Var]map[*ssa.Function]bool{},
		estMemo: map[string]int8{}, derefMem: map[string]string{}, entryMem: map[string]int8{}}
	n.funcs = shippedFuncs(c)
	sort.Slice(n.funcs, func(i, j int) bool { return n.funcs[i].String() < n.funcs[j].String() })
	for _, fn := range n.funcs {
		for _, b := range fn.Blocks {
			for _, in := range b.Instrs {
				bo, ok := in.(*ssa.BinOp)
				if !ok || (bo.Op != token.EQL && bo.Op != token.NEQ) {
					continue
				}
				x := bo.X
				if ssau.IsNilConst(bo.X) {
					x = bo.Y
				} else if !ssau.IsNilConst(bo.Y) {
					continue
				}
				_, f, ok := fieldOfLoad(x)
				if !ok || !pointerish(f.Type()) || f.Pkg() == nil || !strings.HasPrefix(f.Pkg().Path(), load.ModulePath) {
					continue
				}
				owner := "?"
				if base, _, _ := fieldOfLoad(x); base != nil {
					if nt, ok := derefT(base.Type()).(*types.Named); ok {
						owner = nt.Obj().Name()
					}
				}
				n.believed[f] = owner + "." + f.Name()
			}
		}
	}
	return n
}

// nilOptRun reports, per function and source, whether every use is safe.
// keep selects the believed fields a property is about (nil: all); values
// says whether the merged-nil / nil-argument / nil-result sources are
// included.
func nilOptRun(c *Ctx, rule string, keep func(f *types.Var) bool, values bool, scope []*ssa.Function) (nFields, nObl int) {
	r := c.R
	n := newNilOpt(c)
	var names []string
	for f, nm := range n.believed {
		if keep == nil || keep(f) {
			names = append(names, nm)
		}
	}
	sort.Strings(names)
	nFields = len(names)
	funcs := n.funcs
	if scope != nil {
		funcs = scope
		sort.Slice(funcs, func(i, j int) bool { return funcs[i].String() < funcs[j].String() })
	}
	type agg struct {
		bad  []string
		uses int
		pos  string
	}
	res := map[string]*agg{}
	var order []string
	note := func(key, pos string, bad []string, uses int) {
		a := res[key]
		if a == nil {
			a = &agg{pos: pos}
			res[key] = a
			order = append(order, key)
		}
		a.bad = append(a.bad, bad...)
		a.uses += uses
	}
	for _, fn := range funcs {
		if fn.Blocks == nil {
			continue
		}
		fk := load.FuncKey(fn)
		for _, b := range fn.Blocks {
			for _, in := range b.Instrs {
				v, isVal := in.(ssa.Value)
				if !isVal {
					continue
				}
				// S1: believed fields
				if base, f, ok := fieldOfLoad(v); ok && n.believed[f] != "" && (keep == nil || keep(f)) {
					key := fieldKey(base, f)
					safe := n.holdsAt(fn, key, f, in, false, 0)
					if !safe {
						if p, isP := base.(*ssa.Parameter); isP && n.entryHolds(fn, p, f, 0) {
							safe = n.holdsAt(fn, key, f, in, true, 0)
						}
					}
					bad, uses := n.checkValue(v, safe)
					if uses > 0 {
						note(fk+"#"+n.believed[f], c.P.Pos(in.Pos()), bad, uses)
					}
					continue
				}
				if !values {
					continue
				}
				t := v.Type().Underlying()
				_, isP := t.(*types.Pointer)
				_, isM := t.(*types.Map)
				_, isF := t.(*types.Signature)
				if !isP && !isM && !isF {
					continue
				}
				switch x := v.(type) {
				case *ssa.Phi: // S2
					hasNil := false
					for _, e := range x.Edges {
						if ssau.IsNilConst(e) {
							hasNil = true
						}
					}
					if !hasNil {
						continue
					}
					bad, uses := n.checkValue(v, false)
					if uses > 0 {
						nm := x.Comment
						if nm == "" {
							nm = "merge"
						}
						note(fk+"#maybe-nil:"+nm, c.P.Pos(firstPos(x)), bad, uses)
					}
				}
			}
			// S3: nil constants as arguments
			if !values {
				continue
			}
			for _, in := range b.Instrs {
				ci, ok := in.(ssa.CallInstruction)
				if !ok || ci.Common().IsInvoke() {
					continue
				}
				for i, a := range ci.Common().Args {
					if !ssau.IsNilConst(a) {
						continue
					}
					switch a.Type().Underlying().(type) {
					case *types.Pointer, *types.Map, *types.Signature:
					default:
						continue
					}
					for _, g := range n.callees(ci) {
						if g.Blocks == nil || !isShipped(c, g) || len(g.Params) != len(ci.Common().Args) {
							continue
						}
						w := n.paramNeeds(g, i, 0)
						var bad []string
						if w != "" {
							bad = []string{fmt.Sprintf("nil handed to %s at %s, which needs it: %s", load.FuncKey(g), c.P.Pos(in.Pos()), w)}
						}
						note(fk+"#nil-argument-to:"+load.FuncKey(g)+fmt.Sprintf("/%d", i), c.P.Pos(in.Pos()), bad, 1)
					}
				}
			}
		}
	}
	sort.Strings(order)
	for _, k := range order {
		a := res[k]
		nObl++
		if len(a.bad) == 0 {
			r.OK(rule, k, a.pos, fmt.Sprintf("%d use(s) of the reference, each behind a finding that it is present", a.uses))
		} else {
			sort.Strings(a.bad)
			r.Bad(rule, k, a.pos, "used without a finding that it is present: "+strings.Join(a.bad, "; "))
		}
	}
	r.OK(rule, "fields-the-code-tests-for-nil", "-", strings.Join(names, ", "))
	return
}

func firstPos(p *ssa.Phi) token.Pos {
	if p.Pos().IsValid() {
		return p.Pos()
	}
	for _, in := range p.Block().Instrs {
		if in.Pos().IsValid() {
			return in.Pos()
		}
	}
	return token.NoPos
}

// returnsNilLiteral: some return of g hands back a nil constant.
func returnsNilLiteral(g *ssa.Function) bool {
	for _, b := range g.Blocks {
		if len(b.Instrs) == 0 {
			continue
		}
		ret, ok := b.Instrs[len(b.Instrs)-1].(*ssa.Return)
		if !ok || len(ret.Results) != 1 {
			continue
		}
		if ssau.IsNilConst(ret.Results[0]) {
			return true
		}
		if ph, ok := ret.Results[0].(*ssa.Phi); ok {
			for _, e := range ph.Edges {
				if ssau.IsNilConst(e) {
					return true
				}
			}
		}
	}
	return false
}
