package rules

import (
	"fmt"
	"go/token"
	"strings"

	"golang.org/x/tools/go/ssa"

	"wtfverif/checker/internal/load"
	"wtfverif/checker/internal/ssau"
	"wtfverif/checker/internal/symx"
)

const (
	optType   = dbPkg + ".SearchOptions"
	fuzzyFind = "github.com/sahilm/fuzzy.Find"
)

func init() {
	register(&Rule{
		Prop: "C07",
		Explanation: "Mechanisms of the typo fallback decided from the SSA form for all databases, queries and thresholds: (O-1) every call of performFuzzySearch reachable from SearchUniversal is unreachable unless options.UseFuzzy is true AND an emptiness test of the lexical stage (len(terms) == 0 or len(scores) == 0) succeeded, and UseFuzzy / FuzzyThreshold are read nowhere else on the search path — so enabling typo tolerance cannot change an answer that exists; " +
			"(O-2) inside the fallback a match reaches the result only through the failing side of `match.Score < FuzzyThreshold` or through a test establishing FuzzyThreshold == 0 (\"no threshold set\"); any other bypass (e.g. `FuzzyThreshold > 0 &&`, which silently disables the negative thresholds the CLI passes) is a violation; (O-3) the matcher's data slice is allocated with len(db.Commands) and filled at the range index of db.Commands from that command's own text, fuzzy.Find receives the query and that slice, and each result points at &db.Commands[match.Index] of the match being converted; (O-4) apart from the result-limit break and the threshold skip there is no way to leave an iteration without appending, so with no threshold every match is kept. The subsequence property of the matcher itself is library behaviour.",
		NotDecided:  []string{"that fuzzy.Find returns exactly the subsequence matches, best first (library contract; its ordering is used by C01/C02)", "score normalisation values"},
		Assumptions: []string{"github.com/sahilm/fuzzy v0.1.1: Find(pattern, data) returns matches whose Index refers to data"},
		Run:         runC07,
	})
}

func optLoad(v ssa.Value, field string) bool {
	if _, ok := ssau.IsFieldLoad(v, optType, field); ok {
		return true
	}
	return optAlias(v, field, 0)
}

var optAliasMemo = map[string]bool{}

// optAlias: v reads a field of another struct of the repository (a per-search
// filter or settings object) that only ever receives SearchOptions.<field>:
// every store to that field, anywhere in shipped code, stores a read of the
// option (or of another such alias).
func optAlias(v ssa.Value, field string, d int) bool {
	if curCtx == nil || d > 3 {
		return false
	}
	var owner, name string
	switch x := v.(type) {
	case *ssa.UnOp:
		fa, ok := x.X.(*ssa.FieldAddr)
		if !ok || x.Op != token.MUL {
			return false
		}
		owner, name = ssau.FieldOwner(fa), ssau.FieldName(fa)
	case *ssa.Field:
		owner, name = ssau.NamedOf(x.X.Type()), ssau.FieldName(x)
	default:
		return false
	}
	if owner == "" || owner == optType || !strings.HasPrefix(owner, load.ModulePath) {
		return false
	}
	key := owner + "." + name + "=" + field
	if r, ok := optAliasMemo[key]; ok {
		return r
	}
	optAliasMemo[key] = false
	n, good := 0, true
	for _, fn := range shippedFuncs(curCtx) {
		ssau.ForEachInstr(fn, false, func(in ssa.Instruction) {
			st, ok := in.(*ssa.Store)
			if !ok {
				return
			}
			fa, ok := st.Addr.(*ssa.FieldAddr)
			if !ok || ssau.FieldOwner(fa) != owner || ssau.FieldName(fa) != name {
				return
			}
			n++
			if !optValue(st.Val, field, d+1) {
				good = false
			}
		})
	}
	optAliasMemo[key] = good && n > 0
	return good && n > 0
}

func runC07(c *Ctx) {
	r := c.R
	r.Rule("O-1", "fallback only when nothing matches: each performFuzzySearch call on the search path needs options.UseFuzzy == true and len(terms)==0 / len(scores)==0; UseFuzzy and FuzzyThreshold are read only there and inside the fallback")
	r.Rule("O-2", "the threshold applies to every requested threshold: a match is kept only via !(match.Score < FuzzyThreshold) or via FuzzyThreshold == 0")
	r.Rule("O-3", "index agreement: targets := make([]string, len(db.Commands)); targets[i] is built from db.Commands[i]; Find(query, targets); result.Command = &db.Commands[match.Index]")
	r.Rule("O-4", "never empty-handed without a threshold: the only ways to leave an iteration without appending are the limit break and the threshold skip")

	sx := symx.New(c.P.IsRepoFunc)
	su := c.P.Func("internal/database", "Database", "SearchUniversal")
	pf := c.P.Func("internal/database", "Database", "performFuzzySearch")
	if !r.Anchor("O-1", "database.(*Database).SearchUniversal", su != nil) || !r.Anchor("O-1", "database.(*Database).performFuzzySearch", pf != nil) {
		return
	}
	c07Guard(c, sx, su, pf)
	c07Fallback(c, sx, pf)
}

// reachFromSU returns the repo functions reachable from SearchUniversal
// through static calls and closures.
func reachFrom(c *Ctx, root *ssa.Function, stop func(*ssa.Function) bool) []*ssa.Function {
	seen := map[*ssa.Function]bool{}
	var out []*ssa.Function
	var walk func(fn *ssa.Function)
	walk = func(fn *ssa.Function) {
		if seen[fn] || fn.Blocks == nil {
			return
		}
		seen[fn] = true
		out = append(out, fn)
		if stop != nil && stop(fn) {
			return
		}
		for _, a := range fn.AnonFuncs {
			walk(a)
		}
		ssau.ForEachInstr(fn, false, func(in ssa.Instruction) {
			if call, ok := in.(ssa.CallInstruction); ok {
				if cal := call.Common().StaticCallee(); cal != nil && c.P.IsRepoFunc(cal) {
					walk(cal)
				}
			}
		})
	}
	walk(root)
	return out
}

// c07GuardedBy: block blk of fn is unreachable unless the condition holds:
// options.UseFuzzy is true ("UseFuzzy"), or an emptiness test len(x) == 0 of
// the lexical stage succeeded ("empty"). When fn's own branches do not
// establish it, every call site of fn on the search path must.
func c07GuardedBy(c *Ctx, sx *symx.Ctx, reach []*ssa.Function, entry, fn *ssa.Function, blk *ssa.BasicBlock, need string, emptyOf *[]string, d int) bool {
	f := sx.Of(fn)
	cut := map[[2]int]bool{}
	for _, iff := range ssau.Ifs(fn) {
		cond := iff.Cond
		if need == "UseFuzzy" {
			if optLoad(cond, "UseFuzzy") {
				cut[[2]int{iff.Block().Index, 0}] = true
			}
			continue
		}
		op, x, y, ok := ssau.CondOf(cond)
		if !ok {
			continue
		}
		if lc, isLen := x.(*ssa.Call); isLen && ssau.CallName(lc) == "builtin.len" {
			if k, isC := ssau.ConstInt(y); isC {
				switch {
				case k == 0 && (op == token.EQL || op == token.LEQ), k == 1 && op == token.LSS:
					cut[[2]int{iff.Block().Index, 0}] = true
					*emptyOf = append(*emptyOf, f.Plain(lc.Common().Args[0]))
				case k == 0 && (op == token.NEQ || op == token.GTR), k == 1 && op == token.GEQ:
					cut[[2]int{iff.Block().Index, 1}] = true
					*emptyOf = append(*emptyOf, f.Plain(lc.Common().Args[0]))
				}
			}
		}
	}
	if len(cut) > 0 && !ssau.ReachableAvoidingEdges(fn, blk, cut) {
		return true
	}
	if fn == entry || d > 3 {
		return false
	}
	n := 0
	for _, caller := range reach {
		for _, site := range callsTo(caller, ssau.FuncName(fn)) {
			n++
			if !c07GuardedBy(c, sx, reach, entry, caller, site.Block(), need, emptyOf, d+1) {
				return false
			}
		}
	}
	return n > 0
}

func c07Guard(c *Ctx, sx *symx.Ctx, su, pf *ssa.Function) {
	r := c.R
	pfName := ssau.FuncName(pf)
	reach := reachFrom(c, su, func(fn *ssa.Function) bool { return fn == pf })
	r.Analysed["functions_reachable_from_SearchUniversal"] = len(reach)
	nCalls := 0
	for _, fn := range reach {
		calls := callsTo(fn, pfName)
		if len(calls) == 0 {
			continue
		}
		_ = sx.Of(fn)
		for _, call := range calls {
			nCalls++
			key := fmt.Sprintf("%s#fuzzy-call-%d", load.FuncKey(fn), nCalls)
			// both conditions may be split between the function holding the call and
			// its callers (a fallback helper tests UseFuzzy, its caller the emptiness)
			var emptyOf []string
			okF := c07GuardedBy(c, sx, reach, su, fn, call.Block(), "UseFuzzy", &emptyOf, 0)
			okE := c07GuardedBy(c, sx, reach, su, fn, call.Block(), "empty", &emptyOf, 0)
			r.Check(okF, "O-1", key+":needs-UseFuzzy", c.P.Pos(call.Pos()), "unreachable unless options.UseFuzzy is true", "the typo fallback can run although options.UseFuzzy is false")
			r.Check(okE, "O-1", key+":needs-empty-lexical-stage", c.P.Pos(call.Pos()), "unreachable unless an emptiness test of the lexical stage succeeded ("+strings.Join(emptyOf, ", ")+")", "the typo fallback can run although the lexical stage produced terms and scored documents: enabling typo tolerance would change an answer that exists")
			// the query and options are passed through unchanged
			args := call.Common().Args
			passOK := len(args) >= 3 && ssau.ParamOf(args[1]) != nil
			r.Check(passOK, "O-1", key+":same-query", c.P.Pos(call.Pos()), "the fallback receives the caller's query", "the fallback is not given the caller's query")
		}
	}
	r.Floor("O-1", "fallback call sites on the search path", nCalls, 2)
	// reads of UseFuzzy / FuzzyThreshold
	for _, field := range []string{"UseFuzzy", "FuzzyThreshold"} {
		n := 0
		for _, fn := range reach {
			if fn == pf {
				continue
			}
			ssau.ForEachInstr(fn, false, func(in ssa.Instruction) {
				fa, ok := in.(*ssa.FieldAddr)
				if !ok || ssau.FieldName(fa) != field || ssau.NamedOf(fa.X.Type()) != optType {
					return
				}
				for _, ref := range *fa.Referrers() {
					u, ok := ref.(*ssa.UnOp)
					if !ok {
						continue
					}
					n++
					// allowed: the value is used only as an If condition guarding the fallback (UseFuzzy)
					good := field == "UseFuzzy"
					for _, r2 := range *u.Referrers() {
						iff, isIf := r2.(*ssa.If)
						if !isIf {
							if _, isDbg := r2.(*ssa.DebugRef); !isDbg {
								good = false
							}
							continue
						}
						// the true side does nothing but enter the fallback and return its result
						tb := iff.Block().Succs[0]
						var fc, lim *ssa.Call
						for _, ti := range tb.Instrs {
							switch y := ti.(type) {
							case *ssa.Call:
								switch {
								case ssau.CallName(y) == pfName && fc == nil:
									fc = y
								case fc != nil && lim == nil && ssau.CallName(y) == dbMeth+"limitResults" && y.Common().Args[1] == ssa.Value(fc):
									lim = y // truncation of the fallback's own result
								default:
									good = false
								}
							case *ssa.Return:
								if fc == nil || len(y.Results) != 1 || !(y.Results[0] == ssa.Value(fc) || (lim != nil && y.Results[0] == ssa.Value(lim))) {
									good = false
								}
							case *ssa.UnOp, *ssa.FieldAddr, *ssa.DebugRef:
							default:
								good = false
							}
						}
						if fc == nil {
							good = false
						}
					}
					if !good && field == "UseFuzzy" {
						// or: the flag is only ever branched on, and only where the
						// lexical stage has already come up empty — whatever it decides
						// there cannot change an answer that exists
						alt := true
						nIf := 0
						for _, r2 := range *u.Referrers() {
							switch y := r2.(type) {
							case *ssa.If:
								nIf++
								var emptyOf []string
								if !c07GuardedBy(c, sx, reach, su, fn, y.Block(), "empty", &emptyOf, 0) {
									alt = false
								}
							case *ssa.DebugRef:
							default:
								alt = false
							}
						}
						good = alt && nIf > 0
					}
					r.Check(good, "O-1", fmt.Sprintf("%s#read-%s-%d", load.FuncKey(fn), field, n), c.P.Pos(u.Pos()), "read only as the fallback guard", "options."+field+" is read on the search path outside the fallback guard: it can influence answers that exist")
				}
			})
			// struct-value field reads (options passed by value and read with Field)
			ssau.ForEachInstr(fn, false, func(in ssa.Instruction) {
				fv, ok := in.(*ssa.Field)
				if ok && ssau.FieldName(fv) == field && ssau.NamedOf(fv.X.Type()) == optType {
					n++
					r.Bad("O-1", fmt.Sprintf("%s#read-%s-%d", load.FuncKey(fn), field, n), c.P.Pos(fv.Pos()), "options."+field+" is read on the search path outside the fallback guard")
				}
			})
		}
		r.Analysed["reads_of_"+field+"_outside_fallback"] = n
	}
}

func c07Fallback(c *Ctx, sx *symx.Ctx, pf *ssa.Function) {
	r := c.R
	f := sx.Of(pf)
	fk := "database.(*Database).performFuzzySearch"
	// the matcher call
	finds := callsTo(pf, fuzzyFind)
	entry := pf
	var stack []*ssa.Call // the calls from the fallback entry down to the function that runs the matcher
	if len(finds) == 0 {
		// the fallback may delegate to a step that runs the matcher
		for _, g := range withSteps(c, pf, 2) {
			if fs := callsTo(g, fuzzyFind); len(fs) == 1 && g != pf {
				if _, st := reachCall(c, entry, fuzzyFind, nil, 2); st != nil {
					stack = st
				}
				pf, f, finds = g, sx.Of(g), fs
				fk = load.FuncKey(g)
			}
		}
	}
	ev := &ctxEval{c: c}
	// the value is parameter `name` of the fallback entry (query, options.<field>)
	isEntryParam := func(v ssa.Value, want string) bool {
		return entry != pf && ev.Describe(v, stack) == want
	}
	if len(finds) != 1 {
		r.Bad("O-3", fk+"#find-call", c.P.Pos(pf.Pos()), fmt.Sprintf("%d calls of fuzzy.Find (want 1)", len(finds)))
		return
	}
	find := finds[0]
	// O-3: data slice
	data := find.Common().Args[1]
	// the targets may be made here or in a helper that returns them: the rest
	// of the rule looks at the function that makes them
	home, mk, via := sliceBuilder(c, data)
	isMk := mk != nil
	if home == nil {
		home = pf
	}
	if via != nil && entry == pf {
		// the helper works on the same database
		if len(via.Common().Args) == 0 || ssau.ParamOf(via.Common().Args[0]) != pf.Params[0] && via.Common().Args[0] != ssa.Value(pf.Params[0]) {
			isMk = false
		}
	}
	lenOK := false
	if isMk {
		if lc, ok := mk.Len.(*ssa.Call); ok && ssau.CallName(lc) == "builtin.len" {
			if isCommandsList(lc.Common().Args[0]) {
				lenOK = true
			}
		}
	}
	r.Check(lenOK, "O-3", fk+"#targets-sized-by-commands", c.P.Pos(find.Pos()), "data = make([]string, len(db.Commands))", "the slice given to the matcher is not make([]string, len(db.Commands)): match indices no longer index db.Commands")
	// pattern is the query parameter (possibly through a NUL-stripping string function)
	pat := find.Common().Args[0]
	patOK := ssau.ParamOf(pat) == pf.Params[1] || pat == ssa.Value(pf.Params[1])
	if !patOK {
		steps, root := stringChain(pat)
		patOK = root == ssa.Value(pf.Params[1]) && len(steps) <= 2
	}
	if !patOK && entry != pf {
		// the query kept in the search object the step belongs to
		patOK = isEntryParam(pat, "param:"+entry.Params[1].Name())
	}
	r.Check(patOK, "O-3", fk+"#pattern-is-query", c.P.Pos(find.Pos()), "the matcher's pattern is the query", "the pattern given to the matcher is not the query")
	// stores into data[i]
	var loopOverCmds *ssau.RangeLoop
	for _, l := range ssau.RangeLoops(home) {
		l := l
		if l.Over != nil && !l.IsMap {
			if isCommandsList(l.Over) {
				loopOverCmds = &l
			}
		}
	}
	nStores := 0
	if isMk {
		for _, ref := range *mk.Referrers() {
			ia, ok := ref.(*ssa.IndexAddr)
			if !ok {
				continue
			}
			for _, r2 := range *ia.Referrers() {
				st, ok := r2.(*ssa.Store)
				if !ok || st.Addr != ssa.Value(ia) {
					continue
				}
				nStores++
				key := fmt.Sprintf("%s#target-store-%d", fk, nStores)
				idxOK := loopOverCmds != nil && ia.Index == loopOverCmds.Index
				// the text derives from the element of that iteration: some operand chain reaches db.Commands[idx] or its range copy
				srcOK := idxOK && c07FromElement(home, st.Val, loopOverCmds)
				r.Check(idxOK, "O-3", key+":index", c.P.Pos(st.Pos()), "targets[i] with i the range index over db.Commands", "a matcher target is stored at an index that is not the range index over db.Commands")
				r.Check(srcOK, "O-3", key+":text", c.P.Pos(st.Pos()), "targets[i] is built from db.Commands[i]'s own text", "the text matched at index i is not built from db.Commands[i]")
			}
		}
	}
	r.Floor("O-3", "target stores", nStores, 1)
	// results: range over the matches
	var loopM *ssau.RangeLoop
	for _, l := range ssau.RangeLoops(pf) {
		l := l
		if ssau.ElementsFrom(l.Over, find) {
			loopM = &l
		}
	}
	if loopM == nil {
		r.Bad("O-3", fk+"#range-matches", c.P.Pos(find.Pos()), "no range loop over the matcher's result")
		return
	}
	inLoop := func(b *ssa.BasicBlock) bool { return b == loopM.Header || loopM.InLoop(b) }
	// the match of this iteration: the element loaded at the loop index (maybe copied into a cell)
	isMatchField := func(v ssa.Value, field string) bool {
		u, ok := v.(*ssa.UnOp)
		if !ok || u.Op != token.MUL {
			return false
		}
		fa, ok := u.X.(*ssa.FieldAddr)
		if !ok || ssau.FieldName(fa) != field {
			return false
		}
		switch b := fa.X.(type) {
		case *ssa.IndexAddr:
			return b.X == loopM.Over && b.Index == loopM.Index
		case *ssa.Alloc:
			// range copy: stored once from matches[idx]
			n, good := 0, false
			for _, ref := range *b.Referrers() {
				if st, ok := ref.(*ssa.Store); ok && st.Addr == ssa.Value(b) {
					n++
					if ld, ok := st.Val.(*ssa.UnOp); ok {
						if ia, ok := ld.X.(*ssa.IndexAddr); ok && ia.X == loopM.Over && ia.Index == loopM.Index {
							good = true
						}
					}
				}
			}
			return n == 1 && good
		}
		return false
	}
	// appends
	var appends []*ssa.Call
	ssau.ForEachInstr(pf, false, func(in ssa.Instruction) {
		if call, ok := in.(*ssa.Call); ok && ssau.CallName(call) == "builtin.append" && inLoop(call.Block()) {
			if strings.HasSuffix(call.Type().String(), "SearchResult") {
				appends = append(appends, call)
			}
		}
	})
	r.Floor("O-3", "appends to the fallback result", len(appends), 1)
	for i, ap := range appends {
		key := fmt.Sprintf("%s#result-%d", fk, i+1)
		el := appendedSingle(ap)
		cmdOK := false
		if u, ok := el.(*ssa.UnOp); ok {
			if al, ok := u.X.(*ssa.Alloc); ok {
				for _, ref := range *al.Referrers() {
					fa, ok := ref.(*ssa.FieldAddr)
					if !ok || ssau.FieldName(fa) != "Command" {
						continue
					}
					for _, r2 := range *fa.Referrers() {
						st, ok := r2.(*ssa.Store)
						if !ok {
							continue
						}
						if ia, ok := st.Val.(*ssa.IndexAddr); ok && isMatchField(ia.Index, "Index") {
							if isCommandsList(ia.X) {
								cmdOK = true
							}
						}
					}
				}
			}
		}
		r.Check(cmdOK, "O-3", key+":points-at-matched-command", c.P.Pos(ap.Pos()), "result.Command = &db.Commands[match.Index] of this iteration's match", "a fallback result does not point at db.Commands[match.Index] of the match being converted")

		// O-2: reachable only via Score >= T or T == 0
		cut := map[[2]int]bool{}
		// which side of a condition establishes Score >= T or T == 0
		classify := func(cond ssa.Value) (onTrue, onFalse bool) {
			// a predicate of the search object given this match's score:
			// true only where Score >= T or T == 0
			if hc, isCall := cond.(*ssa.Call); isCall {
				for ai, a := range hc.Common().Args {
					if isMatchField(a, "Score") && c07AcceptsPredicate(c, ev, hc, ai, append(append([]*ssa.Call(nil), stack...), hc), entry) {
						return true, false
					}
				}
				return
			}
			op, x, y, ok := ssau.CondOf(cond)
			if !ok {
				return
			}
			// match.Score < T  (or T > match.Score)
			if isMatchField(y, "Score") && optLoad(x, "FuzzyThreshold") {
				x, y, op = y, x, ssau.Flip(op)
			}
			if isMatchField(x, "Score") && optLoad(y, "FuzzyThreshold") {
				switch op {
				case token.LSS:
					onFalse = true
				case token.GEQ:
					onTrue = true
				}
				return
			}
			// T == 0 exemption
			if optLoad(y, "FuzzyThreshold") {
				x, y, op = y, x, ssau.Flip(op)
			}
			if optLoad(x, "FuzzyThreshold") {
				if k, isC := ssau.ConstInt(y); isC && k == 0 {
					switch op {
					case token.EQL:
						onTrue = true
					case token.NEQ:
						onFalse = true
					}
				}
			}
			return
		}
		for _, iff := range ssau.Ifs(pf) {
			if !inLoop(iff.Block()) {
				continue
			}
			t, f0 := classify(iff.Cond)
			if t {
				cut[[2]int{iff.Block().Index, 0}] = true
			}
			if f0 {
				cut[[2]int{iff.Block().Index, 1}] = true
			}
		}
		// a condition kept in a variable (skip := T != 0 && Score < T): the test
		// of the variable establishes, on each side, what its parts establish
		boolPhiCuts(pf, cut, classify)
		// reachability from the loop body entry to the append avoiding those edges
		reach := blocksReachable(loopM.Header, cut)
		bypass := len(cut) == 0 || reach[ap.Block()]
		r.Check(!bypass, "O-2", key+":threshold", c.P.Pos(ap.Pos()), "a match is kept only through !(match.Score < FuzzyThreshold) or FuzzyThreshold == 0", "a match can reach the result without passing `match.Score >= FuzzyThreshold` or `FuzzyThreshold == 0` (for instance through a `FuzzyThreshold > 0 &&` conjunct): a requested negative threshold, as the CLI passes, is silently ignored and sub-threshold matches are returned")

		// O-4: iteration exits without append: only the limit break and the threshold skip
		nOther := 0
		for _, b := range pf.Blocks {
			if !inLoop(b) || b == ap.Block() {
				continue
			}
			for k, sc := range b.Succs {
				// an edge that leaves the iteration (to header or out of the loop) from a block that is not after the append
				leaves := sc == loopM.Header || !inLoop(sc)
				if !leaves || b == loopM.Header {
					continue
				}
				if ssau.Reachable(ap.Block(), b, map[*ssa.BasicBlock]bool{loopM.Header: true}) || ap.Block() == b {
					continue // after the append
				}
				iff, ok := b.Instrs[len(b.Instrs)-1].(*ssa.If)
				allowed := false
				if ok {
					op, x, y, okc := ssau.CondOf(iff.Cond)
					if okc {
						// threshold skip
						if (isMatchField(x, "Score") && optLoad(y, "FuzzyThreshold")) || (isMatchField(y, "Score") && optLoad(x, "FuzzyThreshold")) {
							allowed = true
						}
						// limit break: index compared with an expression of options.Limit
						if x == loopM.Index && strings.Contains(f.Plain(y), "options.Limit") && (op == token.GEQ || op == token.GTR) && k == 0 {
							allowed = true
						}
						if x == loopM.Index && strings.Contains(f.Plain(y), ".Limit") && (op == token.GEQ || op == token.GTR) && k == 0 {
							allowed = true
						}
						// the same limit as a loop condition: left when i < limit is false
						if x == loopM.Index && strings.Contains(f.Plain(y), ".Limit") && (op == token.LSS || op == token.LEQ) && k == 1 {
							allowed = true
						}
					}
				}
				if ok && !allowed {
					cnd := iff.Cond
					if u, isNot := cnd.(*ssa.UnOp); isNot && u.Op == token.NOT {
						cnd = u.X
					}
					if t, _ := classify(cnd); t {
						allowed = true // the accepting predicate of the search object
					}
				}
				if ok && !allowed {
					// the threshold test kept in a variable: a merge whose parts are
					// threshold comparisons only
					cond := iff.Cond
					if u, isNot := cond.(*ssa.UnOp); isNot && u.Op == token.NOT {
						cond = u.X
					}
					if phi, isPhi := cond.(*ssa.Phi); isPhi {
						parts, good := 0, true
						for _, e := range phi.Edges {
							if _, isC := e.(*ssa.Const); isC {
								continue
							}
							_, x, y, okc := ssau.CondOf(e)
							if okc && ((isMatchField(x, "Score") && optLoad(y, "FuzzyThreshold")) || (isMatchField(y, "Score") && optLoad(x, "FuzzyThreshold"))) {
								parts++
							} else {
								good = false
							}
						}
						allowed = good && parts > 0
					}
				}
				if !allowed {
					nOther++
					r.Bad("O-4", fmt.Sprintf("%s#skip-%d", fk, nOther), c.P.Pos(b.Instrs[len(b.Instrs)-1].Pos()), "a match can be skipped by a test other than the result limit and the threshold: "+f.Plain(condOf(b)))
				}
			}
		}
		if nOther == 0 {
			r.OK("O-4", fk+"#only-limit-and-threshold-skip", c.P.Pos(ap.Pos()), "iterations end without appending only at the limit break or the threshold skip")
		}
	}
}

func condOf(b *ssa.BasicBlock) ssa.Value {
	if iff, ok := b.Instrs[len(b.Instrs)-1].(*ssa.If); ok {
		return iff.Cond
	}
	return nil
}

// c07FromElement: v is computed from the element of the current iteration of
// loop l (db.Commands[idx] or its range copy).
func c07FromElement(fn *ssa.Function, v ssa.Value, l *ssau.RangeLoop) bool {
	seen := map[ssa.Value]bool{}
	var walk func(v ssa.Value, d int) bool
	walk = func(v ssa.Value, d int) bool {
		if v == nil || seen[v] || d > 40 {
			return false
		}
		seen[v] = true
		if ia, ok := v.(*ssa.IndexAddr); ok && ia.Index == l.Index {
			if _, ok := ssau.IsFieldLoad(ia.X, dbType, "Commands"); ok {
				return true
			}
			if ia.X == l.Over {
				return true
			}
		}
		// builder-based text: the value is builder.String(); look at what was written to the builder in this iteration
		if call, ok := v.(*ssa.Call); ok && strings.HasPrefix(ssau.CallName(call), "(*strings.Builder).String") {
			b := call.Common().Args[0]
			found := false
			ssau.ForEachInstr(fn, false, func(in ssa.Instruction) {
				if wc, ok := in.(*ssa.Call); ok && strings.HasPrefix(ssau.CallName(wc), "(*strings.Builder).WriteString") && wc.Common().Args[0] == b && l.InLoop(wc.Block()) {
					if walk(wc.Common().Args[1], d+1) {
						found = true
					}
				}
			})
			return found
		}
		if al, ok := v.(*ssa.Alloc); ok {
			for _, ref := range *al.Referrers() {
				if st, ok := ref.(*ssa.Store); ok && st.Addr == ssa.Value(al) && walk(st.Val, d+1) {
					return true
				}
			}
			return false
		}
		in, ok := v.(ssa.Instruction)
		if !ok {
			return false
		}
		for _, op := range in.Operands(nil) {
			if *op != nil && walk(*op, d+1) {
				return true
			}
		}
		return false
	}
	return walk(v, 0)
}

// optValue: v is SearchOptions.<field>: read directly, through an alias field,
// or received as a parameter to which every shipped call site passes it.
func optValue(v ssa.Value, field string, d int) bool {
	if d > 4 {
		return false
	}
	if _, direct := ssau.IsFieldLoad(v, optType, field); direct {
		return true
	}
	if optAlias(v, field, d) {
		return true
	}
	p := ssau.ParamOf(v)
	if p == nil {
		var ok bool
		if p, ok = v.(*ssa.Parameter); !ok {
			return false
		}
	}
	g := p.Parent()
	idx := -1
	for i, q := range g.Params {
		if q == p {
			idx = i
		}
	}
	node := curCtx.P.CallGraph().Nodes[g]
	if node == nil || idx < 0 {
		return false
	}
	n := 0
	for _, e := range node.In {
		if e.Site == nil || !isShipped(curCtx, e.Caller.Func) {
			continue
		}
		args := e.Site.Common().Args
		if e.Site.Common().IsInvoke() || idx >= len(args) {
			return false
		}
		n++
		if !optValue(args[idx], field, d+1) {
			return false
		}
	}
	return n > 0
}

// c07AcceptsPredicate: the function called answers true only where its score
// parameter (#si) is >= the fuzzy threshold of the search in force, or that
// threshold is 0. The threshold is options.FuzzyThreshold of the fallback
// entry, read directly or through the search object (evaluated under stack).
func c07AcceptsPredicate(c *Ctx, ev *ctxEval, call *ssa.Call, si int, stack []*ssa.Call, entry *ssa.Function) bool {
	h := call.Common().StaticCallee()
	if h == nil || h.Blocks == nil || !c.P.IsRepoFunc(h) || si >= len(h.Params) || h.Signature.Results().Len() != 1 {
		return false
	}
	score := h.Params[si]
	want := ""
	for _, p := range entry.Params {
		if ssau.NamedOf(p.Type()) == optType {
			want = "param:" + p.Name() + ".FuzzyThreshold"
		}
	}
	isScore := func(v ssa.Value) bool { return v == ssa.Value(score) || ssau.ParamOf(v) == score }
	isThr := func(v ssa.Value) bool {
		return optLoad(v, "FuzzyThreshold") || (want != "" && ev.Describe(v, stack) == want)
	}
	classify := func(cond ssa.Value) (onTrue, onFalse bool) {
		op, x, y, ok := ssau.CondOf(cond)
		if !ok {
			return
		}
		if isScore(y) && isThr(x) {
			x, y, op = y, x, ssau.Flip(op)
		}
		if isScore(x) && isThr(y) {
			switch op {
			case token.LSS:
				onFalse = true
			case token.GEQ:
				onTrue = true
			}
			return
		}
		if isThr(y) {
			x, y, op = y, x, ssau.Flip(op)
		}
		if isThr(x) {
			if k, isC := ssau.ConstInt(y); isC && k == 0 {
				switch op {
				case token.EQL:
					onTrue = true
				case token.NEQ:
					onFalse = true
				}
			}
		}
		return
	}
	cut := map[[2]int]bool{}
	for _, iff := range ssau.Ifs(h) {
		t, f0 := classify(iff.Cond)
		if t {
			cut[[2]int{iff.Block().Index, 0}] = true
		}
		if f0 {
			cut[[2]int{iff.Block().Index, 1}] = true
		}
	}
	boolPhiCuts(h, cut, classify)
	reach := reachableFromEntry(h, cut)
	var trueOnlyQualified func(v ssa.Value, at, pred *ssa.BasicBlock, d int) bool
	trueOnlyQualified = func(v ssa.Value, at, pred *ssa.BasicBlock, d int) bool {
		if d > 4 {
			return false
		}
		if ssau.IsConstBool(v, false) {
			return true
		}
		if ssau.IsConstBool(v, true) {
			// reached only over qualifying edges
			if pred != nil {
				for si2, sc := range pred.Succs {
					if sc == at && cut[[2]int{pred.Index, si2}] {
						return true
					}
				}
				return !reach[pred]
			}
			return !reach[at]
		}
		if phi, ok := v.(*ssa.Phi); ok {
			for i, e := range phi.Edges {
				if !trueOnlyQualified(e, phi.Block(), phi.Block().Preds[i], d+1) {
					return false
				}
			}
			return len(phi.Edges) > 0
		}
		t, _ := classify(v)
		return t
	}
	n := 0
	for _, ret := range ssau.ReturnsOf(h) {
		n++
		if !trueOnlyQualified(ssau.ResultValue(ret, 0), ret.Block(), nil, 0) {
			return false
		}
	}
	return n > 0
}
