package rules

import (
	"fmt"
	"go/token"
	"go/types"
	"os"
	"path/filepath"
	"reflect"
	"regexp"
	"sort"
	"strings"

	"golang.org/x/tools/go/ssa"

	"wtfverif/checker/internal/load"
	"wtfverif/checker/internal/ssau"
	"wtfverif/checker/internal/tables"
)

const (
	cmdType = dbPkg + ".Command"
	dbType  = dbPkg + ".Database"
	cliPkg  = load.ModulePath + "/internal/cli"
	cfgMeth = "(*" + load.ModulePath + "/internal/config.Config)."
	yamlPkg = "gopkg.in/yaml.v3"
)

func init() {
	register(&Rule{
		Prop: "C08",
		Explanation: "Structural conditions for faithful saving, decided from the SSA/type information: (O-1) the save and save-pipeline commands start — their flag sets merge without a pflag panic and every flag they read is registered with the type read; (O-2) each positional argument and flag value reaches its own field of the database.Command handed to saveToPersonalDatabase unchanged (value identity), Pipeline is the flag (save) or true (save-pipeline); " +
			"(O-3) the read-modify-write in saveToPersonalDatabase derives the written slice from the unmarshalled one only by `commands[i] = entry` under `commands[i].Command == entry.Command` (same i) or `append(commands, entry)`, and a failed read or parse cannot reach the write; (O-4) writer and readers use the same Go type []database.Command, the six persisted fields have distinct non-'-' yaml keys that cover the keys used by the shipped database, the cache fields are yaml:\"-\"; (O-5) LoadDatabaseWithPersonal stores append(append(empty, main...), personal...) in a fresh Database and builds both indexes, and the CLI passes (main path, personal path) in that order and saves to the personal path. " +
			"The YAML encoder/decoder round trip for arbitrary strings is library behaviour over runtime values and is NOT decided.",
		NotDecided:  []string{"yaml.v3 Marshal/Unmarshal round trip of arbitrary strings (control characters, invalid UTF-8, YAML-significant text)", "file-system effects"},
		Assumptions: []string{"yaml.v3 decodes what it encoded for the []database.Command type", "cobra/pflag merge semantics as in C17"},
		Run:         runC08,
	})
}

func runC08(c *Ctx) {
	r := c.R
	r.Rule("O-1", "save and save-pipeline start: no flag-set collision that makes pflag panic; every flag read is registered with the type read")
	r.Rule("O-2", "every input reaches the entry: args and flag values flow unchanged into distinct fields of the Command literal passed to saveToPersonalDatabase; Pipeline is true for save-pipeline")
	r.Rule("O-3", "read-modify-write keeps the neighbours: the written slice is the unmarshalled slice with entry stored at an index guarded by equality of the command strings, or with entry appended; no other store, reslice, sort or rebuild; a failed read or parse never reaches the write")
	r.Rule("O-4", "writer/reader symmetry: the same Go type is marshalled and unmarshalled; no type of the entry has a hand-written decoder without a hand-written encoder or the reverse; persisted fields have distinct yaml keys (none '-') that cover the shipped database's keys; cache fields are yaml:\"-\"")
	r.Rule("O-5", "merge order and freshness: merged = main entries then notebook entries in a fresh Database followed by both index builds; the CLI passes main and personal paths in that order and saves to the personal path")

	t := cliTree(c)
	if !r.Anchor("O-1", "cli command tree", t != nil) {
		return
	}
	only := map[string]bool{"saveCmd": true, "savePipelineCmd": true}
	for n := range only {
		if !r.Anchor("O-1", "cli."+n, t.Cmds[n] != nil && t.Cmds[n].Run != nil) {
			return
		}
	}
	flagTableRules(c, "O-1", t, only)
	n := flagReadRules(c, "O-1", t, only)
	r.Floor("O-1", "flag reads in save commands", n, 8)

	c08Inputs(c, t)
	c08RMW(c)
	c08Symmetry(c)
	c08Merge(c, t)
}

// flagSource: v is the value of Flags().GetXxx(name) (Extract #0).
func flagSource(v ssa.Value) (string, bool) {
	ex, ok := v.(*ssa.Extract)
	if !ok || ex.Index != 0 {
		return "", false
	}
	call, ok := ex.Tuple.(*ssa.Call)
	if !ok || !strings.Contains(ssau.CallName(call), "pflag.FlagSet).Get") {
		return "", false
	}
	s, ok := ssau.ConstString(call.Common().Args[1])
	return s, ok
}

// argSource: v is args[k] of the Run closure.
func argSource(fn *ssa.Function, v ssa.Value) (int, bool) {
	u, ok := v.(*ssa.UnOp)
	if !ok || u.Op != token.MUL {
		return 0, false
	}
	ia, ok := u.X.(*ssa.IndexAddr)
	if !ok || len(fn.Params) < 2 || ia.X != ssa.Value(fn.Params[1]) {
		return 0, false
	}
	k, ok := ssau.ConstInt(ia.Index)
	return int(k), ok
}

func describeSource(fn *ssa.Function, v ssa.Value) string {
	if k, ok := argSource(fn, v); ok {
		return fmt.Sprintf("arg%d", k)
	}
	if f, ok := flagSource(v); ok {
		return "flag:" + f
	}
	if cst, ok := v.(*ssa.Const); ok {
		if cst.Value == nil {
			return "const:nil"
		}
		return "const:" + cst.Value.String()
	}
	if phi, ok := v.(*ssa.Phi); ok {
		var parts []string
		for _, e := range phi.Edges {
			parts = append(parts, describeSource(fn, e))
		}
		sort.Strings(parts)
		return "phi(" + strings.Join(parts, "|") + ")"
	}
	if call, ok := v.(*ssa.Call); ok {
		if ssau.CallName(call) == "builtin.append" {
			return "append(" + describeSource(fn, call.Common().Args[0]) + ", " + describeSource(fn, call.Common().Args[1]) + "...)"
		}
		return "call:" + ssau.CallName(call)
	}
	if sl, ok := v.(*ssa.Slice); ok {
		if al, ok := sl.X.(*ssa.Alloc); ok && strings.Contains(al.Comment, "slicelit") {
			return "literal"
		}
	}
	return "other"
}

func c08Inputs(c *Ctx, t *tables.Tree) {
	r := c.R
	want := map[string]map[string]string{
		"saveCmd": {
			"Command": "arg0", "Description": "arg1", "Keywords": "flag:keywords", "Niche": "flag:category",
			"Platform": "flag:platforms", "Pipeline": "flag:pipeline",
		},
		"savePipelineCmd": {
			"Command": "arg1", "Niche": "flag:category", "Platform": "flag:platforms", "Pipeline": "const:true",
			"Keywords": "append(literal|append-chain, flag:keywords...)", "Description": "phi(...|flag:description)",
		},
	}
	for _, cn := range []string{"saveCmd", "savePipelineCmd"} {
		run := t.Cmds[cn].Run
		// the save call, in the Run closure or in a helper it delegates to; the
		// entry and the path are described under the call stack that leads there,
		// so helpers shared by the two commands are read once per command
		ev := &ctxEval{c: c, Leaf: func(v ssa.Value, stack []*ssa.Call) string {
			if f, ok := flagSource(v); ok {
				return "flag:" + f
			}
			if k, ok := argSource(run, v); ok {
				return fmt.Sprintf("arg%d", k)
			}
			if call, ok := v.(*ssa.Call); ok && ssau.CallName(call) == cfgMeth+"GetPersonalDatabasePath" {
				return "call:" + ssau.CallName(call)
			}
			return ""
		}}
		saveCall, stack := reachCall(c, run, cliPkg+".saveToPersonalDatabase", nil, 3)
		if saveCall == nil {
			r.Unknown("O-2", "cli."+cn+".Run#save-call", c.P.Pos(run.Pos()), "no call of saveToPersonalDatabase found")
			continue
		}
		fields := ev.Fields(saveCall.Common().Args[1], stack)
		if fields == nil {
			r.Unknown("O-2", "cli."+cn+".Run#entry", c.P.Pos(saveCall.Pos()), "entry argument is not a Command value")
			continue
		}
		// personal path argument
		pathOK := ev.Describe(saveCall.Common().Args[0], stack) == "call:"+cfgMeth+"GetPersonalDatabasePath"
		r.Check(pathOK, "O-5", "cli."+cn+".Run#save-path", c.P.Pos(saveCall.Pos()), "saves to Config.GetPersonalDatabasePath()", "the save does not go to the personal database path that the loader reads")
		for f, w := range want[cn] {
			key := fmt.Sprintf("cli.%s.Run#entry.%s", cn, f)
			got, ok := fields[f]
			if !ok || got == "zero" {
				r.Bad("O-2", key, c.P.Pos(saveCall.Pos()), "field "+f+" of the saved entry is not set: the user's input for it is dropped")
				continue
			}
			good := false
			switch {
			case strings.HasPrefix(w, "append("):
				// append(<auto keywords chain>, flag:keywords...)
				good = strings.HasPrefix(got, "append(") && strings.HasSuffix(got, ", flag:keywords...)") && strings.Count(got, "flag:") == 1
			case strings.HasPrefix(w, "phi("):
				if strings.HasPrefix(got, "phi(") && strings.HasSuffix(got, ")") {
					for _, part := range strings.Split(got[4:len(got)-1], "|") {
						if part == "flag:description" {
							good = true
						}
					}
				}
			default:
				good = got == w
			}
			r.Check(good, "O-2", key, c.P.Pos(saveCall.Pos()), "= "+got, fmt.Sprintf("saved %s is %s, want %s unchanged", f, got, w))
		}
		// persisted fields not in the table must not be set from an unrelated source
		var names []string
		for f := range fields {
			names = append(names, f)
		}
		sort.Strings(names)
		for _, f := range names {
			if _, ok := want[cn][f]; !ok && fields[f] != "zero" {
				r.Bad("O-2", fmt.Sprintf("cli.%s.Run#entry.%s", cn, f), c.P.Pos(saveCall.Pos()), "field "+f+" is set by the save command ("+fields[f]+") although the user provides no input for it")
			}
		}
	}
}

func c08RMW(c *Ctx) {
	r := c.R
	fn := c.P.Func("internal/cli", "", "saveToPersonalDatabase")
	if !r.Anchor("O-3", "cli.saveToPersonalDatabase", fn != nil) {
		return
	}
	fk := "cli.saveToPersonalDatabase"
	if c08RMWObject(c, fn, fk) {
		return
	}
	// the cell that receives the unmarshalled slice
	var cell *ssa.Alloc
	var unm *ssa.Call
	ssau.ForEachInstr(fn, false, func(in ssa.Instruction) {
		call, ok := in.(*ssa.Call)
		if !ok || ssau.CallName(call) != yamlPkg+".Unmarshal" {
			return
		}
		unm = call
		if al, ok := ssau.Strip(call.Common().Args[1]).(*ssa.Alloc); ok {
			cell = al
		}
	})
	// or the notebook is read by a helper that returns the decoded list
	// (commands, err := readPersonalDatabase(dbPath))
	var notebook ssa.Value
	var readCall *ssa.Call
	if cell == nil {
		ssau.ForEachInstr(fn, false, func(in ssa.Instruction) {
			call, ok := in.(*ssa.Call)
			if !ok || notebook != nil {
				return
			}
			h := call.Common().StaticCallee()
			if h == nil || h.Blocks == nil || !c.P.IsRepoFunc(h) || len(call.Common().Args) == 0 || call.Common().Args[0] != ssa.Value(fn.Params[0]) {
				return
			}
			var hcell *ssa.Alloc
			ssau.ForEachInstr(h, false, func(i2 ssa.Instruction) {
				if uc, ok := i2.(*ssa.Call); ok && ssau.CallName(uc) == yamlPkg+".Unmarshal" {
					if al, ok := ssau.Strip(uc.Common().Args[1]).(*ssa.Alloc); ok {
						hcell = al
						unm = uc
					}
				}
			})
			if hcell == nil {
				return
			}
			// every return with a nil error hands back the decoded variable (or nil: no notebook yet)
			for _, ret := range ssau.ReturnsOf(h) {
				if len(ret.Results) != 2 || !ssau.IsNilConst(ret.Results[1]) {
					continue
				}
				v := ret.Results[0]
				if u, ok := v.(*ssa.UnOp); ok && u.X == ssa.Value(hcell) {
					continue
				}
				if ssau.IsNilConst(v) {
					continue
				}
				return
			}
			readCall = call
			notebook = resultValue(call, 0)
		})
	}
	if cell == nil && notebook == nil {
		r.Unknown("O-3", fk+"#commands", c.P.Pos(fn.Pos()), "the variable that yaml.Unmarshal fills was not found")
		return
	}
	entry := fn.Params[1]
	var isCellLoad func(v ssa.Value) bool
	isCellLoad = func(v ssa.Value) bool {
		if notebook != nil && v == notebook {
			return true
		}
		// the decoded list kept in a plain variable: append(list, entry) ...
		if ap, ok := v.(*ssa.Call); ok && notebook != nil && ssau.CallName(ap) == "builtin.append" && ap.Common().Args[0] == notebook {
			el := appendedSingle(ap)
			return el != nil && (el == ssa.Value(entry) || paramCellLoad(el, entry))
		}
		// ... or a merge of the list itself and append(list, entry)
		if phi, ok := v.(*ssa.Phi); ok && notebook != nil {
			for _, e := range phi.Edges {
				if e == notebook {
					continue
				}
				ap, ok := e.(*ssa.Call)
				if !ok || ssau.CallName(ap) != "builtin.append" || ap.Common().Args[0] != notebook {
					return false
				}
				el := appendedSingle(ap)
				if el == nil || !(el == ssa.Value(entry) || paramCellLoad(el, entry)) {
					return false
				}
			}
			return true
		}
		u, ok := v.(*ssa.UnOp)
		return ok && cell != nil && u.Op == token.MUL && u.X == ssa.Value(cell)
	}
	isEntry := func(v ssa.Value) bool {
		// the parameter itself or a load of its spill cell
		if v == ssa.Value(entry) {
			return true
		}
		if u, ok := v.(*ssa.UnOp); ok && u.Op == token.MUL {
			if al, ok := u.X.(*ssa.Alloc); ok {
				for _, ref := range *al.Referrers() {
					if st, ok := ref.(*ssa.Store); ok && st.Addr == ssa.Value(al) && st.Val == ssa.Value(entry) {
						return true
					}
				}
			}
		}
		return false
	}
	entryCommand := func(v ssa.Value) bool {
		base, ok := ssau.IsFieldLoad(v, cmdType, "Command")
		if !ok {
			return false
		}
		if al, ok := base.(*ssa.Alloc); ok {
			for _, ref := range *al.Referrers() {
				if st, ok := ref.(*ssa.Store); ok && st.Addr == ssa.Value(al) && st.Val == ssa.Value(entry) {
					return true
				}
			}
		}
		return base == ssa.Value(entry)
	}
	// 1. stores to the cell
	nStores := 0
	var cellRefs []ssa.Instruction
	if cell != nil {
		cellRefs = *cell.Referrers()
	}
	for _, ref := range cellRefs {
		st, ok := ref.(*ssa.Store)
		if !ok || st.Addr != ssa.Value(cell) {
			continue
		}
		nStores++
		good := false
		if call, ok := st.Val.(*ssa.Call); ok && ssau.CallName(call) == "builtin.append" && isCellLoad(call.Common().Args[0]) {
			// variadic tail: a one-element slice holding entry
			if sl, ok := call.Common().Args[1].(*ssa.Slice); ok {
				if al, ok := sl.X.(*ssa.Alloc); ok {
					cnt, okv := 0, false
					for _, r2 := range *al.Referrers() {
						if ia, ok := r2.(*ssa.IndexAddr); ok {
							for _, r3 := range *ia.Referrers() {
								if s3, ok := r3.(*ssa.Store); ok {
									cnt++
									okv = isEntry(s3.Val)
								}
							}
						}
					}
					good = cnt == 1 && okv
				}
			}
		}
		r.Check(good, "O-3", fmt.Sprintf("%s#commands-assign-%d", fk, nStores), c.P.Pos(st.Pos()), "commands = append(commands, entry)", "the notebook slice is replaced by something other than append(commands, entry): earlier entries can be lost or reordered")
	}
	// 2. element stores (in this function, or in the helper that computes the
	// updated list: see below)
	nElem := 0
	elemChecks := func(body *ssa.Function, isCellLoad func(ssa.Value) bool, isEntry func(ssa.Value) bool, entryCommand func(ssa.Value) bool) {
		ep := entry
		if body != fn && len(body.Params) == 2 {
			ep = body.Params[1] // the helper computing the updated list: (list, entry)
		}
		c08ElemChecks(c, fk, &nElem, body, isCellLoad, isEntry, entryCommand, ep)
	}
	elemChecks(fn, isCellLoad, isEntry, entryCommand)
	// the updated list may be computed by a helper handed the notebook and the
	// entry (writePersonalDatabase(path, upsertCommand(commands, entry))): the
	// same rules apply to the helper, and each of its results must be the list
	// it was given or that list with the entry appended
	var upsert *ssa.Call
	ssau.ForEachInstr(fn, false, func(in ssa.Instruction) {
		call, ok := in.(*ssa.Call)
		if !ok || upsert != nil {
			return
		}
		u := call.Common().StaticCallee()
		a := call.Common().Args
		if u == nil || u.Blocks == nil || !c.P.IsRepoFunc(u) || len(a) != 2 || len(u.Params) != 2 || !isCellLoad(a[0]) || !isEntry(a[1]) {
			return
		}
		upsert = call
		uNB := func(v ssa.Value) bool { return v == ssa.Value(u.Params[0]) }
		uEnt := func(v ssa.Value) bool {
			if v == ssa.Value(u.Params[1]) {
				return true
			}
			if ld, ok := v.(*ssa.UnOp); ok && ld.Op == token.MUL {
				if al, ok := ld.X.(*ssa.Alloc); ok {
					for _, ref := range *al.Referrers() {
						if st, ok := ref.(*ssa.Store); ok && st.Addr == ssa.Value(al) && st.Val == ssa.Value(u.Params[1]) {
							return true
						}
					}
				}
			}
			return false
		}
		uCmd := func(v ssa.Value) bool {
			base, ok := ssau.IsFieldLoad(v, cmdType, "Command")
			if !ok {
				return false
			}
			if base == ssa.Value(u.Params[1]) {
				return true
			}
			if al, ok := base.(*ssa.Alloc); ok {
				for _, ref := range *al.Referrers() {
					if st, ok := ref.(*ssa.Store); ok && st.Addr == ssa.Value(al) && st.Val == ssa.Value(u.Params[1]) {
						return true
					}
				}
			}
			return false
		}
		elemChecks(u, uNB, uEnt, uCmd)
		for i, ret := range ssau.ReturnsOf(u) {
			v := ret.Results[0]
			good := uNB(v)
			if ap, ok := v.(*ssa.Call); ok && ssau.CallName(ap) == "builtin.append" && uNB(ap.Common().Args[0]) {
				if el := appendedSingle(ap); el != nil && uEnt(el) {
					good = true
					nStores++
				}
			}
			r.Check(good, "O-3", fmt.Sprintf("%s#updated-list-%d", fk, i+1), c.P.Pos(ret.Pos()), "the helper returns the list it was given, or that list with the entry appended", "the list handed to the writer is not the notebook with the entry replaced in place or appended: earlier entries can be lost or reordered")
		}
	})
	r.Floor("O-3", "notebook update sites (append + replace)", nStores+nElem, 2)
	// 4. every write gets the cell's current value: through the writing helper
	// (path, list) or, when that is written out here, the atomic replace of
	// yaml.Marshal(list)
	var writes []*ssa.Call
	for _, w := range notebookWrites(c, fn) {
		writes = append(writes, w.call)
		wOK := isCellLoad(w.list) || (upsert != nil && w.list == ssa.Value(upsert))
		r.Check(wOK && (w.path == ssa.Value(fn.Params[0]) || ssau.ParamOf(w.path) == fn.Params[0]), "O-3", fmt.Sprintf("%s#write-%d", fk, len(writes)), c.P.Pos(w.call.Pos()), "writes the updated slice to dbPath", "the slice written is not the updated notebook slice, or it is written to a different path")
	}
	r.Floor("O-3", "write calls", len(writes), 1)
	_ = unm
	c08AfterWrites(c, fn, fk, writes, readCall)
}

// c08ElemChecks: element stores into, and other mutations of, the notebook
// slice in fn (the save function, the helper computing the updated list, or a
// method of the notebook object).
func c08ElemChecks(c *Ctx, fk string, nElem *int, fn *ssa.Function, isCellLoad, isEntry, entryCommand func(ssa.Value) bool, entry *ssa.Parameter) {
	r := c.R
	cd := ssau.ControlDeps(fn)
	ssau.ForEachInstr(fn, false, func(in ssa.Instruction) {
		ia, ok := in.(*ssa.IndexAddr)
		if !ok || !isCellLoad(ia.X) {
			return
		}
		for _, ref := range *ia.Referrers() {
			st, ok := ref.(*ssa.Store)
			if !ok || st.Addr != ssa.Value(ia) {
				continue
			}
			*nElem++
			key := fmt.Sprintf("%s#element-store-%d", fk, *nElem)
			if !isEntry(st.Val) {
				r.Bad("O-3", key, c.P.Pos(st.Pos()), "an element of the notebook is overwritten with something other than the new entry")
				continue
			}
			guarded := false
			for _, d := range ssau.TransitiveControlDeps(cd, st.Block()) {
				op, x, y, ok := ssau.CondOf(d.If().Cond)
				if !ok || !((op == token.EQL && d.Then) || (op == token.NEQ && !d.Then)) {
					continue
				}
				var other ssa.Value
				if entryCommand(x) {
					other = y
				} else if entryCommand(y) {
					other = x
				}
				if other == nil {
					continue
				}
				// other must be commands[idx].Command for the same idx
				base, ok := ssau.IsFieldLoad(other, cmdType, "Command")
				if !ok {
					continue
				}
				if sameElement(base, ia, isCellLoad) {
					guarded = true
				}
			}
			if !guarded {
				// the index was found first and is used afterwards
				guarded = c08MatchIndex(fn, cd, ia.Index, isCellLoad, entryCommand, entry)
			}
			r.Check(guarded, "O-3", key, c.P.Pos(st.Pos()), "commands[i] = entry under commands[i].Command == entry.Command", "an existing notebook entry is overwritten without the test that its command string equals the new entry's (or with a different index)")
		}
	})
	// 3. other mutations of the slice: sort, copy, reslice stored back
	ssau.ForEachInstr(fn, false, func(in ssa.Instruction) {
		call, ok := in.(*ssa.Call)
		if !ok {
			return
		}
		n := ssau.CallName(call)
		if (strings.HasPrefix(n, "sort.") || strings.HasPrefix(n, "slices.") || n == "builtin.copy" || n == "builtin.clear") && !readOnlySliceFunc[n] && len(call.Common().Args) > 0 && isCellLoad(ssau.Strip(call.Common().Args[0])) {
			r.Bad("O-3", fk+"#reorder", c.P.Pos(call.Pos()), "the notebook slice is reordered or overwritten by "+n+": earlier entries do not keep their position")
		}
	})
}

// c08AfterWrites: success only after a write, and a failed read or parse
// never reaches a write (writes: the write calls in fn; readCall: the call of
// the reading helper in fn, if the read is delegated).
func c08AfterWrites(c *Ctx, fn *ssa.Function, fk string, writes []*ssa.Call, readCall *ssa.Call) {
	r := c.R
	// 4b. success is reported only through the write: a constant-nil error is
	// returned only after a write whose own error was tested nil on every
	// path; returning the write's error directly is the other accepted form
	if ei := errorIndex(fn); ei >= 0 {
		succ := map[[2]int]bool{}
		isWriteErr := map[ssa.Value]bool{}
		for _, w := range writes {
			ev := errValue(w)
			if ev == nil {
				continue
			}
			isWriteErr[ev] = true
			s1, _ := nilTests(ev)
			for e := range s1 {
				succ[e] = true
			}
		}
		nRet := 0
		var classify func(v ssa.Value, at *ssa.BasicBlock, d int) bool
		classify = func(v ssa.Value, at *ssa.BasicBlock, d int) bool {
			switch x := v.(type) {
			case *ssa.Const:
				if !x.IsNil() {
					return true
				}
				return !ssau.ReachableAvoidingEdges(fn, at, succ)
			case *ssa.Phi:
				if d > 4 {
					return true
				}
				for i, e := range x.Edges {
					if !classify(e, x.Block().Preds[i], d+1) {
						return false
					}
				}
				return true
			}
			return true // the write's own error, or a failure being passed on
		}
		for _, b := range fn.Blocks {
			ret, ok := b.Instrs[len(b.Instrs)-1].(*ssa.Return)
			if !ok || ei >= len(ret.Results) {
				continue
			}
			nRet++
			r.Check(classify(ret.Results[ei], b, 0), "O-3", fmt.Sprintf("%s#success-only-after-write:%s", fk, c17ExitName(c, fn, ret)), c.P.Pos(ret.Pos()), "a nil error is returned only after the notebook was written", "the save reports success on a path that never wrote the notebook: the entry given is not what a reload yields")
		}
		r.Floor("O-3", "returns of the save function examined", nRet, 2)
	}
	// 5. failed read / parse never reaches a write
	if readCall != nil {
		// the read helper's failure returns before any write, and inside the helper
		// a failed read or decode is what makes it fail
		okEdge, why := errorBlocksTargets(readCall, writes)
		r.Check(okEdge, "O-3", fk+"#error-guard:read-helper", c.P.Pos(readCall.Pos()), "a failure of the read helper returns before any write", why)
		h := readCall.Common().StaticCallee()
		for _, src := range []string{"os.ReadFile", yamlPkg + ".Unmarshal"} {
			short := src[strings.LastIndex(src, "/")+1:]
			n := 0
			for _, call := range callsTo(h, src) {
				n++
				ok, why := failurePropagates(call)
				r.Check(ok, "O-3", fk+"#error-guard:"+short, c.P.Pos(call.Pos()), "a failure is returned by the read helper", why)
			}
			if n == 0 {
				r.Unknown("O-3", fk+"#error-guard:"+short, c.P.Pos(h.Pos()), "call not found")
			}
		}
		return
	}
	for _, src := range []string{"os.ReadFile", yamlPkg + ".Unmarshal"} {
		var calls []*ssa.Call
		ssau.ForEachInstr(fn, false, func(in ssa.Instruction) {
			if call, ok := in.(*ssa.Call); ok && ssau.CallName(call) == src {
				calls = append(calls, call)
			}
		})
		short := src[strings.LastIndex(src, "/")+1:]
		if len(calls) == 0 {
			r.Unknown("O-3", fk+"#error-guard:"+short, c.P.Pos(fn.Pos()), "call not found")
			continue
		}
		for _, call := range calls {
			// a notebook that does not exist yet is an empty notebook, not a failure
			var tol map[[2]int]bool
			if src == "os.ReadFile" {
				tol = notExistEdges(call)
			}
			okEdge, why := errorBlocksTargetsExcept(call, writes, tol)
			r.Check(okEdge, "O-3", fk+"#error-guard:"+short, c.P.Pos(call.Pos()), "a failure returns before any write", why)
		}
	}
}

// sameElement: base is the element the store's IndexAddr addresses — either
// the same IndexAddr shape (same slice load family, same index) or the range
// copy of the element at that index.
func sameElement(base ssa.Value, ia *ssa.IndexAddr, isCellLoad func(ssa.Value) bool) bool {
	if b, ok := base.(*ssa.IndexAddr); ok {
		return b.Index == ia.Index && isCellLoad(b.X)
	}
	// range copy: base is a local cell stored from *(&xs[idx])
	if al, ok := base.(*ssa.Alloc); ok {
		for _, ref := range *al.Referrers() {
			if st, ok := ref.(*ssa.Store); ok && st.Addr == ssa.Value(al) {
				if u, ok := st.Val.(*ssa.UnOp); ok {
					if b, ok := u.X.(*ssa.IndexAddr); ok && b.Index == ia.Index && isCellLoad(b.X) {
						return true
					}
				}
			}
		}
	}
	// struct value loaded directly: Field(load(&xs[idx]))
	if u, ok := base.(*ssa.UnOp); ok {
		if b, ok := u.X.(*ssa.IndexAddr); ok && b.Index == ia.Index && isCellLoad(b.X) {
			return true
		}
	}
	return false
}

// c08MatchIndex: idx is the position of an element whose command string was
// found equal to the entry's — recorded by a search loop (every way a
// non-negative value gets into idx is a loop index i assigned under
// commands[i].Command == entry.Command), or returned by slices.IndexFunc with
// a predicate that is exactly that comparison.
func c08MatchIndex(fn *ssa.Function, cd map[*ssa.BasicBlock][]ssau.CtrlDep, idx ssa.Value, isCellLoad, entryCommand func(ssa.Value) bool, entry *ssa.Parameter) bool {
	idx = ssau.ResolveCell(idx)
	// slices.IndexFunc(commands, func(c Command) bool { return c.Command == entry.Command })
	if call, ok := idx.(*ssa.Call); ok && strings.HasPrefix(ssau.CallName(call), "slices.IndexFunc") {
		a := call.Common().Args
		if len(a) != 2 || !isCellLoad(ssau.Strip(a[0])) {
			return false
		}
		var pred *ssa.Function
		switch pv := a[1].(type) {
		case *ssa.MakeClosure:
			pred, _ = pv.Fn.(*ssa.Function)
		case *ssa.Function:
			pred = pv
		}
		if pred == nil || len(pred.Params) != 1 {
			return false
		}
		rets := ssau.ReturnsOf(pred)
		if len(rets) != 1 {
			return false
		}
		op, x, y, ok := ssau.CondOf(rets[0].Results[0])
		if !ok || op != token.EQL {
			return false
		}
		elemCmd := func(v ssa.Value) bool {
			base, ok := ssau.IsFieldLoad(v, cmdType, "Command")
			if !ok {
				return false
			}
			return base == ssa.Value(pred.Params[0]) || ssau.ParamOf(base) == pred.Params[0] || paramCell(base, pred.Params[0])
		}
		entCmd := func(v ssa.Value) bool {
			base, ok := ssau.IsFieldLoad(v, cmdType, "Command")
			if !ok {
				return false
			}
			if fv, isFV := base.(*ssa.FreeVar); isFV {
				if cell := ssau.FreeVarCell(fv); cell != nil {
					for _, ref := range *cell.Referrers() {
						if st, ok := ref.(*ssa.Store); ok && st.Addr == ssa.Value(cell) && st.Val == ssa.Value(entry) {
							return true
						}
					}
				}
			}
			return false
		}
		return (elemCmd(x) && entCmd(y)) || (elemCmd(y) && entCmd(x))
	}
	seen := map[ssa.Value]bool{}
	var leafOK func(v ssa.Value, pred *ssa.BasicBlock) bool
	underTest := func(v ssa.Value, pred *ssa.BasicBlock) bool {
		// v is assigned on the way through pred: under the equality test on element v
		for _, d := range ssau.TransitiveControlDeps(cd, pred) {
			op, x, y, ok := ssau.CondOf(d.If().Cond)
			if !ok || !((op == token.EQL && d.Then) || (op == token.NEQ && !d.Then)) {
				continue
			}
			var other ssa.Value
			if entryCommand(x) {
				other = y
			} else if entryCommand(y) {
				other = x
			}
			if other == nil {
				continue
			}
			base, ok := ssau.IsFieldLoad(other, cmdType, "Command")
			if !ok {
				continue
			}
			if b, ok := base.(*ssa.IndexAddr); ok && b.Index == v && isCellLoad(b.X) {
				return true
			}
			if u, ok := base.(*ssa.UnOp); ok {
				if b, ok := u.X.(*ssa.IndexAddr); ok && b.Index == v && isCellLoad(b.X) {
					return true
				}
			}
		}
		return false
	}
	leafOK = func(v ssa.Value, pred *ssa.BasicBlock) bool {
		if k, ok := ssau.ConstInt(v); ok {
			return k < 0
		}
		if pred != nil && underTest(v, pred) {
			return true
		}
		if ph, ok := v.(*ssa.Phi); ok {
			if seen[ph] {
				return true
			}
			seen[ph] = true
			for k, e := range ph.Edges {
				if !leafOK(e, ph.Block().Preds[k]) {
					return false
				}
			}
			return true
		}
		return false
	}
	if _, isPhi := idx.(*ssa.Phi); !isPhi {
		return false
	}
	return leafOK(idx, nil)
}

// errorBlocksTargets: the error result of call is tested against nil and the
// non-nil side cannot reach any of the target calls; moreover every path from
// the call to a target passes that test.
func errorBlocksTargets(call *ssa.Call, targets []*ssa.Call) (bool, string) {
	return errorBlocksTargetsExcept(call, targets, nil)
}

// errorBlocksTargetsExcept: as errorBlocksTargets, with some failure edges
// declared tolerable (a missing file that is treated as "nothing there yet").
func errorBlocksTargetsExcept(call *ssa.Call, targets []*ssa.Call, tolerated map[[2]int]bool) (bool, string) {
	var errv ssa.Value
	if tup, ok := call.Type().(*types.Tuple); ok {
		for _, ref := range *call.Referrers() {
			if ex, ok := ref.(*ssa.Extract); ok && ex.Index == tup.Len()-1 {
				errv = ex
			}
		}
	} else {
		errv = call
	}
	if errv == nil {
		return false, "the error result is discarded: a failed read or parse would be followed by an overwrite"
	}
	fn := call.Parent()
	cut, _ := nilTests(errv)
	if len(cut) == 0 {
		return false, "the error result is never compared with nil"
	}
	for e := range tolerated {
		cut[e] = true
	}
	// with the success edges removed, no target may be reachable from the call
	for _, t := range targets {
		if reachFromAvoiding(fn, call.Block(), t.Block(), cut) {
			return false, "a write is reachable although the read/parse failed (its error branch does not return)"
		}
	}
	return true, ""
}

func reachFromAvoiding(fn *ssa.Function, from, target *ssa.BasicBlock, cut map[[2]int]bool) bool {
	seen := map[*ssa.BasicBlock]bool{}
	st := []*ssa.BasicBlock{from}
	first := true
	for len(st) > 0 {
		b := st[len(st)-1]
		st = st[:len(st)-1]
		if seen[b] {
			continue
		}
		seen[b] = true
		if b == target && !first {
			return true
		}
		first = false
		for k, s := range b.Succs {
			if cut[[2]int{b.Index, k}] {
				continue
			}
			if s == target {
				return true
			}
			st = append(st, s)
		}
	}
	return false
}

var yamlKeyRe = regexp.MustCompile(`^(?:- |  )([A-Za-z_][A-Za-z0-9_]*):`)

func c08Symmetry(c *Ctx) {
	r := c.R
	pk := c.P.Pkg("internal/database")
	if !r.Anchor("O-4", "database.Command", pk != nil && pk.Types.Scope().Lookup("Command") != nil) {
		return
	}
	st, ok := pk.Types.Scope().Lookup("Command").Type().Underlying().(*types.Struct)
	if !ok {
		r.Unknown("O-4", "database.Command#struct", "", "not a struct")
		return
	}
	persisted := map[string]bool{"Command": true, "Description": true, "Keywords": true, "Niche": true, "Platform": true, "Pipeline": true, "Tags": true}
	keys := map[string]string{}
	for i := 0; i < st.NumFields(); i++ {
		f := st.Field(i)
		tag := reflect.StructTag(st.Tag(i)).Get("yaml")
		name := strings.Split(tag, ",")[0]
		key := "database.Command." + f.Name() + "#yaml"
		if persisted[f.Name()] {
			eff := name
			if eff == "" {
				eff = strings.ToLower(f.Name())
			}
			if name == "-" {
				r.Bad("O-4", key, c.P.Pos(f.Pos()), "persisted field is tagged yaml:\"-\": it is never written or read")
				continue
			}
			if strings.Contains(tag, ",omitempty") && (f.Name() == "Command" || f.Name() == "Description" || f.Name() == "Pipeline") {
				// harmless for round trip of the value (zero value comes back as zero)
			}
			if prev, dup := keys[eff]; dup {
				r.Bad("O-4", key, c.P.Pos(f.Pos()), fmt.Sprintf("yaml key %q is shared with field %s: one of them is lost on reload", eff, prev))
				continue
			}
			keys[eff] = f.Name()
			if strings.Contains(tag, ",inline") || strings.Contains(tag, ",flow") && false {
				r.Bad("O-4", key, c.P.Pos(f.Pos()), "unexpected yaml option")
				continue
			}
			r.OK("O-4", key, c.P.Pos(f.Pos()), "yaml key "+eff)
		} else {
			r.Check(name == "-", "O-4", key, c.P.Pos(f.Pos()), "derived cache field excluded from the file", "derived cache field would be written to the notebook and read back stale")
		}
	}
	for f := range persisted {
		found := false
		for _, v := range keys {
			if v == f {
				found = true
			}
		}
		if !found {
			r.Bad("O-4", "database.Command."+f+"#present", "", "persisted field is missing from the struct or not serialised")
		}
	}
	// the codec is the library's own on both sides: a type of the entry with a
	// hand-written decoder but the default encoder (or the reverse) reads back
	// something else than was written (the default encoder tags strings that
	// are not UTF-8 as !!binary, merges, anchors: a decoder that takes the
	// node's text does not undo that)
	{
		var named []*types.Named
		seenT := map[types.Type]bool{}
		var collect func(t types.Type, d int)
		collect = func(t types.Type, d int) {
			if d > 6 || seenT[t] {
				return
			}
			seenT[t] = true
			if n, ok := t.(*types.Named); ok {
				if n.Obj().Pkg() != nil && strings.HasPrefix(n.Obj().Pkg().Path(), load.ModulePath) {
					named = append(named, n)
				}
			}
			switch u := t.Underlying().(type) {
			case *types.Pointer:
				collect(u.Elem(), d+1)
			case *types.Slice:
				collect(u.Elem(), d+1)
			case *types.Array:
				collect(u.Elem(), d+1)
			case *types.Map:
				collect(u.Key(), d+1)
				collect(u.Elem(), d+1)
			case *types.Struct:
				for i := 0; i < u.NumFields(); i++ {
					if t.Underlying() == types.Type(st) && !persisted[u.Field(i).Name()] {
						continue
					}
					collect(u.Field(i).Type(), d+1)
				}
			}
		}
		collect(pk.Types.Scope().Lookup("Command").Type(), 0)
		for _, n := range named {
			has := func(names ...string) string {
				for _, t := range []types.Type{n, types.NewPointer(n)} {
					ms := types.NewMethodSet(t)
					for _, m := range names {
						if ms.Lookup(n.Obj().Pkg(), m) != nil {
							return m
						}
					}
				}
				return ""
			}
			dec := has("UnmarshalYAML", "UnmarshalText")
			enc := has("MarshalYAML", "MarshalText")
			key := "database." + n.Obj().Name() + "#codec"
			switch {
			case dec == "" && enc == "":
				r.OK("O-4", key, c.P.Pos(n.Obj().Pos()), "written and read by the library's own codec")
			case dec != "" && enc != "":
				r.OK("O-4", key, c.P.Pos(n.Obj().Pos()), "hand-written "+enc+" and "+dec+" (that they invert each other is not decided)")
			case dec != "":
				r.Bad("O-4", key, c.P.Pos(n.Obj().Pos()), "the type is read by a hand-written "+dec+" but written by the library's encoder: what the encoder emits in a form of its own (a string that is not UTF-8 as !!binary base64, for one) is not read back as it was given")
			default:
				r.Bad("O-4", key, c.P.Pos(n.Obj().Pos()), "the type is written by a hand-written "+enc+" but read by the library's decoder: the saved entry is not read back as it was given")
			}
		}
	}
	// keys used by the shipped database must be known to the struct (KnownFields is off: unknown keys are dropped silently)
	asset := filepath.Join(c.P.RepoDir, "assets", "commands.yml")
	if b, err := os.ReadFile(asset); err == nil {
		used := map[string]int{}
		for _, line := range strings.Split(string(b), "\n") {
			if m := yamlKeyRe.FindStringSubmatch(line); m != nil {
				used[m[1]]++
			}
		}
		var missing []string
		for k, n := range used {
			if _, ok := keys[k]; !ok && n > 10 {
				missing = append(missing, fmt.Sprintf("%s(%d)", k, n))
			}
		}
		sort.Strings(missing)
		r.Check(len(missing) == 0, "O-4", "assets/commands.yml#keys-covered", "assets/commands.yml", fmt.Sprintf("%d distinct keys, all decoded", len(used)), "keys used by the shipped database have no matching yaml tag and are silently dropped on load: "+strings.Join(missing, ", "))
		r.Analysed["asset_keys"] = used
	}
	// same Go type at the writer and the readers
	types_ := map[string][]string{}
	for _, fn := range c.P.RepoFuncs() {
		ssau.ForEachInstr(fn, false, func(in ssa.Instruction) {
			call, ok := in.(*ssa.Call)
			if !ok {
				return
			}
			switch ssau.CallName(call) {
			case yamlPkg + ".Marshal":
				types_["marshal"] = append(types_["marshal"], load.FuncKey(fn)+":"+shortType(ssau.Strip(call.Common().Args[0]).Type()))
			case yamlPkg + ".Unmarshal":
				types_["unmarshal"] = append(types_["unmarshal"], load.FuncKey(fn)+":"+shortType(ssau.Strip(call.Common().Args[1]).Type()))
			}
		})
	}
	r.Analysed["yaml_sites"] = types_
	want := "[]database.Command"
	nSites := 0
	inPkg := func(site, pkg string) bool {
		// "cli.f:T", "(*cli.T).m:T", "(cli.T).m:T"
		fnk := strings.Split(site, ":")[0]
		return strings.HasPrefix(fnk, pkg+".") || strings.HasPrefix(fnk, "(*"+pkg+".") || strings.HasPrefix(fnk, "("+pkg+".")
	}
	for _, s := range types_["marshal"] {
		if inPkg(s, "cli") {
			nSites++
			r.Check(strings.HasSuffix(s, ":"+want), "O-4", "yaml.Marshal@"+strings.Split(s, ":")[0], "", "marshals "+want, "the notebook writer marshals "+s+", not "+want)
		}
	}
	for _, s := range types_["unmarshal"] {
		fnk := strings.Split(s, ":")[0]
		if inPkg(s, "cli") || strings.HasPrefix(s, "database.LoadDatabase") {
			nSites++
			r.Check(strings.HasSuffix(s, ":*"+want), "O-4", "yaml.Unmarshal@"+fnk, "", "unmarshals into *"+want, "the notebook reader unmarshals into "+s+", not *"+want)
		}
	}
	r.Floor("O-4", "yaml writer/reader sites", nSites, 3)
}

func shortType(t types.Type) string {
	s := t.String()
	s = strings.ReplaceAll(s, load.ModulePath+"/internal/", "")
	return s
}

func c08Merge(c *Ctx, t *tables.Tree) {
	r := c.R
	fn := c.P.Func("internal/database", "", "LoadDatabaseWithPersonal")
	if !r.Anchor("O-5", "database.LoadDatabaseWithPersonal", fn != nil) {
		return
	}
	fk := "database.LoadDatabaseWithPersonal"
	// the two loads (of LoadDatabase, or of the helper that reads and decodes
	// one file): which parameter each loads
	type pl struct {
		l   loadCall
		par int
	}
	var pls []pl
	for _, l := range loadCalls(c, fn) {
		for i, p := range fn.Params {
			if l.path == ssa.Value(p) {
				pls = append(pls, pl{l, i})
			}
		}
	}
	commandsOf := func(v ssa.Value) (int, bool) {
		for _, x := range pls {
			if x.l.commands(v) {
				return x.par, true
			}
		}
		return 0, false
	}
	// main and notebook entries are prepared alike: a loader that fills the
	// lower-case search fields of the entries it reads (the legacy pipeline
	// search and the recovery scorer read only those) is matched by one that
	// does so for the other file
	{
		fills := func(g *ssa.Function) bool {
			found := false
			for _, h := range reachClosure(c, []*ssa.Function{g}) {
				ssau.ForEachInstr(h, false, func(in ssa.Instruction) {
					if st, ok := in.(*ssa.Store); ok {
						if fa, ok := st.Addr.(*ssa.FieldAddr); ok && ssau.NamedOf(fa.X.Type()) == cmdType && strings.HasSuffix(ssau.FieldName(fa), "Lower") {
							found = true
						}
					}
				})
			}
			return found
		}
		byPar := map[int]*ssa.Function{}
		for _, x := range pls {
			byPar[x.par] = x.l.call.Common().StaticCallee()
		}
		if byPar[0] != nil && byPar[1] != nil && byPar[0] != byPar[1] {
			f0, f1 := fills(byPar[0]), fills(byPar[1])
			r.Check(f0 == f1, "O-5", fk+"#both-files-prepared-alike", c.P.Pos(fn.Pos()), "main and notebook entries go through the same preparation", fmt.Sprintf("the main file is loaded by %s (fills the lower-case search fields: %v) and the notebook by %s (fills them: %v): saved entries reach the merged database without the fields that the pipeline search and the recovery scorer read, so a saved command is not found by them", byPar[0].Name(), f0, byPar[1].Name(), f1))
		} else {
			r.OK("O-5", fk+"#both-files-prepared-alike", c.P.Pos(fn.Pos()), "both files are loaded by the same routine")
		}
	}
	// the merged literal
	var merged *ssa.Alloc
	var mergedVal ssa.Value
	ssau.ForEachInstr(fn, false, func(in ssa.Instruction) {
		st, ok := in.(*ssa.Store)
		if !ok {
			return
		}
		fa, ok := ssau.IsFieldAddr(st.Addr, dbType, "Commands")
		if !ok {
			return
		}
		if al, ok := fa.X.(*ssa.Alloc); ok {
			merged, mergedVal = al, st.Val
		}
	})
	// or a constructor helper that wraps the list it is given in a fresh
	// Database (and builds its indexes): the rules below then look at the helper
	home := fn
	var viaCtor *ssa.Call
	if merged == nil {
		for _, ret := range ssau.ReturnsOf(fn) {
			call, ok := ret.Results[0].(*ssa.Call)
			if !ok {
				continue
			}
			h := call.Common().StaticCallee()
			if h == nil || h.Blocks == nil || !c.P.IsRepoFunc(h) || h.Signature.Results().Len() != 1 {
				continue
			}
			var al *ssa.Alloc
			okAll := true
			for _, hr := range ssau.ReturnsOf(h) {
				a, isA := hr.Results[0].(*ssa.Alloc)
				if !isA || (al != nil && al != a) || ssau.NamedOf(a.Type()) != dbType {
					okAll = false
				}
				al = a
			}
			if !okAll || al == nil {
				continue
			}
			for _, ref := range *al.Referrers() {
				fa, isFA := ref.(*ssa.FieldAddr)
				if !isFA || ssau.FieldName(fa) != "Commands" {
					continue
				}
				for _, r2 := range *fa.Referrers() {
					if st, isSt := r2.(*ssa.Store); isSt {
						for i, hp := range h.Params {
							if st.Val == ssa.Value(hp) && i < len(call.Common().Args) {
								// an exit that wraps one file's list alone (no notebook
								// yet) is not the merge
								if _, single := commandsOf(call.Common().Args[i]); single {
									continue
								}
								merged, mergedVal, home, viaCtor = al, call.Common().Args[i], h, call
							}
						}
					}
				}
			}
		}
	}
	if merged == nil {
		r.Unknown("O-5", fk+"#merged", c.P.Pos(fn.Pos()), "no fresh Database literal with Commands found")
		return
	}
	// mergedVal = append(append(make(...0...), main...), personal...)
	okOrder := false
	detail := "merged list is not append(append(empty, main...), personal...)"
	if a2, ok := mergedVal.(*ssa.Call); ok && ssau.CallName(a2) == "builtin.append" {
		if p2, ok := commandsOf(a2.Common().Args[1]); ok && p2 == 1 {
			if a1, ok := a2.Common().Args[0].(*ssa.Call); ok && ssau.CallName(a1) == "builtin.append" {
				if p1, ok := commandsOf(a1.Common().Args[1]); ok && p1 == 0 {
					if mk, ok := a1.Common().Args[0].(*ssa.MakeSlice); ok {
						if n, isc := ssau.ConstInt(mk.Len); isc && n == 0 {
							okOrder = true
						} else {
							detail = "the merged list does not start empty"
						}
					}
				} else {
					detail = "the first block appended is not the main database's entries"
				}
			}
		} else {
			detail = "the last block appended is not the personal notebook's entries"
		}
	}
	// or: make(len(main)+len(personal)); copy(all, main); copy(all[len(main):], personal)
	if mk, ok := mergedVal.(*ssa.MakeSlice); ok && !okOrder {
		lenOf := func(v ssa.Value) (int, bool) {
			v = ssau.ResolveCell(v)
			if lc, ok := v.(*ssa.Call); ok && ssau.CallName(lc) == "builtin.len" {
				return commandsOf(lc.Common().Args[0])
			}
			return 0, false
		}
		sized := false
		if sum, ok := mk.Len.(*ssa.BinOp); ok && sum.Op == token.ADD {
			a, okA := lenOf(sum.X)
			b, okB := lenOf(sum.Y)
			sized = okA && okB && a+b == 1
		}
		var c0, c1 bool
		clean := true
		for _, ref := range *mk.Referrers() {
			switch x := ref.(type) {
			case *ssa.Call:
				if ssau.CallName(x) == "builtin.copy" && x.Common().Args[0] == ssa.Value(mk) {
					if p, ok := commandsOf(x.Common().Args[1]); ok && p == 0 {
						c0 = true
						continue
					}
				}
				if ssau.CallName(x) != "builtin.len" {
					clean = false
				}
			case *ssa.Slice:
				// all[len(main):] as the destination of the second copy
				low, okL := lenOf(x.Low)
				good := false
				if x.X == ssa.Value(mk) && x.High == nil && x.Low != nil && okL && low == 0 {
					for _, r2 := range *x.Referrers() {
						if cp, ok := r2.(*ssa.Call); ok && ssau.CallName(cp) == "builtin.copy" && cp.Common().Args[0] == ssa.Value(x) {
							if p, ok := commandsOf(cp.Common().Args[1]); ok && p == 1 {
								good = true
							}
						}
					}
				}
				if good {
					c1 = true
				} else {
					clean = false
				}
			case *ssa.IndexAddr:
				clean = false
			case *ssa.Store, *ssa.DebugRef:
			}
		}
		if sized && c0 && c1 && clean {
			okOrder = true
		} else {
			detail = "the merged list is made with a length but not filled by copy(all, main) and copy(all[len(main):], personal) alone"
		}
	}
	r.Check(okOrder, "O-5", fk+"#merge-order", c.P.Pos(mergedVal.Pos()), "main entries followed by notebook entries", detail)
	// both index builds on the merged database, on every path to its return
	pd := ssau.NewPostDom(home)
	for _, m := range []string{"BuildUniversalIndex", "buildTFIDFSearcher"} {
		found := false
		ssau.ForEachInstr(home, false, func(in ssa.Instruction) {
			call, ok := in.(*ssa.Call)
			if !ok || !pd.PostDominates(call.Block(), merged.Block()) {
				return
			}
			want := "build"
			if m == "buildTFIDFSearcher" {
				want = "tfidf"
			}
			for _, t := range rebuildTags(call, "(*"+dbType+").BuildUniversalIndex", "(*"+dbType+").buildTFIDFSearcher", func(v ssa.Value) bool { return v == ssa.Value(merged) }, 0) {
				if t == want {
					found = true
				}
			}
		})
		r.Check(found, "O-5", fk+"#"+m, c.P.Pos(merged.Pos()), "index built for the merged database", "the merged database is returned without "+m+": searches run on a missing or stale index")
	}
	// returned value on the merge path is the merged database
	retOK := false
	for _, ret := range ssau.ReturnsOf(fn) {
		if ret.Results[0] == ssa.Value(merged) || (viaCtor != nil && ret.Results[0] == ssa.Value(viaCtor)) {
			retOK = true
		}
	}
	r.Check(retOK, "O-5", fk+"#returns-merged", c.P.Pos(fn.Pos()), "returns the merged database", "the merged database is not what the function returns")
	// CLI call sites pass (main, personal) in order
	nSites := 0
	for _, cfn := range c.P.RepoFuncs() {
		ssau.ForEachInstr(cfn, false, func(in ssa.Instruction) {
			call, ok := in.(*ssa.Call)
			if !ok {
				return
			}
			n := ssau.CallName(call)
			var a0, a1 ssa.Value
			switch {
			case n == dbPkg+".LoadDatabaseWithPersonal":
				a0, a1 = call.Common().Args[0], call.Common().Args[1]
			case strings.HasSuffix(n, "recovery.DatabaseRecovery).LoadDatabaseWithFallback") || strings.HasSuffix(n, "recovery.DatabaseRecovery).loadWithRetry"):
				a0, a1 = call.Common().Args[1], call.Common().Args[2]
			default:
				return
			}
			src := func(v ssa.Value) string {
				if cc, ok := v.(*ssa.Call); ok {
					return strings.TrimPrefix(ssau.CallName(cc), cfgMeth)
				}
				if p := ssau.ParamOf(v); p != nil {
					for i, q := range p.Parent().Params {
						if q == p {
							return fmt.Sprintf("param%d", i)
						}
					}
				}
				return "other"
			}
			s0, s1 := src(a0), src(a1)
			key := fmt.Sprintf("%s#loader-args:%s", load.FuncKey(cfn), n[strings.LastIndex(n, ".")+1:])
			switch {
			case s0 == "GetDatabasePath" && s1 == "GetPersonalDatabasePath":
				nSites++
				r.OK("O-5", key, c.P.Pos(call.Pos()), "(main path, personal path)")
			case strings.HasPrefix(s0, "param") && strings.HasPrefix(s1, "param"):
				// forwarding wrapper: order preserved iff param indices ascend
				r.Check(s0 < s1, "O-5", key, c.P.Pos(call.Pos()), "forwards (main, personal) in order", "main and personal paths are swapped when forwarded")
			default:
				r.Bad("O-5", key, c.P.Pos(call.Pos()), fmt.Sprintf("loader called with (%s, %s), want (GetDatabasePath, GetPersonalDatabasePath)", s0, s1))
			}
		})
	}
	r.Floor("O-5", "CLI loader call sites", nSites, 2)
}

// nbWrite is one write of the notebook in a function: the call whose error
// tells whether the file was replaced, the list written and the path.
type nbWrite struct {
	call       *ssa.Call
	list, path ssa.Value
}

// isRenamer: a function of the repository that replaces a file by os.Rename.
func isRenamer(c *Ctx, g *ssa.Function) bool {
	if g == nil || !c.P.IsRepoFunc(g) || len(g.Blocks) == 0 {
		return false
	}
	return len(callsTo(g, "os.Rename")) > 0
}

// marshalledList: data is the bytes of yaml.Marshal(list) made in the same
// function; returns list.
func marshalledList(data ssa.Value) ssa.Value {
	ex, ok := ssau.ResolveCell(data).(*ssa.Extract)
	if !ok || ex.Index != 0 {
		return nil
	}
	m, ok := ex.Tuple.(*ssa.Call)
	if !ok || !strings.HasPrefix(ssau.CallName(m), yamlPkg+".Marshal") || len(m.Common().Args) != 1 {
		return nil
	}
	return ssau.Strip(m.Common().Args[0])
}

// notebookWrites finds the notebook writes of fn: a direct atomic replace of
// the marshalled list, or a call of a helper that does exactly that with its
// own (path, list) parameters.
func notebookWrites(c *Ctx, fn *ssa.Function) []nbWrite {
	var out []nbWrite
	ssau.ForEachInstr(fn, false, func(in ssa.Instruction) {
		call, ok := in.(*ssa.Call)
		if !ok {
			return
		}
		g := call.Common().StaticCallee()
		a := call.Common().Args
		if isRenamer(c, g) && len(a) >= 2 {
			if list := marshalledList(a[1]); list != nil {
				out = append(out, nbWrite{call, list, a[0]})
			}
			return
		}
		if g == nil || !c.P.IsRepoFunc(g) || len(g.Blocks) == 0 {
			return
		}
		// a helper: its own notebook write uses two of its parameters
		for _, hw := range notebookWritesDirect(c, g) {
			pi, li := -1, -1
			for i, p := range g.Params {
				if hw.path == ssa.Value(p) || ssau.ParamOf(hw.path) == p {
					pi = i
				}
				if hw.list == ssa.Value(p) || ssau.ParamOf(hw.list) == p {
					li = i
				}
			}
			if pi >= 0 && li >= 0 && pi < len(a) && li < len(a) {
				out = append(out, nbWrite{call, a[li], a[pi]})
			}
		}
	})
	return out
}

func notebookWritesDirect(c *Ctx, g *ssa.Function) []nbWrite {
	var out []nbWrite
	ssau.ForEachInstr(g, false, func(in ssa.Instruction) {
		call, ok := in.(*ssa.Call)
		if !ok {
			return
		}
		a := call.Common().Args
		if isRenamer(c, call.Common().StaticCallee()) && len(a) >= 2 {
			if list := marshalledList(a[1]); list != nil {
				out = append(out, nbWrite{call, list, a[0]})
			}
		}
	})
	return out
}

// c08RMWObject: the notebook is an object — a struct that holds the path and
// the decoded list, filled by a constructor and changed and written by its
// methods. The same obligations as in the written-out form, with "the cell"
// being the list field of that struct. Reports whether this form is present.
func c08RMWObject(c *Ctx, fn *ssa.Function, fk string) bool {
	r := c.R
	// the steps of fn: repository functions it calls directly
	type step struct {
		g    *ssa.Function
		call *ssa.Call
	}
	var steps []step
	ssau.ForEachInstr(fn, false, func(in ssa.Instruction) {
		if call, ok := in.(*ssa.Call); ok {
			if g := call.Common().StaticCallee(); g != nil && g.Blocks != nil && c.P.IsRepoFunc(g) && g.Pkg == fn.Pkg {
				steps = append(steps, step{g, call})
			}
		}
	})
	// the field that yaml.Unmarshal fills
	objT, objF := "", ""
	var readCall *ssa.Call
	for _, st := range steps {
		for _, uc := range callsTo(st.g, yamlPkg+".Unmarshal") {
			if fa, ok := ssau.Strip(uc.Common().Args[1]).(*ssa.FieldAddr); ok {
				objT, objF = ssau.FieldOwner(fa), ssau.FieldName(fa)
				readCall = st.call
			}
		}
	}
	if objT == "" {
		return false
	}
	isCellLoad := func(v ssa.Value) bool {
		_, ok := ssau.IsFieldLoad(v, objT, objF)
		return ok
	}
	isCellAddr := func(v ssa.Value) bool {
		fa, ok := v.(*ssa.FieldAddr)
		return ok && ssau.FieldOwner(fa) == objT && ssau.FieldName(fa) == objF
	}
	entry := fn.Params[1]
	entryIn := func(body *ssa.Function, site *ssa.Call) *ssa.Parameter {
		// the parameter of body that receives fn's entry at site
		for i, a := range site.Common().Args {
			if i < len(body.Params) && (a == ssa.Value(entry) || ssau.ParamOf(a) == entry || paramCellLoad(a, entry)) {
				return body.Params[i]
			}
		}
		return nil
	}
	mkPreds := func(ep *ssa.Parameter) (isEntry, entryCommand func(ssa.Value) bool) {
		isEntry = func(v ssa.Value) bool {
			return ep != nil && (v == ssa.Value(ep) || paramCellLoad(v, ep))
		}
		entryCommand = func(v ssa.Value) bool {
			base, ok := ssau.IsFieldLoad(v, cmdType, "Command")
			if !ok || ep == nil {
				return false
			}
			return base == ssa.Value(ep) || paramCell(base, ep)
		}
		return
	}
	// 1. every assignment of the list field outside the decoder is append(list, entry)
	nStores, nElem := 0, 0
	for _, g := range shippedFuncs(c) {
		ssau.ForEachInstr(g, false, func(in ssa.Instruction) {
			st, ok := in.(*ssa.Store)
			if !ok || !isCellAddr(st.Addr) {
				return
			}
			nStores++
			good := false
			var ep *ssa.Parameter
			for _, sp := range steps {
				if sp.g == g {
					ep = entryIn(g, sp.call)
				}
			}
			isEntry, _ := mkPreds(ep)
			if call, ok := st.Val.(*ssa.Call); ok && ssau.CallName(call) == "builtin.append" && isCellLoad(call.Common().Args[0]) {
				if ld, ok := call.Common().Args[0].(*ssa.UnOp); ok {
					if fa, ok := ld.X.(*ssa.FieldAddr); ok && fa.X == st.Addr.(*ssa.FieldAddr).X {
						if el := appendedSingle(call); el != nil && isEntry(el) {
							good = true
						}
					}
				}
			}
			r.Check(good, "O-3", fmt.Sprintf("%s#commands-assign-%d", fk, nStores), c.P.Pos(st.Pos()), "commands = append(commands, entry)", "the notebook slice is replaced by something other than append(commands, entry): earlier entries can be lost or reordered")
		})
	}
	// 2. element stores and other mutations, in every step and in fn
	for _, sp := range steps {
		isEntry, entryCommand := mkPreds(entryIn(sp.g, sp.call))
		c08ElemChecks(c, fk, &nElem, sp.g, isCellLoad, isEntry, entryCommand, entryIn(sp.g, sp.call))
	}
	{
		isEntry, entryCommand := mkPreds(entry)
		c08ElemChecks(c, fk, &nElem, fn, isCellLoad, isEntry, entryCommand, entry)
	}
	// the list field is touched nowhere else
	for _, g := range shippedFuncs(c) {
		inSteps := g == fn
		for _, sp := range steps {
			if sp.g == g {
				inSteps = true
			}
		}
		if inSteps {
			continue
		}
		ssau.ForEachInstr(g, false, func(in ssa.Instruction) {
			if fa, ok := in.(*ssa.FieldAddr); ok && isCellAddr(fa) {
				r.Bad("O-3", fk+"#list-touched-elsewhere:"+load.FuncKey(g), c.P.Pos(fa.Pos()), "the notebook list is also reached from "+load.FuncKey(g)+", which the save does not go through")
			}
		})
	}
	r.Floor("O-3", "notebook update sites (append + replace)", nStores+nElem, 2)
	// 4. the write: a step that atomically replaces <object>.path by the marshalled list field
	ev := &ctxEval{c: c}
	var writes []*ssa.Call
	for _, sp := range steps {
		for _, w := range notebookWritesDirect(c, sp.g) {
			writes = append(writes, sp.call)
			pathOK := ev.Describe(w.path, []*ssa.Call{sp.call}) == "param:"+fn.Params[0].Name()
			r.Check(isCellLoad(w.list) && pathOK, "O-3", fmt.Sprintf("%s#write-%d", fk, len(writes)), c.P.Pos(w.call.Pos()), "writes the updated slice to dbPath", "the slice written is not the updated notebook slice, or it is written to a different path")
		}
	}
	r.Floor("O-3", "write calls", len(writes), 1)
	c08AfterWrites(c, fn, fk, writes, readCall)
	return true
}

// paramCellLoad: v is a load of the spill cell of parameter p.
func paramCellLoad(v ssa.Value, p *ssa.Parameter) bool {
	u, ok := v.(*ssa.UnOp)
	return ok && u.Op == token.MUL && paramCell(u.X, p)
}
