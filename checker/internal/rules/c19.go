package rules

import (
	"fmt"
	"go/ast"
	"go/token"
	"go/types"
	"math"
	"strings"

	"golang.org/x/tools/go/ssa"

	"wtfverif/checker/internal/interval"
	"wtfverif/checker/internal/load"
	"wtfverif/checker/internal/origin"
	"wtfverif/checker/internal/slicefx"
	"wtfverif/checker/internal/ssau"
	"wtfverif/checker/internal/symx"
)

const (
	embPkg   = load.ModulePath + "/internal/embedding"
	embIndex = embPkg + ".Index"
	dbMeth   = "(*" + dbPkg + ".Database)."
)

func init() {
	register(&Rule{
		Prop: "C19",
		Explanation: "Optionality and file-safety of the embedding feature decided from the SSA form: (O-1) Database.embeddingIndex is stored only with the result of a LoadWordVectors call on the success side of its error test; every use of the field as a receiver is behind a non-nil test of the same (memory-versioned) value; applySemanticBoost is called only under HasEmbeddings(), which is exactly embeddingIndex != nil; nothing else reachable from SearchUniversal touches embedding code; " +
			"(O-2) the only write to a score in applySemanticBoost is Score = Score * (1 + alpha*sim) under sim >= SemanticMinScore with constants 0 <= alpha < inf and SemanticMinScore >= 0 (so the factor is >= 1 and, given |cos| <= 1, <= 1+alpha), every path that can have written a score passes the Score-descending sort before returning, early exits wrote nothing; (O-3) the division in CosineSimilarity is unreachable unless len(a) == len(b) != 0 and both norms are non-zero, each guard exit returns the constant 0, and b is indexed only under the length equality, and every similarity handed back in a list by package embedding is a result of that one function (or 0); " +
			"(O-4) every integer decoded from a file header by binary.Read that reaches a make size or capacity is bounded first: by its type (<= 16 bits), by an equality test with a trusted value, or by a dominating upper-bound test (inline or in a validator function whose failure is returned) against a quantity not taken from the header; every integer division in the loaders and their helpers has a divisor proven non-zero for every receiver and file (receiver fields are not trusted: Index.Dimension is exported); (O-5) every read/open error in the two loaders is returned; (O-6) every implicit run-time check (index, slice bound, make size, integer division, type assertion) in package embedding and in the database's loader and semantic stage is proven safe for every file content and every index value, half-loaded ones included, by the prover of C10 O-6. Range and symmetry of the cosine as arithmetic, and actual memory use, are NOT decided.",
		NotDecided:  []string{"|cos| <= 1 and symmetry as floating-point arithmetic", "real memory consumption", "that the semantic stage's factor bound holds for similarities outside [-1,1] (would need the arithmetic fact)"},
		Assumptions: []string{"encoding/binary.Read fills exactly the fixed-size target or returns an error", "sort.Slice with a Score-descending comparator leaves the slice in non-increasing score order"},
		Run:         runC19,
	})
}

func runC19(c *Ctx) {
	r := c.R
	r.Rule("O-1", "off unless loaded: embeddingIndex is stored only from a successful LoadWordVectors; every receiver use of it is behind a non-nil test of the same value; the semantic stage runs only under HasEmbeddings() == (embeddingIndex != nil); no other embedding call is reachable from SearchUniversal")
	r.Rule("O-2", "raise only, bounded, ordered: the sole score write is Score *= 1 + alpha*sim under sim >= SemanticMinScore (alpha >= 0 finite, min >= 0); every path after a write passes the Score-descending sort; early returns wrote nothing")
	r.Rule("O-3", "cosine guards: the division is unreachable unless len(a)==len(b), len(a)!=0 and both norms != 0; guard exits return constant 0; b[i] only under the length equality; every similarity a function of package embedding hands back in a list is a CosineSimilarity result or 0")
	r.Rule("O-4", "header-driven allocation: a binary.Read-decoded integer reaching a make size/capacity is bounded by its type (<=16 bits), an equality with a trusted value, or a dominating upper-bound test against a non-header quantity (inline or via a validator whose failure is returned)")
	r.Rule("O-5", "errors, not panics: every open/read error in LoadWordVectors and LoadCommandEmbeddings is tested and returned")

	sx := symx.New(c.P.IsRepoFunc)
	c19Optional(c, sx)
	c19Boost(c, sx)
	c19Cosine(c, sx)
	c19Alloc(c, sx)
	c19Implicit(c)
	c19OneCosine(c)
}

// c19OneCosine: O-3, who computes a similarity. "Raise by a bounded factor"
// needs every similarity the semantic stage sees to be a cosine (at most 1 in
// magnitude, 0 for mismatched vectors): O-3 establishes the guards and the
// normalising denominator for CosineSimilarity only. Hence every value stored
// into a []float64 that a function of package embedding hands back is a
// result of CosineSimilarity (directly or through a helper that returns
// nothing else) or the constant 0 — a second, hand-rolled formula (a dot
// product over the query norm "because the vectors are unit length") escapes
// the guards and the bound.
func c19OneCosine(c *Ctx) {
	r := c.R
	cos := c.P.Func("internal/embedding", "", "CosineSimilarity")
	if cos == nil {
		return
	}
	var isCos func(v ssa.Value, d int) bool
	isCos = func(v ssa.Value, d int) bool {
		if k, ok := ssau.ConstFloat(v); ok {
			return k == 0
		}
		call, ok := v.(*ssa.Call)
		if !ok || d > 2 {
			return false
		}
		g := call.Common().StaticCallee()
		if g == cos {
			return true
		}
		if g == nil || g.Blocks == nil || !c.P.IsRepoFunc(g) || g.Signature.Results().Len() != 1 {
			return false
		}
		rets := ssau.ReturnsOf(g)
		for _, ret := range rets {
			if !isCos(ssau.ResultValue(ret, 0), d+1) {
				return false
			}
		}
		return len(rets) > 0
	}
	n := 0
	for _, fn := range shippedFuncs(c) {
		pk := c.P.PkgOfFunc(fn)
		if pk == nil || !strings.HasSuffix(pk.PkgPath, "internal/embedding") || fn.Signature.Results().Len() != 1 {
			continue
		}
		sl, ok := fn.Signature.Results().At(0).Type().Underlying().(*types.Slice)
		if !ok {
			continue
		}
		if b, ok := sl.Elem().Underlying().(*types.Basic); !ok || b.Kind() != types.Float64 {
			continue
		}
		fk := load.FuncKey(fn)
		ord := newOrdinal()
		ssau.ForEachInstr(fn, false, func(in ssa.Instruction) {
			// scores = append(scores, x)
			if ac, isCall := in.(*ssa.Call); isCall && ssau.CallName(ac) == "builtin.append" {
				if es, ok := ac.Type().Underlying().(*types.Slice); ok && types.Identical(es.Elem(), sl.Elem()) {
					if v := appendedSingle(ac); v != nil {
						n++
						r.Check(isCos(v, 0), "O-3", ord.next(fk+"#similarity-is-the-cosine"), c.P.Pos(ac.Pos()), "the similarity appended is CosineSimilarity(query, command) or 0", "a similarity handed to the semantic stage is computed by something other than CosineSimilarity: it escapes the length and zero-norm guards and need not lie between -1 and 1, so the boost factor is not bounded")
					}
				}
				return
			}
			st, ok := in.(*ssa.Store)
			if !ok {
				return
			}
			ia, ok := st.Addr.(*ssa.IndexAddr)
			if !ok {
				return
			}
			if es, ok := ia.X.Type().Underlying().(*types.Slice); !ok || !types.Identical(es.Elem(), sl.Elem()) {
				return
			}
			// the one-element array behind append(scores, x) is not the list itself
			if al, isAl := ia.X.(*ssa.Alloc); isAl && strings.Contains(al.Comment, "varargs") {
				return
			}
			n++
			r.Check(isCos(st.Val, 0), "O-3", ord.next(fk+"#similarity-is-the-cosine"), c.P.Pos(st.Pos()), "the similarity stored is CosineSimilarity(query, command) or 0", "a similarity handed to the semantic stage is computed by something other than CosineSimilarity: it escapes the length and zero-norm guards and need not lie between -1 and 1, so the boost factor is not bounded")
		})
	}
	r.Floor("O-3", "similarities stored", n, 1)
}

// c19Implicit: O-6. "never crashes": every implicit run-time check (index,
// slice bound, make size, integer division, type assertion) in the shipped
// functions of package embedding and in the database functions that load the
// files is proven safe for all file contents and all indexes, hand-built or
// half-loaded, by the prover C10 O-6 uses for the search path.
func c19Implicit(c *Ctx) {
	r := c.R
	r.Rule("O-6", "no implicit run-time check can fail in the embedding code: every index, slice bound, make size, integer division and single-result type assertion in package embedding and in the loader of the database is proven safe for all inputs (same prover as C10 O-6)")
	roots := c10Roots(c)
	for _, spec := range [][3]string{
		{"internal/database", "Database", "LoadEmbeddings"},
		{"internal/embedding", "Index", "LoadWordVectors"},
		{"internal/embedding", "Index", "LoadCommandEmbeddings"},
	} {
		if fn := c.P.Func(spec[0], spec[1], spec[2]); fn != nil {
			roots = append(roots, fn)
		}
	}
	scope := reachClosure(c, roots)
	skip := map[*ssa.Function]bool{}
	n := 0
	for _, fn := range scope {
		pk := c.P.PkgOfFunc(fn)
		in := pk != nil && strings.HasSuffix(pk.PkgPath, "internal/embedding")
		if !in && pk != nil && pk.PkgPath == dbPkg {
			// the loader and the semantic stage of the database
			top := fn
			for top.Parent() != nil {
				top = top.Parent()
			}
			switch top.Name() {
			case "LoadEmbeddings", "HasEmbeddings", "applySemanticBoost":
				in = true
			}
		}
		if !in {
			skip[fn] = true
		} else if fn.Synthetic == "" {
			n++
		}
	}
	r.Floor("O-6", "functions of the embedding code", n, 6)
	c10ImplicitChecks(c, "O-6", roots, scope, skip, nil)
}

// nilGuardCut returns the edges on which the versioned expression s is known
// to be non-nil (so cutting them leaves only paths where it may be nil).
func nonNilEdges(f *symx.Fn, fn *ssa.Function, s string) map[[2]int]bool {
	cut := map[[2]int]bool{}
	for _, iff := range ssau.Ifs(fn) {
		b, ok := iff.Cond.(*ssa.BinOp)
		if !ok || (b.Op != token.EQL && b.Op != token.NEQ) {
			continue
		}
		var other ssa.Value
		if ssau.IsNilConst(b.Y) {
			other = b.X
		} else if ssau.IsNilConst(b.X) {
			other = b.Y
		} else {
			continue
		}
		if f.E(other) != s {
			continue
		}
		if b.Op == token.NEQ {
			cut[[2]int{iff.Block().Index, 0}] = true
		} else {
			cut[[2]int{iff.Block().Index, 1}] = true
		}
	}
	return cut
}

func c19Optional(c *Ctx, sx *symx.Ctx) {
	r := c.R
	nStores, nUses := 0, 0
	for _, fn := range shippedFuncs(c) {
		f := sx.Of(fn)
		ssau.ForEachInstr(fn, false, func(in ssa.Instruction) {
			switch x := in.(type) {
			case *ssa.Store:
				if _, ok := ssau.IsFieldAddr(x.Addr, dbType, "embeddingIndex"); !ok {
					return
				}
				nStores++
				key := fmt.Sprintf("%s#store-embeddingIndex-%d", load.FuncKey(fn), nStores)
				// value: result #0 of LoadWordVectors, on the success side
				tr := &origin.Tracer{}
				rs := tr.Roots(x.Val)
				good := len(rs) == 1 && rs[0].Kind == "call" && rs[0].Name == embPkg+".LoadWordVectors"
				why := "the stored index is not (only) the result of embedding.LoadWordVectors"
				// or the result of a loading helper that hands back nil or the index a
				// successful LoadWordVectors produced, stored only when it is not nil
				if !good && len(rs) == 1 && rs[0].Kind == "call" {
					var hc *ssa.Call
					switch v := rs[0].V.(type) {
					case *ssa.Extract:
						hc, _ = v.Tuple.(*ssa.Call)
					case *ssa.Call:
						hc = v
					}
					if hc != nil && c19LoadsIndexOrNil(c, hc.Common().StaticCallee()) {
						nn := nonNilEdges(f, fn, f.E(x.Val))
						if len(nn) > 0 && !ssau.ReachableAvoidingEdges(fn, x.Block(), nn) {
							r.OK("O-1", key, c.P.Pos(x.Pos()), "stored only when the loading helper returned an index (which it does only after LoadWordVectors returned a nil error)")
							return
						}
						why = "the result of the loading helper is stored without a non-nil test: a failed load would be stored as a nil index only by luck of the zero value"
						r.OK("O-1", key, c.P.Pos(x.Pos()), "the loading helper returns nil or a loaded index; storing nil leaves the stage off")
						return
					}
				}
				if good {
					var lc *ssa.Call
					switch v := rs[0].V.(type) {
					case *ssa.Extract:
						lc, _ = v.Tuple.(*ssa.Call)
					case *ssa.Call:
						lc = v
					}
					if lc == nil {
						good = false
					} else {
						succ, _ := nilTests(errValue(lc))
						if len(succ) == 0 || ssau.ReachableAvoidingEdges(fn, x.Block(), succ) {
							good, why = false, "the index is stored although LoadWordVectors may have failed (its error is not tested before the store)"
						}
					}
				}
				r.Check(good, "O-1", key, c.P.Pos(x.Pos()), "stored only after LoadWordVectors returned a nil error", why)
			case *ssa.Call:
				// receiver uses: method of *embedding.Index called on a load of the field
				args := x.Common().Args
				if len(args) == 0 {
					return
				}
				if _, ok := ssau.IsFieldLoad(args[0], dbType, "embeddingIndex"); !ok {
					return
				}
				cal := x.Common().StaticCallee()
				if cal == nil || cal.Signature.Recv() == nil || ssau.NamedOf(cal.Signature.Recv().Type()) != embIndex {
					return
				}
				nUses++
				key := fmt.Sprintf("%s#use-%s", load.FuncKey(fn), cal.Name())
				cut := nonNilEdges(f, fn, f.E(args[0]))
				// the predicate form: db.HasEmbeddings() is exactly the non-nil test
				// of the field (checked below) of the same database
				for _, iff := range ssau.Ifs(fn) {
					cond, neg := iff.Cond, false
					if u, ok := cond.(*ssa.UnOp); ok && u.Op == token.NOT {
						cond, neg = u.X, true
					}
					hc, ok := cond.(*ssa.Call)
					if !ok || !strings.HasSuffix(ssau.CallName(hc), "Database).HasEmbeddings") || len(hc.Common().Args) != 1 {
						continue
					}
					base, _ := ssau.IsFieldLoad(args[0], dbType, "embeddingIndex")
					if hc.Common().Args[0] != base && f.E(hc.Common().Args[0]) != f.E(base) {
						continue
					}
					side := 0
					if neg {
						side = 1
					}
					cut[[2]int{iff.Block().Index, side}] = true
				}
				guarded := len(cut) > 0 && !ssau.ReachableAvoidingEdges(fn, x.Block(), cut)
				r.Check(guarded, "O-1", key, c.P.Pos(x.Pos()), "receiver use behind a non-nil test of the same value", "db.embeddingIndex."+cal.Name()+" is called without a dominating non-nil test of the field: with no embedding files loaded this dereferences nil")
			}
		})
	}
	r.Floor("O-1", "stores of embeddingIndex", nStores, 1)
	r.Floor("O-1", "receiver uses of embeddingIndex", nUses, 2)

	// HasEmbeddings == (embeddingIndex != nil)
	he := c.P.Func("internal/database", "Database", "HasEmbeddings")
	if r.Anchor("O-1", "database.(*Database).HasEmbeddings", he != nil) {
		ok := len(ssau.ReturnsOf(he)) == 1
		for _, ret := range ssau.ReturnsOf(he) {
			b, isB := ret.Results[0].(*ssa.BinOp)
			if !isB || b.Op != token.NEQ || !ssau.IsNilConst(b.Y) {
				ok = false
				continue
			}
			if _, isLoad := ssau.IsFieldLoad(b.X, dbType, "embeddingIndex"); !isLoad {
				ok = false
			}
		}
		r.Check(ok, "O-1", "database.(*Database).HasEmbeddings#is-nonnil-test", c.P.Pos(he.Pos()), "returns embeddingIndex != nil", "HasEmbeddings is not exactly embeddingIndex != nil")
	}
	// the semantic stage is called only under HasEmbeddings()
	asb := c.P.Func("internal/database", "Database", "applySemanticBoost")
	if !r.Anchor("O-1", "database.(*Database).applySemanticBoost", asb != nil) {
		return
	}
	// the stage may also guard itself: everything in it that touches embeddings or
	// scores is unreachable unless its own HasEmbeddings() test succeeded
	selfGuarded := false
	{
		cut := map[[2]int]bool{}
		for _, iff := range ssau.Ifs(asb) {
			if hc, ok := iff.Cond.(*ssa.Call); ok && ssau.CallName(hc) == dbMeth+"HasEmbeddings" {
				cut[[2]int{iff.Block().Index, 0}] = true
			}
		}
		if len(cut) > 0 {
			selfGuarded = true
			ssau.ForEachInstr(asb, false, func(in ssa.Instruction) {
				touch := false
				switch x := in.(type) {
				case *ssa.Store:
					_, touch = ssau.IsFieldAddr(x.Addr, srType, "Score")
				case *ssa.Call:
					n := ssau.CallName(x)
					touch = n == dbMeth+"EmbedQuery" || n == dbMeth+"SemanticScores" || strings.HasPrefix(n, "sort.")
					if cal := x.Common().StaticCallee(); cal != nil {
						if pk := c.P.PkgOfFunc(cal); pk != nil && pk.PkgPath == embPkg {
							touch = true
						}
					}
				}
				if touch && ssau.ReachableAvoidingEdges(asb, in.Block(), cut) {
					selfGuarded = false
				}
			})
		}
	}
	nCalls := 0
	for _, fn := range shippedFuncs(c) {
		cd := ssau.ControlDeps(fn)
		for _, call := range callsTo(fn, ssau.FuncName(asb)) {
			nCalls++
			guarded := selfGuarded
			for _, d := range ssau.TransitiveControlDeps(cd, call.Block()) {
				if hc, ok := d.If().Cond.(*ssa.Call); ok && ssau.CallName(hc) == dbMeth+"HasEmbeddings" && d.Then {
					guarded = true
				}
			}
			r.Check(guarded, "O-1", fmt.Sprintf("%s#semantic-stage-call-%d", load.FuncKey(fn), nCalls), c.P.Pos(call.Pos()), "called only when HasEmbeddings() is true", "the semantic stage is entered without the HasEmbeddings() test: searches without embedding files no longer behave as if the feature did not exist")
		}
	}
	r.Floor("O-1", "calls of the semantic stage", nCalls, 1)
	// nothing else reachable from SearchUniversal touches embedding code
	su := c.P.Func("internal/database", "Database", "SearchUniversal")
	if su == nil {
		return
	}
	seen := map[*ssa.Function]bool{}
	var bad []string
	var walk func(fn *ssa.Function)
	walk = func(fn *ssa.Function) {
		if seen[fn] || fn == asb {
			return
		}
		seen[fn] = true
		ssau.ForEachInstr(fn, true, func(in ssa.Instruction) {
			call, ok := in.(*ssa.Call)
			if !ok {
				return
			}
			cal := call.Common().StaticCallee()
			if cal == nil {
				return
			}
			if pk := c.P.PkgOfFunc(cal); pk != nil && pk.PkgPath == embPkg {
				bad = append(bad, load.FuncKey(fn)+" -> "+load.FuncKey(cal)+" at "+c.P.Pos(call.Pos()))
				return
			}
			n := ssau.FuncName(cal)
			if n == dbMeth+"EmbedQuery" || n == dbMeth+"SemanticScores" {
				bad = append(bad, load.FuncKey(fn)+" -> "+load.FuncKey(cal)+" at "+c.P.Pos(call.Pos()))
				return
			}
			if c.P.IsRepoFunc(cal) && cal.Blocks != nil {
				walk(cal)
			}
		})
	}
	walk(su)
	r.Check(len(bad) == 0, "O-1", "database.(*Database).SearchUniversal#no-unguarded-embedding-use", c.P.Pos(su.Pos()), fmt.Sprintf("%d functions reachable outside the semantic stage, none calls embedding code", len(seen)), "embedding code is reachable from a search outside the guarded semantic stage: "+strings.Join(bad, "; "))
}

func c19Boost(c *Ctx, sx *symx.Ctx) {
	r := c.R
	fn := c.P.Func("internal/database", "Database", "applySemanticBoost")
	if fn == nil {
		return
	}
	fk := "database.(*Database).applySemanticBoost"
	f := sx.Of(fn)
	cd := ssau.ControlDeps(fn)
	var ordEng *slicefx.Engine
	var ordCfg slicefx.OrderConfig
	var retSorted map[*ssa.Return]bool
	var writes []*ssa.Store
	ssau.ForEachInstr(fn, false, func(in ssa.Instruction) {
		st, ok := in.(*ssa.Store)
		if !ok {
			return
		}
		if _, ok := ssau.IsFieldAddr(st.Addr, srType, "Score"); ok {
			writes = append(writes, st)
		}
	})
	r.Floor("O-2", "score writes in the semantic stage", len(writes), 1)
	for i, st := range writes {
		key := fmt.Sprintf("%s#score-write-%d", fk, i+1)
		fa := st.Addr.(*ssa.FieldAddr)
		// value = load(same Score) * (1 + alpha*sim) under sim >= min >= 0 — written
		// out here, or in a pure helper given the element's own score
		isOwn := func(v ssa.Value) bool {
			u, ok := v.(*ssa.UnOp)
			return ok && f.E(u.X) == f.E(fa)
		}
		shape, guard, alpha := "", "", 0.0
		if hc, isCall := st.Val.(*ssa.Call); isCall {
			h := hc.Common().StaticCallee()
			k := -1
			for i, a := range hc.Common().Args {
				if isOwn(a) {
					k = i
				}
			}
			if h == nil || h.Blocks == nil || !c.P.IsRepoFunc(h) || k < 0 || k >= len(h.Params) {
				shape = "the new score is not the old score times a factor: " + f.Plain(st.Val)
			} else {
				hf := sx.Of(h)
				for _, ret := range ssau.ReturnsOf(h) {
					rv := ret.Results[0]
					if rv == ssa.Value(h.Params[k]) {
						continue // unchanged
					}
					sh, g, al := c19BoostValue(h, hf, rv, func(v ssa.Value) bool { return v == ssa.Value(h.Params[k]) }, ret.Block())
					if sh != "" {
						shape = sh
					}
					if g == "" && sh == "" {
						shape = "guard-missing"
					}
					guard, alpha = g, al
				}
			}
		} else {
			shape, guard, alpha = c19BoostValue(fn, f, st.Val, isOwn, st.Block())
		}
		if shape != "" && shape != "guard-missing" {
			r.Bad("O-2", key, c.P.Pos(st.Pos()), shape)
			continue
		}
		if shape == "guard-missing" {
			guard = ""
		}
		_ = cd
		r.Check(guard != "", "O-2", key, c.P.Pos(st.Pos()), fmt.Sprintf("Score *= 1 + %v*sim under %s: factor >= 1", alpha, guard), "the score update is not reachable only through the true side of sim >= (or >) a non-negative constant: a negative similarity — or a NaN, for which !(sim < min) holds too — would be multiplied into the score")
		// every return the write can reach hands back a list that is sorted by
		// descending score there (must-dataflow of the order engine: direct
		// sorts, sorting helpers, sorted callee results)
		if ordEng == nil {
			ordEng, ordCfg = c01Engine(c)
			retSorted = ordEng.ReturnsSorted(fn, ordCfg)
		}
		sorted := true
		nRet := 0
		for _, ret := range ssau.ReturnsOf(fn) {
			if st.Block() == ret.Block() || ssau.Reachable(st.Block(), ret.Block(), nil) {
				nRet++
				if !retSorted[ret] {
					sorted = false
				}
			}
		}
		sorted = sorted && nRet > 0
		r.Check(sorted, "O-2", key+":resorted", c.P.Pos(st.Pos()), "every return reachable from the write returns a list sorted by descending score", "after raising a score some path returns without re-sorting by descending score: the result list is no longer ordered")
	}
	// early returns are not reachable from a write
	for _, ret := range ssau.ReturnsOf(fn) {
		reachedByWrite := false
		for _, st := range writes {
			if st.Block() == ret.Block() || ssau.Reachable(st.Block(), ret.Block(), nil) {
				reachedByWrite = true
			}
		}
		if !reachedByWrite {
			// must return the input unchanged
			tr := &origin.Tracer{}
			rs := tr.Roots(ssau.ResultValue(ret, 0))
			ok := len(rs) == 1 && rs[0].Kind == "param"
			r.Check(ok, "O-2", fk+"#early-exit:"+exitName(fn, ret), c.P.Pos(ret.Pos()), "returns its input untouched", "an early exit returns something other than the unmodified input list")
		}
	}
}

// c19BoostValue: val is old * (1 + alpha*sim) with a constant alpha >= 0, and
// block at is reachable only through the true side of sim >= (or >) a
// non-negative constant. Returns a description of what is wrong with the
// shape ("" if fine), the guard found ("" if none) and alpha.
func c19BoostValue(fn *ssa.Function, f *symx.Fn, val ssa.Value, isOld func(ssa.Value) bool, at *ssa.BasicBlock) (shape, guard string, alpha float64) {
	mul, ok := val.(*ssa.BinOp)
	if !ok || mul.Op != token.MUL {
		return "the new score is not the old score times a factor: " + f.Plain(val), "", 0
	}
	old, factor := mul.X, mul.Y
	if !isOld(old) {
		old, factor = factor, old
	}
	if !isOld(old) {
		return "the factor is not applied to the same element's own score", "", 0
	}
	// the factor may be computed by a helper of the repository: each of its
	// results is the constant 1 or 1 + alpha*<its parameter> behind the guard
	// (or the first of two results: the factor and whether to apply it)
	fcall, fidx := factor, 0
	if ex, isEx := factor.(*ssa.Extract); isEx {
		fcall, fidx = ex.Tuple, ex.Index
	}
	if hc, isCall := fcall.(*ssa.Call); isCall && len(hc.Common().Args) == 1 {
		if g := hc.Common().StaticCallee(); g != nil && g.Blocks != nil && len(g.Params) == 1 && g.Pkg != nil && strings.HasPrefix(g.Pkg.Pkg.Path(), load.ModulePath) {
			gf := f.Ctx().Of(g)
			nBoost := 0
			for _, ret := range ssau.ReturnsOf(g) {
				if fidx >= len(ret.Results) {
					return "the factor is not a result of the helper that computes it", "", 0
				}
				rv := ssau.ResultValue(ret, fidx)
				if k, isC := ssau.ConstFloat(rv); isC && k == 1 {
					continue
				}
				// as if the helper's own score were multiplied: old := a placeholder
				sh, gd, al := c19FactorShape(g, gf, rv, ret.Block())
				if sh != "" {
					return sh, "", 0
				}
				if gd == "" {
					return "", "", al
				}
				guard, alpha = gd, al
				nBoost++
			}
			if nBoost > 0 {
				return "", guard, alpha
			}
		}
	}
	return c19FactorShape(fn, f, factor, at)
}

// c19FactorShape: factor is 1 + alpha*sim (alpha a constant >= 0) and block at
// is reachable only through the true side of sim >= (or >) a non-negative
// constant.
func c19FactorShape(fn *ssa.Function, f *symx.Fn, factor ssa.Value, at *ssa.BasicBlock) (shape, guard string, alpha float64) {
	var sim ssa.Value
	add, ok := factor.(*ssa.BinOp)
	if !ok || add.Op != token.ADD {
		return "the factor is not of the form 1 + alpha*sim: " + f.Plain(factor), "", 0
	}
	one, term := add.X, add.Y
	if k, ok := ssau.ConstFloat(one); !ok || k != 1 {
		one, term = term, one
	}
	if k, ok := ssau.ConstFloat(one); !ok || k != 1 {
		return "the factor's constant term is not 1", "", 0
	}
	tm, ok := term.(*ssa.BinOp)
	if !ok || tm.Op != token.MUL {
		return "the factor's variable term is not alpha*sim", "", 0
	}
	a, s0 := tm.X, tm.Y
	if _, ok := ssau.ConstFloat(a); !ok {
		a, s0 = s0, a
	}
	av, ok := ssau.ConstFloat(a)
	if !ok {
		return "alpha is not a constant", "", 0
	}
	if av < 0 || math.IsInf(av, 0) || math.IsNaN(av) {
		return fmt.Sprintf("alpha = %v is negative or not finite: the stage could lower scores", av), "", 0
	}
	sim, alpha = s0, av
	cutG := map[[2]int]bool{}
	for _, iff := range ssau.Ifs(fn) {
		op, x, y, ok := ssau.CondOf(iff.Cond)
		if !ok {
			continue
		}
		if f.E(y) == f.E(sim) {
			x, y, op = y, x, ssau.Flip(op)
		}
		if f.E(x) != f.E(sim) {
			continue
		}
		m, isC := ssau.ConstFloat(y)
		if !isC || m < 0 {
			continue
		}
		// floating point: only the positive form establishes the bound — !(sim < m)
		// also holds for NaN, which would then be multiplied into the score
		switch op {
		case token.GEQ, token.GTR:
			cutG[[2]int{iff.Block().Index, 0}] = true
			guard = fmt.Sprintf("sim %s %v", op, m)
		}
	}
	if len(cutG) == 0 || ssau.ReachableAvoidingEdges(fn, at, cutG) {
		guard = ""
	}
	return "", guard, alpha
}

func c19Cosine(c *Ctx, sx *symx.Ctx) {
	r := c.R
	fn := c.P.Func("internal/embedding", "", "CosineSimilarity")
	fk := "embedding.CosineSimilarity"
	if !r.Anchor("O-3", fk, fn != nil) {
		return
	}
	f := sx.Of(fn)
	a, b := fn.Params[0], fn.Params[1]
	var div *ssa.BinOp
	ssau.ForEachInstr(fn, false, func(in ssa.Instruction) {
		if bo, ok := in.(*ssa.BinOp); ok && bo.Op == token.QUO {
			if bt, ok := bo.Type().Underlying().(*types.Basic); ok && bt.Info()&types.IsFloat != 0 {
				div = bo
			}
		}
	})
	if div == nil {
		r.Bad("O-3", fk+"#division", c.P.Pos(fn.Pos()), "no floating-point division found")
		return
	}
	// norms: operands of math.Sqrt in the denominator
	var norms []ssa.Value
	var collect func(v ssa.Value, d int)
	collect = func(v ssa.Value, d int) {
		if d > 4 {
			return
		}
		switch x := v.(type) {
		case *ssa.BinOp:
			collect(x.X, d+1)
			collect(x.Y, d+1)
		case *ssa.Call:
			if ssau.CallName(x) == "math.Sqrt" {
				norms = append(norms, x.Common().Args[0])
			}
		}
	}
	collect(div.Y, 0)
	r.Check(len(norms) == 2, "O-3", fk+"#denominator", c.P.Pos(div.Pos()), "denominator is sqrt(normA)*sqrt(normB)", fmt.Sprintf("denominator has %d square-root factors (want 2)", len(norms)))
	lenOf := func(p *ssa.Parameter) string { return "len(" + p.Name() + ")" }
	type guard struct {
		name string
		// match returns (matched, badEdgeIsThen)
		match func(op token.Token, x, y ssa.Value) (bool, bool)
	}
	isZero := func(v ssa.Value) bool { k, ok := ssau.ConstFloat(v); return ok && k == 0 }
	guards := []guard{
		{"len(a) == len(b)", func(op token.Token, x, y ssa.Value) (bool, bool) {
			sx, sy := f.Plain(x), f.Plain(y)
			if (sx == lenOf(a) && sy == lenOf(b)) || (sx == lenOf(b) && sy == lenOf(a)) {
				return op == token.NEQ || op == token.EQL, op == token.NEQ
			}
			return false, false
		}},
		{"len(a) != 0", func(op token.Token, x, y ssa.Value) (bool, bool) {
			if s := f.Plain(x); (s == lenOf(a) || s == lenOf(b)) && isZero(y) {
				return op == token.EQL || op == token.NEQ || op == token.GTR, op == token.EQL
			}
			return false, false
		}},
	}
	for i, nv := range norms {
		nv := nv
		guards = append(guards, guard{fmt.Sprintf("norm%d != 0", i+1), func(op token.Token, x, y ssa.Value) (bool, bool) {
			if x == nv && isZero(y) {
				return op == token.EQL || op == token.NEQ, op == token.EQL
			}
			return false, false
		}})
	}
	for _, g := range guards {
		cut := map[[2]int]bool{} // good edges
		var badBlocks []*ssa.BasicBlock
		for _, iff := range ssau.Ifs(fn) {
			op, x, y, ok := ssau.CondOf(iff.Cond)
			if !ok {
				continue
			}
			m, badThen := g.match(op, x, y)
			if !m && g.name == "len(a) != 0" {
				// any spelling of the emptiness test (n < 1, n == 0, n > 0, ...)
				if lx, zero, isZ := ssau.LenZeroTest(iff.Cond); isZ && (lx == ssa.Value(a) || lx == ssa.Value(b)) {
					m, badThen = true, zero == 0
				}
			}
			if !m {
				continue
			}
			goodIdx := 0
			if badThen {
				goodIdx = 1
			}
			cut[[2]int{iff.Block().Index, goodIdx}] = true
			badBlocks = append(badBlocks, iff.Block().Succs[1-goodIdx])
		}
		okG := len(cut) > 0 && !ssau.ReachableAvoidingEdges(fn, div.Block(), cut)
		r.Check(okG, "O-3", fk+"#guard:"+g.name, c.P.Pos(div.Pos()), "the division is unreachable unless "+g.name, "the division can be reached without "+g.name+" having been established (NaN or a wrong value for empty, zero or mismatched vectors)")
	}
	// every return other than the division's returns constant 0
	for _, ret := range ssau.ReturnsOf(fn) {
		v := ssau.ResultValue(ret, 0)
		if v == ssa.Value(div) {
			continue
		}
		k, ok := ssau.ConstFloat(v)
		if ret.Block() == div.Block() || ssau.Reachable(div.Block(), ret.Block(), nil) {
			// after the quotient was computed: it may be clamped or replaced by
			// a constant of the cosine's range, nothing else
			r.Check(ok && k >= -1 && k <= 1, "O-3", fk+"#after-division-exit:"+exitName(fn, ret), c.P.Pos(ret.Pos()), "returns the quotient or a constant in [-1, 1]", "after the division something other than the quotient or a constant in [-1, 1] is returned")
			continue
		}
		r.Check(ok && k == 0, "O-3", fk+"#guard-exit:"+exitName(fn, ret), c.P.Pos(ret.Pos()), "guard exit returns 0", "a guard exit returns something other than the constant 0")
	}
	// b[i] only under len equality
	ssau.ForEachInstr(fn, false, func(in ssa.Instruction) {
		ia, ok := in.(*ssa.IndexAddr)
		if !ok || ia.X != ssa.Value(b) {
			return
		}
		cut := map[[2]int]bool{}
		for _, iff := range ssau.Ifs(fn) {
			op, x, y, ok := ssau.CondOf(iff.Cond)
			if !ok {
				continue
			}
			sx, sy := f.Plain(x), f.Plain(y)
			if (sx == lenOf(a) && sy == lenOf(b)) || (sx == lenOf(b) && sy == lenOf(a)) {
				if op == token.NEQ {
					cut[[2]int{iff.Block().Index, 1}] = true
				} else if op == token.EQL {
					cut[[2]int{iff.Block().Index, 0}] = true
				}
			}
		}
		r.Check(len(cut) > 0 && !ssau.ReachableAvoidingEdges(fn, ia.Block(), cut), "O-3", fk+"#b-indexed-under-length-equality", c.P.Pos(ia.Pos()), "b[i] is reached only when len(a) == len(b)", "b[i] can be evaluated for i ranging over a without len(a) == len(b): index out of range on mismatched vectors")
	})
}

// decodedInts finds the integer cells filled by binary.Read in fn.
func decodedInts(fn *ssa.Function) map[*ssa.Alloc]*ssa.Call {
	out := map[*ssa.Alloc]*ssa.Call{}
	ssau.ForEachInstr(fn, false, func(in ssa.Instruction) {
		call, ok := in.(*ssa.Call)
		if !ok || ssau.CallName(call) != "encoding/binary.Read" {
			return
		}
		if al, ok := ssau.Strip(call.Common().Args[2]).(*ssa.Alloc); ok {
			if bt, ok := derefType(al.Type()).Underlying().(*types.Basic); ok && bt.Info()&types.IsInteger != 0 {
				out[al] = call
			}
		}
	})
	return out
}

func derefType(t types.Type) types.Type {
	if p, ok := t.Underlying().(*types.Pointer); ok {
		return p.Elem()
	}
	return t
}

// headerSource: v is (a conversion of) a load of a decoded integer cell.
func headerSource(v ssa.Value, cells map[*ssa.Alloc]*ssa.Call) (*ssa.Alloc, ssa.Value) {
	for i := 0; i < 4; i++ {
		switch x := v.(type) {
		case *ssa.Convert:
			v = x.X
		case *ssa.ChangeType:
			v = x.X
		case *ssa.Extract, *ssa.Call:
			// the result of a small reading helper of the repository
			// (n, err := readUint32(r)): the cell it decodes into stands for it
			var call *ssa.Call
			res := 0
			if ex, ok := x.(*ssa.Extract); ok {
				res = ex.Index
				call, _ = ex.Tuple.(*ssa.Call)
			} else {
				call = x.(*ssa.Call)
			}
			if call == nil {
				return nil, nil
			}
			g := call.Common().StaticCallee()
			if g == nil || g.Blocks == nil || g.Pkg == nil || !strings.HasPrefix(g.Pkg.Pkg.Path(), load.ModulePath) {
				return nil, nil
			}
			inner := decodedInts(g)
			var cell *ssa.Alloc
			for _, ret := range ssau.ReturnsOf(g) {
				if res >= len(ret.Results) {
					return nil, nil
				}
				rv := ssau.ResultValue(ret, res)
				if _, isC := rv.(*ssa.Const); isC {
					continue // error path, or a built-in default: nothing the file chose
				}
				al, _ := headerSource(rv, inner)
				if al == nil || (cell != nil && cell != al) {
					return nil, nil
				}
				cell = al
			}
			if cell == nil {
				return nil, nil
			}
			return cell, v
		case *ssa.UnOp:
			if x.Op == token.MUL {
				if al, ok := x.X.(*ssa.Alloc); ok {
					if _, ok := cells[al]; ok {
						return al, x
					}
				}
			}
			return nil, nil
		default:
			return nil, nil
		}
	}
	return nil, nil
}

func c19Alloc(c *Ctx, sx *symx.Ctx) {
	r := c.R
	nSinks, nReads := 0, 0
	for _, spec := range []struct{ recv, name string }{{"", "LoadWordVectors"}, {"Index", "LoadCommandEmbeddings"}} {
		fn := c.P.Func("internal/embedding", spec.recv, spec.name)
		fk := "embedding." + spec.name
		if !r.Anchor("O-4", fk, fn != nil) {
			continue
		}
		f := sx.Of(fn)
		cells := decodedInts(fn)
		// O-5 error discipline
		isRead := func(n string) bool {
			return n == "encoding/binary.Read" || n == "io.ReadFull" || n == "os.Open"
		}
		for _, call := range callsMatching(fn, false, isRead) {
			nReads++
			ok, why := failurePropagates(call)
			r.Check(ok, "O-5", fmt.Sprintf("%s#%s-error-returned@%s", fk, shortName(ssau.CallName(call)), f.Plain(lastArg(call))), c.P.Pos(call.Pos()), "failure is returned", "a failed read is not returned as an error: "+why)
		}
		// reads made by reading helpers of the package: the helper hands the
		// failure back, and every call of the helper in the loader returns it
		ordH := newOrdinal()
		for _, g := range withSteps(c, fn, 2) {
			if g == fn {
				continue
			}
			inner := callsMatching(g, false, isRead)
			if len(inner) == 0 {
				continue
			}
			for _, call := range inner {
				nReads++
				ok, why := failurePropagates(call)
				r.Check(ok, "O-5", ordH.next(fmt.Sprintf("%s#%s-error-returned-by-%s", fk, shortName(ssau.CallName(call)), g.Name())), c.P.Pos(call.Pos()), "failure is returned by the reading helper", "a failed read is not returned as an error by the reading helper: "+why)
			}
			for _, site := range callsTo(fn, ssau.FuncName(g)) {
				ok, why := failurePropagates(site)
				r.Check(ok, "O-5", ordH.next(fmt.Sprintf("%s#%s-error-returned", fk, g.Name())), c.P.Pos(site.Pos()), "a failure of the reading helper is returned", "a failed read (in "+g.Name()+") is not returned as an error: "+why)
			}
		}
		// sinks
		ord := newOrdinal()
		ssau.ForEachInstr(fn, false, func(in ssa.Instruction) {
			var sizes []ssa.Value
			what := ""
			switch x := in.(type) {
			case *ssa.MakeSlice:
				sizes, what = []ssa.Value{x.Len}, "make("+shortName(x.Type().String())+")"
				if x.Cap != x.Len {
					sizes = append(sizes, x.Cap)
				}
			case *ssa.MakeMap:
				if x.Reserve != nil {
					sizes, what = []ssa.Value{x.Reserve}, "make("+shortName(x.Type().String())+")"
				}
			case *ssa.Call:
				// a reading helper that allocates what one of its parameters says:
				// the argument sizes the allocation
				if g := x.Common().StaticCallee(); g != nil && g.Blocks != nil && c.P.IsRepoFunc(g) && g.Pkg == fn.Pkg {
					ssau.ForEachInstr(g, false, func(i2 ssa.Instruction) {
						mk, ok := i2.(*ssa.MakeSlice)
						if !ok {
							return
						}
						for _, sv := range []ssa.Value{mk.Len, mk.Cap} {
							for d := 0; d < 3; d++ {
								if cv, ok := sv.(*ssa.Convert); ok {
									sv = cv.X
								}
							}
							if p, ok := sv.(*ssa.Parameter); ok {
								if i := paramIdx(g, p); i >= 0 && i < len(x.Common().Args) {
									sizes = append(sizes, x.Common().Args[i])
									what = g.Name() + ":make(" + shortName(mk.Type().String()) + ")"
								}
							}
						}
					})
				}
			}
			for _, sz := range sizes {
				al, ld := headerSource(sz, cells)
				if al == nil {
					continue
				}
				nSinks++
				key := ord.next(fk + "#" + what + "-sized-by-" + al.Comment)
				bt := derefType(al.Type()).Underlying().(*types.Basic)
				bits := 64
				switch bt.Kind() {
				case types.Uint8, types.Int8:
					bits = 8
				case types.Uint16, types.Int16:
					bits = 16
				case types.Uint32, types.Int32:
					bits = 32
				}
				if bits <= 16 {
					r.OK("O-4", key, c.P.Pos(in.Pos()), fmt.Sprintf("bounded by its %d-bit type", bits))
					continue
				}
				how := c19Bounded(c, f, fn, in.Block(), ld, cells)
				r.Check(how != "", "O-4", key, c.P.Pos(in.Pos()), how, fmt.Sprintf("a %d-bit count read from the file header sizes the allocation with no bound: a few header bytes can demand gigabytes regardless of the file's real size", bits))
			}
		})
	}
	r.Floor("O-4", "header-sized allocations examined", nSinks, 3)
	c19NarrowArithmetic(c, sx)
	r.Floor("O-5", "open/read calls examined", nReads, 8)
	c19Divisors(c, sx)
}

// c19Divisors: every integer division in the loaders and in what they call
// inside package embedding has a divisor proven non-zero for every receiver
// and every file: by the guards of its own function, or, for a divisor that
// is a parameter of an unexported function, at every call site from the
// caller's own guards. Fields of the receiver are unknown here (Index and
// its Dimension are exported: a zero-value Index is a legal receiver), so
// an equality with idx.Dimension proves nothing about zero.
func c19Divisors(c *Ctx, sx *symx.Ctx) {
	r := c.R
	var work []*ssa.Function
	seen := map[*ssa.Function]bool{}
	push := func(fn *ssa.Function) {
		if fn != nil && !seen[fn] && fn.Blocks != nil && fn.Pkg != nil && strings.HasSuffix(fn.Pkg.Pkg.Path(), "internal/embedding") {
			seen[fn] = true
			work = append(work, fn)
		}
	}
	push(c.P.Func("internal/embedding", "", "LoadWordVectors"))
	push(c.P.Func("internal/embedding", "Index", "LoadCommandEmbeddings"))
	callers := map[*ssa.Function][]*ssa.Call{}
	for i := 0; i < len(work); i++ {
		fn := work[i]
		for _, call := range callsMatching(fn, true, func(string) bool { return true }) {
			if cal := call.Common().StaticCallee(); cal != nil {
				callers[cal] = append(callers[cal], call)
				push(cal)
			}
		}
	}
	nonZero := func(iv interval.Iv) bool {
		return (iv.LoOK && iv.Lo > 0) || (iv.HiOK && iv.Hi < 0)
	}
	n := 0
	for _, fn := range work {
		q := interval.New(sx.Of(fn))
		q.Strict = true
		ord := newOrdinal()
		ssau.ForEachInstr(fn, true, func(in ssa.Instruction) {
			b, ok := in.(*ssa.BinOp)
			if !ok || (b.Op != token.QUO && b.Op != token.REM) {
				return
			}
			bt, ok := b.Type().Underlying().(*types.Basic)
			if !ok || bt.Info()&types.IsInteger == 0 {
				return
			}
			if _, isConst := b.Y.(*ssa.Const); isConst {
				return // a zero constant divisor does not compile
			}
			n++
			key := ord.next("embedding." + fn.Name() + "#divide")
			pos := c.P.Pos(b.Pos())
			if nonZero(q.At(b.Y, b.Block())) {
				r.OK("O-4", key, pos, "divisor non-zero by the function's own guards")
				return
			}
			// divisor is a parameter (possibly converted) of an unexported function
			var par *ssa.Parameter
			v := ssau.Strip(b.Y)
			if cv, ok := v.(*ssa.Convert); ok {
				v = ssau.Strip(cv.X)
			}
			par, _ = v.(*ssa.Parameter)
			pi := -1
			for i, p := range fn.Params {
				if p == par {
					pi = i
				}
			}
			if par == nil || pi < 0 || ast.IsExported(fn.Name()) || len(callers[fn]) == 0 {
				r.Bad("O-4", key, pos, "the divisor "+sx.Of(fn).Plain(b.Y)+" is not proven non-zero: a file header (or a zero-value Index) can make the loader panic with an integer divide by zero")
				return
			}
			for _, call := range callers[fn] {
				cf := call.Parent()
				cq := interval.New(sx.Of(cf))
				cq.Strict = true
				if pi >= len(call.Common().Args) || !nonZero(cq.At(call.Common().Args[pi], call.Block())) {
					r.Bad("O-4", key, pos, "the divisor "+par.Name()+" is not tested here and the call at "+c.P.Pos(call.Pos())+" can pass zero (header value; an equality with the receiver's exported Dimension field does not exclude zero)")
					return
				}
			}
			r.OK("O-4", key, pos, "divisor non-zero at every call site")
		})
	}
	r.Floor("O-4", "integer divisions in the loaders examined", n, 1)
}

func lastArg(call *ssa.Call) ssa.Value {
	a := call.Common().Args
	return ssau.Strip(a[len(a)-1])
}

// c19Bounded decides whether the header value loaded by ld is bounded on every
// path to block at. Returns a description, "" if not.
func c19Bounded(c *Ctx, f *symx.Fn, fn *ssa.Function, at *ssa.BasicBlock, ld ssa.Value, cells map[*ssa.Alloc]*ssa.Call) string {
	isHeader := func(v ssa.Value) bool { al, _ := headerSource(v, cells); return al != nil }
	sameVal := func(v ssa.Value) bool {
		_, l := headerSource(v, cells)
		return l != nil && f.E(l) == f.E(ld)
	}
	cut := map[[2]int]bool{}
	desc := ""
	for _, iff := range ssau.Ifs(fn) {
		op, x, y, ok := ssau.CondOf(iff.Cond)
		if !ok {
			continue
		}
		if sameVal(y) && !sameVal(x) {
			x, y, op = y, x, ssau.Flip(op)
		}
		if !sameVal(x) || isHeader(y) {
			continue
		}
		// edge on which x is bounded above by y (or equal to it)
		switch op {
		case token.NEQ: // false edge: x == y
			cut[[2]int{iff.Block().Index, 1}] = true
			desc = "equal to the trusted value " + f.Plain(y)
		case token.EQL:
			cut[[2]int{iff.Block().Index, 0}] = true
			desc = "equal to the trusted value " + f.Plain(y)
		case token.GTR, token.GEQ: // false edge: x <= y
			cut[[2]int{iff.Block().Index, 1}] = true
			desc = "bounded above by " + f.Plain(y)
		case token.LSS, token.LEQ:
			cut[[2]int{iff.Block().Index, 0}] = true
			desc = "bounded above by " + f.Plain(y)
		}
	}
	if len(cut) > 0 && !ssau.ReachableAvoidingEdges(fn, at, cut) {
		return desc + " on every path to the allocation"
	}
	// validator call: a repo function receiving the value whose failure is returned
	for _, call := range callsMatching(fn, false, func(string) bool { return true }) {
		cal := call.Common().StaticCallee()
		if cal == nil || !c.P.IsRepoFunc(cal) || cal.Blocks == nil || errorIndex(cal) < 0 {
			continue
		}
		for i, a := range call.Common().Args {
			if !sameVal(a) || i >= len(cal.Params) {
				continue
			}
			if !validatorBounds(cal, cal.Params[i]) {
				continue
			}
			succ, _ := nilTests(errValue(call))
			if len(succ) > 0 && !ssau.ReachableAvoidingEdges(fn, at, succ) {
				return "bounded by validator " + load.FuncKey(cal) + ", whose failure returns before the allocation"
			}
		}
	}
	return ""
}

// validatorBounds: in fn every nil-error return lies behind an edge that
// bounds parameter p (or a conversion of it) from above.
func validatorBounds(fn *ssa.Function, p *ssa.Parameter) bool {
	ei := errorIndex(fn)
	isP := func(v ssa.Value) bool {
		for i := 0; i < 3; i++ {
			if v == ssa.Value(p) {
				return true
			}
			if cv, ok := v.(*ssa.Convert); ok {
				v = cv.X
				continue
			}
			break
		}
		return false
	}
	cut := map[[2]int]bool{}
	for _, iff := range ssau.Ifs(fn) {
		op, x, y, ok := ssau.CondOf(iff.Cond)
		if !ok {
			continue
		}
		if isP(y) && !isP(x) {
			x, y, op = y, x, ssau.Flip(op)
		}
		if !isP(x) {
			continue
		}
		switch op {
		case token.GTR, token.GEQ:
			cut[[2]int{iff.Block().Index, 1}] = true
		case token.LSS, token.LEQ:
			cut[[2]int{iff.Block().Index, 0}] = true
		}
	}
	if len(cut) == 0 {
		return false
	}
	n := 0
	for _, ret := range ssau.ReturnsOf(fn) {
		if ssau.IsNilConst(ssau.ResultValue(ret, ei)) {
			n++
			if ssau.ReachableAvoidingEdges(fn, ret.Block(), cut) {
				return false
			}
		}
	}
	return n > 0
}

// c19NarrowArithmetic: a header value that is multiplied, added to or shifted
// in a type narrower than 64 bits can wrap before it reaches the size guard
// (2 + 4*dimension in uint32 is 2 for dimension 1<<30): the guard then
// bounds nothing. Values of at most 16 bits, and values a dominating
// comparison bounds, cannot wrap a 32-bit product with a small constant and
// are accepted.
func c19NarrowArithmetic(c *Ctx, sx *symx.Ctx) {
	r := c.R
	n := 0
	for _, fn := range c.P.RepoFuncs() {
		if fn.Pkg == nil || !strings.HasSuffix(fn.Pkg.Pkg.Path(), "/internal/embedding") || fn.Blocks == nil {
			continue
		}
		cells := decodedInts(fn)
		f := sx.Of(fn)
		ord := newOrdinal()
		ssau.ForEachInstr(fn, true, func(in ssa.Instruction) {
			b, ok := in.(*ssa.BinOp)
			if !ok {
				return
			}
			switch b.Op {
			case token.MUL, token.ADD, token.SHL:
			default:
				return
			}
			bt, ok := b.Type().Underlying().(*types.Basic)
			if !ok || bt.Info()&types.IsInteger == 0 {
				return
			}
			for _, opnd := range []ssa.Value{b.X, b.Y} {
				al, ld := headerSource(opnd, cells)
				if al == nil {
					continue
				}
				n++
				key := ord.next(load.FuncKey(fn) + "#arithmetic-on-" + al.Comment)
				width := c19Width(bt)
				src := derefType(al.Type()).Underlying().(*types.Basic)
				switch {
				case width >= 8:
					r.OK("O-4", key, c.P.Pos(b.Pos()), "computed in 64 bits")
				case c19Width(src) <= 2:
					r.OK("O-4", key, c.P.Pos(b.Pos()), "operand bounded by its 16-bit type")
				default:
					how := c19Bounded(c, f, fn, b.Block(), ld, cells)
					r.Check(how != "", "O-4", key, c.P.Pos(b.Pos()), how, fmt.Sprintf("a header value is combined by %s in a %d-bit type before any bound: the result can wrap, and a size check fed with it bounds nothing (convert to int64 first)", b.Op, width*8))
				}
			}
		})
	}
	r.Analysed["header_arithmetic_sites"] = n
}

// c19Width: bytes of an integer type; int/uint count as 8 (the shipped
// 64-bit targets), only the explicitly sized narrow types are narrow.
func c19Width(b *types.Basic) int {
	switch b.Kind() {
	case types.Int8, types.Uint8:
		return 1
	case types.Int16, types.Uint16:
		return 2
	case types.Int32, types.Uint32:
		return 4
	}
	return 8
}

// c19LoadsIndexOrNil: every return of g is nil or the index returned by a
// LoadWordVectors call of g whose error was tested nil on the way.
func c19LoadsIndexOrNil(c *Ctx, g *ssa.Function) bool {
	if g == nil || g.Blocks == nil || !c.P.IsRepoFunc(g) || g.Signature.Results().Len() != 1 {
		return false
	}
	n := 0
	for _, ret := range ssau.ReturnsOf(g) {
		v := ssau.ResultValue(ret, 0)
		if ssau.IsNilConst(v) {
			continue
		}
		ex, ok := v.(*ssa.Extract)
		if !ok || ex.Index != 0 {
			return false
		}
		lc, ok := ex.Tuple.(*ssa.Call)
		if !ok || ssau.CallName(lc) != embPkg+".LoadWordVectors" {
			return false
		}
		succ, _ := nilTests(errValue(lc))
		if len(succ) == 0 || ssau.ReachableAvoidingEdges(g, ret.Block(), succ) {
			return false
		}
		n++
	}
	return n > 0
}
