package rules

import (
	"fmt"
	"go/token"
	"go/types"
	"sort"
	"strings"

	"golang.org/x/tools/go/ssa"

	"wtfverif/checker/internal/load"
	"wtfverif/checker/internal/origin"
	"wtfverif/checker/internal/ssau"
	"wtfverif/checker/internal/symx"
)

func init() {
	register(&Rule{
		Prop: "C04",
		Explanation: "Every way a command can enter a search answer passes both filters, decided from the SSA form for every database, query and flag setting: (O-1) each insertion site of the engine — the score-accumulator update of the lexical/NLP path, the matcher-target store of the typo fallback (an unfilled target never matches), and the result append of the pipeline search — is unreachable unless the platform gate passed for that very command (same index / same pointer) and unless the pipeline gate passed (PipelineOnly false or isPipelineCommand of that command); cached answers are conversions of such lists; " +
			"(O-2) the platform gate is one function whose `true` results are reachable only through: AllPlatforms; no declared platform; a declared platform equal to the host platform when no platform was requested, or to one of the requested platforms (every element of Platforms is tried); or, only when NoCrossPlatform is false, the cross-platform tag / recognised cross-platform tool — and every SearchOptions field the CLI fills from a flag is read on the path the CLI calls; (O-3) every comparison of a platform tag is case-insensitive (EqualFold, or a ToLower image against lower-case names); (O-5) the alias tests of the platform families, read off as a table of (family, test kind, constant) from the comparisons or from a package-level table of constants written once, accept no platform name or alias constant of another family, and no tag is matched by prefix, suffix or substring against a value that is not such a constant; (O-4) all paths use the same pipeline classifier and the same cross-platform-tool classifier; (O-6) every option the gates read is a serialised part of the cache key and is copied unchanged from the searched options wherever cache options are built, so a cached list was filtered under the same filter options as the request it answers. The content of the alias table and of the tool whitelist is data and not decided.",
		NotDecided:  []string{"whether the platform alias table is complete and which tools the cross-platform whitelist names (only the disjointness of the alias families is decided, O-5)", "the CLI's last-resort recovery search, which the property's filter clause does not list (it filters nothing)"},
		Assumptions: []string{"fuzzy.Find never matches an empty target for a non-empty pattern"},
		Run:         runC04,
	})
}

type gateInfo struct {
	fn   *ssa.Function // the platform gate function
	cmdP int           // index of its *Command parameter
}

// findPlatformGate: the bool function of package database with a *Command and
// a SearchOptions parameter that reads SearchOptions.AllPlatforms.
func findPlatformGate(c *Ctx) *gateInfo {
	for _, fn := range shippedFuncs(c) {
		pk := c.P.PkgOfFunc(fn)
		if pk == nil || pk.PkgPath != dbPkg || fn.Parent() != nil {
			continue
		}
		res := fn.Signature.Results()
		if res.Len() != 1 {
			continue
		}
		if b, ok := res.At(0).Type().Underlying().(*types.Basic); !ok || b.Kind() != types.Bool {
			continue
		}
		cmdP := -1
		for i, p := range fn.Params {
			if ssau.NamedOf(p.Type()) == cmdType {
				cmdP = i
			}
		}
		if cmdP < 0 {
			continue
		}
		// it consults AllPlatforms: the option itself, or a field of a
		// per-search filter object that only ever receives it
		reads := false
		ssau.ForEachInstr(fn, false, func(in ssa.Instruction) {
			if v, ok := in.(ssa.Value); ok && optLoad(v, "AllPlatforms") {
				reads = true
			}
		})
		if reads {
			return &gateInfo{fn, cmdP}
		}
	}
	return nil
}

// cmdIndexOf: v is &db.Commands[idx] (possibly through a local); returns idx.
func cmdIndexOf(v ssa.Value) ssa.Value {
	if ia, ok := v.(*ssa.IndexAddr); ok {
		if isCommandsList(ia.X) {
			return ia.Index
		}
	}
	return nil
}

// isCommandsList: v is db.Commands, or the []Command parameter of an
// unexported step that every shipped caller hands db.Commands.
func isCommandsList(v ssa.Value) bool { return isCommandsListD(v, 0) }

func isCommandsListD(v ssa.Value, d int) bool {
	if _, ok := ssau.IsFieldLoad(v, dbType, "Commands"); ok {
		return true
	}
	if d > 3 {
		return false
	}
	p, ok := v.(*ssa.Parameter)
	if !ok {
		p = ssau.ParamOf(v)
	}
	if p == nil || curCtx == nil || !strings.HasSuffix(p.Type().String(), "database.Command") {
		return false
	}
	fn := p.Parent()
	if fn.Object() == nil || fn.Object().Exported() {
		return false
	}
	node := curCtx.P.CallGraph().Nodes[fn]
	idx := paramIdx(fn, p)
	if node == nil || idx < 0 {
		return false
	}
	n := 0
	for _, e := range node.In {
		if !isShipped(curCtx, e.Caller.Func) {
			continue
		}
		if e.Site == nil || e.Site.Common().StaticCallee() != fn || idx >= len(e.Site.Common().Args) {
			return false
		}
		if !isCommandsListD(e.Site.Common().Args[idx], d+1) {
			return false
		}
		n++
	}
	return n > 0
}

// passEdges computes, in fn, the edges on which (a) the platform gate and (b)
// the pipeline gate are known to have passed for the command identified by
// same(v) (v = the *Command argument of a classifier call).
func c04PassEdges(fn *ssa.Function, g *gateInfo, same func(ssa.Value) bool) (plat, pipe map[[2]int]bool, pipeClassifiers map[string]bool) {
	plat, pipe = map[[2]int]bool{}, map[[2]int]bool{}
	pipeClassifiers = map[string]bool{}
	gname := ssau.FuncName(g.fn)
	for _, iff := range ssau.Ifs(fn) {
		cond := iff.Cond
		neg := false
		if u, ok := cond.(*ssa.UnOp); ok && u.Op == token.NOT {
			cond, neg = u.X, true
		}
		tEdge, fEdge := 0, 1
		if neg {
			tEdge, fEdge = 1, 0
		}
		if call, ok := cond.(*ssa.Call); ok {
			n := ssau.CallName(call)
			switch {
			case n == gname && same(call.Common().Args[g.cmdP]):
				plat[[2]int{iff.Block().Index, tEdge}] = true
			case strings.HasSuffix(n, "/database.isPipelineCommand") && same(call.Common().Args[0]):
				pipe[[2]int{iff.Block().Index, tEdge}] = true
				pipeClassifiers[n] = true
			case strings.Contains(strings.ToLower(n), "pipeline") && len(call.Common().Args) > 0 && same(call.Common().Args[0]):
				pipeClassifiers[n] = true
			default:
				// a combined gate of the repository: true only if the platform gate
				// (and/or the pipeline test) passed for its command parameter
				if w := call.Common().StaticCallee(); w != nil && w.Blocks != nil && c04depth < 2 {
					if cp := c04CmdParam(w); cp >= 0 && cp < len(call.Common().Args) && same(call.Common().Args[cp]) {
						c04depth++
						pl, pi := c04Implies(w, g, cp)
						c04depth--
						if pl {
							plat[[2]int{iff.Block().Index, tEdge}] = true
						}
						if pi {
							pipe[[2]int{iff.Block().Index, tEdge}] = true
						}
					}
				}
			}
			continue
		}
		if optLoad(cond, "PipelineOnly") {
			pipe[[2]int{iff.Block().Index, fEdge}] = true
		}
	}
	// a branch on a boolean built with && / || (eligible := gate(cmd) && (...)):
	// its true edge establishes a gate when every way the boolean can be true
	// does — the value is the classifier's own verdict, or it is the constant
	// true arriving only over edges on which the gate has already passed
	gname = ssau.FuncName(g.fn)
	for _, iff := range ssau.Ifs(fn) {
		phi, ok := iff.Cond.(*ssa.Phi)
		if !ok {
			continue
		}
		for _, kind := range []string{"plat", "pipe"} {
			edges := plat
			if kind == "pipe" {
				edges = pipe
			}
			reach := reachableFromEntry(fn, edges)
			var implies func(v ssa.Value, p, to *ssa.BasicBlock, d int) bool
			implies = func(v ssa.Value, p, to *ssa.BasicBlock, d int) bool {
				if ssau.IsConstBool(v, false) {
					return true
				}
				if call, isCall := v.(*ssa.Call); isCall {
					n := ssau.CallName(call)
					if kind == "plat" && n == gname && same(call.Common().Args[g.cmdP]) {
						return true
					}
					if kind == "pipe" && strings.HasSuffix(n, "/database.isPipelineCommand") && same(call.Common().Args[0]) {
						return true
					}
				}
				if inner, isPhi := v.(*ssa.Phi); isPhi && d < 4 {
					for i, e := range inner.Edges {
						if !implies(e, inner.Block().Preds[i], inner.Block(), d+1) {
							return false
						}
					}
					return len(inner.Edges) > 0
				}
				// any other value may be true: the gate must already have passed on the way
				for k, sc := range p.Succs {
					if sc == to && edges[[2]int{p.Index, k}] {
						return true
					}
				}
				return !reach[p]
			}
			all := true
			for i, e := range phi.Edges {
				if !implies(e, phi.Block().Preds[i], phi.Block(), 0) {
					all = false
				}
			}
			if all && len(phi.Edges) > 0 {
				edges[[2]int{iff.Block().Index, 0}] = true
			}
		}
	}
	return
}

var c04depth int

// c04CmdParam: index of the *Command parameter of a bool function, or -1.
func c04CmdParam(w *ssa.Function) int {
	res := w.Signature.Results()
	if res.Len() != 1 {
		return -1
	}
	if b, ok := res.At(0).Type().Underlying().(*types.Basic); !ok || b.Kind() != types.Bool {
		return -1
	}
	for i, p := range w.Params {
		if ssau.NamedOf(p.Type()) == cmdType {
			return i
		}
	}
	return -1
}

// c04Implies: w returns true only when the platform gate passed for its
// command parameter (plat), and only when options.PipelineOnly is false or
// the pipeline classifier accepted it (pipe).
func c04Implies(w *ssa.Function, g *gateInfo, cp int) (plat, pipe bool) {
	cmd := w.Params[cp]
	same := func(v ssa.Value) bool { return v == ssa.Value(cmd) || ssau.ParamOf(v) == cmd }
	pl, pi, _ := c04PassEdges(w, g, same)
	gname := ssau.FuncName(g.fn)
	check := func(edges map[[2]int]bool, isClassifier func(*ssa.Call) bool) bool {
		reach := reachableFromEntry(w, edges)
		for _, ret := range ssau.ReturnsOf(w) {
			if !reach[ret.Block()] {
				continue
			}
			var okVal func(v ssa.Value, d int) bool
			okVal = func(v ssa.Value, d int) bool {
				if ssau.IsConstBool(v, false) {
					return true
				}
				if call, ok := v.(*ssa.Call); ok && isClassifier(call) {
					return true
				}
				if phi, ok := v.(*ssa.Phi); ok && d < 4 {
					for i, e := range phi.Edges {
						p := phi.Block().Preds[i]
						if !reach[p] {
							continue
						}
						// an edge that itself is a pass edge carries the verdict
						via := false
						for k, sc := range p.Succs {
							if sc == phi.Block() && edges[[2]int{p.Index, k}] {
								via = true
							}
						}
						if via {
							continue
						}
						if !okVal(e, d+1) {
							return false
						}
					}
					return true
				}
				return false
			}
			if !okVal(ret.Results[0], 0) {
				return false
			}
		}
		return true
	}
	plat = len(pl) > 0 || hasDirect(w, func(call *ssa.Call) bool { return ssau.CallName(call) == gname && same(call.Common().Args[g.cmdP]) })
	if plat {
		plat = check(pl, func(call *ssa.Call) bool { return ssau.CallName(call) == gname && same(call.Common().Args[g.cmdP]) })
	}
	isPipe := func(call *ssa.Call) bool {
		return strings.HasSuffix(ssau.CallName(call), "/database.isPipelineCommand") && same(call.Common().Args[0])
	}
	pipe = len(pi) > 0 || hasDirect(w, isPipe)
	if pipe {
		pipe = check(pi, isPipe)
	}
	return
}

func hasDirect(w *ssa.Function, pred func(*ssa.Call) bool) bool {
	found := false
	ssau.ForEachInstr(w, false, func(in ssa.Instruction) {
		if call, ok := in.(*ssa.Call); ok && pred(call) {
			found = true
		}
	})
	return found
}

func runC04(c *Ctx) {
	r := c.R
	r.Rule("O-1", "no ungated producer: the accumulator update, the matcher-target store and the pipeline-search append are each unreachable unless the platform gate and the pipeline gate passed for the same command")
	r.Rule("O-2", "the gate means what the flags say: `true` only via AllPlatforms, no declared platform, a requested platform (host platform iff none requested, every requested one tried), or — only if NoCrossPlatform is false — the cross-platform tag/tool; every flag-fed option is read on the path the CLI calls")
	r.Rule("O-3", "platform tags are compared case-insensitively (EqualFold or ToLower image against lower-case names)")
	r.Rule("O-4", "one pipeline classifier and one cross-platform-tool classifier are used on all paths")

	g := findPlatformGate(c)
	if !r.Anchor("O-1", "database platform gate function (bool, *Command, SearchOptions, reads AllPlatforms)", g != nil) {
		return
	}
	r.Analysed["platform_gate"] = load.FuncKey(g.fn)
	sx := symx.New(c.P.IsRepoFunc)
	entries, _ := c01Entries(c)
	scope := reachClosure(c, entries)
	classifiers := map[string]bool{}
	nSites := 0
	check := func(fn *ssa.Function, at *ssa.BasicBlock, pos token.Pos, key string, same func(ssa.Value) bool, from *ssa.BasicBlock) {
		nSites++
		plat, pipe, pcs := c04PassEdges(fn, g, same)
		for n := range pcs {
			classifiers[n] = true
		}
		reachP := blocksReachable(from, plat)
		reachL := blocksReachable(from, pipe)
		r.Check(len(plat) > 0 && !reachP[at], "O-1", key+":platform-gate", c.P.Pos(pos), "unreachable unless "+g.fn.Name()+"(this command, options, …) returned true", "a command can enter the answer without the platform filter having passed for it")
		r.Check(len(pipe) > 0 && !reachL[at], "O-1", key+":pipeline-gate", c.P.Pos(pos), "unreachable unless !PipelineOnly or isPipelineCommand(this command)", "a command can enter the answer of a pipeline-only search without the pipeline test having passed for it")
	}
	// the slices handed to the typo matcher, wherever they are made: in the
	// function that calls the matcher or in a helper that returns them
	matcherData := map[ssa.Value]bool{}
	filledIn := map[*ssa.Call]bool{}
	for _, fn := range scope {
		if pk := c.P.PkgOfFunc(fn); pk == nil || pk.PkgPath != dbPkg || fn.Name() == "GetSuggestions" {
			continue
		}
		for _, fc := range callsTo(fn, fuzzyFind) {
			data := fc.Common().Args[1]
			matcherData[data] = true
			if home, mk, _ := sliceBuilder(c, data); mk != nil {
				matcherData[mk] = true
				inScope := false
				for _, g := range scope {
					if g == home {
						inScope = true
					}
				}
				for _, ref := range *mk.Referrers() {
					if ia, ok := ref.(*ssa.IndexAddr); ok && inScope {
						for _, r2 := range *ia.Referrers() {
							if _, ok := r2.(*ssa.Store); ok {
								filledIn[fc] = true
							}
						}
					}
				}
			}
		}
	}
	for _, fn := range scope {
		pk := c.P.PkgOfFunc(fn)
		if pk == nil || pk.PkgPath != dbPkg {
			continue
		}
		f := sx.Of(fn)
		loops := ssau.RangeLoops(fn)
		ord := newOrdinal()
		ssau.ForEachInstr(fn, false, func(in ssa.Instruction) {
			switch x := in.(type) {
			case *ssa.MapUpdate:
				// score accumulator: map[int]float64 keyed by a docID that also indexes db.Commands here
				mt, ok := x.Map.Type().Underlying().(*types.Map)
				if !ok {
					return
				}
				kb, ok1 := mt.Key().Underlying().(*types.Basic)
				vb, ok2 := mt.Elem().Underlying().(*types.Basic)
				if !ok1 || !ok2 || kb.Kind() != types.Int || vb.Kind() != types.Float64 {
					return
				}
				ks := f.E(x.Key)
				indexes := false
				ssau.ForEachInstr(fn, false, func(i2 ssa.Instruction) {
					if ia, ok := i2.(*ssa.IndexAddr); ok {
						if idx := cmdIndexOf(ia); idx != nil && f.E(idx) == ks {
							indexes = true
						}
					}
				})
				if !indexes {
					return
				}
				same := func(v ssa.Value) bool {
					idx := cmdIndexOf(v)
					return idx != nil && f.E(idx) == ks
				}
				var from *ssa.BasicBlock = fn.Blocks[0]
				for _, l := range loops {
					if l.InLoop(x.Block()) {
						from = l.Header
					}
				}
				check(fn, x.Block(), x.Pos(), ord.next(load.FuncKey(fn)+"#accumulator-update"), same, from)
			case *ssa.Store:
				// matcher target: element of the slice handed to fuzzy.Find
				ia, ok := x.Addr.(*ssa.IndexAddr)
				if !ok {
					return
				}
				isData := matcherData[ia.X]
				if !isData {
					return
				}
				is := f.E(ia.Index)
				same := func(v ssa.Value) bool {
					idx := cmdIndexOf(v)
					return idx != nil && f.E(idx) == is
				}
				var from *ssa.BasicBlock = fn.Blocks[0]
				for _, l := range loops {
					if l.InLoop(x.Block()) {
						from = l.Header
					}
				}
				check(fn, x.Block(), x.Pos(), ord.next(load.FuncKey(fn)+"#matcher-target"), same, from)
			case *ssa.Call:
				// direct producer: append of a SearchResult for &db.Commands[i] inside a loop over db.Commands
				if ssau.CallName(x) != "builtin.append" || !srSlice(x.Type()) {
					return
				}
				el := appendedSingle(x)
				u, ok := el.(*ssa.UnOp)
				if !ok {
					return
				}
				lit, ok := u.X.(*ssa.Alloc)
				if !ok {
					return
				}
				var cmdv ssa.Value
				for _, ref := range *lit.Referrers() {
					if fa, ok := ref.(*ssa.FieldAddr); ok && ssau.FieldName(fa) == "Command" {
						for _, r2 := range *fa.Referrers() {
							if st, ok := r2.(*ssa.Store); ok && st.Addr == ssa.Value(fa) {
								cmdv = st.Val
							}
						}
					}
				}
				idx := cmdIndexOf(cmdv)
				if idx == nil {
					return
				}
				var loop *ssau.RangeLoop
				for i := range loops {
					if loops[i].InLoop(x.Block()) && loops[i].Index == idx {
						if _, ok := ssau.IsFieldLoad(loops[i].Over, dbType, "Commands"); ok {
							loop = &loops[i]
						}
					}
				}
				if loop == nil {
					return // built from gated keys (collectResults) or matcher results (fallback): covered by the sites above
				}
				same := func(v ssa.Value) bool { return v == cmdv || (cmdIndexOf(v) != nil && cmdIndexOf(v) == idx) }
				check(fn, x.Block(), x.Pos(), ord.next(load.FuncKey(fn)+"#direct-append"), same, loop.Header)
			}
		})
	}
	// every matcher call on the search paths must have been recognised as fed by gated stores
	for _, fn := range scope {
		pk := c.P.PkgOfFunc(fn)
		if pk == nil || pk.PkgPath != dbPkg {
			continue
		}
		for i, fc := range callsTo(fn, fuzzyFind) {
			if fn.Name() == "GetSuggestions" {
				continue // matches vocabulary words, produces no search results
			}
			data := fc.Common().Args[1]
			filled := filledIn[fc]
			if refs := data.Referrers(); refs != nil {
				for _, ref := range *refs {
					if ia, ok := ref.(*ssa.IndexAddr); ok && ia.X == data {
						for _, r2 := range *ia.Referrers() {
							if _, ok := r2.(*ssa.Store); ok {
								filled = true
							}
						}
					}
				}
			}
			r.Check(filled, "O-1", fmt.Sprintf("%s#matcher-data-%d-filled-here", load.FuncKey(fn), i+1), c.P.Pos(fc.Pos()), "the matcher's data slice is filled in this function (each store is checked against both gates)", "the data handed to the typo matcher is not built by gated stores in this function (it comes from "+symx.New(c.P.IsRepoFunc).Of(fn).Plain(data)+"): it cannot be established that filtered-out commands are kept away from the matcher")
		}
	}
	r.Floor("O-1", "insertion sites on the search paths", nSites, 3)

	// O-4
	var cl []string
	for n := range classifiers {
		cl = append(cl, shortName(n))
	}
	sort.Strings(cl)
	r.Check(len(cl) == 1, "O-4", "database#one-pipeline-classifier", "", "every pipeline gate calls "+strings.Join(cl, ","), "the pipeline gates use different (or no) classifiers: "+strings.Join(cl, ", "))

	c04Gate(c, sx, g)
	c04Consumed(c)
	c04Case(c, g)
	c04Aliases(c, g)
	c04CachedAnswers(c, g, sx)
}

// c04Gate checks the meaning of the platform gate function.
func c04Gate(c *Ctx, sx *symx.Ctx, g *gateInfo) {
	r := c.R
	fn := g.fn
	fk := load.FuncKey(fn)
	cmd := fn.Params[g.cmdP]
	isCmdField := func(v ssa.Value, field string) bool {
		base, ok := ssau.IsFieldLoad(v, cmdType, field)
		return ok && (base == ssa.Value(cmd) || ssau.ParamOf(base) == cmd)
	}
	// classifier calls on this command
	type cls struct {
		call *ssa.Call
		kind string // declares:<what>, tool
		what ssa.Value
	}
	var classes []cls
	ssau.ForEachInstr(fn, false, func(in ssa.Instruction) {
		call, ok := in.(*ssa.Call)
		if !ok {
			return
		}
		cal := call.Common().StaticCallee()
		if cal == nil || !c.P.IsRepoFunc(cal) {
			return
		}
		a := call.Common().Args
		switch {
		case len(a) == 2 && isCmdField(a[0], "Platform"):
			classes = append(classes, cls{call, "declares", a[1]})
		case len(a) == 1 && isCmdField(a[0], "Command"):
			classes = append(classes, cls{call, "tool", nil})
		}
	})
	// pass edges
	legit := map[[2]int]bool{}
	var noCross map[[2]int]bool = map[[2]int]bool{} // edges on which NoCrossPlatform is false
	var noneReq map[[2]int]bool = map[[2]int]bool{} // edges on which len(Platforms) == 0
	for _, iff := range ssau.Ifs(fn) {
		cond := iff.Cond
		bi := iff.Block().Index
		if optLoad(cond, "AllPlatforms") {
			legit[[2]int{bi, 0}] = true
			continue
		}
		if optLoad(cond, "NoCrossPlatform") {
			noCross[[2]int{bi, 1}] = true
			continue
		}
		if call, ok := cond.(*ssa.Call); ok {
			for _, cl := range classes {
				if cl.call == call {
					legit[[2]int{bi, 0}] = true
				}
			}
			continue
		}
		op, x, y, ok := ssau.CondOf(cond)
		if !ok {
			continue
		}
		_, _, _ = op, x, y
		if arg, zero, isZ := ssau.LenZeroTest(cond); isZ {
			if isCmdField(arg, "Platform") {
				legit[[2]int{bi, zero}] = true
			}
			if optLoad(arg, "Platforms") {
				noneReq[[2]int{bi, zero}] = true
			}
		}
	}
	// every way to return true is legit
	bad := ""
	// a verdict kept in a variable (inForce := ...; if inForce { return true }):
	// the test of the variable is a legit edge when every way it can be true is
	isCls := func(call *ssa.Call) bool {
		for _, cl := range classes {
			if cl.call == call {
				return true
			}
		}
		return false
	}
	for round := 0; round < 2; round++ {
		for _, iff := range ssau.Ifs(fn) {
			if phi, ok := iff.Cond.(*ssa.Phi); ok && c04TrueOnlyLegit(phi, 0, isCls, legit) {
				legit[[2]int{iff.Block().Index, 0}] = true
			}
		}
	}
	reach := reachableFromEntry(fn, legit)
	for _, ret := range ssau.ReturnsOf(fn) {
		if !reach[ret.Block()] {
			continue
		}
		var okVal func(v ssa.Value, d int) bool
		okVal = func(v ssa.Value, d int) bool {
			if ssau.IsConstBool(v, false) {
				return true
			}
			if call, ok := v.(*ssa.Call); ok {
				for _, cl := range classes {
					if cl.call == call {
						return true
					}
				}
			}
			if phi, ok := v.(*ssa.Phi); ok && d < 4 {
				for i, e := range phi.Edges {
					if ssau.IsConstBool(e, true) {
						// must arrive over a legit edge
						p := phi.Block().Preds[i]
						via := false
						for k, sc := range p.Succs {
							if sc == phi.Block() && legit[[2]int{p.Index, k}] {
								via = true
							}
						}
						if !via {
							return false
						}
						continue
					}
					if !okVal(e, d+1) {
						return false
					}
				}
				return true
			}
			return false
		}
		if !okVal(ret.Results[0], 0) {
			bad = "the gate can return true at " + c.P.Pos(ret.Pos()) + " without AllPlatforms, an untagged command, a declared requested platform, or the cross-platform rule"
		}
	}
	r.Check(bad == "" && len(legit) >= 3, "O-2", fk+"#true-only-when-eligible", c.P.Pos(fn.Pos()), "every `true` lies behind AllPlatforms, len(Platform)==0, a declaresPlatform/cross-platform classifier verdict on this command", bad)
	// classifier roles
	nHost, nReq, nCross := 0, 0, 0
	loops := ssau.RangeLoops(fn)
	for _, cl := range classes {
		key := fmt.Sprintf("%s#classifier@%s", fk, c.P.Pos(cl.call.Pos()))
		_ = key
		switch {
		case cl.kind == "tool":
			nCross++
			r.Check(len(noCross) > 0 && !reachableFromEntry(fn, noCross)[cl.call.Block()], "O-2", fk+"#tool-rule-only-without-NoCrossPlatform", c.P.Pos(cl.call.Pos()), "the cross-platform tool rule is consulted only when NoCrossPlatform is false", "the recognised-tool rule still admits commands when cross-platform entries are excluded")
		case cl.kind == "declares":
			if s, ok := ssau.ConstString(cl.what); ok && strings.EqualFold(s, "cross-platform") {
				nCross++
				r.Check(len(noCross) > 0 && !reachableFromEntry(fn, noCross)[cl.call.Block()], "O-2", fk+"#cross-tag-only-without-NoCrossPlatform", c.P.Pos(cl.call.Pos()), "the cross-platform tag is consulted only when NoCrossPlatform is false", "the cross-platform tag still admits commands when cross-platform entries are excluded")
				continue
			}
			if p := ssau.ParamOf(cl.what); p != nil || isParam(cl.what) {
				nHost++
				r.Check(len(noneReq) > 0 && !reachableFromEntry(fn, noneReq)[cl.call.Block()], "O-2", fk+"#host-platform-only-when-none-requested", c.P.Pos(cl.call.Pos()), "the host platform counts only when no platform was requested", "the host platform still admits commands although specific platforms were requested")
				continue
			}
			// requested platform: element of options.Platforms (through a normaliser)
			tr := &origin.Tracer{Through: func(call *ssa.Call, idx int) []ssa.Value {
				if cal := call.Common().StaticCallee(); cal != nil && c.P.IsRepoFunc(cal) && len(call.Common().Args) == 1 {
					return call.Common().Args
				}
				if n := ssau.CallName(call); n == "strings.ToLower" || n == "strings.TrimSpace" {
					return call.Common().Args
				}
				return nil
			}}
			inLoop := false
			for _, l := range loops {
				if l.Over != nil && optLoad(l.Over, "Platforms") && l.InLoop(cl.call.Block()) {
					inLoop = true
				}
				// or the list of platforms in force, resolved once per search by a
				// helper: [host] when none is requested, otherwise one (normalised)
				// entry per requested platform
				if l.Over != nil && !l.IsMap && l.InLoop(cl.call.Block()) {
					if hostOK, reqOK := c04InForceList(c, l.Over); hostOK && reqOK {
						if u, ok := cl.what.(*ssa.UnOp); ok {
							if ia, ok := u.X.(*ssa.IndexAddr); ok && ia.Index == l.Index {
								nHost++
								nReq++
								r.OK("O-2", fk+"#host-platform-only-when-none-requested", c.P.Pos(cl.call.Pos()), "the list in force holds the host platform only when no platform was requested, otherwise every requested one")
							}
						}
					}
				}
			}
			elem := false
			for _, rt := range tr.Roots(cl.what) {
				if rt.Kind == "elem" {
					elem = true
				}
			}
			if inLoop && elem {
				nReq++
			}
		}
	}
	r.Check(nHost >= 1, "O-2", fk+"#host-platform-rule", c.P.Pos(fn.Pos()), "the host platform is tried", "the host platform is never tried: with no --platform given nothing declared for this OS passes")
	r.Check(nReq >= 1, "O-2", fk+"#requested-platforms-tried", c.P.Pos(fn.Pos()), "every requested platform is tried in a range over options.Platforms", "the requested platforms (options.Platforms) are not each compared with the command's declared platforms: --platform is ignored")
	r.Check(nCross >= 2, "O-2", fk+"#cross-platform-rule", c.P.Pos(fn.Pos()), "cross-platform tag and tool rule present", "the cross-platform tag or the recognised-tool rule is missing from the gate")
}

func isParam(v ssa.Value) bool { _, ok := v.(*ssa.Parameter); return ok }

// c04Consumed: every SearchOptions field the CLI fills from a flag is read on
// the path that command calls.
func c04Consumed(c *Ctx) {
	r := c.R
	for _, spec := range []struct{ cmdVar, engine string }{{"searchCmd", "SearchUniversal"}, {"pipelineCmd", "SearchWithPipelineOptions"}} {
		run := runClosure(c, spec.cmdVar)
		eng := c.P.Func("internal/database", "Database", spec.engine)
		if !r.Anchor("O-2", "cli."+spec.cmdVar+".Run", run != nil && eng != nil) {
			continue
		}
		// reads on that path
		R := map[string]bool{}
		for _, fn := range reachClosure(c, []*ssa.Function{eng}) {
			ssau.ForEachInstr(fn, false, func(in ssa.Instruction) {
				switch x := in.(type) {
				case *ssa.FieldAddr:
					if ssau.NamedOf(x.X.Type()) == optType {
						for _, ref := range *x.Referrers() {
							if u, ok := ref.(*ssa.UnOp); ok && u.X == ssa.Value(x) {
								R[ssau.FieldName(x)] = true
							}
						}
					}
				case *ssa.Field:
					if ssau.NamedOf(x.X.Type()) == optType {
						R[ssau.FieldName(x)] = true
					}
				}
			})
		}
		// flag-fed fields of the options literal
		// (the literal may be filled in a step of the command, from flags the
		// command read into a struct of its own)
		tr := &origin.Tracer{CG: c.P.CallGraph(), Sx: symx.New(c.P.IsRepoFunc)}
		n := 0
		var bodies []ssa.Instruction
		for _, g := range withSteps(c, run, 2) {
			ssau.ForEachInstr(g, false, func(in ssa.Instruction) { bodies = append(bodies, in) })
		}
		for _, in := range bodies {
			st, ok := in.(*ssa.Store)
			if !ok {
				continue
			}
			fa, ok := st.Addr.(*ssa.FieldAddr)
			if !ok || ssau.NamedOf(fa.X.Type()) != optType {
				continue
			}
			fromFlag := false
			for _, rt := range tr.Roots(st.Val) {
				if rt.Kind == "call" && strings.Contains(rt.Name, "pflag.FlagSet).Get") {
					fromFlag = true
				}
			}
			constTrue := ssau.IsConstBool(st.Val, true)
			if !fromFlag && !(constTrue && ssau.FieldName(fa) == "PipelineOnly") {
				continue
			}
			n++
			f := ssau.FieldName(fa)
			r.Check(R[f], "O-2", "cli."+spec.cmdVar+"#option-consumed:"+f, c.P.Pos(st.Pos()), "SearchOptions."+f+" is read by "+spec.engine+" or its callees", "SearchOptions."+f+" is filled from a command-line flag but nothing on the path of "+spec.engine+" reads it: the flag is parsed, echoed and ignored")
		}
		r.Floor("O-2", spec.cmdVar+" flag-fed filter options", n, 3)
	}
}

// c04Case: comparisons of platform tags are case-insensitive.
func c04Case(c *Ctx, g *gateInfo) {
	r := c.R
	// functions reachable from the gate that take a platform tag list or tag
	scope := reachClosure(c, []*ssa.Function{g.fn})
	tr := &origin.Tracer{CG: c.P.CallGraph(), Through: func(call *ssa.Call, idx int) []ssa.Value { return nil }, FieldStoresIn: shippedFuncs(c)}
	n := 0
	for _, fn := range scope {
		if fn.Name() == "isCrossPlatformTool" || fn.Name() == "isPipelineCommand" {
			continue // classify command text, not platform tags
		}
		takesTags := fn == g.fn
		for _, p := range fn.Params {
			if strings.Contains(strings.ToLower(p.Name()), "platform") || p.Name() == "p" {
				takesTags = true
			}
		}
		if !takesTags {
			continue
		}
		ord := newOrdinal()
		var checkOperand func(v ssa.Value) (bool, string)
		depthCO := 0

		checkOperand = func(v ssa.Value) (bool, string) {
			// a string held in a package-level table of constants, all lower-case
			if ref, ok := c04TableOf(v, 0); ok {
				data, ok := c04TableData(ref.g)
				if !ok {
					return false, "table:" + ref.g.Name()
				}
				for _, rec := range data {
					for _, s := range rec[ref.field] {
						if s != strings.ToLower(s) {
							return false, "table:" + ref.g.Name() + " holds " + s
						}
						n++ // one comparison per string the table holds
					}
				}
				return true, ""
			}
			for _, rt := range tr.Roots(v) {
				switch {
				case rt.Kind == "elem" && depthCO < 3:
					// an element of a list built by a helper of the repository: what the helper puts there
					var elems []ssa.Value
					if u, ok := rt.V.(*ssa.UnOp); ok {
						if ia, ok := u.X.(*ssa.IndexAddr); ok {
							elems = c04ListElems(c, ia.X)
						}
					}
					if len(elems) == 0 {
						return false, rt.String()
					}
					depthCO++
					for _, e := range elems {
						if ok, w := checkOperand(e); !ok {
							depthCO--
							return false, w
						}
					}
					depthCO--
				case rt.Kind == "const":
				case rt.Kind == "call" && (rt.Name == "strings.ToLower" || strings.HasSuffix(rt.Name, ".getCurrentPlatform") || strings.HasSuffix(rt.Name, ".normalizePlatformName")):
				case rt.Kind == "global" && strings.Contains(rt.Name, "runtime.GOOS"):
				case rt.Kind == "call" && strings.HasSuffix(rt.Name, "strings.TrimSpace"):
				default:
					return false, rt.String()
				}
			}
			return true, ""
		}
		ssau.ForEachInstr(fn, false, func(in ssa.Instruction) {
			switch x := in.(type) {
			case *ssa.BinOp:
				if x.Op != token.EQL && x.Op != token.NEQ {
					return
				}
				if b, ok := x.X.Type().Underlying().(*types.Basic); !ok || b.Info()&types.IsString == 0 {
					return
				}
				n++
				key := ord.next(load.FuncKey(fn) + "#string-compare")
				okX, wx := checkOperand(x.X)
				okY, wy := checkOperand(x.Y)
				r.Check(okX && okY, "O-3", key, c.P.Pos(x.Pos()), "both operands are constants or lower-cased images", "a platform tag is compared with == in its original letter case ("+shortName(wx+wy)+"): 'Linux' or 'MacOS' in the database no longer match")
			case *ssa.Call:
				nm := ssau.CallName(x)
				if nm == "strings.HasPrefix" || nm == "strings.HasSuffix" || nm == "strings.Contains" {
					n++
					key := ord.next(load.FuncKey(fn) + "#" + nm)
					okX, wx := checkOperand(x.Common().Args[0])
					okY, wy := checkOperand(x.Common().Args[1])
					r.Check(okX && okY, "O-3", key, c.P.Pos(x.Pos()), "both operands are constants or lower-cased images", "a platform tag is matched case-sensitively ("+shortName(wx+wy)+")")
				}
			}
		})
	}
	r.Floor("O-3", "platform tag comparisons examined", n, 8)
}

// c04Aliases: O-5. The alias tests of the platform families are read off as a
// table (family constant -> tests on the tag: ==, EqualFold, HasPrefix,
// HasSuffix, Contains, each with a constant) and cross-checked: no test of
// one family accepts a name that belongs to another family (its platform
// constant or one of its alias constants). A tag of one platform matching
// another platform's table lets foreign commands through the filter.
func c04Aliases(c *Ctx, g *gateInfo) {
	r := c.R
	r.Rule("O-5", "alias tables are disjoint: within the gate's closure, no alias test of one platform family (==, EqualFold, HasPrefix, HasSuffix, Contains against a constant, under a test of the platform against that family's constant) accepts the platform name or an alias constant of another family; alias constants may be held in a package-level table keyed by the family; no prefix, suffix or substring test matches a tag against a run-time value")
	type test struct {
		root  ssa.Value
		kind  string
		k     string
		blk   *ssa.BasicBlock
		iff   *ssa.If
		truth int // successor index on which the test holds
		pos   token.Pos
	}
	rootOf := func(v ssa.Value) ssa.Value {
		for i := 0; i < 6; i++ {
			v = ssau.Strip(v)
			call, ok := v.(*ssa.Call)
			if !ok {
				break
			}
			switch ssau.CallName(call) {
			case "strings.ToLower", "strings.TrimSpace", "strings.ToUpper":
				v = call.Common().Args[0]
				continue
			}
			if cal := call.Common().StaticCallee(); cal != nil && c.P.IsRepoFunc(cal) && len(call.Common().Args) == 1 {
				v = call.Common().Args[0] // a repo normaliser of one string
				continue
			}
			break
		}
		return v
	}
	ifOf := func(v ssa.Value) (*ssa.If, int) {
		for _, ref := range *v.Referrers() {
			if iff, ok := ref.(*ssa.If); ok {
				return iff, 0
			}
			if u, ok := ref.(*ssa.UnOp); ok && u.Op == token.NOT {
				for _, r2 := range *u.Referrers() {
					if iff, ok := r2.(*ssa.If); ok {
						return iff, 1
					}
				}
			}
		}
		return nil, 0
	}
	accepts := func(t test, w string) bool {
		switch t.kind {
		case "==":
			return w == t.k
		case "EqualFold":
			return strings.EqualFold(w, t.k)
		case "HasPrefix":
			return strings.HasPrefix(w, t.k)
		case "HasSuffix":
			return strings.HasSuffix(w, t.k)
		case "Contains":
			return strings.Contains(w, t.k)
		}
		return false
	}
	nTag := 0
	nPartial := 0
	ordPartial := newOrdinal()
	for _, fn := range reachClosure(c, []*ssa.Function{g.fn}) {
		fn := fn
		var tests []test
		ssau.ForEachInstr(fn, false, func(in ssa.Instruction) {
			switch x := in.(type) {
			case *ssa.BinOp:
				if x.Op != token.EQL && x.Op != token.NEQ {
					return
				}
				subj, kv := x.X, x.Y
				if _, ok := ssau.ConstString(kv); !ok {
					subj, kv = x.Y, x.X
				}
				k, ok := ssau.ConstString(kv)
				if !ok {
					return
				}
				if b, isB := subj.Type().Underlying().(*types.Basic); !isB || b.Info()&types.IsString == 0 {
					return
				}
				iff, neg := ifOf(x)
				truth := neg
				if x.Op == token.NEQ {
					truth = 1 - truth
				}
				tests = append(tests, test{rootOf(subj), "==", k, x.Block(), iff, truth, x.Pos()})
			case *ssa.Call:
				nm := ssau.CallName(x)
				kind := strings.TrimPrefix(nm, "strings.")
				switch kind {
				case "HasPrefix", "HasSuffix", "Contains", "EqualFold":
				default:
					return
				}
				a := x.Common().Args
				subj, kv := a[0], a[1]
				k, ok := ssau.ConstString(kv)
				if !ok && kind == "EqualFold" {
					subj, kv = a[1], a[0]
					k, ok = ssau.ConstString(kv)
				}
				if !ok {
					// a partial match of a tag against a run-time value (the platform
					// asked for, say): a blank or abbreviated name then matches every
					// tag, or tags of another family. Whole-string comparison with the
					// platform in force is the rule itself and is fine.
					if kind != "EqualFold" && fn.Name() != "isCrossPlatformTool" && fn.Name() != "isPipelineCommand" {
						if _, isTable := c04TableOf(kv, 0); !isTable {
							if _, isTable2 := c04TableOf(a[0], 0); !isTable2 {
								nPartial++
								r.Bad("O-5", ordPartial.next(load.FuncKey(fn)+"#partial-match-on-a-run-time-value"), c.P.Pos(x.Pos()), "strings."+kind+" matches a platform tag against a value that is not a constant of an alias family: with a blank or abbreviated platform name it accepts every tag, or tags of another platform")
							}
						}
					}
					return
				}
				iff, neg := ifOf(x)
				tests = append(tests, test{rootOf(subj), kind, k, x.Block(), iff, neg, x.Pos()})
			}
		})
		// family of a tag test: an == test on another root whose true edge
		// every path to the tag test passes
		fam := map[string][]test{}
		var order []string
		// ... or the family is the key of a package-level table whose records
		// hold the alias strings: one test per string in the table
		ssau.ForEachInstr(fn, false, func(in ssa.Instruction) {
			var subj, kv ssa.Value
			kind := ""
			switch x := in.(type) {
			case *ssa.BinOp:
				if x.Op != token.EQL && x.Op != token.NEQ {
					return
				}
				if b, isB := x.X.Type().Underlying().(*types.Basic); !isB || b.Info()&types.IsString == 0 {
					return
				}
				subj, kv, kind = x.X, x.Y, "=="
				if _, ok := c04TableOf(kv, 0); !ok {
					subj, kv = x.Y, x.X
				}
			case *ssa.Call:
				kind = strings.TrimPrefix(ssau.CallName(x), "strings.")
				switch kind {
				case "HasPrefix", "HasSuffix", "Contains", "EqualFold":
				default:
					return
				}
				subj, kv = x.Common().Args[0], x.Common().Args[1]
				if _, ok := c04TableOf(kv, 0); !ok && kind == "EqualFold" {
					subj, kv = kv, subj
				}
			default:
				return
			}
			ref, ok := c04TableOf(kv, 0)
			if !ok {
				return
			}
			data, ok := c04TableData(ref.g)
			if !ok {
				r.Bad("O-5", load.FuncKey(fn)+"#alias-table:"+ref.g.Name(), c.P.Pos(in.Pos()), "platform tags are matched against the package-level table "+ref.g.Name()+", whose content is not a constant initialiser written once")
				return
			}
			var keys []string
			for k := range data {
				keys = append(keys, k)
			}
			sort.Strings(keys)
			for _, k := range keys {
				for _, s := range data[k][ref.field] {
					if _, seen := fam[k]; !seen {
						order = append(order, k)
					}
					fam[k] = append(fam[k], test{rootOf(subj), kind, s, in.Block(), nil, 0, in.Pos()})
				}
				if _, seen := fam[k]; !seen {
					order = append(order, k)
					fam[k] = nil
				}
			}
		})
		for _, t := range tests {
			for _, f := range tests {
				if f.kind != "==" || f.iff == nil || f.root == t.root || f.blk == t.blk {
					continue
				}
				cut := map[[2]int]bool{{f.iff.Block().Index, f.truth}: true}
				if !ssau.ReachableAvoidingEdges(fn, t.blk, cut) {
					if _, seen := fam[f.k]; !seen {
						order = append(order, f.k)
					}
					fam[f.k] = append(fam[f.k], t)
					break
				}
			}
		}
		if len(fam) < 2 {
			continue
		}
		sort.Strings(order)
		vocab := map[string][]string{}
		for _, f := range order {
			vocab[f] = append(vocab[f], strings.ToLower(f))
			for _, t := range fam[f] {
				vocab[f] = append(vocab[f], strings.ToLower(t.k))
			}
		}
		for _, f := range order {
			for _, t := range fam[f] {
				nTag++
				key := fmt.Sprintf("%s#family:%s:%s(%s)", load.FuncKey(fn), f, t.kind, t.k)
				bad := ""
				for _, g2 := range order {
					if g2 == f {
						continue
					}
					for _, w := range vocab[g2] {
						if accepts(t, w) {
							bad = fmt.Sprintf("accepts %q, which belongs to the %s family", w, g2)
						}
					}
				}
				r.Check(bad == "", "O-5", key, c.P.Pos(t.pos), "accepts no name of another family", "the "+f+" alias test "+t.kind+"(tag, "+fmt.Sprintf("%q", t.k)+") "+bad+": commands tagged for that platform pass the "+f+" filter")
			}
		}
	}
	r.Floor("O-5", "alias tests read into the table", nTag, 11)
	r.Analysed["partial_matches_on_run_time_values"] = nPartial
}

// c04ListSources: the list values a container expression can hold when it is
// a field of a per-search object (every store to that field) — each either a
// list value or a call of a repository helper that builds one.
func c04ListSources(c *Ctx, v ssa.Value) []ssa.Value {
	var owner, name string
	switch x := v.(type) {
	case *ssa.UnOp:
		fa, ok := x.X.(*ssa.FieldAddr)
		if !ok {
			return []ssa.Value{v}
		}
		owner, name = ssau.FieldOwner(fa), ssau.FieldName(fa)
	case *ssa.Field:
		owner, name = ssau.NamedOf(x.X.Type()), ssau.FieldName(x)
	default:
		return []ssa.Value{v}
	}
	if owner == optType || !strings.HasPrefix(owner, load.ModulePath) {
		return []ssa.Value{v}
	}
	var out []ssa.Value
	for _, fn := range shippedFuncs(c) {
		ssau.ForEachInstr(fn, false, func(in ssa.Instruction) {
			st, ok := in.(*ssa.Store)
			if !ok {
				return
			}
			if fa, ok := st.Addr.(*ssa.FieldAddr); ok && ssau.FieldOwner(fa) == owner && ssau.FieldName(fa) == name {
				out = append(out, st.Val)
			}
		})
	}
	return out
}

// c04ListElems: the values stored as elements of the lists v can hold, looking
// into helpers that build and return the list.
func c04ListElems(c *Ctx, v ssa.Value) []ssa.Value {
	var out []ssa.Value
	var elemsOf func(l ssa.Value, d int)
	elemsOf = func(l ssa.Value, d int) {
		if d > 4 {
			return
		}
		switch x := l.(type) {
		case *ssa.Call:
			if ssau.CallName(x) == "builtin.append" {
				elemsOf(x.Common().Args[0], d+1)
				if len(x.Common().Args) == 2 {
					if e := appendedSingle(x); e != nil {
						out = append(out, e)
					} else {
						elemsOf(x.Common().Args[1], d+1)
					}
				}
				return
			}
			if g := x.Common().StaticCallee(); g != nil && c.P.IsRepoFunc(g) && len(g.Blocks) > 0 {
				for _, ret := range ssau.ReturnsOf(g) {
					elemsOf(ssau.ResultValue(ret, 0), d+1)
				}
			}
		case *ssa.Slice:
			if al, ok := x.X.(*ssa.Alloc); ok {
				for _, ref := range *al.Referrers() {
					if ia, ok := ref.(*ssa.IndexAddr); ok {
						for _, r2 := range *ia.Referrers() {
							if st, ok := r2.(*ssa.Store); ok && st.Addr == ssa.Value(ia) {
								out = append(out, st.Val)
							}
						}
					}
				}
				return
			}
			elemsOf(x.X, d+1)
		case *ssa.MakeSlice:
			for _, ref := range *x.Referrers() {
				if ia, ok := ref.(*ssa.IndexAddr); ok {
					for _, r2 := range *ia.Referrers() {
						if st, ok := r2.(*ssa.Store); ok && st.Addr == ssa.Value(ia) {
							out = append(out, st.Val)
						}
					}
				}
			}
		case *ssa.Phi:
			for _, e := range x.Edges {
				elemsOf(e, d+1)
			}
		}
	}
	for _, src := range c04ListSources(c, v) {
		if src != v {
			elemsOf(src, 0)
		}
	}
	return out
}

// c04InForceList: list (the list the gate walks) is, at every store of the
// field it is read from, the result of a helper H(requested, host) called
// with (options.Platforms, the host platform) such that H returns a one-
// element list holding host exactly on the paths where len(requested) == 0,
// and otherwise a list with one entry per element of requested (the element
// itself or a repository normaliser applied to it).
func c04InForceList(c *Ctx, list ssa.Value) (hostOK, reqOK bool) {
	srcs := c04ListSources(c, list)
	if len(srcs) == 0 || (len(srcs) == 1 && srcs[0] == list) {
		return false, false
	}
	if h, r, ok := c04InForceAssembled(c, srcs); ok {
		return h, r
	}
	hostOK, reqOK = true, true
	for _, src := range srcs {
		call, ok := src.(*ssa.Call)
		if !ok {
			return false, false
		}
		h := call.Common().StaticCallee()
		if h == nil || !c.P.IsRepoFunc(h) || len(h.Blocks) == 0 {
			return false, false
		}
		// which parameters receive options.Platforms and the host platform
		var req, host *ssa.Parameter
		for i, a := range call.Common().Args {
			if i >= len(h.Params) {
				break
			}
			if optLoad(a, "Platforms") {
				req = h.Params[i]
			} else if hc, ok := a.(*ssa.Call); ok && strings.HasSuffix(ssau.CallName(hc), ".getCurrentPlatform") {
				host = h.Params[i]
			} else if p := ssau.ParamOf(a); p != nil && strings.Contains(strings.ToLower(p.Name()), "platform") {
				host = h.Params[i]
			}
		}
		if req == nil || host == nil {
			return false, false
		}
		isReq := func(v ssa.Value) bool { return v == ssa.Value(req) || ssau.ParamOf(v) == req }
		// the edges on which nothing was requested
		none := map[[2]int]bool{}
		some := map[[2]int]bool{}
		for _, iff := range ssau.Ifs(h) {
			if arg, zero, isZ := ssau.LenZeroTest(iff.Cond); isZ && isReq(arg) {
				none[[2]int{iff.Block().Index, zero}] = true
				some[[2]int{iff.Block().Index, 1 - zero}] = true
			}
		}
		if len(none) == 0 {
			return false, false
		}
		for _, ret := range ssau.ReturnsOf(h) {
			rv := ssau.ResultValue(ret, 0)
			onlyNone := !ssau.ReachableAvoidingEdges(h, ret.Block(), none)
			onlySome := !ssau.ReachableAvoidingEdges(h, ret.Block(), some)
			switch {
			case onlyNone:
				// [host]
				good := false
				if sl, ok := rv.(*ssa.Slice); ok {
					if al, ok := sl.X.(*ssa.Alloc); ok {
						n := 0
						for _, ref := range *al.Referrers() {
							if ia, ok := ref.(*ssa.IndexAddr); ok {
								for _, r2 := range *ia.Referrers() {
									if st, ok := r2.(*ssa.Store); ok && st.Addr == ssa.Value(ia) {
										n++
										good = st.Val == ssa.Value(host) || ssau.ParamOf(st.Val) == host
									}
								}
							}
						}
						good = good && n == 1
					}
				}
				if !good {
					hostOK = false
				}
			case onlySome:
				// one entry per requested platform
				good := false
				if mk, ok := rv.(*ssa.MakeSlice); ok {
					if lc, ok := mk.Len.(*ssa.Call); ok && ssau.CallName(lc) == "builtin.len" && isReq(lc.Common().Args[0]) {
						for _, l := range ssau.RangeLoops(h) {
							if l.IsMap || l.Over == nil || !isReq(l.Over) {
								continue
							}
							for _, ref := range *mk.Referrers() {
								if ia, ok := ref.(*ssa.IndexAddr); ok && ia.Index == l.Index && l.InLoop(ia.Block()) {
									good = true
								}
							}
						}
					}
				}
				if !good {
					reqOK = false
				}
			default:
				hostOK, reqOK = false, false
			}
		}
	}
	return hostOK, reqOK
}

// c04InForceAssembled: the in-force list is assembled in place (the values
// stored into a field, all in one function): a one-element literal holding
// the host platform where no platform was requested, and otherwise an empty
// make followed by one append per requested platform in a range over
// options.Platforms. ok is false when the stored values are not of this form.
func c04InForceAssembled(c *Ctx, srcs []ssa.Value) (hostOK, reqOK, ok bool) {
	var h *ssa.Function
	for _, v := range srcs {
		in, isIn := v.(ssa.Instruction)
		if !isIn || in.Parent() == nil || (h != nil && h != in.Parent()) {
			return false, false, false
		}
		h = in.Parent()
	}
	if h == nil {
		return false, false, false
	}
	isReq := func(v ssa.Value) bool { return optLoad(v, "Platforms") }
	none, some := map[[2]int]bool{}, map[[2]int]bool{}
	for _, iff := range ssau.Ifs(h) {
		if arg, zero, isZ := ssau.LenZeroTest(iff.Cond); isZ && isReq(arg) {
			none[[2]int{iff.Block().Index, zero}] = true
			some[[2]int{iff.Block().Index, 1 - zero}] = true
		}
	}
	if len(none) == 0 {
		return false, false, false
	}
	cd := ssau.ControlDeps(h)
	for _, v := range srcs {
		blk := v.(ssa.Instruction).Block()
		onlyNone := !ssau.ReachableAvoidingEdges(h, blk, none)
		onlySome := !ssau.ReachableAvoidingEdges(h, blk, some)
		switch x := v.(type) {
		case *ssa.Slice:
			// []string{host}
			al, isAl := x.X.(*ssa.Alloc)
			if !isAl || !onlyNone {
				return false, false, false
			}
			n, good := 0, false
			for _, ref := range *al.Referrers() {
				if ia, ok := ref.(*ssa.IndexAddr); ok {
					for _, r2 := range *ia.Referrers() {
						if st, ok := r2.(*ssa.Store); ok && st.Addr == ssa.Value(ia) {
							n++
							if hc, ok := st.Val.(*ssa.Call); ok && strings.HasSuffix(ssau.CallName(hc), ".getCurrentPlatform") {
								good = true
							}
						}
					}
				}
			}
			if n != 1 || !good {
				return false, false, false
			}
			hostOK = true
		case *ssa.MakeSlice:
			if z, isC := ssau.ConstInt(x.Len); !isC || z != 0 || !onlySome {
				return false, false, false
			}
		case *ssa.Call:
			if ssau.CallName(x) != "builtin.append" || !onlySome {
				return false, false, false
			}
			// one append per requested platform: in a range over options.Platforms,
			// under nothing but the loop itself
			good := false
			for _, l := range ssau.RangeLoops(h) {
				if l.IsMap || l.Over == nil || !isReq(l.Over) || !l.InLoop(x.Block()) {
					continue
				}
				only := true
				for _, d := range ssau.TransitiveControlDeps(cd, x.Block()) {
					if d.Branch != l.Header && l.InLoop(d.Branch) {
						only = false
					}
				}
				if only && appendedSingle(x) != nil {
					good = true
				}
			}
			if !good {
				return false, false, false
			}
			reqOK = true
		default:
			return false, false, false
		}
	}
	return hostOK, reqOK, true
}

// c04TrueOnlyLegit: the boolean v can be true only as a classifier's own
// verdict, or as the constant true arriving over an edge already known to be
// legitimate (merges of such).
func c04TrueOnlyLegit(v ssa.Value, d int, isCls func(*ssa.Call) bool, legit map[[2]int]bool) bool {
	if ssau.IsConstBool(v, false) {
		return true
	}
	if call, ok := v.(*ssa.Call); ok {
		return isCls(call)
	}
	if phi, ok := v.(*ssa.Phi); ok && d < 4 {
		for i, e := range phi.Edges {
			if ssau.IsConstBool(e, true) {
				p := phi.Block().Preds[i]
				via := false
				for k, sc := range p.Succs {
					if sc == phi.Block() && legit[[2]int{p.Index, k}] {
						via = true
					}
				}
				// or the block that sets it is itself reached only over a legit edge
				if !via && len(p.Preds) == 1 {
					pp := p.Preds[0]
					for k, sc := range pp.Succs {
						if sc == p && legit[[2]int{pp.Index, k}] {
							via = true
						}
					}
				}
				if !via {
					return false
				}
				continue
			}
			if !c04TrueOnlyLegit(e, d+1, isCls, legit) {
				return false
			}
		}
		return len(phi.Edges) > 0
	}
	return false
}

// c04CachedAnswers: O-6. "Both filters apply equally to ... cached answers": a
// cached list was filtered under the options of the request that filled the
// entry, so it is the right answer for a later request only if every option
// the two gates read is part of the cache key, unchanged. The fields are read
// off the gate's own closure (plus the pipeline switch); the projection rule
// is the one C05 O-1 applies to the whole read set.
func c04CachedAnswers(c *Ctx, g *gateInfo, sx *symx.Ctx) {
	r := c.R
	r.Rule("O-6", "cached answers: every option the platform gate or the pipeline gate reads is a serialised field of the cache key options and is copied unchanged from the searched options wherever cache options are built")
	// the options the property's two filters are about, as far as the search
	// path reads them (wherever: the gate itself, or a per-search object built
	// from the options before the gate runs), and whatever else the gate reads
	R := map[string][]string{}
	all, _ := optionReads(c)
	for _, f := range []string{"AllPlatforms", "Platforms", "NoCrossPlatform", "PipelineOnly"} {
		if pos, ok := all[f]; ok {
			R[f] = pos
		}
	}
	for f, pos := range optionReadsIn(c, reachClosure(c, []*ssa.Function{g.fn})) {
		R[f] = pos
	}
	var names []string
	for f := range R {
		names = append(names, f)
	}
	sort.Strings(names)
	r.Analysed["options_read_by_the_gates"] = names
	r.Floor("O-6", "options read by the gates", len(names), 4)
	c05Projection(c, sx, "O-6", names, R, 1)
}
