package rules

import (
	"fmt"
	"strings"

	"golang.org/x/tools/go/ssa"

	"wtfverif/checker/internal/load"
	"wtfverif/checker/internal/maporder"
	"wtfverif/checker/internal/symx"
)

// DumpSymx prints every value-producing instruction of a function with its
// canonical symbolic rendering (debug aid for writing rules).
func DumpSymx(p *load.Program, spec string) {
	parts := strings.Split(spec, ":")
	if len(parts) != 3 {
		fmt.Println("want pkgsuffix:recv:func")
		return
	}
	fn := p.Func(parts[0], parts[1], parts[2])
	if fn == nil {
		fmt.Println("not found")
		return
	}
	sx := symx.New(p.IsRepoFunc)
	var dump func(fn *ssa.Function)
	dump = func(fn *ssa.Function) {
		f := sx.Of(fn)
		fmt.Println("func", fn.String())
		for _, b := range fn.Blocks {
			fmt.Printf(" block %d (%s) preds=%d  %s\n", b.Index, b.Comment, len(b.Preds), f.DebugState(b))
			for _, in := range b.Instrs {
				if v, ok := in.(ssa.Value); ok {
					fmt.Printf("   %-5s = %s\n", v.Name(), f.E(v))
				} else {
					fmt.Printf("   %s\n", in.String())
				}
			}
		}
		for _, a := range fn.AnonFuncs {
			dump(a)
		}
	}
	dump(fn)
}

// DumpMapOrder prints the classification of every map range loop of the module.
func DumpMapOrder(p *load.Program) {
	sx := symx.New(p.IsRepoFunc)
	for _, fn := range p.RepoFuncs() {
		for _, l := range maporder.Classify(fn, sx) {
			fmt.Printf("%s  range %s  at %s\n", load.FuncKey(fn), sx.Of(fn).Plain(l.L.Over), p.Pos(l.Pos()))
			for _, e := range l.Effects {
				n := ""
				if e.Neutralised {
					n = " [neutralised: " + e.How + "]"
				}
				fmt.Printf("     %s %s%s\n", e.Kind, e.Detail, n)
			}
			for _, n := range l.Notes {
				fmt.Printf("     ok  %s\n", n)
			}
		}
	}
}
