package rules

import (
	"fmt"
	"go/token"
	"go/types"
	"sort"
	"strings"

	"golang.org/x/tools/go/ssa"

	"wtfverif/checker/internal/bounds"
	"wtfverif/checker/internal/interval"
	"wtfverif/checker/internal/load"
	"wtfverif/checker/internal/origin"
	"wtfverif/checker/internal/pathev"
	"wtfverif/checker/internal/ssau"
	"wtfverif/checker/internal/symx"
)

const (
	recPkg  = load.ModulePath + "/internal/recovery"
	errsPkg = load.ModulePath + "/internal/errors"
	drMeth  = "(*" + recPkg + ".DatabaseRecovery)."
)

func init() {
	register(&Rule{
		Prop: "C15",
		Explanation: "Shape of robust loading decided from the SSA form and the call graph for every fault combination and retry configuration: (O-1) among the functions the fallback table of LoadDatabaseWithFallback can call (resolved through the composite literal, bound-method wrappers and the call graph) at least one returns on every path a freshly built Database with a non-empty constant command list and a nil error, the loop returns (db, nil) for the first strategy that succeeds, and a successful loadWithRetry result is returned as is; " +
			"(O-2) loadWithRetry is a counted loop 1..MaxAttempts with exactly one load per iteration, left when the retry predicate says no, sleeping only when another attempt follows, and it can return a nil error only together with the database just loaded (so a non-positive MaxAttempts cannot yield (nil, nil)); (O-3) the retry predicate has, for each of the classes not-exist and permission, a test that is EFFECTIVE on the concrete error types that reach it — os.IsNotExist/IsPermission do not unwrap, so on a wrapper type with an Unwrap method they are always false; errors.Is, a test on the unwrapped Cause, or the AppError.Type switch are effective — and a positive outcome returns false; " +
			"(O-4) calculateDelay returns the clamp of the exponential term by MaxDelay; (O-5) LoadDatabaseWithPersonal returns (main, nil) after a notebook failure only under an effective not-exist test, returns every other notebook error, and returns main-load errors directly. Monotonicity of the waits for arbitrary BackoffFactor and wall-clock spacing are NOT decided.",
		NotDecided:  []string{"waits never decrease for arbitrary BackoffFactor (false for factors < 1 by construction of exponential back-off; a statement about runtime configuration)", "wall-clock spacing of attempts", "classification of OS errors by message text inside errors.NewDatabaseErrorWithContext (data, OS- and locale-dependent)"},
		Assumptions: []string{"os.IsNotExist/os.IsPermission inspect only the error given and the known syscall wrappers, never a user-defined Unwrap chain; errors.Is follows Unwrap"},
		Run:         runC15,
	})
}

// ---------------------------------------------------------------------------
// concrete error types reaching a value

type errTypeSet map[string]bool

func (s errTypeSet) list() []string {
	var out []string
	for k := range s {
		out = append(out, k)
	}
	sort.Strings(out)
	return out
}

type errFlow struct {
	c    *Ctx
	memo map[ssa.Value]bool
}

func (e *errFlow) types(v ssa.Value, out errTypeSet, depth int) {
	if v == nil || depth > 25 || e.memo[v] {
		return
	}
	e.memo[v] = true
	switch x := v.(type) {
	case *ssa.Const:
		// nil
	case *ssa.MakeInterface:
		out[x.X.Type().String()] = true
	case *ssa.ChangeInterface:
		e.types(x.X, out, depth+1)
	case *ssa.Phi:
		for k, ed := range x.Edges {
			// the default arm of a type switch: the value arrives here only
			// after `ed.(T)` failed, so it is not a T
			excl := failedAsserts(ed, x.Block().Preds[k], x.Block())
			if len(excl) == 0 {
				e.types(ed, out, depth+1)
				continue
			}
			sub := errTypeSet{}
			saved := e.memo
			e.memo = map[ssa.Value]bool{}
			e.types(ed, sub, depth+1)
			e.memo = saved
			for t := range sub {
				if !excl[t] {
					out[t] = true
				}
			}
		}
	case *ssa.TypeAssert:
		e.types(x.X, out, depth+1)
	case *ssa.Extract:
		if call, ok := x.Tuple.(*ssa.Call); ok {
			e.call(call, x.Index, out, depth)
		}
	case *ssa.Call:
		e.call(x, 0, out, depth)
	case *ssa.Parameter:
		fn := x.Parent()
		idx := -1
		for i, p := range fn.Params {
			if p == x {
				idx = i
			}
		}
		node := e.c.P.CallGraph().Nodes[fn]
		n := 0
		if node != nil {
			for _, ed := range node.In {
				if ed.Site == nil || ed.Site.Common().IsInvoke() {
					continue
				}
				args := ed.Site.Common().Args
				if len(args) == len(fn.Params) && idx >= 0 {
					n++
					e.types(args[idx], out, depth+1)
				}
			}
		}
		if n == 0 {
			out["param:"+x.Name()] = true
		}
	case *ssa.UnOp:
		if x.Op == token.MUL {
			if cell := origin.CellOf(x.X); cell != nil {
				for _, s := range origin.CellStores(cell) {
					e.types(s, out, depth+1)
				}
				return
			}
			if fa, ok := x.X.(*ssa.FieldAddr); ok {
				out["field:"+ssau.NamedOf(fa.X.Type())+"."+ssau.FieldName(fa)] = true
				return
			}
		}
		out["other:"+v.Name()] = true
	default:
		out[fmt.Sprintf("other:%T", v)] = true
	}
}

func (e *errFlow) call(call *ssa.Call, idx int, out errTypeSet, depth int) {
	cal := call.Common().StaticCallee()
	if cal == nil || !e.c.P.IsRepoFunc(cal) || cal.Blocks == nil {
		n := ssau.CallName(call)
		if n == "" {
			n = "dynamic"
		}
		// concrete result type known statically (e.g. *AppError builder chains)
		if _, isIface := resultType(call, idx).Underlying().(*types.Interface); !isIface {
			out[resultType(call, idx).String()] = true
			return
		}
		out["ext:"+n] = true
		return
	}
	if _, isIface := resultType(call, idx).Underlying().(*types.Interface); !isIface {
		out[resultType(call, idx).String()] = true
		return
	}
	for _, ret := range ssau.ReturnsOf(cal) {
		if idx < len(ret.Results) {
			e.types(ssau.ResultValue(ret, idx), out, depth+1)
		}
	}
}

func resultType(call *ssa.Call, idx int) types.Type {
	if tup, ok := call.Type().(*types.Tuple); ok {
		return tup.At(idx).Type()
	}
	return call.Type()
}

// wrapperTypes returns the members of ts that are repository types with an
// Unwrap method (os.IsNotExist & co. cannot see through them).
func wrapperTypes(c *Ctx, ts errTypeSet) []string {
	var out []string
	for t := range ts {
		name := strings.TrimPrefix(t, "*")
		if !strings.HasPrefix(name, load.ModulePath) {
			continue
		}
		i := strings.LastIndex(name, ".")
		pk := c.P.AnyPkg(name[:i])
		if pk == nil {
			continue
		}
		obj := pk.Types.Scope().Lookup(name[i+1:])
		if obj == nil {
			continue
		}
		ms := types.NewMethodSet(types.NewPointer(obj.Type()))
		if ms.Lookup(pk.Types, "Unwrap") != nil {
			out = append(out, t)
		}
	}
	sort.Strings(out)
	return out
}

// errClassTest describes a test of an error class found in a predicate.
type errClassTest struct {
	class     string // notexist | permission
	effective bool
	why       string
	cond      ssa.Value
	pos       token.Pos
}

// predicateHelperTests: calls in fn to a predicate of the repository
// (func(error) bool) that answers true only where one of its own not-exist
// tests is true; such a call is a not-exist test of fn, effective when one of
// the inner tests is (their effectiveness already accounts for the error types
// the callers pass).
func predicateHelperTests(c *Ctx, fn *ssa.Function) []errClassTest {
	var out []errClassTest
	ssau.ForEachInstr(fn, false, func(in ssa.Instruction) {
		call, ok := in.(*ssa.Call)
		if !ok {
			return
		}
		h := call.Common().StaticCallee()
		if h == nil || h.Blocks == nil || !c.P.IsRepoFunc(h) || len(h.Params) != 1 || h.Signature.Results().Len() != 1 {
			return
		}
		if b, isB := h.Signature.Results().At(0).Type().Underlying().(*types.Basic); !isB || b.Kind() != types.Bool {
			return
		}
		if _, isIface := h.Params[0].Type().Underlying().(*types.Interface); !isIface {
			return
		}
		var inner []errClassTest
		for _, t := range classTests(c, h) {
			if t.class == "notexist" {
				inner = append(inner, t)
			}
		}
		if len(inner) == 0 {
			return
		}
		cd := ssau.ControlDeps(h)
		isTest := func(v ssa.Value) bool {
			for _, t := range inner {
				if t.cond == v {
					return true
				}
			}
			return false
		}
		var okVal func(v ssa.Value, blk *ssa.BasicBlock, d int) bool
		okVal = func(v ssa.Value, blk *ssa.BasicBlock, d int) bool {
			if ssau.IsConstBool(v, false) || isTest(v) {
				return true
			}
			if ssau.IsConstBool(v, true) {
				for _, dp := range ssau.TransitiveControlDeps(cd, blk) {
					if isTest(dp.If().Cond) && dp.Then {
						return true
					}
				}
				return false
			}
			if phi, isPhi := v.(*ssa.Phi); isPhi && d < 4 {
				for i, e := range phi.Edges {
					if !okVal(e, phi.Block().Preds[i], d+1) {
						// a constant true arriving straight over the true edge of a test
						p := phi.Block().Preds[i]
						if iff, isIf := p.Instrs[len(p.Instrs)-1].(*ssa.If); isIf && ssau.IsConstBool(e, true) && isTest(iff.Cond) && p.Succs[0] == phi.Block() {
							continue
						}
						return false
					}
				}
				return true
			}
			// test && more: true only if the test was
			if bo, isBo := v.(*ssa.BinOp); isBo && bo.Op == token.AND {
				return okVal(bo.X, blk, d+1) || okVal(bo.Y, blk, d+1)
			}
			return false
		}
		for _, ret := range ssau.ReturnsOf(h) {
			if !okVal(ret.Results[0], ret.Block(), 0) {
				return
			}
		}
		eff := false
		for _, t := range inner {
			if t.effective {
				eff = true
			}
		}
		out = append(out, errClassTest{class: "notexist", effective: eff, why: "the predicate " + h.Name() + " (true only under a not-exist test of its own)", cond: call, pos: call.Pos()})
	})
	return out
}

// classTests finds the error-class tests inside fn on values derived from
// errVal.
func classTests(c *Ctx, fn *ssa.Function) []errClassTest {
	ef := &errFlow{c: c, memo: map[ssa.Value]bool{}}
	var out []errClassTest
	ssau.ForEachInstr(fn, false, func(in ssa.Instruction) {
		call, ok := in.(*ssa.Call)
		if !ok {
			return
		}
		n := ssau.CallName(call)
		switch n {
		case "os.IsNotExist", "os.IsPermission":
			class := "notexist"
			if n == "os.IsPermission" {
				class = "permission"
			}
			ts := errTypeSet{}
			ef.memo = map[ssa.Value]bool{}
			ef.types(call.Common().Args[0], ts, 0)
			wr := wrapperTypes(c, ts)
			t := errClassTest{class: class, cond: call, pos: call.Pos()}
			// a test on x.(*T).Cause only ever runs if the assertion can succeed
			dead := ""
			if u, ok := call.Common().Args[0].(*ssa.UnOp); ok {
				if fa, ok := u.X.(*ssa.FieldAddr); ok {
					var ta *ssa.TypeAssert
					switch b := fa.X.(type) {
					case *ssa.Extract:
						ta, _ = b.Tuple.(*ssa.TypeAssert)
					case *ssa.TypeAssert:
						ta = b
					}
					if ta != nil {
						src := errTypeSet{}
						ef.memo = map[ssa.Value]bool{}
						ef.types(ta.X, src, 0)
						if !src[ta.AssertedType.String()] {
							known := true
							for k := range src {
								if strings.HasPrefix(k, "ext:") || strings.HasPrefix(k, "other:") || strings.HasPrefix(k, "param:") || strings.HasPrefix(k, "field:") {
									known = false
								}
							}
							if known {
								dead = "the guarding type assertion to " + shortName(ta.AssertedType.String()) + " can never succeed: the error is one of " + shortName(strings.Join(src.list(), ", "))
							}
						}
					}
				}
			}
			if dead != "" {
				t.effective = false
				t.why = dead
				out = append(out, t)
				return
			}
			if len(wr) > 0 {
				t.effective = false
				t.why = n + " is applied to a value that can be " + shortName(strings.Join(wr, ", ")) + ", which only carries the OS error behind Unwrap(): the helper does not unwrap and is always false for it"
			} else {
				t.effective = true
				t.why = n + " on " + shortName(strings.Join(ts.list(), ", "))
			}
			out = append(out, t)
		case "errors.Is":
			tgt := call.Common().Args[1]
			class := ""
			if u, ok := ssau.Strip(tgt).(*ssa.UnOp); ok {
				if g, ok := u.X.(*ssa.Global); ok {
					switch g.Name() {
					case "ErrNotExist":
						class = "notexist"
					case "ErrPermission":
						class = "permission"
					}
				}
			}
			if class != "" {
				out = append(out, errClassTest{class: class, effective: true, why: "errors.Is follows Unwrap", cond: call, pos: call.Pos()})
			}
		}
	})
	// AppError.Type switch
	for _, iff := range ssau.Ifs(fn) {
		op, x, y, ok := ssau.CondOf(iff.Cond)
		if !ok || op != token.EQL {
			continue
		}
		if _, isLoad := ssau.IsFieldLoad(x, errsPkg+".AppError", "Type"); !isLoad {
			x, y = y, x
		}
		if _, isLoad := ssau.IsFieldLoad(x, errsPkg+".AppError", "Type"); !isLoad {
			continue
		}
		if s, ok := ssau.ConstString(ssau.Strip(y)); ok && s == "permission" {
			out = append(out, errClassTest{class: "permission", effective: true, why: "AppError.Type == ErrorTypePermission", cond: iff.Cond, pos: iff.Cond.Pos()})
		}
	}
	return out
}

// condLeadsTo: when cond is true, every path returns the boolean constant
// want (the cond may be one operand of a short-circuit ||).
func condTrueReturns(fn *ssa.Function, cond ssa.Value, want bool) bool {
	for _, iff := range ssau.Ifs(fn) {
		if iff.Cond != cond {
			continue
		}
		reach := blocksReachable(iff.Block(), map[[2]int]bool{{iff.Block().Index, 1}: true})
		ok, n := true, 0
		for b := range reach {
			if ret, isRet := b.Instrs[len(b.Instrs)-1].(*ssa.Return); isRet {
				n++
				if !ssau.IsConstBool(ret.Results[0], want) {
					ok = false
				}
			}
		}
		// the true successor must not be able to fall back into other tests: require all reachable returns constant
		return ok && n > 0
	}
	return false
}

func runC15(c *Ctx) {
	r := c.R
	r.Rule("O-1", "the ladder cannot fail: some function the fallback table can call returns (fresh non-empty Database, nil) on every path; the loop returns (db, nil) for the first strategy without error; a successful loadWithRetry is returned unchanged")
	r.Rule("O-2", "attempts bounded and counted: loadWithRetry iterates attempt = 1..MaxAttempts by +1 with exactly one load per iteration, leaves the loop when the predicate refuses, sleeps only if another attempt follows, and returns a nil error only with the database just loaded")
	r.Rule("O-3", "the retry predicate is effective: for not-exist and for permission there is a test that works on the concrete error types reaching it (os.IsNotExist/IsPermission do not unwrap user wrappers) and whose positive outcome returns false")
	r.Rule("O-4", "delay cap: calculateDelay returns min(exponential term, MaxDelay) via the clamp idiom on identical cap expressions")
	r.Rule("O-5", "missing notebook tolerated, others propagated: (main, nil) after a notebook error only under an effective not-exist test; other notebook errors and main errors are returned")

	sx := symx.New(c.P.IsRepoFunc)
	c15Ladder(c)
	c15Retry(c, sx)
	c15Predicate(c)
	c15Delay(c, sx)
	c15Personal(c)
}

// totalStrategy: every return of fn is (&Database{Commands: non-empty literal}, nil).
func totalStrategy(fn *ssa.Function) (bool, string) {
	rets := ssau.ReturnsOf(fn)
	if len(rets) == 0 {
		return false, "no return"
	}
	for _, ret := range rets {
		if len(ret.Results) != 2 || !ssau.IsNilConst(ssau.ResultValue(ret, 1)) {
			return false, "a path returns a non-constant or non-nil error"
		}
		if ok, why := freshNonEmptyDB(ssau.ResultValue(ret, 0), nil, 0); !ok {
			return false, why
		}
	}
	return true, ""
}

// freshNonEmptyDB: v is a *Database constructed on the spot whose Commands is a
// non-empty constant-length literal — directly, or through a constructor
// helper that wraps the list it is given (args binds the helper's parameters
// to the caller's values).
func freshNonEmptyDB(v ssa.Value, args map[*ssa.Parameter]ssa.Value, d int) (bool, string) {
	if d > 3 {
		return false, "constructor helpers nested too deep"
	}
	if call, ok := v.(*ssa.Call); ok {
		g := call.Common().StaticCallee()
		if g == nil || g.Blocks == nil || g.Signature.Results().Len() != 1 || !strings.HasPrefix(ssau.FuncName(g), load.ModulePath) {
			return false, "a path returns a database that is not freshly constructed here"
		}
		bind := map[*ssa.Parameter]ssa.Value{}
		for i, p := range g.Params {
			if i < len(call.Common().Args) {
				a := call.Common().Args[i]
				if pp, isP := a.(*ssa.Parameter); isP && args != nil && args[pp] != nil {
					a = args[pp]
				}
				bind[p] = a
			}
		}
		rets := ssau.ReturnsOf(g)
		if len(rets) == 0 {
			return false, "no return"
		}
		for _, ret := range rets {
			if ok, why := freshNonEmptyDB(ret.Results[0], bind, d+1); !ok {
				return false, why
			}
		}
		return true, ""
	}
	al, ok := v.(*ssa.Alloc)
	if !ok || ssau.NamedOf(al.Type()) != dbType {
		return false, "a path returns a database that is not freshly constructed here"
	}
	nonEmpty := false
	var isLit func(cv ssa.Value, d2 int) bool
	isLit = func(cv ssa.Value, d2 int) bool {
		if d2 > 4 {
			return false
		}
		switch x := cv.(type) {
		case *ssa.Slice:
			if arr, ok := x.X.(*ssa.Alloc); ok {
				if at, ok := derefArray(arr.Type()); ok && at.Len() >= 1 && x.Low == nil && x.High == nil {
					return true
				}
			}
		case *ssa.UnOp:
			if cell := origin.CellOf(x.X); cell != nil {
				for _, s := range origin.CellStores(cell) {
					if isLit(s, d2+1) {
						return true
					}
				}
			}
		case *ssa.Parameter:
			if args != nil && args[x] != nil {
				return isLit(args[x], d2+1)
			}
		}
		return false
	}
	for _, ref := range *al.Referrers() {
		fa, ok := ref.(*ssa.FieldAddr)
		if !ok || ssau.FieldName(fa) != "Commands" {
			continue
		}
		for _, r2 := range *fa.Referrers() {
			if st, ok := r2.(*ssa.Store); ok && isLit(st.Val, 0) {
				nonEmpty = true
			}
		}
	}
	if !nonEmpty {
		return false, "the returned database's Commands is not a non-empty constant-length literal"
	}
	return true, ""
}

func derefArray(t types.Type) (*types.Array, bool) {
	if p, ok := t.Underlying().(*types.Pointer); ok {
		t = p.Elem()
	}
	a, ok := t.Underlying().(*types.Array)
	return a, ok
}

func c15Ladder(c *Ctx) {
	r := c.R
	fn := c.P.Func("internal/recovery", "DatabaseRecovery", "LoadDatabaseWithFallback")
	fk := "recovery.(*DatabaseRecovery).LoadDatabaseWithFallback"
	if !r.Anchor("O-1", fk, fn != nil) {
		return
	}
	// the dynamic call strategy.fn()
	var dyn []*ssa.Call
	ssau.ForEachInstr(fn, false, func(in ssa.Instruction) {
		if call, ok := in.(*ssa.Call); ok && call.Common().StaticCallee() == nil && !call.Common().IsInvoke() {
			if _, isB := call.Common().Value.(*ssa.Builtin); !isB {
				if sig, ok := call.Common().Value.Type().Underlying().(*types.Signature); ok && sig.Results().Len() == 2 && ssau.NamedOf(sig.Results().At(0).Type()) == dbType {
					dyn = append(dyn, call)
				}
			}
		}
	})
	if len(dyn) != 1 {
		r.Unknown("O-1", fk+"#strategy-call", c.P.Pos(fn.Pos()), fmt.Sprintf("%d dynamic strategy calls found (want 1)", len(dyn)))
		return
	}
	call := dyn[0]
	// callees through the call graph, looking through bound-method wrappers and closures
	var targets []*ssa.Function
	seen := map[*ssa.Function]bool{}
	var expand func(f *ssa.Function, d int)
	expand = func(f *ssa.Function, d int) {
		if seen[f] || d > 3 {
			return
		}
		seen[f] = true
		if f.Synthetic != "" || (f.Parent() != nil && len(f.Blocks) == 1) {
			// wrapper or thin closure: a single call whose results are returned
			var inner *ssa.Function
			n := 0
			ssau.ForEachInstr(f, false, func(in ssa.Instruction) {
				if cl, ok := in.(*ssa.Call); ok {
					if cal := cl.Common().StaticCallee(); cal != nil && c.P.IsRepoFunc(cal) {
						inner = cal
						n++
					}
				}
			})
			if n == 1 && inner != nil {
				expand(inner, d+1)
				return
			}
		}
		targets = append(targets, f)
	}
	if node := c.P.CallGraph().Nodes[fn]; node != nil {
		for _, e := range node.Out {
			if e.Site == ssa.CallInstruction(call) {
				expand(e.Callee.Func, 0)
			}
		}
	}
	sort.Slice(targets, func(i, j int) bool { return load.FuncKey(targets[i]) < load.FuncKey(targets[j]) })
	r.Analysed["fallback_strategies"] = funcKeys(targets)
	r.Floor("O-1", "fallback strategies resolved", len(targets), 3)
	nTotal := 0
	for _, t := range targets {
		ok, why := totalStrategy(t)
		if ok {
			nTotal++
			r.OK("O-1", load.FuncKey(t)+"#total", c.P.Pos(t.Pos()), "every path returns a fresh non-empty database and a nil error")
		} else {
			r.OK("O-1", load.FuncKey(t)+"#may-fail", c.P.Pos(t.Pos()), "may fail ("+why+"); not relied upon")
		}
	}
	// table order: every strategy tried before the first one that cannot fail
	// must not be able to hand back an empty database with a nil error
	ordered := map[int64]*ssa.Function{}
	// the table literal is in the function or in a helper that returns it
	tableFn := fn
	for _, g := range withSteps(c, fn, 1) {
		if g == fn || g.Signature.Results().Len() != 1 {
			continue
		}
		if sl, ok := g.Signature.Results().At(0).Type().Underlying().(*types.Slice); ok {
			if st, ok := sl.Elem().Underlying().(*types.Struct); ok {
				for i := 0; i < st.NumFields(); i++ {
					if _, isSig := st.Field(i).Type().Underlying().(*types.Signature); isSig {
						tableFn = g
					}
				}
			}
		}
	}
	ssau.ForEachInstr(tableFn, false, func(in ssa.Instruction) {
		st, ok := in.(*ssa.Store)
		if !ok {
			return
		}
		// either &arr[i].fn = f, or arr[i] = *tmp with tmp.fn = f
		var ia *ssa.IndexAddr
		var fval ssa.Value
		if fa, ok := st.Addr.(*ssa.FieldAddr); ok {
			if x, ok := fa.X.(*ssa.IndexAddr); ok {
				ia, fval = x, st.Val
			}
		} else if x, ok := st.Addr.(*ssa.IndexAddr); ok {
			if u, ok := st.Val.(*ssa.UnOp); ok {
				if tmp, ok := u.X.(*ssa.Alloc); ok {
					for _, ref := range *tmp.Referrers() {
						if fa, ok := ref.(*ssa.FieldAddr); ok {
							for _, r2 := range *fa.Referrers() {
								if s2, ok := r2.(*ssa.Store); ok && s2.Addr == ssa.Value(fa) {
									if _, isSig := s2.Val.Type().Underlying().(*types.Signature); isSig {
										ia, fval = x, s2.Val
									}
								}
							}
						}
					}
				}
			}
		}
		if ia == nil || fval == nil {
			return
		}
		idx, ok := ssau.ConstInt(ia.Index)
		if !ok {
			return
		}
		if _, isSig := fval.Type().Underlying().(*types.Signature); !isSig {
			return
		}
		var f0 *ssa.Function
		switch v := fval.(type) {
		case *ssa.MakeClosure:
			f0, _ = v.Fn.(*ssa.Function)
		case *ssa.Function:
			f0 = v
		}
		if f0 == nil {
			return
		}
		// look through wrappers
		for d := 0; d < 3; d++ {
			if f0.Synthetic != "" || (f0.Parent() != nil && len(f0.Blocks) == 1) {
				var inner *ssa.Function
				n := 0
				ssau.ForEachInstr(f0, false, func(in ssa.Instruction) {
					if cl, ok := in.(*ssa.Call); ok {
						if cal := cl.Common().StaticCallee(); cal != nil && c.P.IsRepoFunc(cal) {
							inner = cal
							n++
						}
					}
				})
				if n == 1 && inner != nil {
					f0 = inner
					continue
				}
			}
			break
		}
		ordered[idx] = f0
	})
	if len(ordered) == len(targets) && len(ordered) > 0 {
		firstTotal := int64(-1)
		for i := int64(0); i < int64(len(ordered)); i++ {
			if ok, _ := totalStrategy(ordered[i]); ok {
				firstTotal = i
				break
			}
		}
		var early []string
		for i := int64(0); i < firstTotal; i++ {
			early = append(early, load.FuncKey(ordered[i]))
		}
		r.Check(len(early) == 0, "O-1", fk+"#nothing-fallible-before-the-total-strategy", c.P.Pos(call.Pos()), "the first strategy tried cannot fail and yields a non-empty built-in database", "strategies tried before the first one that cannot fail may return an empty database with a nil error (e.g. an empty backup file loads as zero commands): "+strings.Join(early, ", "))
	} else {
		r.Unknown("O-1", fk+"#nothing-fallible-before-the-total-strategy", c.P.Pos(call.Pos()), fmt.Sprintf("table order not resolved (%d ordered entries, %d callees)", len(ordered), len(targets)))
	}
	r.Check(nTotal >= 1, "O-1", fk+"#some-strategy-cannot-fail", c.P.Pos(call.Pos()), fmt.Sprintf("%d of %d strategies cannot fail", nTotal, len(targets)), "no fallback strategy is guaranteed to return a non-empty database with a nil error: with all files broken the search has no database")
	// first success is returned with nil
	ev := errValue(call)
	dbv := resultValue(call, 0)
	succ, _ := nilTests(ev)
	okRet := false
	if ev != nil && len(succ) > 0 {
		for _, ret := range ssau.ReturnsOf(fn) {
			if ssau.ResultValue(ret, 0) == dbv && ssau.IsNilConst(ssau.ResultValue(ret, 1)) {
				// reachable only through the success edge
				if !ssau.ReachableAvoidingEdges(fn, ret.Block(), succ) {
					okRet = true
				}
			}
		}
	}
	r.Check(okRet, "O-1", fk+"#first-success-returned", c.P.Pos(call.Pos()), "strategy result returned with a nil error exactly when its error is nil", "the database of a succeeding strategy is not returned with a nil error (or is returned although the strategy failed)")
	// primary success returned unchanged
	for _, pc := range callsTo(fn, drMeth+"loadWithRetry") {
		pdb := resultValue(pc, 0)
		s2, _ := nilTests(errValue(pc))
		good := false
		for _, ret := range ssau.ReturnsOf(fn) {
			if ssau.ResultValue(ret, 0) == pdb && ssau.IsNilConst(ssau.ResultValue(ret, 1)) && len(s2) > 0 && !ssau.ReachableAvoidingEdges(fn, ret.Block(), s2) {
				good = true
			}
		}
		r.Check(good, "O-1", fk+"#primary-success-returned", c.P.Pos(pc.Pos()), "the real database is returned whenever loadWithRetry succeeds", "a successful load of the real database is not what is returned")
		// the fallback loop runs only after the primary failed
		r.Check(len(s2) > 0 && !reachFromAvoiding(fn, pc.Block(), call.Block(), func() map[[2]int]bool {
			_, fail := nilTests(errValue(pc))
			return fail
		}()), "O-1", fk+"#fallback-only-after-failure", c.P.Pos(call.Pos()), "fallback strategies run only when the primary load failed", "a fallback strategy can run although the primary load succeeded")
	}
}

func c15Retry(c *Ctx, sx *symx.Ctx) {
	r := c.R
	fn := c.P.Func("internal/recovery", "DatabaseRecovery", "loadWithRetry")
	fk := "recovery.(*DatabaseRecovery).loadWithRetry"
	if !r.Anchor("O-2", fk, fn != nil) {
		return
	}
	f := sx.Of(fn)
	loadName := dbPkg + ".LoadDatabaseWithPersonal"
	loads := callsTo(fn, loadName)
	if len(loads) != 1 {
		r.Bad("O-2", fk+"#one-load-site", c.P.Pos(fn.Pos()), fmt.Sprintf("%d load call sites (want 1)", len(loads)))
		return
	}
	ld := loads[0]
	// the attempt counter: a loop phi (1, attempt+1) whose loop contains the load;
	// the load runs only while attempt <= MaxAttempts — whatever the spelling of
	// the loop (condition in the header, or a break in the body before the next
	// round, MaxAttempts read from the field or from a local copy)
	be := bounds.New(sx, c.P.CallGraph(), c.P.IsRepoFunc)
	bf := be.Of(fn)
	var maxExprs []string
	ssau.ForEachInstr(fn, false, func(in ssa.Instruction) {
		if v, ok := in.(ssa.Value); ok {
			if _, isMax := ssau.IsFieldLoad(v, recPkg+".RetryConfig", "MaxAttempts"); isMax {
				maxExprs = append(maxExprs, f.E(v))
			}
		}
	})
	var ctr *ssa.Phi
	ssau.ForEachInstr(fn, false, func(in ssa.Instruction) {
		phi, ok := in.(*ssa.Phi)
		if !ok || !(phi.Block().Dominates(ld.Block()) || phi.Block() == ld.Block()) || !ssau.Reachable(ld.Block(), phi.Block(), nil) {
			return
		}
		init, step, other := false, false, false
		for _, e := range phi.Edges {
			if k, ok := ssau.ConstInt(e); ok && k == 1 {
				init = true
			} else if bo, ok := e.(*ssa.BinOp); ok && bo.Op == token.ADD && bo.X == ssa.Value(phi) {
				if k, ok := ssau.ConstInt(bo.Y); ok && k == 1 {
					step = true
				} else {
					other = true
				}
			} else {
				other = true
			}
		}
		if init && step && !other {
			ctr = phi
		}
	})
	bounded := false
	if ctr != nil {
		for _, m := range maxExprs {
			if bf.LT(ctr, m, false, ld.Block()) {
				bounded = true
			}
		}
	}
	if ctr != nil && !bounded {
		// by induction: 1 <= Max where the count starts, and the next round is
		// entered only on an edge that establishes attempt < Max (the false side
		// of attempt == Max, given attempt <= Max)
		var maxVals []ssa.Value
		ssau.ForEachInstr(fn, false, func(in ssa.Instruction) {
			if v, ok := in.(ssa.Value); ok {
				if _, isMax := ssau.IsFieldLoad(v, recPkg+".RetryConfig", "MaxAttempts"); isMax {
					maxVals = append(maxVals, v)
				}
			}
		})
		q := interval.New(f)
		for _, mv := range maxVals {
			okAll := true
			for i, e := range ctr.Edges {
				pred := ctr.Block().Preds[i]
				if k, isC := ssau.ConstInt(e); isC && k == 1 {
					if iv := q.At(mv, pred); !(iv.LoOK && iv.Lo >= 1) {
						okAll = false
					}
					continue
				}
				cut := map[[2]int]bool{}
				for _, iff := range ssau.Ifs(fn) {
					op, x, y, ok := ssau.CondOf(iff.Cond)
					if !ok {
						continue
					}
					if y == ssa.Value(ctr) {
						x, y, op = y, x, ssau.Flip(op)
					}
					if x != ssa.Value(ctr) || f.E(y) != f.E(mv) {
						continue
					}
					switch op {
					case token.EQL, token.GEQ:
						cut[[2]int{iff.Block().Index, 1}] = true
					case token.NEQ, token.LSS:
						cut[[2]int{iff.Block().Index, 0}] = true
					}
				}
				if len(cut) == 0 || reachFromAvoiding(fn, ctr.Block(), pred, cut) {
					okAll = false
				}
			}
			if okAll {
				bounded = true
			}
		}
	}
	if !r.Check(ctr != nil && bounded, "O-2", fk+"#counted-loop", c.P.Pos(fn.Pos()), "the load runs only while attempt (1, 2, ...) <= MaxAttempts", "no attempt counter starting at 1 and stepped by one that is proven <= MaxAttempts at the load: the number of load attempts is not bounded by the configuration") {
		return
	}
	hdrBlock := ctr.Block()
	eng := pathev.New(func(in ssa.Instruction) []string {
		if in == ssa.Instruction(ld) {
			return []string{"load"}
		}
		if call, ok := in.(*ssa.Call); ok && ssau.CallName(call) == "time.Sleep" {
			return []string{"sleep"}
		}
		return nil
	}, nil)
	m, early, ok := eng.Between(hdrBlock, hdrBlock)
	if ok {
		r.Check(m.Get("load").ExactlyOnce() && m.Get("sleep").AtMostOnce(), "O-2", fk+"#one-load-per-iteration", c.P.Pos(ld.Pos()), "each completed iteration performs exactly one load and at most one sleep", fmt.Sprintf("per iteration: load%v sleep%v", m.Get("load"), m.Get("sleep")))
	} else {
		r.Bad("O-2", fk+"#one-load-per-iteration", c.P.Pos(ld.Pos()), "the loop body never returns to its header")
	}
	// the back-off may stand at the head of the next attempt instead of the
	// tail of the failed one: every sleep is then followed by that iteration's
	// load on all paths (so none follows the last attempt), is skipped on the
	// first attempt, and waits for the previous attempt's delay
	sleeps := callsTo(fn, "time.Sleep")
	headForm := len(sleeps) > 0
	for _, sl := range sleeps {
		// the wait comes before the iteration's load: not reachable from the
		// load without going round the loop head
		if sl.Block() == ld.Block() || reachAvoidBB(ld.Block(), sl.Block(), nil, map[*ssa.BasicBlock]bool{hdrBlock: true}) {
			headForm = false
			continue
		}
		// no way from the sleep out of the function, or back to the loop head, but through the load
		barrier := map[*ssa.BasicBlock]bool{ld.Block(): true}
		for _, ret := range ssau.ReturnsOf(fn) {
			if reachAvoidBB(sl.Block(), ret.Block(), nil, barrier) {
				headForm = false
			}
		}
		if reachAvoidBB(sl.Block(), hdrBlock, nil, barrier) {
			headForm = false
		}
	}
	for ret, em := range early {
		if headForm {
			r.Check(em.Get("load").AtMostOnce(), "O-2", fk+"#exit-from-body:"+exitName(fn, ret), c.P.Pos(ret.Pos()), "an iteration that leaves the loop loaded at most once (its wait, if any, came before its own load)", fmt.Sprintf("leaving iteration: load%v sleep%v", em.Get("load"), em.Get("sleep")))
			continue
		}
		r.Check(em.Get("load").AtMostOnce() && em.Get("sleep").Never(), "O-2", fk+"#exit-from-body:"+exitName(fn, ret), c.P.Pos(ret.Pos()), "an iteration that leaves the loop loaded at most once and did not sleep", fmt.Sprintf("leaving iteration: load%v sleep%v", em.Get("load"), em.Get("sleep")))
	}
	// predicate controls leaving the loop
	preds := callsTo(fn, drMeth+"shouldRetry")
	if len(preds) != 1 {
		r.Bad("O-2", fk+"#predicate-consulted", c.P.Pos(fn.Pos()), fmt.Sprintf("%d calls of shouldRetry (want 1)", len(preds)))
	} else {
		p := preds[0]
		argOK := p.Common().Args[1] == errValue(ld)
		leaves := false
		for _, iff := range ssau.Ifs(fn) {
			if iff.Cond == ssa.Value(p) {
				// false edge must not be able to reach the load again
				reach := blocksReachable(iff.Block(), map[[2]int]bool{{iff.Block().Index, 0}: true})
				leaves = !reach[ld.Block()]
			}
		}
		r.Check(argOK && leaves, "O-2", fk+"#no-retry-when-predicate-refuses", c.P.Pos(p.Pos()), "when shouldRetry(err) is false no further load happens", "a refused retry can still reach another load, or the predicate is not given the load's error")
	}
	// sleep only if another attempt follows
	for _, sl := range callsTo(fn, "time.Sleep") {
		if headForm {
			// followed by its own attempt (shown above); not before the first one:
			// the sleep lies behind an edge that excludes attempt == 1
			cut := map[[2]int]bool{}
			for _, iff := range ssau.Ifs(fn) {
				op, x, y, ok := ssau.CondOf(iff.Cond)
				if !ok {
					continue
				}
				if y == ssa.Value(ctr) {
					x, y, op = y, x, ssau.Flip(op)
				}
				k, isC := ssau.ConstInt(y)
				if x != ssa.Value(ctr) || !isC {
					continue
				}
				switch {
				case (op == token.GTR && k == 1) || (op == token.GEQ && k == 2) || (op == token.NEQ && k == 1):
					cut[[2]int{iff.Block().Index, 0}] = true
				case (op == token.LEQ && k == 1) || (op == token.LSS && k == 2) || (op == token.EQL && k == 1):
					cut[[2]int{iff.Block().Index, 1}] = true
				}
			}
			notFirst := len(cut) > 0 && !reachFromAvoiding(fn, hdrBlock, sl.Block(), cut)
			r.Check(notFirst, "O-2", fk+"#no-sleep-after-last-attempt", c.P.Pos(sl.Pos()), "Sleep runs only ahead of a further attempt (attempt > 1), never after the last one", "the loop sleeps before the first attempt")
			dOK := false
			if dc, ok := sl.Common().Args[0].(*ssa.Call); ok && ssau.CallName(dc) == drMeth+"calculateDelay" {
				if bo, ok := dc.Common().Args[1].(*ssa.BinOp); ok && bo.Op == token.SUB && bo.X == ssa.Value(ctr) {
					if one, ok := ssau.ConstInt(bo.Y); ok && one == 1 {
						dOK = true
					}
				}
			}
			r.Check(dOK, "O-2", fk+"#sleeps-calculated-delay", c.P.Pos(sl.Pos()), "Sleep(calculateDelay(attempt-1)): the delay of the attempt that failed", "the wait is not calculateDelay of the failed attempt: "+f.Plain(sl.Common().Args[0]))
			continue
		}
		guarded := false
		for _, m := range maxExprs {
			if bf.LT(ctr, m, true, sl.Block()) {
				guarded = true
			}
		}
		if !guarded {
			// attempt <= Max holds at the load (shown above); the sleep lies behind
			// an edge that excludes attempt == Max
			cut := map[[2]int]bool{}
			for _, iff := range ssau.Ifs(fn) {
				op, x, y, ok := ssau.CondOf(iff.Cond)
				if !ok {
					continue
				}
				if y == ssa.Value(ctr) {
					x, y, op = y, x, ssau.Flip(op)
				}
				isMax := false
				for _, m := range maxExprs {
					if f.E(y) == m {
						isMax = true
					}
				}
				if x != ssa.Value(ctr) || !isMax {
					continue
				}
				switch op {
				case token.EQL, token.GEQ:
					cut[[2]int{iff.Block().Index, 1}] = true
				case token.NEQ, token.LSS:
					cut[[2]int{iff.Block().Index, 0}] = true
				}
			}
			if len(cut) > 0 && (ld.Block().Dominates(sl.Block()) || ld.Block() == sl.Block()) && !reachFromAvoiding(fn, ld.Block(), sl.Block(), cut) {
				guarded = true
			}
		}
		r.Check(guarded, "O-2", fk+"#no-sleep-after-last-attempt", c.P.Pos(sl.Pos()), "Sleep runs only while attempt < MaxAttempts", "the loop sleeps after the last attempt")
		// the delay passed is calculateDelay(attempt)
		dOK := false
		if dc, ok := sl.Common().Args[0].(*ssa.Call); ok && ssau.CallName(dc) == drMeth+"calculateDelay" && dc.Common().Args[1] == ssa.Value(ctr) {
			dOK = true
		}
		r.Check(dOK, "O-2", fk+"#sleeps-calculated-delay", c.P.Pos(sl.Pos()), "Sleep(calculateDelay(attempt))", "the wait is not calculateDelay(attempt): "+f.Plain(sl.Common().Args[0]))
	}
	// a nil error is returned only with the loaded database
	for _, ret := range ssau.ReturnsOf(fn) {
		ev := ssau.ResultValue(ret, 1)
		key := fk + "#exit:" + exitName(fn, ret)
		switch {
		case ssau.IsNilConst(ev):
			r.Check(ssau.ResultValue(ret, 0) == resultValue(ld, 0), "O-2", key, c.P.Pos(ret.Pos()), "nil error together with the database just loaded", "a nil error is returned with something other than the database just loaded")
		default:
			// error value must be provably non-nil: every phi input is the load's error on its failure side, never the nil initial value
			nonNil, why := c15NonNil(fn, ev, ld)
			if !nonNil && c15FirstIterationCertain(fn, f, ctr) {
				// the initial nil cannot reach this exit: the loop is entered with
				// MaxAttempts >= 1 established, so its body runs at least once
				nonNil, why = c15NonNilAfterFirst(fn, ev, ctr)
			}
			r.Check(nonNil, "O-2", key, c.P.Pos(ret.Pos()), "the error returned without a database is never nil", why)
		}
	}
}

// c15NonNil: the error value returned on failure cannot be nil. Path-sensitive
// at joins: a phi input is acceptable if it is a freshly constructed error, or
// if the edge it arrives on (or every path to that edge) lies on the non-nil
// side of a nil test of that very value. The initial nil of a loop-carried
// error variable (zero iterations) is not acceptable.
func c15NonNil(fn *ssa.Function, ev ssa.Value, ld *ssa.Call) (bool, string) {
	const zeroIter = "the error variable still holds its initial nil when the loop body never ran (MaxAttempts <= 0): the function then returns (nil, nil) and the caller treats a nil database as success"
	var nonNil func(v ssa.Value, pred, blk *ssa.BasicBlock, seen map[ssa.Value]bool) (bool, string)
	nonNil = func(v ssa.Value, pred, blk *ssa.BasicBlock, seen map[ssa.Value]bool) (bool, string) {
		if ssau.IsNilConst(v) {
			return false, zeroIter
		}
		switch x := v.(type) {
		case *ssa.MakeInterface:
			return true, ""
		case *ssa.Call:
			switch ssau.CallName(x) {
			case "fmt.Errorf", "errors.New":
				return true, ""
			}
		}
		// established by nil tests on v
		_, fail := nilTests(v)
		if len(fail) > 0 && pred != nil {
			// the arriving edge itself
			for k, sc := range pred.Succs {
				if sc == blk && fail[[2]int{pred.Index, k}] {
					return true, ""
				}
			}
			if !ssau.ReachableAvoidingEdges(fn, pred, fail) {
				return true, ""
			}
		}
		if phi, ok := v.(*ssa.Phi); ok {
			if seen[v] {
				return true, ""
			}
			seen[v] = true
			for i, e := range phi.Edges {
				if ok, why := nonNil(e, phi.Block().Preds[i], phi.Block(), seen); !ok {
					return false, why
				}
			}
			return true, ""
		}
		return false, "the returned error may be nil: " + v.Name()
	}
	// the return's own block: treat as arriving from each predecessor
	for _, ret := range ssau.ReturnsOf(fn) {
		if ssau.ResultValue(ret, 1) != ev {
			continue
		}
		blk := ret.Block()
		if len(blk.Preds) == 0 {
			return nonNil(ev, nil, blk, map[ssa.Value]bool{})
		}
		if phi, ok := ev.(*ssa.Phi); ok && phi.Block() == blk {
			return nonNil(ev, nil, blk, map[ssa.Value]bool{})
		}
		for _, p := range blk.Preds {
			if ok, why := nonNil(ev, p, blk, map[ssa.Value]bool{}); !ok {
				return false, why
			}
		}
		return true, ""
	}
	return false, "return not found"
}

func c15Predicate(c *Ctx) {
	r := c.R
	fn := c.P.Func("internal/recovery", "DatabaseRecovery", "shouldRetry")
	fk := "recovery.(*DatabaseRecovery).shouldRetry"
	if !r.Anchor("O-3", fk, fn != nil) {
		return
	}
	ef := &errFlow{c: c, memo: map[ssa.Value]bool{}}
	ts := errTypeSet{}
	ef.types(fn.Params[1], ts, 0)
	r.Analysed["error_types_reaching_shouldRetry"] = ts.list()
	tests := classTests(c, fn)
	// shouldRetry(err) == !isPermanent(err): the classes are recognised by the
	// helper, whose positive outcome then returns true
	judge, refuse := fn, false
	if rets := ssau.ReturnsOf(fn); len(rets) == 1 {
		if u, ok := rets[0].Results[0].(*ssa.UnOp); ok && u.Op == token.NOT {
			if hc, ok := u.X.(*ssa.Call); ok {
				if h := hc.Common().StaticCallee(); h != nil && h.Blocks != nil && c.P.IsRepoFunc(h) {
					for _, a := range hc.Common().Args {
						if a == ssa.Value(fn.Params[1]) {
							judge, refuse = h, true
							tests = classTests(c, h)
						}
					}
				}
			}
		}
	}
	for _, class := range []string{"notexist", "permission"} {
		key := fk + "#class:" + class
		var eff, ineff []errClassTest
		for _, t := range tests {
			if t.class != class {
				continue
			}
			if t.effective && condTrueReturns(judge, t.cond, refuse) {
				eff = append(eff, t)
			} else if !t.effective {
				ineff = append(ineff, t)
			}
		}
		switch {
		case len(eff) > 0:
			r.OK("O-3", key, c.P.Pos(eff[0].pos), "effective test ("+eff[0].why+") returns false: tried once")
		case len(ineff) > 0:
			r.Bad("O-3", key, c.P.Pos(ineff[0].pos), "the only "+class+" test is ineffective: "+ineff[0].why+" — such a failure is retried MaxAttempts times")
		default:
			r.Bad("O-3", key, c.P.Pos(fn.Pos()), "no test for the "+class+" class whose positive outcome returns false: such a failure is retried")
		}
	}
}

func c15Delay(c *Ctx, sx *symx.Ctx) {
	r := c.R
	fn := c.P.Func("internal/recovery", "DatabaseRecovery", "calculateDelay")
	fk := "recovery.(*DatabaseRecovery).calculateDelay"
	if !r.Anchor("O-4", fk, fn != nil) {
		return
	}
	f := sx.Of(fn)
	stripConv := func(v ssa.Value) ssa.Value {
		for {
			if cv, ok := v.(*ssa.Convert); ok {
				v = cv.X
				continue
			}
			if ct, ok := v.(*ssa.ChangeType); ok {
				v = ct.X
				continue
			}
			return v
		}
	}
	isCap := func(v ssa.Value) bool {
		_, ok := ssau.IsFieldLoad(stripConv(v), recPkg+".RetryConfig", "MaxDelay")
		return ok
	}
	isFloat := func(v ssa.Value) bool {
		b, ok := v.Type().Underlying().(*types.Basic)
		return ok && b.Info()&types.IsFloat != 0
	}
	// value e arriving along pred->blk (pred nil: at the start of blk) is <= cap
	var bounded func(e ssa.Value, pred, blk *ssa.BasicBlock, depth int) (bool, string)
	bounded = func(e ssa.Value, pred, blk *ssa.BasicBlock, depth int) (bool, string) {
		if isCap(e) {
			return true, ""
		}
		u := stripConv(e)
		if phi, ok := u.(*ssa.Phi); ok && depth < 4 {
			for i, ed := range phi.Edges {
				if ok, why := bounded(ed, phi.Block().Preds[i], phi.Block(), depth+1); !ok {
					return false, why
				}
			}
			return true, ""
		}
		if !isFloat(u) {
			return false, "the delay is compared or clamped after conversion to an integer duration (" + f.Plain(u) + "): the float product can overflow int64 first"
		}
		// edges establishing u <= float64(MaxDelay)
		cut := map[[2]int]bool{}
		for _, iff := range ssau.Ifs(fn) {
			op, x, y, ok := ssau.CondOf(iff.Cond)
			if !ok {
				continue
			}
			if y == u {
				x, y, op = y, x, ssau.Flip(op)
			}
			if x != u || !isCap(y) || !isFloat(y) {
				continue
			}
			switch op {
			case token.GTR, token.GEQ:
				cut[[2]int{iff.Block().Index, 1}] = true
			case token.LEQ, token.LSS:
				cut[[2]int{iff.Block().Index, 0}] = true
			}
		}
		if len(cut) == 0 {
			return false, "no comparison of " + f.Plain(u) + " with float64(MaxDelay) bounds the returned delay"
		}
		at := blk
		if pred != nil {
			for k, sc := range pred.Succs {
				if sc == blk && cut[[2]int{pred.Index, k}] {
					return true, ""
				}
			}
			at = pred
		}
		if ssau.ReachableAvoidingEdges(fn, at, cut) {
			return false, "some path returns " + f.Plain(u) + " without having established it is <= MaxDelay"
		}
		return true, ""
	}
	for i, ret := range ssau.ReturnsOf(fn) {
		key := fmt.Sprintf("%s#return-%d-clamped", fk, i+1)
		ok, why := bounded(ssau.ResultValue(ret, 0), nil, ret.Block(), 0)
		r.Check(ok, "O-4", key, c.P.Pos(ret.Pos()), "the returned delay is the cap or a float term established <= float64(MaxDelay)", "the returned delay is not clamped by MaxDelay on every path: "+why)
	}
}

func c15Personal(c *Ctx) {
	r := c.R
	fn := c.P.Func("internal/database", "", "LoadDatabaseWithPersonal")
	fk := "database.LoadDatabaseWithPersonal"
	if !r.Anchor("O-5", fk, fn != nil) {
		return
	}
	lcs := loadCalls(c, fn)
	if len(lcs) != 2 {
		r.Bad("O-5", fk+"#two-loads", c.P.Pos(fn.Pos()), fmt.Sprintf("%d loads of a command file (want main then personal)", len(lcs)))
		return
	}
	mainL := lcs[0]
	mainC, persC := lcs[0].call, lcs[1].call
	argOK := lcs[0].path == ssa.Value(fn.Params[0]) && lcs[1].path == ssa.Value(fn.Params[1])
	r.Check(argOK && ssau.Dominates(mainC, persC), "O-5", fk+"#main-then-personal", c.P.Pos(mainC.Pos()), "LoadDatabase(mainDBPath) dominates LoadDatabase(personalDBPath)", "the two loads do not read (main path, personal path) in that order")
	ok, why := failurePropagates(mainC)
	r.Check(ok, "O-5", fk+"#main-error-returned", c.P.Pos(mainC.Pos()), "a failed main load is returned", why)
	// returns of (mainDB, nil) in the personal-failure region
	mainDB := resultValue(mainC, 0)
	perr := errValue(persC)
	_, fail := nilTests(perr)
	succ, _ := nilTests(perr)
	if len(fail) == 0 {
		r.Bad("O-5", fk+"#personal-error-tested", c.P.Pos(persC.Pos()), "the error of the personal load is not tested")
		return
	}
	region := blocksReachable(persC.Block(), succ) // blocks reachable when the personal load failed
	tests := classTests(c, fn)
	tests = append(tests, predicateHelperTests(c, fn)...)
	cd := ssau.ControlDeps(fn)
	nTol := 0
	anyEffective := false
	for _, ret := range ssau.ReturnsOf(fn) {
		if !region[ret.Block()] {
			continue
		}
		v0, v1 := ssau.ResultValue(ret, 0), ssau.ResultValue(ret, 1)
		key := fk + "#personal-failure-exit:" + exitName(fn, ret)
		switch {
		case (v0 == mainDB || c15DatabaseOf(c, v0, mainL)) && ssau.IsNilConst(v1):
			nTol++
			// control-dependent on a not-exist test being true
			var by *errClassTest
			for _, d := range ssau.TransitiveControlDeps(cd, ret.Block()) {
				for i := range tests {
					if tests[i].class == "notexist" && d.If().Cond == tests[i].cond && d.Then {
						by = &tests[i]
					}
				}
				// or a flag that can only be true through not-exist tests
				// (missing := IsNotExist(err); missing = missing || IsNotExist(cause); if missing ...)
				if by == nil && d.Then {
					if t := c15FlagOfTests(d.If().Cond, tests, "notexist", map[ssa.Value]bool{}, 0); t != nil {
						by = t
					}
				}
			}
			if by == nil {
				r.Bad("O-5", key, c.P.Pos(ret.Pos()), "(main, nil) is returned after a notebook failure without a not-exist test: a broken notebook is silently ignored")
			} else {
				if by.effective {
					anyEffective = true
				}
				r.OK("O-5", key, c.P.Pos(ret.Pos()), "tolerated only under "+by.why)
			}
		case ssau.IsNilConst(v1):
			r.Bad("O-5", key, c.P.Pos(ret.Pos()), "a notebook failure ends in a nil error with a database other than the main one")
		default:
			r.Check(v1 == perr, "O-5", key, c.P.Pos(ret.Pos()), "the notebook error is returned", "a notebook failure returns an error other than the notebook's")
		}
	}
	r.Floor("O-5", "tolerating exits", nTol, 1)
	r.Check(anyEffective, "O-5", fk+"#missing-notebook-detected", c.P.Pos(persC.Pos()), "at least one not-exist test is effective on the wrapped error", "every not-exist test is ineffective on the wrapped error types: a merely absent notebook makes loading fail")
	_ = interval.Iv{}
}

// c15FlagOfTests: the boolean v can be true only because one of the tests of
// the given class was true (a merge of test results, false constants and
// short-circuit `||` / `&&` chains of them). Returns a representative test —
// an effective one if any contributes — or nil.
func c15FlagOfTests(v ssa.Value, tests []errClassTest, class string, seen map[ssa.Value]bool, d int) *errClassTest {
	if d > 12 {
		return nil
	}
	for i := range tests {
		if tests[i].class == class && tests[i].cond == v {
			return &tests[i]
		}
	}
	ph, ok := v.(*ssa.Phi)
	if !ok {
		return nil
	}
	if seen[ph] {
		return &errClassTest{class: class, why: "the flag's own earlier value"}
	}
	seen[ph] = true
	var best *errClassTest
	for k, e := range ph.Edges {
		if ssau.IsConstBool(e, false) {
			continue
		}
		var t *errClassTest
		if ssau.IsConstBool(e, true) {
			// short-circuit: the edge is the true side of an earlier flag test
			p := ph.Block().Preds[k]
			iff, isIf := p.Instrs[len(p.Instrs)-1].(*ssa.If)
			if !isIf || p.Succs[0] != ph.Block() {
				return nil
			}
			t = c15FlagOfTests(iff.Cond, tests, class, seen, d+1)
		} else {
			t = c15FlagOfTests(e, tests, class, seen, d+1)
		}
		if t == nil {
			return nil
		}
		if best == nil || (t.effective && !best.effective) {
			best = t
		}
	}
	return best
}

// failedAsserts: the concrete types T for which control reaches the edge
// pred -> blk only after the comma-ok assertion v.(T) came out false.
func failedAsserts(v ssa.Value, pred, blk *ssa.BasicBlock) map[string]bool {
	out := map[string]bool{}
	if v.Referrers() == nil {
		return out
	}
	fn := pred.Parent()
	for _, ref := range *v.Referrers() {
		ta, ok := ref.(*ssa.TypeAssert)
		if !ok || !ta.CommaOk || ta.X != v {
			continue
		}
		for _, r2 := range *ta.Referrers() {
			ex, ok := r2.(*ssa.Extract)
			if !ok || ex.Index != 1 {
				continue
			}
			for _, r3 := range *ex.Referrers() {
				iff, ok := r3.(*ssa.If)
				if !ok {
					continue
				}
				cut := map[[2]int]bool{{iff.Block().Index, 1}: true}
				only := false
				if iff.Block() == pred {
					only = pred.Succs[1] == blk && pred.Succs[0] != blk
				} else {
					only = !ssau.ReachableAvoidingEdges(fn, pred, cut)
				}
				if only {
					out[ta.AssertedType.String()] = true
				}
			}
		}
	}
	return out
}

// c15DatabaseOf: v is a database built from the command list of load l alone:
// a constructor helper of the repository given that list, or a Database
// literal whose Commands is that list.
func c15DatabaseOf(c *Ctx, v ssa.Value, l loadCall) bool {
	switch x := v.(type) {
	case *ssa.Call:
		g := x.Common().StaticCallee()
		if g == nil || !c.P.IsRepoFunc(g) || len(g.Blocks) == 0 {
			return false
		}
		for _, a := range x.Common().Args {
			if l.commands(a) {
				return true
			}
		}
	case *ssa.Alloc:
		for _, ref := range *x.Referrers() {
			if fa, ok := ref.(*ssa.FieldAddr); ok && ssau.FieldName(fa) == "Commands" {
				for _, r2 := range *fa.Referrers() {
					if st, ok := r2.(*ssa.Store); ok && st.Addr == ssa.Value(fa) && l.commands(st.Val) {
						return true
					}
				}
			}
		}
	}
	return false
}

// c15FirstIterationCertain: on entry to the loop of the attempt counter the
// bound it is compared with is known to be at least 1 (an earlier exit took
// the other case), and the loop is left from its head only on counter > bound:
// the body runs at least once.
func c15FirstIterationCertain(fn *ssa.Function, f *symx.Fn, ctr *ssa.Phi) bool {
	hdr := ctr.Block()
	iff, ok := hdr.Instrs[len(hdr.Instrs)-1].(*ssa.If)
	if !ok {
		return false
	}
	op, x, y, ok := ssau.CondOf(iff.Cond)
	if !ok {
		return false
	}
	if y == ssa.Value(ctr) {
		x, y, op = y, x, ssau.Flip(op)
	}
	if x != ssa.Value(ctr) || op != token.LEQ {
		return false
	}
	q := interval.New(f)
	for i, e := range ctr.Edges {
		if k, isC := ssau.ConstInt(e); isC && k == 1 {
			iv := q.At(y, hdr.Preds[i])
			if iv.LoOK && iv.Lo >= 1 {
				return true
			}
		}
	}
	return false
}

// c15NonNilAfterFirst: like c15NonNil, with the initial value of the
// loop-carried error variable (the edge into the loop head from outside)
// left out: it cannot reach an exit when the body runs at least once.
func c15NonNilAfterFirst(fn *ssa.Function, ev ssa.Value, ctr *ssa.Phi) (bool, string) {
	hdr := ctr.Block()
	var nonNil func(v ssa.Value, pred, blk *ssa.BasicBlock, seen map[ssa.Value]bool) (bool, string)
	nonNil = func(v ssa.Value, pred, blk *ssa.BasicBlock, seen map[ssa.Value]bool) (bool, string) {
		if ssau.IsNilConst(v) {
			return false, "the returned error may be the nil constant"
		}
		switch x := v.(type) {
		case *ssa.MakeInterface:
			return true, ""
		case *ssa.Call:
			if errorConstructor(x, 0) {
				return true, ""
			}
		}
		_, fail := nilTests(v)
		if len(fail) > 0 && pred != nil {
			for k, sc := range pred.Succs {
				if sc == blk && fail[[2]int{pred.Index, k}] {
					return true, ""
				}
			}
			if !ssau.ReachableAvoidingEdges(fn, pred, fail) {
				return true, ""
			}
		}
		if phi, ok := v.(*ssa.Phi); ok {
			if seen[v] {
				return true, ""
			}
			seen[v] = true
			for i, e := range phi.Edges {
				p := phi.Block().Preds[i]
				// the entry edge of the loop head: the initial value
				if phi.Block() == hdr && !ssau.Reachable(hdr, p, nil) && p != hdr {
					continue
				}
				if ok, why := nonNil(e, p, phi.Block(), seen); !ok {
					return false, why
				}
			}
			return true, ""
		}
		return false, "the returned error may be nil: " + v.Name()
	}
	for _, ret := range ssau.ReturnsOf(fn) {
		if ssau.ResultValue(ret, 1) != ev {
			continue
		}
		blk := ret.Block()
		if phi, ok := ev.(*ssa.Phi); ok && phi.Block() == blk {
			return nonNil(ev, nil, blk, map[ssa.Value]bool{})
		}
		if len(blk.Preds) == 0 {
			return nonNil(ev, nil, blk, map[ssa.Value]bool{})
		}
		for _, p := range blk.Preds {
			if ok, why := nonNil(ev, p, blk, map[ssa.Value]bool{}); !ok {
				return false, why
			}
		}
		return true, ""
	}
	return false, "return not found"
}
