package rules

import (
	"go/token"
	"go/types"
	"strings"

	"golang.org/x/tools/go/ssa"

	"wtfverif/checker/internal/bounds"
	"wtfverif/checker/internal/load"
	"wtfverif/checker/internal/ssau"
)

// c10k answers, for the implicit-check prover, questions about what is ever
// stored in a class of locations (a struct field, the keys or values of the
// maps of one type), and holds the data-structure invariants of the index
// structures that the prover cannot derive on its own.
type c10k struct {
	c           *Ctx
	eng         *bounds.Engine
	fieldStores map[string][]*ssa.Store     // "owner.field" -> stores in shipped code
	mapUpdates  map[string][]*ssa.MapUpdate // map type string -> updates in shipped code
	decoded     map[string]bool             // named types handed to a decoder
	memo        map[string]int              // 1 true, 2 false, 3 in progress
	busy        map[ssa.Value]bool
	busyDepth   int
	// leaf decides a value at its own program point; nil = non-negative by
	// interval. Classes propagate the predicate: a location class has it when
	// everything stored into the class has it.
	leaf func(fn *ssa.Function, v ssa.Value, blk *ssa.BasicBlock) bool
	name string
}

// withLeaf: the same store indexes with another predicate.
func (k *c10k) withLeaf(name string, leaf func(fn *ssa.Function, v ssa.Value, blk *ssa.BasicBlock) bool) *c10k {
	return &c10k{c: k.c, eng: k.eng, fieldStores: k.fieldStores, mapUpdates: k.mapUpdates, decoded: k.decoded, memo: map[string]int{}, busy: map[ssa.Value]bool{}, leaf: leaf, name: name}
}

const fuzzyMatch = "github.com/sahilm/fuzzy.Match"

func newC10k(c *Ctx, eng *bounds.Engine) *c10k {
	k := &c10k{c: c, eng: eng, fieldStores: map[string][]*ssa.Store{}, mapUpdates: map[string][]*ssa.MapUpdate{}, decoded: map[string]bool{}, memo: map[string]int{}, busy: map[ssa.Value]bool{}}
	for _, fn := range shippedFuncs(c) {
		ssau.ForEachInstr(fn, false, func(in ssa.Instruction) {
			switch x := in.(type) {
			case *ssa.Store:
				if fa, ok := x.Addr.(*ssa.FieldAddr); ok {
					k.fieldStores[ssau.FieldOwner(fa)+"."+ssau.FieldName(fa)] = append(k.fieldStores[ssau.FieldOwner(fa)+"."+ssau.FieldName(fa)], x)
				}
			case *ssa.MapUpdate:
				ts := x.Map.Type().Underlying().String()
				k.mapUpdates[ts] = append(k.mapUpdates[ts], x)
			case *ssa.Call:
				n := ssau.CallName(x)
				if strings.Contains(n, "Unmarshal") || strings.HasSuffix(n, ".Decode") || n == "encoding/binary.Read" {
					for _, a := range x.Common().Args {
						if mi, ok := a.(*ssa.MakeInterface); ok {
							a = mi.X
						}
						k.markDecoded(a.Type(), 0)
					}
				}
			}
		})
	}
	return k
}

func (k *c10k) markDecoded(t types.Type, d int) {
	if d > 6 {
		return
	}
	if n := ssau.NamedOf(t); n != "" {
		if k.decoded[n] {
			return
		}
		k.decoded[n] = true
	}
	switch u := t.Underlying().(type) {
	case *types.Pointer:
		k.markDecoded(u.Elem(), d+1)
	case *types.Slice:
		k.markDecoded(u.Elem(), d+1)
	case *types.Array:
		k.markDecoded(u.Elem(), d+1)
	case *types.Map:
		k.markDecoded(u.Key(), d+1)
		k.markDecoded(u.Elem(), d+1)
	case *types.Struct:
		for i := 0; i < u.NumFields(); i++ {
			k.markDecoded(u.Field(i).Type(), d+1)
		}
	}
}

// valNonNeg: v >= 0 at its own program point, by interval or by class.
func (k *c10k) valNonNeg(fn *ssa.Function, v ssa.Value, blk *ssa.BasicBlock) bool {
	if k.leaf == nil {
		return k.eng.Of(fn).NonNeg(v, blk)
	}
	return k.leaf(fn, v, blk) || k.classNonNeg(v, 0)
}

// localFieldNonNeg: al is a struct variable whose address never leaves its
// function (it is used only to address its fields and to copy the whole
// value out), and every value stored into field f of it is non-negative (the
// zero value it starts with is).
func (k *c10k) localFieldNonNeg(al *ssa.Alloc, f int) bool {
	if _, ok := al.Type().Underlying().(*types.Pointer).Elem().Underlying().(*types.Struct); !ok {
		return false
	}
	for _, ref := range *al.Referrers() {
		switch r := ref.(type) {
		case *ssa.FieldAddr:
			for _, fr := range *r.Referrers() {
				switch u := fr.(type) {
				case *ssa.Store:
					if u.Addr != ssa.Value(r) {
						return false // the field's address is stored somewhere
					}
					if r.Field == f && !k.valNonNeg(u.Parent(), u.Val, u.Block()) {
						return false
					}
				case *ssa.UnOp, *ssa.DebugRef:
				default:
					if r.Field == f {
						return false // address of this field escapes
					}
				}
			}
		case *ssa.UnOp:
			if r.Op != token.MUL {
				return false
			}
		case *ssa.Store:
			// the whole value assigned at once: from a composite literal
			// built in another local of the same kind
			if r.Addr != ssa.Value(al) {
				return false
			}
			if call, isCall := r.Val.(*ssa.Call); isCall {
				// ... or by a helper of the repository that returns such a local
				g := call.Common().StaticCallee()
				if g == nil || g.Blocks == nil || !k.c.P.IsRepoFunc(g) || g.Signature.Results().Len() != 1 {
					return false
				}
				n := 0
				for _, ret := range ssau.ReturnsOf(g) {
					rl, ok := ret.Results[0].(*ssa.UnOp)
					if !ok || rl.Op != token.MUL {
						return false
					}
					src, ok := rl.X.(*ssa.Alloc)
					if !ok || !k.localFieldNonNeg(src, f) {
						return false
					}
					n++
				}
				if n == 0 {
					return false
				}
				continue
			}
			ld, ok := r.Val.(*ssa.UnOp)
			if !ok || ld.Op != token.MUL {
				return false
			}
			src, ok := ld.X.(*ssa.Alloc)
			if !ok || src == al || !k.localFieldNonNeg(src, f) {
				return false
			}
		case *ssa.DebugRef:
		default:
			return false
		}
	}
	return true
}

// nonNegOf is the NonNegOf hook: v is read from a class of locations into
// which only non-negative values are ever stored.
func (k *c10k) nonNegOf(c *bounds.Fn, v ssa.Value) bool { return k.classNonNeg(v, 0) }

func (k *c10k) classNonNeg(v ssa.Value, d int) bool {
	if d > 8 {
		return false
	}
	// coinductive: a value that depends on itself through its own class is
	// non-negative if every other way into the class is
	if k.busy[v] {
		return true
	}
	if k.busyDepth > 60 {
		return false
	}
	k.busy[v] = true
	k.busyDepth++
	defer func() { delete(k.busy, v); k.busyDepth-- }()
	switch x := v.(type) {
	case *ssa.UnOp:
		if x.Op != token.MUL {
			return false
		}
		switch a := x.X.(type) {
		case *ssa.FieldAddr:
			if al, ok := a.X.(*ssa.Alloc); ok && k.localFieldNonNeg(al, a.Field) {
				return true
			}
			return k.fieldNonNeg(ssau.FieldOwner(a), ssau.FieldName(a))
		case *ssa.IndexAddr:
			return k.elemsNonNeg(a.X, d+1)
		case *ssa.Alloc:
			// a local cell: every value stored into it; a counter step
			// c = c + k (k >= 0) keeps the sign (2^63 steps are not reachable)
			ok, n := true, 0
			for _, ref := range *a.Referrers() {
				if st, isSt := ref.(*ssa.Store); isSt && st.Addr == ssa.Value(a) {
					n++
					if bo, isBo := st.Val.(*ssa.BinOp); isBo && bo.Op == token.ADD && k.leaf == nil {
						if ld, isLd := bo.X.(*ssa.UnOp); isLd && ld.Op == token.MUL && ld.X == ssa.Value(a) {
							if kk, isK := ssau.ConstInt(bo.Y); isK && kk >= 0 {
								continue
							}
						}
					}
					if !k.valNonNeg(st.Parent(), st.Val, st.Block()) {
						ok = false
					}
				} else if _, isLoad := ref.(*ssa.UnOp); !isLoad {
					if _, isDbg := ref.(*ssa.DebugRef); !isDbg {
						ok = false
					}
				}
			}
			return ok && n > 0
		}
	case *ssa.Field:
		return k.fieldNonNeg(ssau.NamedOf(x.X.Type()), ssau.FieldName(x))
	case *ssa.Extract:
		switch t := x.Tuple.(type) {
		case *ssa.Next:
			rg, ok := t.Iter.(*ssa.Range)
			if !ok || t.IsString {
				return false
			}
			if x.Index == 1 {
				return k.mapClassNonNeg(rg.X, true)
			}
			if x.Index == 2 {
				return k.mapClassNonNeg(rg.X, false)
			}
		case *ssa.Lookup:
			if x.Index == 0 {
				return k.mapClassNonNeg(t.X, false)
			}
		}
	case *ssa.Lookup:
		if _, ok := x.X.Type().Underlying().(*types.Map); ok && !x.CommaOk {
			return k.mapClassNonNeg(x.X, false)
		}
	case *ssa.Parameter:
		return k.paramAll(x, func(cf *ssa.Function, a ssa.Value, blk *ssa.BasicBlock) bool { return k.valNonNeg(cf, a, blk) })
	case *ssa.Phi:
		for i, e := range x.Edges {
			if !k.valNonNeg(x.Parent(), e, x.Block().Preds[i]) {
				return false
			}
		}
		return len(x.Edges) > 0
	case *ssa.Convert:
		if isIntT(x.X.Type()) && isIntT(x.Type()) {
			return k.classNonNeg(x.X, d+1)
		}
	case *ssa.ChangeType:
		return k.classNonNeg(x.X, d+1)
	}
	return false
}

func isIntT(t types.Type) bool {
	b, ok := t.Underlying().(*types.Basic)
	return ok && b.Info()&types.IsInteger != 0
}

// paramAll: pred holds for the argument at every call site of the parameter's
// function (shipped callers; at least one).
func (k *c10k) paramAll(p *ssa.Parameter, pred func(cf *ssa.Function, a ssa.Value, blk *ssa.BasicBlock) bool) bool {
	key := "P:" + p.Parent().String() + "." + p.Name()
	if m := k.memo[key]; m != 0 {
		return m != 2
	}
	k.memo[key] = 3
	fn := p.Parent()
	node := k.c.P.CallGraph().Nodes[fn]
	idx := -1
	for i, q := range fn.Params {
		if q == p {
			idx = i
		}
	}
	ok, n := node != nil && idx >= 0, 0
	if ok {
		for _, e := range node.In {
			cf := e.Caller.Func
			if cf.Synthetic != "" {
				if wn := k.c.P.CallGraph().Nodes[cf]; wn == nil || len(wn.In) == 0 {
					continue
				}
				ok = false
				break
			}
			if !isShipped(k.c, cf) {
				if k.c.P.IsRepoFunc(cf) {
					continue // test helpers
				}
				ok = false
				break
			}
			args := e.Site.Common().Args
			ai := idx
			if e.Site.Common().IsInvoke() {
				ai--
			}
			if ai < 0 || ai >= len(args) {
				ok = false
				break
			}
			n++
			if !pred(cf, args[ai], e.Site.Block()) {
				ok = false
				break
			}
		}
	}
	ok = ok && n > 0
	if ok {
		k.memo[key] = 1
	} else {
		k.memo[key] = 2
	}
	return ok
}

// fieldNonNeg: every store to owner.field in shipped code stores a
// non-negative value (coinductively), and no decoder fills the struct.
func (k *c10k) fieldNonNeg(owner, field string) bool {
	if owner == fuzzyMatch && field == "Index" && k.leaf == nil {
		return true // library contract: the position of the candidate in the data slice
	}
	key := "F:" + owner + "." + field
	if m := k.memo[key]; m != 0 {
		return m != 2
	}
	if !strings.HasPrefix(owner, load.ModulePath) || k.decoded[owner] {
		k.memo[key] = 2
		return false
	}
	k.memo[key] = 3
	ok := true
	for _, st := range k.fieldStores[owner+"."+field] {
		if !k.valNonNeg(st.Parent(), st.Val, st.Block()) {
			if bounds.Debug {
				println("class", key, "fails at", k.c.P.Pos(st.Pos()))
			}
			ok = false
			break
		}
	}
	if ok {
		k.memo[key] = 1
	} else {
		k.memo[key] = 2
	}
	return ok
}

// fieldBounded: every store to owner.field has a finite upper bound.
func (k *c10k) fieldBounded(owner, field string) bool {
	if !strings.HasPrefix(owner, load.ModulePath) || k.decoded[owner] {
		return false
	}
	sts := k.fieldStores[owner+"."+field]
	for _, st := range sts {
		if iv := k.eng.Of(st.Parent()).Q.At(st.Val, st.Block()); !iv.HiOK {
			return false
		}
	}
	return len(sts) > 0
}

func (k *c10k) boundedOf(c *bounds.Fn, v ssa.Value) bool {
	if u, ok := v.(*ssa.UnOp); ok && u.Op == token.MUL {
		if fa, ok := u.X.(*ssa.FieldAddr); ok {
			return k.fieldBounded(ssau.FieldOwner(fa), ssau.FieldName(fa))
		}
	}
	// a count kept in a map held by a structure of the repository (document
	// frequencies and the like): as large as what is in memory, not as what a
	// request asks for
	var m ssa.Value
	switch x := v.(type) {
	case *ssa.Lookup:
		m = x.X
	case *ssa.Extract:
		switch t := x.Tuple.(type) {
		case *ssa.Lookup:
			if x.Index == 0 {
				m = t.X
			}
		case *ssa.Next:
			if rg, ok := t.Iter.(*ssa.Range); ok && !t.IsString && x.Index == 2 {
				m = rg.X
			}
		}
	}
	if m != nil {
		if root := k.mapRoot(m, 0); strings.HasPrefix(root, "F:"+load.ModulePath) {
			owner := strings.TrimPrefix(root, "F:")
			if i := strings.LastIndex(owner, "."); i > 0 && !k.decoded[owner[:i]] {
				return true
			}
		}
	}
	return false
}

// mapRoot names where a map value comes from: "F:owner.field" for a load of
// a struct field, "A:<pos>" for a map made at that site, "" when unknown
// (parameters, results).
func (k *c10k) mapRoot(v ssa.Value, d int) string {
	if d > 6 {
		return ""
	}
	switch x := v.(type) {
	case *ssa.MakeMap:
		if k.mapEscapes(x) {
			return "" // may be reached under another name: use the whole type class
		}
		return "A:" + k.c.P.Pos(x.Pos()) + x.Name()
	case *ssa.UnOp:
		if x.Op != token.MUL {
			return ""
		}
		switch a := x.X.(type) {
		case *ssa.FieldAddr:
			return "F:" + ssau.FieldOwner(a) + "." + ssau.FieldName(a)
		case *ssa.IndexAddr:
			// an element of the slice held by a struct field
			if o, f, _, ok := fieldLoad(a.X); ok {
				return "FE:" + o + "." + f
			}
		case *ssa.Alloc:
			root := ""
			for _, ref := range *a.Referrers() {
				if st, ok := ref.(*ssa.Store); ok && st.Addr == ssa.Value(a) {
					if ssau.IsNilConst(st.Val) {
						continue // the nil map holds nothing
					}
					r := k.mapRoot(st.Val, d+1)
					if r == "" || (root != "" && root != r) {
						return ""
					}
					root = r
				}
			}
			return root
		}
	case *ssa.Field:
		return "F:" + ssau.NamedOf(x.X.Type()) + "." + ssau.FieldName(x)
	case *ssa.ChangeType:
		return k.mapRoot(x.X, d+1)
	case *ssa.Phi:
		// a merge of one origin with the nil map (which holds nothing)
		root := ""
		for _, e := range x.Edges {
			if ssau.IsNilConst(e) || e == ssa.Value(x) {
				continue
			}
			r := k.mapRoot(e, d+1)
			if r == "" || (root != "" && r != root) {
				return ""
			}
			root = r
		}
		return root
	case *ssa.Parameter:
		// the same origin at every call site
		root, n := "", 0
		ok := k.paramEach(x, func(cf *ssa.Function, a ssa.Value, blk *ssa.BasicBlock) bool {
			r := k.mapRoot(a, d+1)
			if r == "" || (root != "" && r != root) {
				return false
			}
			root = r
			n++
			return true
		})
		if ok && n > 0 {
			return root
		}
	case *ssa.Call:
		// a repo function that returns the one map it makes
		if fn := x.Common().StaticCallee(); fn != nil && k.c.P.IsRepoFunc(fn) && len(fn.Blocks) > 0 && fn.Signature.Results().Len() == 1 {
			root := ""
			for _, ret := range ssau.ReturnsOf(fn) {
				r := k.mapRoot(ret.Results[0], d+1)
				if r == "" || (root != "" && r != root) {
					return ""
				}
				root = r
			}
			return root
		}
	}
	return ""
}

// mapEscapes: the made map is put where it could be read back under another
// origin: a slice element, an interface, a library call that may keep it.
// (Fields are handled by the caller; parameters and results are followed.)
func (k *c10k) mapEscapes(mk *ssa.MakeMap) bool {
	for _, ref := range *mk.Referrers() {
		switch x := ref.(type) {
		case *ssa.Store:
			if x.Val != ssa.Value(mk) {
				continue
			}
			switch x.Addr.(type) {
			case *ssa.Alloc, *ssa.FieldAddr:
			default:
				return true
			}
		case *ssa.MakeInterface:
			return true
		case *ssa.Call:
			if fn := x.Common().StaticCallee(); fn != nil && k.c.P.IsRepoFunc(fn) {
				continue
			}
			n := ssau.CallName(x)
			if strings.HasPrefix(n, "builtin.") || strings.HasPrefix(n, "maps.") {
				continue
			}
			return true
		case *ssa.MapUpdate:
			if x.Value == ssa.Value(mk) || x.Key == ssa.Value(mk) {
				return true
			}
		}
	}
	return false
}

// paramEach applies f to the argument of every shipped call site of p's
// function (no memo).
func (k *c10k) paramEach(p *ssa.Parameter, f func(cf *ssa.Function, a ssa.Value, blk *ssa.BasicBlock) bool) bool {
	fn := p.Parent()
	node := k.c.P.CallGraph().Nodes[fn]
	idx := -1
	for i, q := range fn.Params {
		if q == p {
			idx = i
		}
	}
	if node == nil || idx < 0 {
		return false
	}
	n := 0
	for _, e := range node.In {
		cf := e.Caller.Func
		if cf.Synthetic != "" {
			if wn := k.c.P.CallGraph().Nodes[cf]; wn == nil || len(wn.In) == 0 {
				continue
			}
			return false
		}
		if !isShipped(k.c, cf) {
			if k.c.P.IsRepoFunc(cf) {
				continue
			}
			return false
		}
		args := e.Site.Common().Args
		ai := idx
		if e.Site.Common().IsInvoke() {
			ai--
		}
		if ai < 0 || ai >= len(args) {
			return false
		}
		n++
		if !f(cf, args[ai], e.Site.Block()) {
			return false
		}
	}
	return n > 0
}

// mapClassNonNeg: every key (or value) that can be in map value mv is
// non-negative. The class of mv is, by where it comes from: the map made at
// one site; or everything stored in one struct field (each a made map or the
// field itself); plus, in both cases, every update through a map of unknown
// origin of the same type. Maps of unknown origin fall back to all updates
// of the type.
func (k *c10k) mapClassNonNeg(mv ssa.Value, keys bool) bool {
	t := mv.Type()
	m, ok := t.Underlying().(*types.Map)
	if !ok {
		return false
	}
	if keys && !isIntT(m.Key()) || !keys && !isIntT(m.Elem()) {
		return false
	}
	ts := m.String()
	root := k.mapRoot(mv, 0)
	members := map[string]bool{}
	if strings.HasPrefix(root, "F:") {
		owner := root[2:strings.LastIndex(root, ".")]
		if !strings.HasPrefix(owner, load.ModulePath) || k.decoded[owner] {
			root = ""
		} else {
			members[root] = true
			for _, st := range k.fieldStores[root[2:]] {
				r := k.mapRoot(st.Val, 0)
				if r == "" {
					if c, isC := st.Val.(*ssa.Const); isC && c.IsNil() {
						continue
					}
					root = ""
					break
				}
				members[r] = true
			}
		}
	} else if root != "" {
		members[root] = true
		// the made map may also sit in a field: then the field's other maps join
		if mk, isMk := mv.(*ssa.MakeMap); isMk {
			for _, ref := range *mk.Referrers() {
				if st, isSt := ref.(*ssa.Store); isSt && st.Val == ssa.Value(mk) {
					if _, isF := st.Addr.(*ssa.FieldAddr); isF {
						root = "" // keep it simple: use the whole type class
					}
				}
			}
		}
	}
	key := "M:" + ts + "|" + root
	if keys {
		key = "K:" + ts + "|" + root
	}
	if mm := k.memo[key]; mm != 0 {
		return mm != 2
	}
	if n := ssau.NamedOf(t); n != "" && k.decoded[n] {
		k.memo[key] = 2
		return false
	}
	k.memo[key] = 3
	ok, n := true, 0
	for _, mu := range k.mapUpdates[ts] {
		if root != "" {
			if r := k.mapRoot(mu.Map, 0); r != "" && !members[r] {
				continue
			}
		}
		n++
		v := mu.Value
		if keys {
			v = mu.Key
		}
		// m[k]++ reads the old value and adds one: counts start at zero
		if !keys && k.leaf == nil && isCountStep(mu) {
			continue
		}
		if !k.valNonNeg(mu.Parent(), v, mu.Block()) {
			if bounds.Debug {
				println("class", key, "fails at", k.c.P.Pos(mu.Pos()))
			}
			ok = false
			break
		}
	}
	ok = ok && n > 0
	if ok {
		k.memo[key] = 1
	} else {
		k.memo[key] = 2
	}
	return ok
}

// isCountStep: m[k] = m[k] + c with c >= 0 (m[k]++), for a map whose other
// updates are non-negative; overflow of a count of in-memory items is not
// reachable (MaxLen).
func isCountStep(mu *ssa.MapUpdate) bool {
	bo, ok := mu.Value.(*ssa.BinOp)
	if !ok || bo.Op != token.ADD {
		return false
	}
	lk, ok := bo.X.(*ssa.Lookup)
	if !ok || lk.X != mu.Map || lk.Index != mu.Key {
		return false
	}
	c, ok := ssau.ConstInt(bo.Y)
	return ok && c >= 0
}

// elemsNonNeg: the elements of slice value s are non-negative: s is
// slices.Sorted/Collect(maps.Keys(m)) of a map with non-negative keys, or a
// local slice into which only non-negative values are appended or stored.
func (k *c10k) elemsNonNeg(s ssa.Value, d int) bool {
	if d > 12 {
		return false
	}
	if k.busy[s] {
		return true // coinductive: the slice feeds itself through append in a loop
	}
	k.busy[s] = true
	defer delete(k.busy, s)
	switch x := s.(type) {
	case *ssa.Call:
		n := ssau.CallName(x)
		switch {
		case n == "slices.Sorted" || n == "slices.Collect":
			if inner, ok := x.Common().Args[0].(*ssa.Call); ok && ssau.CallName(inner) == "maps.Keys" {
				return k.mapClassNonNeg(inner.Common().Args[0], true)
			}
			if inner, ok := x.Common().Args[0].(*ssa.Call); ok && ssau.CallName(inner) == "maps.Values" {
				return k.mapClassNonNeg(inner.Common().Args[0], false)
			}
		case n == "builtin.append":
			a := x.Common().Args
			if !k.elemsNonNeg(a[0], d+1) {
				return false
			}
			if len(a) == 2 {
				return k.appendedNonNeg(a[1], d+1)
			}
			return true
		default:
			// a helper of the repository that builds and returns the slice
			if g := x.Common().StaticCallee(); g != nil && k.c.P.IsRepoFunc(g) && len(g.Blocks) > 0 && g.Signature.Results().Len() == 1 {
				rets := ssau.ReturnsOf(g)
				for _, ret := range rets {
					if !k.elemsNonNeg(ret.Results[0], d+1) {
						return false
					}
				}
				return len(rets) > 0
			}
		}
	case *ssa.MakeSlice:
		// zero-filled; direct element stores must be non-negative too
		for _, ref := range *x.Referrers() {
			if ia, ok := ref.(*ssa.IndexAddr); ok {
				for _, r2 := range *ia.Referrers() {
					if st, ok := r2.(*ssa.Store); ok && !k.valNonNeg(st.Parent(), st.Val, st.Block()) {
						return false
					}
				}
			}
		}
		return true
	case *ssa.Const:
		return x.IsNil()
	case *ssa.Phi:
		for _, e := range x.Edges {
			if e != s && !k.elemsNonNeg(e, d+1) {
				return false
			}
		}
		return true
	case *ssa.UnOp:
		if x.Op == token.MUL {
			if al, ok := x.X.(*ssa.Alloc); ok {
				n := 0
				for _, ref := range *al.Referrers() {
					if st, isSt := ref.(*ssa.Store); isSt && st.Addr == ssa.Value(al) {
						n++
						if !k.elemsNonNeg(st.Val, d+1) {
							return false
						}
					}
				}
				return n > 0
			}
			if fa, ok := x.X.(*ssa.FieldAddr); ok {
				return k.fieldElemsNonNeg(ssau.FieldOwner(fa), ssau.FieldName(fa), d+1)
			}
		}
	case *ssa.Field:
		return k.fieldElemsNonNeg(ssau.NamedOf(x.X.Type()), ssau.FieldName(x), d+1)
	case *ssa.Slice:
		return k.elemsNonNeg(x.X, d+1)
	}
	return false
}

// fieldElemsNonNeg: the class of the elements of the slices ever held in
// owner.field (a struct type of the repository that no decoder fills): every
// slice stored into the field has non-negative elements, and so has every
// element stored through a slice read back from the field.
func (k *c10k) fieldElemsNonNeg(owner, field string, d int) bool {
	if owner == "" || !strings.HasPrefix(owner, load.ModulePath) || k.decoded[owner] {
		return false
	}
	key := "FE:" + owner + "." + field
	if k.leaf != nil {
		key += "|" + k.name
	}
	if m := k.memo[key]; m != 0 {
		return m != 2
	}
	k.memo[key] = 3 // assumed while being established (coinductive)
	ok := true
	sts := k.fieldStores[owner+"."+field]
	for _, st := range sts {
		if !k.elemsNonNeg(st.Val, d+1) {
			ok = false
			break
		}
	}
	if ok {
		// element stores through the field
		for _, fn := range shippedFuncs(k.c) {
			ssau.ForEachInstr(fn, false, func(in ssa.Instruction) {
				st, isSt := in.(*ssa.Store)
				if !isSt || !ok {
					return
				}
				ia, isIA := st.Addr.(*ssa.IndexAddr)
				if !isIA {
					return
				}
				o, f, _, isFL := fieldLoad(ia.X)
				if isFL && o == owner && f == field && !k.valNonNeg(st.Parent(), st.Val, st.Block()) {
					ok = false
				}
			})
		}
	}
	if ok && len(sts) > 0 {
		k.memo[key] = 1
	} else {
		k.memo[key] = 2
		ok = false
	}
	return ok
}

// appendedNonNeg: the variadic operand of append: a fresh array whose
// element stores are non-negative, or another non-negative slice.
func (k *c10k) appendedNonNeg(v ssa.Value, d int) bool {
	sl, ok := v.(*ssa.Slice)
	if !ok {
		return k.elemsNonNeg(v, d)
	}
	al, ok := sl.X.(*ssa.Alloc)
	if !ok {
		return k.elemsNonNeg(sl.X, d)
	}
	for _, ref := range *al.Referrers() {
		ia, ok := ref.(*ssa.IndexAddr)
		if !ok {
			continue
		}
		for _, r2 := range *ia.Referrers() {
			if st, ok := r2.(*ssa.Store); ok {
				if !k.valNonNeg(st.Parent(), st.Val, st.Block()) {
					return false
				}
			}
		}
	}
	return true
}

// upperOf is the UpperOf hook: library contracts that bound a value by a
// length. fuzzy.Find(pattern, data): every Match.Index < len(data).
func (k *c10k) upperOf(c *bounds.Fn, i ssa.Value) []string {
	base, ok := ssau.IsFieldLoad(i, fuzzyMatch, "Index")
	if !ok {
		return nil
	}
	call := k.matchSource(base, 0)
	if call == nil {
		return nil
	}
	return c.LenExprs(call.Common().Args[1], 0)
}

// matchSource: the fuzzy.Find call whose result the Match value (or cell) was
// taken from.
func (k *c10k) matchSource(v ssa.Value, d int) *ssa.Call {
	if d > 6 {
		return nil
	}
	switch x := v.(type) {
	case *ssa.Alloc:
		var src *ssa.Call
		for _, ref := range *x.Referrers() {
			if st, ok := ref.(*ssa.Store); ok && st.Addr == ssa.Value(x) {
				s := k.matchSource(st.Val, d+1)
				if s == nil || (src != nil && src != s) {
					return nil
				}
				src = s
			}
		}
		return src
	case *ssa.UnOp:
		if x.Op == token.MUL {
			return k.matchSource(x.X, d+1)
		}
	case *ssa.IndexAddr:
		return k.matchSource(x.X, d+1)
	case *ssa.Slice:
		// a reslice holds elements of what it slices
		return k.matchSource(x.X, d+1)
	case *ssa.Phi:
		var src *ssa.Call
		for _, e := range x.Edges {
			s := k.matchSource(e, d+1)
			if s == nil || (src != nil && src != s) {
				return nil
			}
			src = s
		}
		return src
	case *ssa.Call:
		n := ssau.CallName(x)
		if n == "github.com/sahilm/fuzzy.Find" || n == "github.com/sahilm/fuzzy.FindNoSort" {
			return x
		}
		// a helper that hands back (a leading part of) the matches it is given
		if arg := ssau.PrefixHelperArg(x); arg != nil {
			return k.matchSource(arg, d+1)
		}
	}
	return nil
}

// ---------------------------------------------------------------------------
// data-structure invariants of the index structures

// c10Invariant justifies the "index < len" half of accesses the prover cannot
// derive: it names the invariant, recognises the accesses it covers by the
// carrier field and the class of the index value (not by position), and
// re-checks on every run the construction facts the invariant rests on.
type c10Invariant struct {
	id, text string
	covers   func(c *bounds.Fn, s bounds.Site) bool
	check    func() (bool, string)
}

const (
	embedPkg = load.ModulePath + "/internal/embedding"
	metPkg   = load.ModulePath + "/internal/metrics"
)

func fieldLoad(v ssa.Value) (owner, field string, base ssa.Value, ok bool) {
	switch x := v.(type) {
	case *ssa.UnOp:
		if fa, isFA := x.X.(*ssa.FieldAddr); isFA && x.Op == token.MUL {
			return ssau.FieldOwner(fa), ssau.FieldName(fa), fa.X, true
		}
	case *ssa.Field:
		return ssau.NamedOf(x.X.Type()), ssau.FieldName(x), x.X, true
	}
	return "", "", nil, false
}

// rangeIndexOver: v is the index of a range loop of fn over a slice for which
// want holds.
func rangeIndexOver(fn *ssa.Function, v ssa.Value, want func(over ssa.Value) bool) bool {
	for _, l := range ssau.RangeLoops(fn) {
		if !l.IsMap && l.Index == v && l.Over != nil && want(l.Over) {
			return true
		}
	}
	return false
}

// atEveryCallSite: v is a parameter of the unexported function fn, and pred
// holds for the argument at every shipped call site (at least one).
func (k *c10k) atEveryCallSite(fn *ssa.Function, v ssa.Value, pred func(caller *ssa.Function, arg ssa.Value) bool) bool {
	p, ok := v.(*ssa.Parameter)
	if !ok || fn == nil || fn.Parent() != nil {
		return false
	}
	if obj := fn.Object(); obj == nil || obj.Exported() {
		return false
	}
	idx := -1
	for i, q := range fn.Params {
		if q == p {
			idx = i
		}
	}
	node := k.c.P.CallGraph().Nodes[fn]
	if node == nil || idx < 0 {
		return false
	}
	n := 0
	for _, e := range node.In {
		if !isShipped(k.c, e.Caller.Func) {
			continue
		}
		if e.Site == nil || e.Site.Common().IsInvoke() || e.Site.Common().StaticCallee() != fn {
			return false
		}
		args := e.Site.Common().Args
		if idx >= len(args) || !pred(e.Caller.Func, args[idx]) {
			return false
		}
		n++
	}
	return n > 0
}

// lenOfFieldLoad: v is len(<load of owner.field>) (through a single reaching
// store for loads of cells and int fields).
func (k *c10k) lenOfFieldLoad(fn *ssa.Function, v ssa.Value, owner, field string, d int) bool {
	if d > 4 {
		return false
	}
	switch x := v.(type) {
	case *ssa.Call:
		if ssau.CallName(x) == "builtin.len" {
			o, f, _, ok := fieldLoad(x.Common().Args[0])
			return ok && o == owner && f == field
		}
	case *ssa.UnOp:
		if x.Op == token.MUL {
			if vals, ok := k.eng.Of(fn).F.ReachingStores(x); ok && len(vals) == 1 {
				return k.lenOfFieldLoad(fn, vals[0], owner, field, d+1)
			}
		}
	case *ssa.Parameter:
		return k.atEveryCallSite(fn, x, func(caller *ssa.Function, arg ssa.Value) bool {
			return k.lenOfFieldLoad(caller, arg, owner, field, d+1)
		})
	}
	return false
}

// asLongAs: slice value s has the length of owner.field: it is a load of it,
// or made with len(owner.field).
func (k *c10k) asLongAs(fn *ssa.Function, s ssa.Value, owner, field string, d int) bool {
	if d > 4 {
		return false
	}
	if o, f, _, ok := fieldLoad(s); ok && o == owner && f == field {
		return true
	}
	switch x := s.(type) {
	case *ssa.MakeSlice:
		return k.lenOfFieldLoad(fn, x.Len, owner, field, 0)
	case *ssa.UnOp:
		if x.Op == token.MUL {
			if vals, ok := k.eng.Of(fn).F.ReachingStores(x); ok && len(vals) == 1 {
				return k.asLongAs(fn, vals[0], owner, field, d+1)
			}
		}
	}
	return false
}

func (k *c10k) invariants() []*c10Invariant {
	posting, uidx, dbT := dbPkg+".posting", dbPkg+".universalIndex", dbPkg+".Database"
	tf, tfres := nlpPkg+".TFIDFSearcher", nlpPkg+".TFIDFResult"
	hist, eidx := metPkg+".Histogram", embedPkg+".Index"

	perCommand := func(fn *ssa.Function, v ssa.Value, _ *ssa.BasicBlock) bool {
		return rangeIndexOver(fn, v, func(over ssa.Value) bool { return k.asLongAs(fn, over, dbT, "Commands", 0) })
	}
	docID := k.withLeaf("docID", perCommand)
	cmdIdx := k.withLeaf("commandIndex", func(fn *ssa.Function, v ssa.Value, _ *ssa.BasicBlock) bool {
		return rangeIndexOver(fn, v, func(over ssa.Value) bool { return k.asLongAs(fn, over, tf, "commands", 0) })
	})
	vocab := k.withLeaf("vocabulary", func(fn *ssa.Function, v ssa.Value, _ *ssa.BasicBlock) bool {
		// the number given to a word when it is inserted (its form is checked below)
		for _, mu := range k.mapUpdates["map[string]int"] {
			if mu.Parent() == fn && mu.Value == v && k.mapRoot(mu.Map, 0) == "F:"+tf+".vocabulary" {
				return true
			}
		}
		return false
	})
	perDoc := func(fn *ssa.Function, v ssa.Value) bool {
		return rangeIndexOver(fn, v, func(over ssa.Value) bool { return k.asLongAs(fn, over, tf, "commands", 0) })
	}

	storesAll := func(owner, field string, pred func(st *ssa.Store) bool) (bool, string) {
		sts := k.fieldStores[owner+"."+field]
		if len(sts) == 0 {
			return false, "no store to " + shortName(owner) + "." + field + " found"
		}
		for _, st := range sts {
			if !pred(st) {
				return false, "the store to " + shortName(owner) + "." + field + " at " + k.c.P.Pos(st.Pos()) + " does not have the expected form"
			}
		}
		return true, ""
	}
	onlyIn := func(owner, field string, fns ...string) (bool, string) {
		for _, st := range k.fieldStores[owner+"."+field] {
			ok := false
			for _, f := range fns {
				if strings.HasSuffix(load.FuncKey(st.Parent()), f) {
					ok = true
				}
			}
			if !ok {
				return false, shortName(owner) + "." + field + " is also assigned in " + load.FuncKey(st.Parent()) + " (" + k.c.P.Pos(st.Pos()) + ")"
			}
		}
		return true, ""
	}
	both := func(cs ...func() (bool, string)) func() (bool, string) {
		return func() (bool, string) {
			for _, c := range cs {
				if ok, d := c(); !ok {
					return false, d
				}
			}
			return true, ""
		}
	}

	return []*c10Invariant{
		{
			id:   "index-docid",
			text: "every posting.docID (and everything copied from one: score-map keys, the sorted docID list, cmdIndex values) is a position in the command list the index was built from; docLens has one entry per command; the index is rebuilt whenever the command list changes (C03)",
			covers: func(c *bounds.Fn, s bounds.Site) bool {
				o, f, _, ok := fieldLoad(s.X)
				if !ok || !((o == dbT && f == "Commands") || (o == uidx && f == "docLens")) {
					return false
				}
				return docID.valNonNeg(s.Fn, s.I, s.Instr.Block())
			},
			check: both(
				func() (bool, string) {
					return storesAll(posting, "docID", func(st *ssa.Store) bool {
						isIdx := func(fn *ssa.Function, v ssa.Value) bool {
							return rangeIndexOver(fn, v, func(over ssa.Value) bool {
								// perDocTFs := make(.., idx.N) with N = len(db.Commands)
								return k.asLongAs(fn, over, dbT, "Commands", 0)
							})
						}
						// directly, or as the document number handed to a per-document step
						return isIdx(st.Parent(), st.Val) || k.atEveryCallSite(st.Parent(), st.Val, isIdx)
					})
				},
				func() (bool, string) {
					return storesAll(uidx, "docLens", func(st *ssa.Store) bool { return k.asLongAs(st.Parent(), st.Val, dbT, "Commands", 0) })
				},
			),
		},
		{
			id:   "index-tfidf-result",
			text: "TFIDFResult.CommandIndex is a position in the searcher's command list, which is built from a slice as long as db.Commands and rebuilt with it (C03)",
			covers: func(c *bounds.Fn, s bounds.Site) bool {
				o, f, _, ok := fieldLoad(s.X)
				return ok && o == dbT && f == "Commands" && cmdIdx.valNonNeg(s.Fn, s.I, s.Instr.Block())
			},
			check: both(
				func() (bool, string) {
					return storesAll(tfres, "CommandIndex", func(st *ssa.Store) bool {
						return cmdIdx.leaf(st.Parent(), st.Val, st.Block())
					})
				},
				func() (bool, string) {
					n := 0
					for _, fn := range shippedFuncs(k.c) {
						if pk := k.c.P.PkgOfFunc(fn); pk == nil || pk.PkgPath != dbPkg {
							continue
						}
						for _, call := range callsTo(fn, nlpPkg+".NewTFIDFSearcher") {
							n++
							if !k.asLongAs(fn, call.Common().Args[0], dbT, "Commands", 0) {
								return false, "NewTFIDFSearcher at " + k.c.P.Pos(call.Pos()) + " is not given a slice made with len(db.Commands)"
							}
						}
					}
					return n > 0, "no NewTFIDFSearcher call in package database"
				},
			),
		},
		{
			id:   "tfidf-per-command-arrays",
			text: "commandTF and commandNorms have one entry per command of the searcher: both are only ever assigned make(.., len(s.commands)), and s.commands only in the constructor",
			covers: func(c *bounds.Fn, s bounds.Site) bool {
				o, f, _, ok := fieldLoad(s.X)
				return ok && o == tf && (f == "commandTF" || f == "commandNorms") && perDoc(s.Fn, s.I)
			},
			check: both(
				func() (bool, string) {
					return storesAll(tf, "commandTF", func(st *ssa.Store) bool { return k.asLongAs(st.Parent(), st.Val, tf, "commands", 0) })
				},
				func() (bool, string) {
					return storesAll(tf, "commandNorms", func(st *ssa.Store) bool { return k.asLongAs(st.Parent(), st.Val, tf, "commands", 0) })
				},
				func() (bool, string) { return onlyIn(tf, "commands", "nlp.NewTFIDFSearcher") },
			),
		},
		{
			id:   "tfidf-vocabulary",
			text: "vocabulary numbers its words 0..len-1 (a counter stepped once per insertion) and idf has one entry per word: a vocabulary value, and everything copied from one (term-count and vector keys), is below len(idf)",
			covers: func(c *bounds.Fn, s bounds.Site) bool {
				o, f, _, ok := fieldLoad(s.X)
				return ok && o == tf && f == "idf" && vocab.classNonNeg(s.I, 0)
			},
			check: both(
				func() (bool, string) {
					// two constructions establish it:
					// (A) numbers from a counter stepped at each insertion, idf = make(.., len(vocabulary));
					// (B) the number is len(idf) at the insertion and idf grows by one element right after
					appendForm := func(fn *ssa.Function, blk *ssa.BasicBlock, after ssa.Instruction) bool {
						seen := false
						for _, in := range blk.Instrs {
							if in == after {
								seen = true
								continue
							}
							if !seen {
								continue
							}
							if st, ok := in.(*ssa.Store); ok {
								if _, ok := ssau.IsFieldAddr(st.Addr, tf, "idf"); ok {
									call, ok := st.Val.(*ssa.Call)
									if !ok || ssau.CallName(call) != "builtin.append" || appendedSingle(call) == nil {
										return false
									}
									_, isIdf := ssau.IsFieldLoad(call.Common().Args[0], tf, "idf")
									return isIdf
								}
							}
						}
						return false
					}
					var ups []*ssa.MapUpdate
					for _, mu := range k.mapUpdates["map[string]int"] {
						if k.mapRoot(mu.Map, 0) == "F:"+tf+".vocabulary" {
							ups = append(ups, mu)
						}
					}
					if len(ups) == 0 {
						return false, "no insertion into vocabulary found"
					}
					formB := true
					for _, mu := range ups {
						lc, ok := mu.Value.(*ssa.Call)
						if !ok || ssau.CallName(lc) != "builtin.len" {
							formB = false
							break
						}
						if _, isIdf := ssau.IsFieldLoad(lc.Common().Args[0], tf, "idf"); !isIdf || !appendForm(mu.Parent(), mu.Block(), mu) {
							formB = false
							break
						}
					}
					if formB {
						// every other assignment of idf empties it or is such an append
						return storesAll(tf, "idf", func(st *ssa.Store) bool {
							if mk, ok := st.Val.(*ssa.MakeSlice); ok {
								z, isC := ssau.ConstInt(mk.Len)
								return isC && z == 0
							}
							call, ok := st.Val.(*ssa.Call)
							if !ok || ssau.CallName(call) != "builtin.append" || appendedSingle(call) == nil {
								return false
							}
							_, isIdf := ssau.IsFieldLoad(call.Common().Args[0], tf, "idf")
							return isIdf
						})
					}
					if ok, d := storesAll(tf, "idf", func(st *ssa.Store) bool { return k.asLongAs(st.Parent(), st.Val, tf, "vocabulary", 0) }); !ok {
						return false, d
					}
					for _, mu := range ups {
						// value: a counter starting at 0 whose +1 step sits in the same block
						ph, ok := mu.Value.(*ssa.Phi)
						if !ok {
							return false, "the vocabulary number stored at " + k.c.P.Pos(mu.Pos()) + " is not a running counter"
						}
						stepHere := false
						for _, in := range mu.Block().Instrs {
							if bo, ok := in.(*ssa.BinOp); ok && bo.Op == token.ADD && bo.X == ssa.Value(ph) {
								if c1, ok := ssau.ConstInt(bo.Y); ok && c1 == 1 {
									stepHere = true
								}
							}
						}
						iv := k.eng.Of(mu.Parent()).Q.At(ph, mu.Block())
						if !stepHere || !iv.LoOK || iv.Lo != 0 {
							return false, "the vocabulary counter at " + k.c.P.Pos(mu.Pos()) + " does not start at 0 and step by one with each insertion"
						}
					}
					return true, ""
				},
				func() (bool, string) { return onlyIn(tf, "vocabulary", "TFIDFSearcher).buildIndex") },
			),
		},
		{
			id:   "histogram-overflow-bucket",
			text: "a histogram has one counter per bucket plus the overflow counter: counts is only ever make(.., len(buckets)+1) next to the assignment of buckets",
			covers: func(c *bounds.Fn, s bounds.Site) bool {
				o, f, base, ok := fieldLoad(s.X)
				if !ok || o != hist || f != "counts" {
					return false
				}
				// the index is <= len(h.buckets) for a load of buckets of the same histogram
				found := false
				ssau.ForEachInstr(s.Fn, false, func(in ssa.Instruction) {
					v, isV := in.(ssa.Value)
					if !isV || found {
						return
					}
					if o2, f2, b2, ok2 := fieldLoad(v); ok2 && o2 == hist && f2 == "buckets" && c.F.E(b2) == c.F.E(base) {
						if c.Below(s.I, v, false, s.Instr.Block()) {
							found = true
						}
					}
				})
				if found {
					return true
				}
				// or the index comes from a method of the same histogram every return
				// of which is <= len(its buckets)
				call, isCall := s.I.(*ssa.Call)
				if !isCall {
					return false
				}
				g := call.Common().StaticCallee()
				if g == nil || g.Blocks == nil || !k.c.P.IsRepoFunc(g) || len(call.Common().Args) == 0 || c.F.E(call.Common().Args[0]) != c.F.E(base) {
					return false
				}
				if k.eng.Sx.MayWrite(g, "f:"+hist+".buckets") || k.eng.Sx.MayWrite(g, "f:"+hist+".counts") {
					return false
				}
				gc := k.eng.Of(g)
				rets := ssau.ReturnsOf(g)
				for _, ret := range rets {
					ok := false
					ssau.ForEachInstr(g, false, func(in ssa.Instruction) {
						v, isV := in.(ssa.Value)
						if !isV || ok {
							return
						}
						if o2, f2, b2, ok2 := fieldLoad(v); ok2 && o2 == hist && f2 == "buckets" && b2 == ssa.Value(g.Params[0]) {
							if gc.Below(ret.Results[0], v, false, ret.Block()) {
								ok = true
							}
						}
					})
					if !ok {
						return false
					}
				}
				return len(rets) > 0
			},
			check: both(
				func() (bool, string) {
					return storesAll(hist, "counts", func(st *ssa.Store) bool {
						mk, ok := st.Val.(*ssa.MakeSlice)
						if !ok {
							return false
						}
						bo, ok := mk.Len.(*ssa.BinOp)
						if !ok || bo.Op != token.ADD {
							return false
						}
						if c1, ok := ssau.ConstInt(bo.Y); !ok || c1 != 1 {
							return false
						}
						lc, ok := bo.X.(*ssa.Call)
						if !ok || ssau.CallName(lc) != "builtin.len" {
							return false
						}
						// the same value is stored to buckets of the same object
						fa := st.Addr.(*ssa.FieldAddr)
						for _, st2 := range k.fieldStores[hist+".buckets"] {
							if fa2 := st2.Addr.(*ssa.FieldAddr); st2.Parent() == st.Parent() && fa2.X == fa.X && st2.Val == lc.Common().Args[0] {
								return true
							}
						}
						return false
					})
				},
				func() (bool, string) {
					// buckets is assigned only where counts is
					fns := map[*ssa.Function]bool{}
					for _, st := range k.fieldStores[hist+".counts"] {
						fns[st.Parent()] = true
					}
					for _, st := range k.fieldStores[hist+".buckets"] {
						if !fns[st.Parent()] {
							return false, "Histogram.buckets is assigned at " + k.c.P.Pos(st.Pos()) + " without counts"
						}
					}
					return true, ""
				},
			),
		},
		{
			id:   "embedding-dimension",
			text: "every word vector has Index.Dimension components: vectors are only ever make(.., idx.Dimension) and Dimension is one constant",
			covers: func(c *bounds.Fn, s bounds.Site) bool {
				mk, ok := s.X.(*ssa.MakeSlice)
				if !ok {
					return false
				}
				if o, f, _, ok := fieldLoad(mk.Len); !ok || o != eidx || f != "Dimension" {
					return false
				}
				return rangeIndexOver(s.Fn, s.I, func(over ssa.Value) bool {
					// a value of the WordVectors map
					switch x := over.(type) {
					case *ssa.Extract:
						if lk, ok := x.Tuple.(*ssa.Lookup); ok && x.Index == 0 {
							return k.mapRoot(lk.X, 0) == "F:"+eidx+".WordVectors"
						}
					case *ssa.Lookup:
						return k.mapRoot(x.X, 0) == "F:"+eidx+".WordVectors"
					}
					return false
				})
			},
			check: both(
				func() (bool, string) {
					var first *int64
					return storesAll(eidx, "Dimension", func(st *ssa.Store) bool {
						c1, ok := ssau.ConstInt(st.Val)
						if !ok || c1 < 0 {
							return false
						}
						if first == nil {
							first = &c1
						}
						return *first == c1
					})
				},
				func() (bool, string) {
					n := 0
					for _, mu := range k.mapUpdates["map[string][]float32"] {
						if r := k.mapRoot(mu.Map, 0); r != "F:"+eidx+".WordVectors" {
							if r == "" {
								return false, "a word-vector map of unknown origin is filled at " + k.c.P.Pos(mu.Pos())
							}
							continue
						}
						n++
						// make(.., idx.Dimension) here, or in a reading helper handed the
						// dimension (the field, or the one constant it is set to)
						dimOK := func(v ssa.Value) bool {
							if o, f, _, ok := fieldLoad(v); ok && o == eidx && f == "Dimension" {
								return true
							}
							if cv, isC := ssau.ConstInt(v); isC {
								for _, st := range k.fieldStores[eidx+".Dimension"] {
									if sv, ok := ssau.ConstInt(st.Val); ok && sv == cv {
										return true
									}
								}
							}
							return false
						}
						good := false
						val := mu.Value
						if ex, isEx := val.(*ssa.Extract); isEx {
							val = ex.Tuple
						}
						switch x := val.(type) {
						case *ssa.MakeSlice:
							good = dimOK(x.Len)
						case *ssa.Slice:
							// make with a constant length: a fresh array sliced whole
							if al, ok := x.X.(*ssa.Alloc); ok && x.Low == nil && x.Max == nil {
								if at, ok := al.Type().Underlying().(*types.Pointer).Elem().Underlying().(*types.Array); ok {
									n := at.Len()
									if x.High != nil {
										if h, isC := ssau.ConstInt(x.High); isC {
											n = h
										} else {
											n = -1
										}
									}
									for _, st := range k.fieldStores[eidx+".Dimension"] {
										if sv, ok := ssau.ConstInt(st.Val); ok && sv == n {
											good = true
										}
									}
								}
							}
						case *ssa.Call:
							// a reading helper (possibly built from smaller ones): the
							// vector it hands back is made with one of its arguments
							if lv := c10MadeWithLen(k.c, mu.Value, 0); lv != nil {
								good = dimOK(lv)
							}
						}
						if !good {
							return false, "the vector stored at " + k.c.P.Pos(mu.Pos()) + " is not made with the index dimension"
						}
					}
					return n > 0, "no insertion into WordVectors found"
				},
			),
		},
	}
}

// listEntryInvariant: every value put into a container/list of package cache
// is a *cache.Entry and Element.Value is never assigned, so the assertion
// element.Value.(*Entry) cannot fail.
func (k *c10k) listEntryInvariant() (func(ta *ssa.TypeAssert) bool, func() (bool, string)) {
	const elem = "container/list.Element"
	entryT := load.ModulePath + "/internal/cache.Entry"
	covers := func(ta *ssa.TypeAssert) bool {
		o, f, _, ok := fieldLoad(ta.X)
		if call, isCall := ta.X.(*ssa.Call); isCall && ssau.CallName(call) == "(*container/list.List).Remove" {
			// Remove(e) hands back e.Value
			o, f, ok = elem, "Value", true
		}
		if !ok || o != elem || f != "Value" {
			return false
		}
		p, isP := ta.AssertedType.(*types.Pointer)
		return isP && ssau.NamedOf(p.Elem()) == entryT
	}
	check := func() (bool, string) {
		n := 0
		for _, fn := range shippedFuncs(k.c) {
			bad := ""
			ssau.ForEachInstr(fn, false, func(in ssa.Instruction) {
				switch x := in.(type) {
				case *ssa.Call:
					nm := ssau.CallName(x)
					if !strings.HasPrefix(nm, "(*container/list.List).") {
						return
					}
					switch strings.TrimPrefix(nm, "(*container/list.List).") {
					case "PushFront", "PushBack", "InsertBefore", "InsertAfter":
						n++
						mi, ok := x.Common().Args[1].(*ssa.MakeInterface)
						if !ok {
							bad = k.c.P.Pos(x.Pos())
							return
						}
						p, isP := mi.X.Type().(*types.Pointer)
						if !isP || ssau.NamedOf(p.Elem()) != entryT {
							bad = k.c.P.Pos(x.Pos())
						}
					case "PushBackList", "PushFrontList":
						bad = k.c.P.Pos(x.Pos())
					}
				case *ssa.Store:
					if fa, ok := x.Addr.(*ssa.FieldAddr); ok && ssau.FieldOwner(fa) == elem && ssau.FieldName(fa) == "Value" {
						bad = k.c.P.Pos(x.Pos())
					}
				}
			})
			if bad != "" {
				return false, "a list element that is not a *cache.Entry can be created at " + bad
			}
		}
		return n > 0, "no list insertion found"
	}
	return covers, check
}

// c10MadeWithLen: the slice v was made with make([]T, n) here, or by a
// function of the repository every non-nil result of which (at that position)
// was made with the length given by one and the same parameter; returns n as
// a value of the function v lives in, nil when that cannot be said.
func c10MadeWithLen(c *Ctx, v ssa.Value, d int) ssa.Value {
	if d > 4 {
		return nil
	}
	ri := 0
	if ex, ok := v.(*ssa.Extract); ok {
		v, ri = ex.Tuple, ex.Index
	}
	switch x := v.(type) {
	case *ssa.MakeSlice:
		return x.Len
	case *ssa.Call:
		g := x.Common().StaticCallee()
		if g == nil || g.Blocks == nil || !c.P.IsRepoFunc(g) {
			return nil
		}
		pi, n := -1, 0
		for _, ret := range ssau.ReturnsOf(g) {
			if ri >= len(ret.Results) {
				return nil
			}
			rv := ssau.ResultValue(ret, ri)
			if ssau.IsNilConst(rv) {
				continue
			}
			n++
			lv := c10MadeWithLen(c, rv, d+1)
			if lv == nil {
				return nil
			}
			idx := -1
			for i, p := range g.Params {
				if lv == ssa.Value(p) || ssau.ParamOf(lv) == p {
					idx = i
				}
			}
			if idx < 0 || (pi >= 0 && pi != idx) {
				return nil
			}
			pi = idx
		}
		if n == 0 || pi < 0 || pi >= len(x.Common().Args) {
			return nil
		}
		return x.Common().Args[pi]
	}
	return nil
}
