package rules

import (
	"go/token"
	"go/types"

	"golang.org/x/tools/go/ssa"

	"wtfverif/checker/internal/load"
	"wtfverif/checker/internal/pathev"
	"wtfverif/checker/internal/ssau"
)

// The two-list form of the protected prefix (C06 O-3): the scoring function
// returns the protected terms and the others as two lists,
//
//	original, enhanced := scoreTerms(terms, preserveCount)
//
// and the selection puts every term of the first list, uncut, in front of
// whatever it keeps of the second.

// c06TwoListScorer: a function of the database package
// ([]string, int) -> ([]T, []T) with T a record holding the term.
func c06TwoListScorer(c *Ctx) (fn *ssa.Function, termsP, preserveP *ssa.Parameter) {
	for _, cand := range shippedFuncs(c) {
		if pk := c.P.PkgOfFunc(cand); pk == nil || pk.PkgPath != dbPkg || cand.Parent() != nil || cand.Signature.Results().Len() != 2 {
			continue
		}
		res := cand.Signature.Results()
		scored := func(t types.Type) bool {
			sl, ok := t.Underlying().(*types.Slice)
			return ok && ssau.NamedOf(sl.Elem()) == dbPkg+".termWithScore"
		}
		if !scored(res.At(0).Type()) || !scored(res.At(1).Type()) {
			continue
		}
		var tp, ip *ssa.Parameter
		for _, p := range cand.Params {
			if sl, ok := p.Type().Underlying().(*types.Slice); ok {
				if b, ok := sl.Elem().Underlying().(*types.Basic); ok && b.Kind() == types.String {
					tp = p
				}
			}
			if b, ok := p.Type().Underlying().(*types.Basic); ok && b.Kind() == types.Int {
				ip = p
			}
		}
		if tp != nil && ip != nil {
			return cand, tp, ip
		}
	}
	return nil, nil, nil
}

// c06TwoListForm reports the two O-3 obligations for the two-list form.
func c06TwoListForm(c *Ctx, fn *ssa.Function, termsP, preserveP *ssa.Parameter) {
	r := c.R
	fk := load.FuncKey(fn)
	// (1) in the scorer: an iteration with i < preserveCount that is not a
	// duplicate appends its term to the FIRST list returned
	var loop *ssau.RangeLoop
	ls := ssau.RangeLoops(fn)
	for i := range ls {
		if ls[i].Over == ssa.Value(termsP) || ssau.ParamOf(ls[i].Over) == termsP {
			loop = &ls[i]
		}
	}
	if loop == nil {
		r.Bad("O-3", fk+"#range-terms", c.P.Pos(fn.Pos()), "no range loop over the terms parameter")
		return
	}
	// the list returned first: a phi of the loop header grown by append
	var first *ssa.Phi
	for _, ret := range ssau.ReturnsOf(fn) {
		if len(ret.Results) != 2 {
			continue
		}
		if ph, ok := ssau.ResultValue(ret, 0).(*ssa.Phi); ok && ph.Block() == loop.Header {
			first = ph
		} else {
			first = nil
			break
		}
	}
	if first == nil {
		r.Bad("O-3", fk+"#protected-terms-always-kept", c.P.Pos(fn.Pos()), "the first list returned is not the list grown in the loop over the terms")
		return
	}
	cut := map[[2]int]bool{}
	barrier := map[*ssa.BasicBlock]bool{}
	for _, b := range fn.Blocks {
		if !loop.InLoop(b) {
			continue
		}
		for _, in := range b.Instrs {
			call, ok := in.(*ssa.Call)
			if !ok || ssau.CallName(call) != "builtin.append" || !c06GrowsPhi(call, first) {
				continue
			}
			// the record appended carries the term of this iteration
			if c06RecordHoldsElem(appendedSingle(call), loop) {
				barrier[b] = true
			}
		}
		iff, ok := b.Instrs[len(b.Instrs)-1].(*ssa.If)
		if !ok {
			continue
		}
		if _, isLk := iff.Cond.(*ssa.Lookup); isLk {
			cut[[2]int{b.Index, 0}] = true // duplicate test: seen[t]
			continue
		}
		op, x, y, okc := ssau.CondOf(iff.Cond)
		if okc && x == loop.Index && y == ssa.Value(preserveP) && op == token.LSS {
			cut[[2]int{b.Index, 1}] = true // i >= preserveCount: not protected
		}
		if okc && x == loop.Index && y == ssa.Value(preserveP) && op == token.GEQ {
			cut[[2]int{b.Index, 0}] = true
		}
	}
	bad := reachAvoidBB(loop.Body, loop.Header, cut, barrier)
	r.Check(!bad && len(barrier) > 0, "O-3", fk+"#protected-terms-always-kept", c.P.Pos(loop.Body.Instrs[0].Pos()), "an iteration with i < preserveCount that is not a duplicate appends its term to the list of protected terms", "a term among the first preserveCount can be dropped by something other than the duplicate test (e.g. because it is not in the index)")

	// (2) in the caller: the result starts with every term of that first list
	var site *ssa.Call
	var caller *ssa.Function
	for _, g := range shippedFuncs(c) {
		ssau.ForEachInstr(g, false, func(in ssa.Instruction) {
			if call, ok := in.(*ssa.Call); ok && call.Common().StaticCallee() == fn {
				site, caller = call, g
			}
		})
	}
	fk2 := fk
	if caller != nil {
		fk2 = load.FuncKey(caller)
	}
	if !r.Check(site != nil, "O-3", fk2+"#every-original-kept", c.P.Pos(fn.Pos()), "the scorer is called", "the scoring function is not called") {
		return
	}
	isOrig := func(v ssa.Value) bool {
		ex, ok := v.(*ssa.Extract)
		return ok && ex.Tuple == ssa.Value(site) && ex.Index == 0
	}
	var startsWithOrig func(v ssa.Value, d int) (bool, string)
	startsWithOrig = func(v ssa.Value, d int) (bool, string) {
		if d > 12 {
			return false, "the result is built in too many steps to follow"
		}
		switch x := v.(type) {
		case *ssa.Phi:
			for _, e := range x.Edges {
				if ok, why := startsWithOrig(e, d+1); !ok {
					return false, why
				}
			}
			return len(x.Edges) > 0, ""
		case *ssa.Call:
			a := x.Common().Args
			if ssau.CallName(x) == "builtin.append" {
				return startsWithOrig(a[0], d+1)
			}
			if di, si, ok := c06AppendsAllTerms(x.Common().StaticCallee()); ok && di < len(a) && si < len(a) {
				if isOrig(a[si]) {
					if ssau.IsNilConst(a[di]) || c06EmptyMake(a[di]) {
						return true, ""
					}
					return false, "the protected terms are appended to a list that is not empty: they are not in front"
				}
				return startsWithOrig(a[di], d+1)
			}
			return false, "the result passes through " + ssau.CallName(x) + ", which is not an append of all the terms of a list"
		}
		return false, "the result does not begin with the terms of the protected list"
	}
	nRet := 0
	for _, ret := range ssau.ReturnsOf(caller) {
		rv := ssau.ResultValue(ret, 0)
		// exits taken before the scorer ran (the list is within the cap) are O-6's business
		if !(site.Block() == ret.Block() || site.Block().Dominates(ret.Block())) {
			continue
		}
		nRet++
		ok, why := startsWithOrig(rv, 0)
		r.Check(ok, "O-3", fk2+"#every-original-kept", c.P.Pos(ret.Pos()), "the result begins with every term of the protected list, appended whole before anything else", "the protected terms are not all returned first: "+why)
	}
	r.Check(nRet > 0, "O-3", fk2+"#returns-after-scoring", c.P.Pos(caller.Pos()), "the selection returns what it assembled from the scored lists", "no return of the selection lies behind the scoring call")
}

// c06GrowsPhi: call is append(x, ...) with x the phi (the list as it stood at
// the head of this iteration).
func c06GrowsPhi(call *ssa.Call, phi *ssa.Phi) bool {
	a := call.Common().Args
	if len(a) == 0 {
		return false
	}
	if a[0] == ssa.Value(phi) {
		return true
	}
	// and the result flows back into the phi
	return false
}

// c06RecordHoldsElem: v is a record whose string field holds the element of
// this iteration of loop.
func c06RecordHoldsElem(v ssa.Value, loop *ssau.RangeLoop) bool {
	if v == nil {
		return false
	}
	isElem := func(x ssa.Value) bool {
		u, ok := x.(*ssa.UnOp)
		if !ok {
			return false
		}
		ia, ok := u.X.(*ssa.IndexAddr)
		return ok && ia.Index == loop.Index
	}
	// the record is loaded from a local filled field by field, or copied
	// whole from such a local
	var holds func(v ssa.Value, d int) bool
	holds = func(v ssa.Value, d int) bool {
		ld, ok := v.(*ssa.UnOp)
		if !ok || ld.Op != token.MUL || d > 3 {
			return false
		}
		al, ok := ld.X.(*ssa.Alloc)
		if !ok {
			return false
		}
		for _, ref := range *al.Referrers() {
			switch x := ref.(type) {
			case *ssa.FieldAddr:
				if b, isB := x.Type().Underlying().(*types.Pointer).Elem().Underlying().(*types.Basic); !isB || b.Kind() != types.String {
					continue
				}
				for _, r2 := range *x.Referrers() {
					if st, ok := r2.(*ssa.Store); ok && st.Addr == ssa.Value(x) && isElem(st.Val) {
						return true
					}
				}
			case *ssa.Store:
				if x.Addr == ssa.Value(al) && holds(x.Val, d+1) {
					return true
				}
			}
		}
		return false
	}
	return holds(v, 0)
}

// c06AppendsAllTerms: g(out []string, list []T) []string returns out extended
// by the term of every element of list, in order, unconditionally; the
// indices of the two parameters.
func c06AppendsAllTerms(g *ssa.Function) (dst, src int, ok bool) {
	if g == nil || g.Blocks == nil || len(g.Params) != 2 || g.Signature.Results().Len() != 1 {
		return 0, 0, false
	}
	dst, src = -1, -1
	for i, p := range g.Params {
		sl, isSl := p.Type().Underlying().(*types.Slice)
		if !isSl {
			return 0, 0, false
		}
		if b, isB := sl.Elem().Underlying().(*types.Basic); isB && b.Kind() == types.String {
			dst = i
		} else {
			src = i
		}
	}
	if dst < 0 || src < 0 {
		return 0, 0, false
	}
	ls := ssau.RangeLoops(g)
	if len(ls) != 1 || ls[0].IsMap || (ls[0].Over != ssa.Value(g.Params[src]) && ssau.ParamOf(ls[0].Over) != g.Params[src]) {
		return 0, 0, false
	}
	l := ls[0]
	var apps []*ssa.Call
	ssau.ForEachInstr(g, false, func(in ssa.Instruction) {
		if call, isCall := in.(*ssa.Call); isCall && ssau.CallName(call) == "builtin.append" {
			apps = append(apps, call)
		}
	})
	if len(apps) != 1 || !l.InLoop(apps[0].Block()) {
		return 0, 0, false
	}
	if n, _ := lastSelector(appendedSingle(apps[0])); n != "term" {
		return 0, 0, false
	}
	// the list grown is the parameter: phi(out, append(phi, ...)), returned
	ph, isPhi := apps[0].Common().Args[0].(*ssa.Phi)
	if !isPhi || ph.Block() != l.Header {
		return 0, 0, false
	}
	fromParam := false
	for _, e := range ph.Edges {
		if e == ssa.Value(g.Params[dst]) {
			fromParam = true
		} else if e != ssa.Value(apps[0]) {
			return 0, 0, false
		}
	}
	for _, ret := range ssau.ReturnsOf(g) {
		if ssau.ResultValue(ret, 0) != ssa.Value(ph) {
			return 0, 0, false
		}
	}
	eng := pathev.New(func(in ssa.Instruction) []string {
		if in == ssa.Instruction(apps[0]) {
			return []string{"append"}
		}
		return nil
	}, nil)
	m, early, reach := eng.Between(l.Body, l.Header)
	if !reach || len(early) > 0 || !m.Get("append").ExactlyOnce() {
		return 0, 0, false
	}
	return dst, src, fromParam
}
