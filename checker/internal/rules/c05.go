package rules

import (
	"fmt"
	"go/token"
	"go/types"
	"reflect"
	"sort"
	"strings"

	"golang.org/x/tools/go/ssa"

	"wtfverif/checker/internal/load"
	"wtfverif/checker/internal/origin"
	"wtfverif/checker/internal/pathev"
	"wtfverif/checker/internal/ssau"
	"wtfverif/checker/internal/symx"
)

const (
	cachedDB = dbPkg + ".CachedDatabase"
	monDB    = dbPkg + ".MonitoredDatabase"
	scMeth   = "(*" + cachePkg + ".SearchCache)."
	mgrMeth  = "(*" + cachePkg + ".Manager)."
)

func init() {
	register(&Rule{
		Prop: "C05",
		Explanation: "History equivalence of cached and fresh answers is not statically decidable; the mechanisms that make the cache transparent are, for every operation sequence: (O-1) key completeness — the set R of SearchOptions fields that any function reachable from SearchUniversal reads is COMPUTED from the SSA; every field in R is copied from the very options value being searched into the cache.SearchOptions literal at every projection site, that struct's field is exported and not json:\"-\", and the struct flows into json.Marshal whose bytes are hashed into the returned key; " +
			"(O-2) same key, same search — Get and Put use the same query and cache-options values, the list stored derives (through the element-wise conversion) from SearchUniversal(query, options) of the same activation, and only that list or the converted hit is returned; (O-3) every store to Database.Commands reachable from the caching/monitoring layer is followed on all paths by InvalidateCache, which reaches LRUCache.Clear in the call graph; (O-4) with the manager disabled the search bypasses Get and Put, and SearchCache.Get/Put test their own switch first; (O-5) Put stores a copy and a hit returns a freshly built slice, so no caller can alias cache storage. Case-folding of the key is safe by C20.",
		NotDecided:  []string{"equality of cached and fresh answers over arbitrary histories (follows from the mechanisms plus determinism C02, not decided as such)", "TTL timing", "callers outside the layer assigning db.Commands directly"},
		Assumptions: []string{"encoding/json marshals exported untagged-or-tagged fields deterministically (map keys sorted)", "SHA-256 collisions do not occur"},
		Run:         runC05,
	})
}

func runC05(c *Ctx) {
	r := c.R
	r.Rule("O-1", "key completeness: the key function hashes the options exactly as given (no field rewritten first); every SearchOptions field read on the search path is copied from the searched options into the cache options at every projection site, is exported and serialised, and the cache options reach json.Marshal -> hash -> key")
	r.Rule("O-2", "same key, same search: Get and Put share query and cache options; the stored list converts the result of SearchUniversal(query, options) of this activation; the function returns that result or the converted hit")
	r.Rule("O-3", "invalidate on replacement: each store to Database.Commands reachable from the caching/monitoring layer is followed on all paths by InvalidateCache, which reaches LRUCache.Clear")
	r.Rule("O-4", "switches: with the manager disabled the search bypasses the cache; SearchCache.Get/Put test `enabled` before anything else")
	r.Rule("O-5", "no aliasing: Put stores a copy of the list; a hit returns a freshly allocated slice")

	sx := symx.New(c.P.IsRepoFunc)
	c05Key(c, sx)
	c05SameSearch(c, sx)
	c05Invalidate(c)
	c05Switches(c)
	c05Alias(c)
}

// optionReads computes R: the SearchOptions fields read by functions
// reachable from SearchUniversal.
func optionReads(c *Ctx) (map[string][]string, []*ssa.Function) {
	su := c.P.Func("internal/database", "Database", "SearchUniversal")
	if su == nil {
		return nil, nil
	}
	reach := reachClosure(c, []*ssa.Function{su})
	return optionReadsIn(c, reach), reach
}

// optionReadsIn: the fields of database.SearchOptions read in the given
// functions, with the positions of the reads.
func optionReadsIn(c *Ctx, reach []*ssa.Function) map[string][]string {
	R := map[string][]string{}
	for _, fn := range reach {
		ssau.ForEachInstr(fn, false, func(in ssa.Instruction) {
			switch x := in.(type) {
			case *ssa.FieldAddr:
				if ssau.NamedOf(x.X.Type()) != optType {
					return
				}
				for _, ref := range *x.Referrers() {
					if u, ok := ref.(*ssa.UnOp); ok && u.X == ssa.Value(x) {
						R[ssau.FieldName(x)] = append(R[ssau.FieldName(x)], c.P.Pos(u.Pos()))
					}
				}
			case *ssa.Field:
				if ssau.NamedOf(x.X.Type()) == optType {
					R[ssau.FieldName(x)] = append(R[ssau.FieldName(x)], c.P.Pos(x.Pos()))
				}
			}
		})
	}
	return R
}

func c05Key(c *Ctx, sx *symx.Ctx) {
	r := c.R
	R, reach := optionReads(c)
	if !r.Anchor("O-1", "database.(*Database).SearchUniversal", R != nil) {
		return
	}
	// the query part of the key: requests may share an entry only when the
	// engine answers them alike. Case folding is justified (C20 O-1 shows that
	// no case-sensitive operation sees the query's original case); nothing else
	// is: the typo fallback hands the query to the matcher as its pattern,
	// blanks included, so queries that differ in surrounding blanks can be
	// answered differently.
	if kinds, pos, found := cacheKeyQuerySteps(c); r.Anchor("O-1", "cache.(*SearchCache).generateCacheKey: query normalisation", found || len(kinds) == 0) {
		var extra []string
		for _, k := range kinds {
			if k != "lower" {
				extra = append(extra, k)
			}
		}
		r.Check(len(extra) == 0, "O-1", "cache.(*SearchCache).generateCacheKey#query-normalisation-is-neutral", pos, "the key identifies queries only up to letter case, which the engine ignores", "the key also applies "+strings.Join(extra, ", ")+" to the query: requests whose queries differ only in surrounding blanks share an entry although the engine can answer them differently (the typo fallback matches the raw query, blanks included) — a cached search then returns the other request's answer")
	}
	var names []string
	for f := range R {
		names = append(names, f)
	}
	sort.Strings(names)
	r.Analysed["option_fields_read_on_the_search_path"] = names
	r.Analysed["functions_reachable_from_SearchUniversal"] = len(reach)
	r.Floor("O-1", "option fields read on the search path", len(names), 7)

	if !c05Projection(c, sx, "O-1", names, R, 1) {
		return
	}

	// (b) the struct reaches Marshal -> Sum256 -> returned key
	gk := c.P.Func("internal/cache", "SearchCache", "generateCacheKey")
	if r.Anchor("O-1", "cache.(*SearchCache).generateCacheKey", gk != nil) {
		fk := "cache.(*SearchCache).generateCacheKey"
		tr := &origin.Tracer{Through: func(call *ssa.Call, idx int) []ssa.Value {
			switch n := ssau.CallName(call); {
			case n == "fmt.Sprintf":
				return call.Common().Args
			case n == "crypto/sha256.Sum256":
				return call.Common().Args
			case strings.HasPrefix(n, "encoding/json.Marshal") && idx == 0:
				return call.Common().Args[:1]
			}
			return nil
		}}
		// the success return (json err == nil)
		okKey := false
		for _, ret := range ssau.ReturnsOf(gk) {
			rs := tr.Roots(ret.Results[0])
			hasOpts, hasQuery := false, false
			for _, rt := range rs {
				if rt.Kind == "param" && strings.HasSuffix(rt.Name, "#2") {
					hasOpts = true
				}
				if rt.Kind == "alloc" || rt.Kind == "other" {
					// the keyData literal: check its fields separately below
				}
				if rt.Kind == "call" && (rt.Name == "strings.ToLower" || rt.Name == "strings.TrimSpace") {
					hasQuery = true
				}
			}
			_ = hasQuery
			if hasOpts {
				okKey = true
			}
		}
		// structural check: Marshal's argument is a struct literal whose fields hold the options parameter and the normalised query
		var marshalArgOK bool
		for _, mc := range callsMatching(gk, false, func(n string) bool { return strings.HasPrefix(n, "encoding/json.Marshal") }) {
			arg := ssau.Strip(mc.Common().Args[0])
			// the marshalled value: a local struct variable, by value or by address
			var al *ssa.Alloc
			if u, ok := arg.(*ssa.UnOp); ok && u.Op == token.MUL {
				al, _ = u.X.(*ssa.Alloc)
			} else if a, ok := arg.(*ssa.Alloc); ok {
				al = a
			}
			if al != nil {
				if st, ok := derefT(al.Type()).Underlying().(*types.Struct); ok {
					hasOpt, hasQ := false, false
					lt := &origin.Tracer{Through: func(call *ssa.Call, idx int) []ssa.Value {
						if n := ssau.CallName(call); n == "strings.ToLower" || n == "strings.TrimSpace" {
							return call.Common().Args
						}
						return nil
					}}
					for i := 0; i < st.NumFields(); i++ {
						vals, _ := ssau.FieldSources(al, st.Field(i).Name())
						tag := reflect.StructTag(st.Tag(i)).Get("json")
						serialised := st.Field(i).Exported() && strings.Split(tag, ",")[0] != "-"
						for _, v := range vals {
							if ssau.ParamOf(v) == gk.Params[2] || v == ssa.Value(gk.Params[2]) {
								// the options field must be exported and serialised
								if serialised {
									hasOpt = true
								}
							}
							for _, rt := range lt.Roots(v) {
								if rt.Kind == "param" && strings.HasSuffix(rt.Name, "#1") && serialised {
									hasQ = true
								}
							}
							// or through a normalising helper of the repository
							if _, root := stringChain(v); root == ssa.Value(gk.Params[1]) && serialised {
								hasQ = true
							}
						}
					}
					marshalArgOK = hasOpt && hasQ
				}
			}
			// the hash consumes Marshal's bytes and the returned key consumes the hash
			hashOK := false
			for _, hc := range callsTo(gk, "crypto/sha256.Sum256") {
				if hc.Common().Args[0] == resultValue(mc, 0) {
					hashOK = true
				}
			}
			// ... or through a helper of the repository given the bytes, which hashes them
			ssau.ForEachInstr(gk, false, func(in ssa.Instruction) {
				call, ok := in.(*ssa.Call)
				if !ok || hashOK {
					return
				}
				h := call.Common().StaticCallee()
				if h == nil || h.Blocks == nil || !c.P.IsRepoFunc(h) {
					return
				}
				for i, a := range call.Common().Args {
					if a != resultValue(mc, 0) || i >= len(h.Params) {
						continue
					}
					for _, hc := range callsTo(h, "crypto/sha256.Sum256") {
						if hc.Common().Args[0] == ssa.Value(h.Params[i]) {
							// the digest is what the helper hands back
							tr := &origin.Tracer{Through: func(c2 *ssa.Call, idx int) []ssa.Value {
								switch ssau.CallName(c2) {
								case "fmt.Sprintf", "encoding/hex.EncodeToString":
									return c2.Common().Args
								}
								return nil
							}}
							all := true
							for _, ret := range ssau.ReturnsOf(h) {
								from := false
								for _, rt := range tr.Roots(ssau.ResultValue(ret, 0)) {
									if rt.V == ssa.Value(hc) {
										from = true
									}
									// the digest array held in a local and sliced whole
									rv := rt.V
									if sl, isSl := rv.(*ssa.Slice); isSl {
										rv = sl.X
									}
									if al, isAl := rv.(*ssa.Alloc); isAl {
										for _, ref := range *al.Referrers() {
											if st, isSt := ref.(*ssa.Store); isSt && st.Addr == ssa.Value(al) && st.Val == ssa.Value(hc) {
												from = true
											}
										}
									}
								}
								if !from {
									all = false
								}
							}
							if all {
								hashOK = true
							}
						}
					}
				}
			})
			r.Check(hashOK, "O-1", fk+"#hash-of-marshalled-key", c.P.Pos(mc.Pos()), "sha256.Sum256(json.Marshal(keyData))", "the hash is not computed over the marshalled key data")
		}
		r.Check(marshalArgOK, "O-1", fk+"#marshals-query-and-options", c.P.Pos(gk.Pos()), "json.Marshal({normalised query, options})", "the value marshalled into the key does not hold both the normalised query and the whole options struct")
		// the options go into the key as they were given: a normalisation applied
		// only to the key (a default filled in, a field cleared) makes two requests
		// that the engine answers differently share an entry
		rewritten := ""
		for _, ref := range *gk.Params[2].Referrers() {
			st, ok := ref.(*ssa.Store)
			if !ok || st.Val != ssa.Value(gk.Params[2]) {
				continue
			}
			cell, ok := st.Addr.(*ssa.Alloc)
			if !ok {
				continue
			}
			for _, r2 := range *cell.Referrers() {
				fa, ok := r2.(*ssa.FieldAddr)
				if !ok {
					continue
				}
				for _, r3 := range *fa.Referrers() {
					if s2, ok := r3.(*ssa.Store); ok && s2.Addr == ssa.Value(fa) {
						rewritten = ssau.FieldName(fa)
					}
				}
			}
		}
		r.Check(rewritten == "", "O-1", fk+"#options-unmodified", c.P.Pos(gk.Pos()), "no field of the options is rewritten before they are hashed", "options."+rewritten+" is rewritten inside the key function: requests that differ in that field (and that the engine treats differently) get the same key")
		_ = okKey
	}
}

// c05Projection: every field in names (fields of database.SearchOptions that
// the search reads, with where) is a serialised field of cache.SearchOptions
// and is copied from the searched options at every site that builds the cache
// options. Used for the whole read set by C05 and for the filter options by C04.
func c05Projection(c *Ctx, sx *symx.Ctx, rule string, names []string, R map[string][]string, floor int) bool {
	r := c.R
	// cache.SearchOptions struct
	cpk := c.P.Pkg("internal/cache")
	if !r.Anchor(rule, "cache.SearchOptions", cpk != nil && cpk.Types.Scope().Lookup("SearchOptions") != nil) {
		return false
	}
	cst := cpk.Types.Scope().Lookup("SearchOptions").Type().Underlying().(*types.Struct)
	cfield := map[string]int{}
	for i := 0; i < cst.NumFields(); i++ {
		cfield[cst.Field(i).Name()] = i
	}
	// (b) serialisation of each field in R
	for _, f := range names {
		key := "cache.SearchOptions." + f + "#serialised"
		i, ok := cfield[f]
		if !ok {
			r.Bad(rule, key, "", fmt.Sprintf("SearchOptions.%s is read by the search (%s) but the cache key options have no such field: requests differing only in %s share a cached entry", f, R[f][0], f))
			continue
		}
		fd := cst.Field(i)
		tag := reflect.StructTag(cst.Tag(i)).Get("json")
		switch {
		case !fd.Exported():
			r.Bad(rule, key, c.P.Pos(fd.Pos()), "field is unexported: encoding/json leaves it out of the key")
		case strings.Split(tag, ",")[0] == "-" && !strings.Contains(tag, ","):
			r.Bad(rule, key, c.P.Pos(fd.Pos()), "field is tagged json:\"-\": it is left out of the key")
		default:
			r.OK(rule, key, c.P.Pos(fd.Pos()), "part of the marshalled key")
		}
	}
	// (a) projection sites: functions that build a cache.SearchOptions from a database.SearchOptions
	nSites := 0
	for _, fn := range shippedFuncs(c) {
		f := sx.Of(fn)
		// a literal of cache.SearchOptions: an Alloc of that type with field stores
		ssau.ForEachInstr(fn, false, func(in ssa.Instruction) {
			al, ok := in.(*ssa.Alloc)
			if !ok || ssau.NamedOf(al.Type()) != cacheOpts {
				return
			}
			stores := map[string]ssa.Value{}
			for _, ref := range *al.Referrers() {
				if fa, ok := ref.(*ssa.FieldAddr); ok {
					for _, r2 := range *fa.Referrers() {
						if st, ok := r2.(*ssa.Store); ok && st.Addr == ssa.Value(fa) {
							stores[ssau.FieldName(fa)] = st.Val
						}
					}
				}
			}
			if len(stores) == 0 {
				return
			}
			// the database options value this literal projects: the common base of the loaded fields
			var src ssa.Value
			for _, v := range stores {
				if base, ok := optFieldBase(v); ok {
					src = base
				}
			}
			if src == nil {
				return
			}
			nSites++
			site := fmt.Sprintf("%s#projection-%d", load.FuncKey(fn), nSites)
			for _, fname := range names {
				key := site + ":" + fname
				v, ok := stores[fname]
				if !ok {
					r.Bad(rule, key, c.P.Pos(al.Pos()), fmt.Sprintf("the cache options built here do not copy %s, which the search reads (%s): two requests that differ only in %s get the same key, and the second is answered with the first one's results", fname, R[fname][0], fname))
					continue
				}
				base, isOpt := optFieldBase(v)
				good := isOpt && optFieldName(v) == fname && f.E(base) == f.E(src)
				r.Check(good, rule, key, c.P.Pos(al.Pos()), "copied from the same options value", fmt.Sprintf("the cache option %s is not the searched options' %s: %s", fname, fname, f.Plain(v)))
			}
		})
	}
	r.Floor(rule, "projection sites", nSites, floor)

	return true
}

func derefT(t types.Type) types.Type {
	if p, ok := t.Underlying().(*types.Pointer); ok {
		return p.Elem()
	}
	return t
}

// optFieldBase: v is a load of <options>.<field> of database.SearchOptions;
// returns the options object (cell or value).
func optFieldBase(v ssa.Value) (ssa.Value, bool) {
	switch x := v.(type) {
	case *ssa.UnOp:
		if fa, ok := x.X.(*ssa.FieldAddr); ok && ssau.NamedOf(fa.X.Type()) == optType {
			return fa.X, true
		}
	case *ssa.Field:
		if ssau.NamedOf(x.X.Type()) == optType {
			return x.X, true
		}
	}
	return nil, false
}

func optFieldName(v ssa.Value) string {
	switch x := v.(type) {
	case *ssa.UnOp:
		if fa, ok := x.X.(*ssa.FieldAddr); ok {
			return ssau.FieldName(fa)
		}
	case *ssa.Field:
		return ssau.FieldName(x)
	}
	return ""
}

func c05SameSearch(c *Ctx, sx *symx.Ctx) {
	r := c.R
	fn := c.P.Func("internal/database", "CachedDatabase", "SearchWithOptionsAndCache")
	fk := "database.(*CachedDatabase).SearchWithOptionsAndCache"
	if !r.Anchor("O-2", fk, fn != nil) {
		return
	}
	_ = sx
	// Get and Put are in the function itself or in a step it calls; values are
	// described under the call stack that leads to them
	steps := withSteps(c, fn, 1)
	nGet, nPut := 0, 0
	for _, g := range steps {
		nGet += len(cacheOpsIn(g, "get"))
		nPut += len(cacheOpsIn(g, "put"))
	}
	isKind := func(kind string) func(*ssa.Call) bool {
		return func(call *ssa.Call) bool {
			acc, ok := cacheOp(call)
			return ok && acc.kind == kind
		}
	}
	g, gstack := reachCallPred(c, fn, isKind("get"), nil, 1)
	p, pstack := reachCallPred(c, fn, isKind("put"), nil, 1)
	if nGet != 1 || nPut != 1 || g == nil || p == nil {
		r.Bad("O-2", fk+"#one-get-one-put", c.P.Pos(fn.Pos()), fmt.Sprintf("%d Get and %d Put calls (want one each)", nGet, nPut))
		return
	}
	var ev *ctxEval
	ev = &ctxEval{c: c, Leaf: func(v ssa.Value, stack []*ssa.Call) string {
		if ex, ok := v.(*ssa.Extract); ok && ex.Tuple == ssa.Value(g) {
			return fmt.Sprintf("get#%d", ex.Index)
		}
		call, ok := v.(*ssa.Call)
		if !ok {
			return ""
		}
		switch n := ssau.CallName(call); {
		case n == dbPkg+".convertDBResults":
			return "convertDB(" + ev.Describe(call.Common().Args[0], stack) + ")"
		case n == dbPkg+".convertCacheResults":
			return "convertCache(" + ev.Describe(call.Common().Args[0], stack) + ")"
		case strings.HasSuffix(n, "Database).SearchUniversal"):
			a := call.Common().Args
			return "engine(" + ev.Describe(a[1], stack) + "," + ev.Describe(a[2], stack) + ")"
		}
		return ""
	}}
	gAcc, _ := cacheOp(g)
	pAcc, _ := cacheOp(p)
	qn, on := "param:"+fn.Params[1].Name(), "param:"+fn.Params[2].Name()
	gq, pq := ev.Describe(gAcc.query, gstack), ev.Describe(pAcc.query, pstack)
	r.Check(gq == qn && pq == qn, "O-2", fk+"#same-query", c.P.Pos(p.Pos()), "Get and Put are keyed by the function's query", "Get and Put are not keyed by the same query value: "+gq+" vs "+pq)
	gf, pf := ev.Fields(gAcc.options, gstack), ev.Fields(pAcc.options, pstack)
	sameO := len(gf) > 0 && len(gf) == len(pf) && gf["Limit"] == on+".Limit"
	diff := ""
	for k, v := range gf {
		if pf[k] != v {
			sameO = false
			diff = k + ": " + v + " vs " + pf[k]
		}
	}
	r.Check(sameO, "O-2", fk+"#same-cache-options", c.P.Pos(p.Pos()), "Get and Put use the same cache options value", "Get and Put use different cache options values (or the options are modified in between): "+diff)
	// the stored list converts the engine result of this activation, called with (query, options)
	engDesc := "engine(" + qn + "," + on + ")"
	stored := ev.Describe(pAcc.list, pstack)
	r.Check(stored == "convertDB("+engDesc+")", "O-2", fk+"#stores-this-search", c.P.Pos(p.Pos()), "Put stores convertDBResults(SearchUniversal(query, options))", "the list stored in the cache is not the converted result of SearchUniversal(query, options) of this call: "+stored)
	// returns
	hit := "convertCache(get#0)"
	for _, ret := range ssau.ReturnsOf(fn) {
		v := ssau.ResultValue(ret, 0)
		key := fk + "#return:" + exitName(fn, ret)
		d := ev.Describe(v, nil)
		good := d == engDesc || d == hit || d == "phi(const:nil|"+hit+")" // the last: through a lookup step that yields nil when nothing was found
		r.Check(good, "O-2", key, c.P.Pos(ret.Pos()), "returns the fresh result or the converted hit", "returns something other than SearchUniversal(query, options) or the converted cache hit: "+d)
	}
	// the hit is returned only when found
	hitGuard := false
	// the `found` result: the boolean among the results of the read
	foundIdx := 1
	if sig := g.Common().Signature(); sig != nil {
		for i := 0; i < sig.Results().Len(); i++ {
			if b, ok := sig.Results().At(i).Type().Underlying().(*types.Basic); ok && b.Kind() == types.Bool {
				foundIdx = i
			}
		}
	}
	if len(gstack) == 0 {
		found := resultValue(g, foundIdx)
		for _, iff := range ssau.Ifs(fn) {
			if iff.Cond == found {
				hitGuard = true
			}
		}
	} else {
		// in the lookup step: found is tested, and the step reports true exactly
		// with the converted hit; the caller tests what the step reports
		step := gstack[0].Common().StaticCallee()
		found := resultValue(g, foundIdx)
		inner := false
		for _, iff := range ssau.Ifs(step) {
			if iff.Cond == found {
				inner = true
			}
			if u, ok := iff.Cond.(*ssa.UnOp); ok && u.X == found {
				inner = true
			}
		}
		okPairs := step.Signature.Results().Len() == 2
		for _, ret := range ssau.ReturnsOf(step) {
			if !okPairs {
				break
			}
			d := ev.Describe(ssau.ResultValue(ret, 0), gstack)
			b, isC := ssau.ResultValue(ret, 1).(*ssa.Const)
			switch {
			case isC && b.Value != nil && b.Value.String() == "true":
				okPairs = d == hit
			case isC && b.Value != nil && b.Value.String() == "false":
				okPairs = d == "const:nil"
			default:
				okPairs = ssau.ResultValue(ret, 1) == found && d == hit
			}
		}
		outer := false
		for _, iff := range ssau.Ifs(fn) {
			if ex, ok := iff.Cond.(*ssa.Extract); ok && ex.Tuple == ssa.Value(gstack[0]) && ex.Index == 1 {
				outer = true
			}
		}
		hitGuard = inner && okPairs && outer
	}
	r.Check(hitGuard, "O-2", fk+"#hit-only-when-found", c.P.Pos(g.Pos()), "the cached list is used only under found == true", "the `found` result of Get is not tested")
}

func c05Invalidate(c *Ctx) {
	r := c.R
	var roots []*ssa.Function
	for _, fn := range shippedFuncs(c) {
		if recv := fn.Signature.Recv(); recv != nil {
			n := ssau.NamedOf(recv.Type())
			if n == cachedDB || n == monDB {
				roots = append(roots, fn)
			}
		}
	}
	inv := c.P.Func("internal/database", "CachedDatabase", "InvalidateCache")
	if !r.Anchor("O-3", "database.(*CachedDatabase).InvalidateCache", inv != nil) {
		return
	}
	invName := ssau.FuncName(inv)
	n := 0
	for _, fn := range reachClosure(c, roots) {
		// only functions of the layer itself store Commands of an existing database
		ssau.ForEachInstr(fn, false, func(in ssa.Instruction) {
			st, ok := in.(*ssa.Store)
			if !ok {
				return
			}
			fa, ok := ssau.IsFieldAddr(st.Addr, dbType, "Commands")
			if !ok {
				return
			}
			if al, isAlloc := fa.X.(*ssa.Alloc); isAlloc && al.Heap {
				return // a fresh database under construction
			}
			n++
			key := fmt.Sprintf("%s#replaces-commands-%d", load.FuncKey(fn), n)
			eng := pathev.New(func(i2 ssa.Instruction) []string {
				if call, ok := i2.(*ssa.Call); ok && ssau.CallName(call) == invName {
					return []string{"invalidate"}
				}
				return nil
			}, nil)
			ok2 := true
			for _, m := range eng.From(st.Block(), ssau.InstrIndex(st)) {
				if !m.Get("invalidate").Always() {
					ok2 = false
				}
			}
			r.Check(ok2, "O-3", key, c.P.Pos(st.Pos()), "followed on every path by InvalidateCache", "the command list is replaced without invalidating the result cache on every path: later searches are answered from entries computed on the old database")
		})
	}
	r.Floor("O-3", "stores replacing Database.Commands in the layer", n, 1)
	// InvalidateCache reaches LRUCache.Clear
	clear := c.P.Func("internal/cache", "LRUCache", "Clear")
	reaches := false
	for _, fn := range reachClosure(c, []*ssa.Function{inv}) {
		if fn == clear {
			reaches = true
		}
	}
	// ... and unconditionally: along the chain every function calls the next one on every path
	if reaches && clear != nil {
		canReach := func(fn *ssa.Function) bool {
			for _, g := range reachClosure(c, []*ssa.Function{fn}) {
				if g == clear {
					return true
				}
			}
			return false
		}
		cur := inv
		for depth := 0; cur != clear && depth < 8; depth++ {
			var next *ssa.Function
			var via []*ssa.Call
			ssau.ForEachInstr(cur, false, func(in ssa.Instruction) {
				if call, ok := in.(*ssa.Call); ok {
					if cal := call.Common().StaticCallee(); cal != nil && c.P.IsRepoFunc(cal) && canReach(cal) {
						next = cal
						via = append(via, call)
					}
				}
			})
			if next == nil {
				r.Unknown("O-3", load.FuncKey(cur)+"#clears-unconditionally", c.P.Pos(cur.Pos()), "the call that leads to LRUCache.Clear is not a static call")
				break
			}
			eng := pathev.New(func(in ssa.Instruction) []string {
				for _, v := range via {
					if in == ssa.Instruction(v) {
						return []string{"next"}
					}
				}
				return nil
			}, nil)
			always := true
			for _, m := range eng.Exits(cur) {
				if !m.Get("next").Always() {
					always = false
				}
			}
			r.Check(always, "O-3", load.FuncKey(cur)+"#clears-unconditionally", c.P.Pos(cur.Pos()), "every path calls "+load.FuncKey(next), "some path through "+load.FuncKey(cur)+" skips the call to "+load.FuncKey(next)+" (for instance while the cache is disabled): entries computed on the old database survive an update and are served once the cache is re-enabled")
			cur = next
		}
	}
	r.Check(reaches && clear != nil, "O-3", "database.(*CachedDatabase).InvalidateCache#reaches-LRUCache.Clear", c.P.Pos(inv.Pos()), "InvalidateCache -> Manager.InvalidateAll -> SearchCache.Invalidate -> LRUCache.Clear", "InvalidateCache does not reach LRUCache.Clear in the call graph: invalidation leaves entries behind")
}

func c05Switches(c *Ctx) {
	r := c.R
	fn := c.P.Func("internal/database", "CachedDatabase", "SearchWithOptionsAndCache")
	if fn != nil {
		fk := "database.(*CachedDatabase).SearchWithOptionsAndCache"
		// edges on which the manager is enabled
		cut := map[[2]int]bool{}
		for _, iff := range ssau.Ifs(fn) {
			cond := iff.Cond
			neg := false
			if u, ok := cond.(*ssa.UnOp); ok && u.Op.String() == "!" {
				cond, neg = u.X, true
			}
			if call, ok := cond.(*ssa.Call); ok && ssau.CallName(call) == mgrMeth+"IsEnabled" {
				if neg {
					cut[[2]int{iff.Block().Index, 1}] = true
				} else {
					cut[[2]int{iff.Block().Index, 0}] = true
				}
			}
		}
		bad := ""
		if len(cut) == 0 {
			bad = "the manager's switch is never consulted"
		}
		reach := reachableFromEntry(fn, cut)
		for _, call := range append(cacheOpsIn(fn, "get"), cacheOpsIn(fn, "put")...) {
			if reach[call.Block()] {
				bad = "a cache Get/Put is reachable while the manager is disabled"
			}
		}
		r.Check(bad == "", "O-4", fk+"#disabled-bypasses-cache", c.P.Pos(fn.Pos()), "with IsEnabled() false neither Get nor Put is reachable", bad)
	}
	for _, m := range []string{"Get", "Put"} {
		sfn := c.P.Func("internal/cache", "SearchCache", m)
		fk := "cache.(*SearchCache)." + m
		if !r.Anchor("O-4", fk, sfn != nil) {
			continue
		}
		// with the edges on which `enabled` is true removed, no LRU call is reachable
		cut := map[[2]int]bool{}
		for _, iff := range ssau.Ifs(sfn) {
			cond := iff.Cond
			neg := false
			if u, ok := cond.(*ssa.UnOp); ok && u.Op.String() == "!" {
				cond, neg = u.X, true
			}
			if _, ok := ssau.IsFieldLoad(cond, cachePkg+".SearchCache", "enabled"); ok {
				if neg {
					cut[[2]int{iff.Block().Index, 1}] = true
				} else {
					cut[[2]int{iff.Block().Index, 0}] = true
				}
			}
		}
		reach := reachableFromEntry(sfn, cut)
		bad := ""
		if len(cut) == 0 {
			bad = "`enabled` is not tested"
		}
		for _, call := range callsMatching(sfn, false, func(n string) bool { return strings.HasPrefix(n, "(*"+cachePkg+".LRUCache).") }) {
			if reach[call.Block()] {
				bad = "the LRU cache is touched although the search cache is disabled"
			}
		}
		r.Check(bad == "", "O-4", fk+"#tests-enabled-first", c.P.Pos(sfn.Pos()), "no LRU access unless enabled", bad)
	}
}

func c05Alias(c *Ctx) {
	r := c.R
	put := c.P.Func("internal/cache", "SearchCache", "Put")
	if r.Anchor("O-5", "cache.(*SearchCache).Put", put != nil) {
		good := false
		// the method that hands the list to the LRU: Put itself, or the keyed
		// store it delegates to
		if len(callsTo(put, "(*"+cachePkg+".LRUCache).Put")) == 0 {
			for _, g := range withSteps(c, put, 1) {
				if kind, _, li := keyedCacheMethod(g); kind == "put" && li < len(g.Params) {
					// Put passes its own list on unchanged
					for _, call := range callsTo(put, ssau.FuncName(g)) {
						if li < len(call.Common().Args) && call.Common().Args[li] == ssa.Value(put.Params[3]) {
							put = g
						}
					}
				}
			}
		}
		listP := ssa.Value(put.Params[len(put.Params)-1])
		for _, p := range put.Params {
			if srSliceAny(p.Type()) {
				listP = p
			}
		}
		for _, call := range callsTo(put, "(*"+cachePkg+".LRUCache).Put") {
			if c05FreshCopyOf(c, put, ssau.Strip(call.Common().Args[2]), listP, call, 0) {
				good = true
			}
		}
		r.Check(good, "O-5", "cache.(*SearchCache).Put#stores-a-copy", c.P.Pos(put.Pos()), "the LRU receives a fresh copy of the caller's list (make+copy, append onto a fresh empty slice, or slices.Clone)", "the caller's slice itself is stored in the cache: later writes by the caller change cached answers")
	}
	conv := c.P.Func("internal/database", "", "convertCacheResults")
	if r.Anchor("O-5", "database.convertCacheResults", conv != nil) {
		good := len(ssau.ReturnsOf(conv)) > 0
		tr := &origin.Tracer{Through: func(call *ssa.Call, idx int) []ssa.Value {
			if ssau.CallName(call) == "builtin.append" {
				return call.Common().Args[:1]
			}
			return nil
		}}
		for _, ret := range ssau.ReturnsOf(conv) {
			for _, rt := range tr.Roots(ret.Results[0]) {
				if rt.Kind != "make" {
					good = false
				}
			}
		}
		r.Check(good, "O-5", "database.convertCacheResults#returns-fresh-slice", c.P.Pos(conv.Pos()), "the hit path returns a slice allocated by the conversion", "the hit path can return memory shared with the cache")
	}
}

// c05FreshCopyOf: in fn, v is a new slice holding the elements of src (make
// and copy completed before `before`, append onto a fresh empty slice,
// slices.Clone), or the result of a helper of the repository that returns
// such a copy of the list it is given.
func c05FreshCopyOf(c *Ctx, fn *ssa.Function, v, src ssa.Value, before ssa.Instruction, d int) bool {
	if d > 2 {
		return false
	}
	isSrc := func(x ssa.Value) bool {
		return x == src || (ssau.ParamOf(x) != nil && ssau.ParamOf(x) == ssau.ParamOf(src))
	}
	switch x := v.(type) {
	case *ssa.MakeSlice:
		for _, cp := range callsTo(fn, "builtin.copy") {
			if cp.Common().Args[0] == ssa.Value(x) && isSrc(cp.Common().Args[1]) && (before == nil || ssau.Dominates(cp, before)) {
				return true
			}
		}
	case *ssa.Call:
		a := x.Common().Args
		switch n := ssau.CallName(x); {
		case n == "builtin.append" && len(a) == 2 && isSrc(a[1]):
			switch b := ssau.Strip(a[0]).(type) {
			case *ssa.MakeSlice:
				if z, ok := ssau.ConstInt(b.Len); ok && z == 0 {
					return true
				}
			case *ssa.Const:
				return b.IsNil()
			}
		case strings.HasPrefix(n, "slices.Clone") && len(a) == 1 && isSrc(a[0]):
			return true
		}
		g := x.Common().StaticCallee()
		if g == nil || g.Blocks == nil || !c.P.IsRepoFunc(g) || g.Signature.Results().Len() != 1 {
			return false
		}
		for i, arg := range a {
			if !isSrc(arg) || i >= len(g.Params) {
				continue
			}
			rets := ssau.ReturnsOf(g)
			all := len(rets) > 0
			for _, ret := range rets {
				if !c05FreshCopyOf(c, g, ssau.Strip(ssau.ResultValue(ret, 0)), g.Params[i], ret, d+1) {
					all = false
				}
			}
			if all {
				return true
			}
		}
	}
	return false
}
