package rules

import (
	"fmt"
	"go/token"
	"go/types"
	"os"
	"sort"
	"strings"
	"wtfverif/checker/internal/bounds"

	"golang.org/x/tools/go/ssa"

	"wtfverif/checker/internal/load"
	"wtfverif/checker/internal/pathev"
	"wtfverif/checker/internal/ssau"
	"wtfverif/checker/internal/tables"
)

const (
	dbPkg    = load.ModulePath + "/internal/database"
	srType   = dbPkg + ".SearchResult"
	histType = load.ModulePath + "/internal/history.SearchHistory"
	histMeth = "(*" + load.ModulePath + "/internal/history.SearchHistory)."
	validPkg = load.ModulePath + "/internal/validation"
)

func init() {
	register(&Rule{
		Prop: "C17",
		Explanation: "Static tables and path facts of package cli: (O-1) the cobra command tree and every flag registration are extracted from the SSA of the package initialisers and merged with pflag v1.0.6 / cobra v1.9.1 semantics (re-read from the dependency's source in the module cache) — any name/shorthand collision that makes pflag panic before Run is a violation, and every Flags().GetXxx(\"n\") resolves to a registered flag of that type on every command under which the closure runs; " +
			"(O-2) between the engine call and the print loops the result slice is only re-sorted stably by descending Score, is bounded by the limit handed to the engine, and every print loop emits on every iteration; (O-3) in the json branch the only output is one Encoder.Encode of a slice built with exactly one append per result; (O-4) every string constant containing ESC is an argument of the colour gate that returns \"\" when the --no-color flag or NO_COLOR is set; (O-5) every path through the engine call records exactly one AddEntry(validated query, len(results)) followed by one Save, paths that never reach the engine record nothing; (O-6) every implicit run-time check (index, slice bound, make size, integer division, single-result type assertion) in the code reachable from a command's Run function and outside the engine scope that C10 decides is proven safe for all arguments, with len(args) bounded below by the command's cobra Args validator (cobra's execute is re-verified to call Run only after ValidateArgs succeeded). " +
			"Nil dereferences, explicit exits in the command layer and terminal rendering are NOT decided.",
		NotDecided:  []string{"nil dereferences and deliberate os.Exit/log.Fatal in the command layer", "well-formedness of encoding/json output (library)", "terminal rendering"},
		Assumptions: []string{"cobra v1.9.1 / pflag v1.0.6 merge semantics as modelled in tables.Merge (AddFlagSet skips same-name flags, AddFlag panics on a reused shorthand, InitDefaultHelpFlag adds help/h)"},
		Run:         runC17,
	})
}

func cliTree(c *Ctx) *tables.Tree {
	sp := c.P.SSAPkg("internal/cli")
	if sp == nil {
		return nil
	}
	t := tables.CobraTree(sp, c.P.RepoFuncs())
	if t == nil {
		return nil
	}
	// a Run closure that only hands (cmd, args) to a function of the package
	// (and reports the error it returns): that function is the command's body
	for _, cmd := range t.Cmds {
		if cmd.Run == nil || len(cmd.Run.Params) < 2 {
			continue
		}
		var body *ssa.Function
		n := 0
		ssau.ForEachInstr(cmd.Run, false, func(in ssa.Instruction) {
			call, ok := in.(*ssa.Call)
			if !ok {
				return
			}
			g := call.Common().StaticCallee()
			if g == nil || g.Blocks == nil || !c.P.IsRepoFunc(g) || g.Pkg != cmd.Run.Pkg {
				return
			}
			a := call.Common().Args
			if len(a) == 2 && len(g.Params) == 2 && (a[0] == ssa.Value(cmd.Run.Params[0]) || ssau.ParamOf(a[0]) == cmd.Run.Params[0]) && (a[1] == ssa.Value(cmd.Run.Params[1]) || ssau.ParamOf(a[1]) == cmd.Run.Params[1]) {
				body = g
				n++
			}
		})
		if n == 1 && body != nil && len(cmd.Run.Blocks) <= 4 {
			cmd.Run = body
		}
	}
	return t
}

// flagTableRules is shared by C08 O-1 and C17 O-1. only restricts the
// commands examined ("" = all).
func flagTableRules(c *Ctx, rule string, t *tables.Tree, only map[string]bool) {
	r := c.R
	var names []string
	for n := range t.Cmds {
		names = append(names, n)
	}
	sort.Strings(names)
	for _, u := range t.Unresolved {
		r.Unknown(rule, "cli#flag-table:"+u, "", "flag table could not be fully extracted")
	}
	nFlags := 0
	for _, n := range names {
		if only != nil && !only[n] {
			continue
		}
		cmd := t.Cmds[n]
		for _, f := range cmd.Flags {
			nFlags++
			if !f.ConstName {
				r.Unknown(rule, fmt.Sprintf("cli.%s/flag@%s", n, c.P.Pos(f.Pos)), c.P.Pos(f.Pos), "flag name or shorthand is not a compile-time constant")
			}
		}
		if cmd.Parent == "" && n != "rootCmd" {
			continue // not attached to the shipped tree
		}
		m := t.Merge(n)
		key := "cli." + n + "/flag-merge"
		pos := ""
		if cmd.Run != nil {
			pos = c.P.Pos(cmd.Run.Pos())
		}
		if len(m.Panics) == 0 {
			r.OK(rule, key, pos, fmt.Sprintf("%d effective flags, no collision", len(m.Effective)))
		} else {
			for _, p := range m.Panics {
				// one obligation per colliding flag so that a different collision is a different key
				r.Bad(rule, key+":"+collisionKey(p), pos, "pflag panics before Run: "+p)
			}
		}
	}
	if only == nil {
		r.Floor(rule, "flag registrations", nFlags, 20)
	}
}

func collisionKey(p string) string {
	// "shorthand -p of --platform (rootCmd persistent flags) is already used for --platforms"
	f := strings.Fields(p)
	for i, w := range f {
		if strings.HasPrefix(w, "--") && i > 0 {
			return strings.Trim(w, "-")
		}
	}
	return p
}

// runsUnder returns the commands under which closure fn executes.
func runsUnder(c *Ctx, t *tables.Tree, fn *ssa.Function) []string {
	top := fn
	var out []string
	for n, cmd := range t.Cmds {
		// the Run closure itself, or a helper of the package it calls
		// (directly or through other helpers)
		steps := map[*ssa.Function]bool{}
		if cmd.Run != nil {
			for _, g := range withSteps(c, cmd.Run, 4) {
				steps[g] = true
			}
		}
		for f := top; f != nil; f = f.Parent() {
			if cmd.Run == f || (cmd.Run != nil && steps[f]) {
				out = append(out, n)
				for d, ts := range t.Delegates {
					for _, x := range ts {
						if x == n {
							out = append(out, d)
						}
					}
				}
			}
		}
	}
	sort.Strings(out)
	return out
}

func flagReadRules(c *Ctx, rule string, t *tables.Tree, only map[string]bool) int {
	r := c.R
	n := 0
	for _, rd := range t.Reads {
		under := runsUnder(c, t, rd.Fn)
		if len(under) == 0 {
			continue // read outside any command's Run (helper); nothing to resolve against
		}
		relevant := only == nil
		for _, u := range under {
			if only[u] {
				relevant = true
			}
		}
		if !relevant {
			continue
		}
		n++
		for _, u := range under {
			key := fmt.Sprintf("cli.%s/flag-read:%s", u, rd.Name)
			if !rd.Const {
				r.Unknown(rule, key, c.P.Pos(rd.Pos), "flag name is not a constant")
				continue
			}
			cmd := t.Cmds[u]
			if cmd.Parent == "" && u != "rootCmd" {
				continue
			}
			m := t.Merge(u)
			f, ok := m.Effective[rd.Name]
			switch {
			case !ok:
				r.Bad(rule, key, c.P.Pos(rd.Pos), fmt.Sprintf("Get%s(%q) names a flag that is not registered on %s or its ancestors: the (discarded) error leaves the zero value", strings.Title(rd.Kind), rd.Name, u))
			case f.Kind != rd.Kind:
				r.Bad(rule, key, c.P.Pos(rd.Pos), fmt.Sprintf("flag --%s is registered as %s but read with Get%s: the (discarded) error leaves the zero value", rd.Name, f.Kind, strings.Title(rd.Kind)))
			default:
				r.OK(rule, key, c.P.Pos(rd.Pos), "resolves to a "+f.Kind+" flag")
			}
		}
	}
	return n
}

func runC17(c *Ctx) {
	r := c.R
	r.Rule("O-1", "flag tables are collision-free for every command of the tree and every Flags().GetXxx(name) in a Run closure resolves to a registered flag of that type on every command the closure runs under")
	r.Rule("O-2", "between the engine call and the print loops the result slice is only re-sorted with a stable sort on Score descending; every print loop emits on every iteration (no filter)")
	r.Rule("O-3", "in the json branch the only output is one Encoder.Encode(out) where out receives exactly one append per result; no fmt.Print* in that branch")
	r.Rule("O-4", "every string constant containing ESC (0x1b) in the shipped packages is an argument of the colour gate of package cli, which returns \"\" when no-color is set; no-color is the --no-color flag or NO_COLOR")
	r.Rule("O-5", "on every path of the search command through the engine call: exactly one AddEntry(validated query, len(results)) then one Save on the same history; on paths that never reach the engine: none")

	t := cliTree(c)
	if !r.Anchor("O-1", "cli command tree", t != nil && len(t.Cmds) > 0) {
		return
	}
	var cmds []string
	for n, cmd := range t.Cmds {
		cmds = append(cmds, fmt.Sprintf("%s(parent=%s, flags=%d)", n, cmd.Parent, len(cmd.Flags)))
	}
	sort.Strings(cmds)
	r.Analysed["commands"] = cmds
	r.Floor("O-1", "commands in the tree", len(t.Cmds), 9)
	flagTableRules(c, "O-1", t, nil)
	nr := flagReadRules(c, "O-1", t, nil)
	r.Floor("O-1", "flag reads resolved", nr, 15)
	c17DepContract(c)

	sc := t.Cmds["searchCmd"]
	if !r.Anchor("O-5", "cli.searchCmd.Run", sc != nil && sc.Run != nil) {
		return
	}
	run := sc.Run
	c17History(c, run)
	c17Output(c, run)
	eng, _ := c01Engine(c)
	c01Print(c, eng, "O-2")
	c17Colour(c, run)
	c17Implicit(c, t)
}

// c17Implicit: O-6. Every implicit run-time check in the code that runs
// under a command of the tree and is not already in C10's scope (the engine)
// is proven safe by the same prover.
func c17Implicit(c *Ctx, t *tables.Tree) {
	r := c.R
	r.Rule("O-6", "no implicit run-time check can fail in the command layer: every index, slice bound, make size, integer division and single-result type assertion reachable from a command's Run function and outside the engine scope decided by C10 is proven safe for all arguments (same prover as C10 O-6)")
	var roots []*ssa.Function
	var names []string
	for n := range t.Cmds {
		names = append(names, n)
	}
	sort.Strings(names)
	for _, n := range names {
		if cmd := t.Cmds[n]; cmd.Run != nil {
			roots = append(roots, cmd.Run)
		}
	}
	if mainFn := c.P.Func("cmd/wtf", "", "main"); mainFn != nil {
		roots = append(roots, mainFn)
	}
	engine := map[*ssa.Function]bool{}
	for _, fn := range reachClosure(c, c10Roots(c)) {
		engine[fn] = true
	}
	scope := reachClosure(c, roots)
	n := 0
	for _, fn := range scope {
		if !engine[fn] && fn.Synthetic == "" {
			n++
		}
	}
	r.Floor("O-6", "command-layer functions outside the engine scope", n, 40)
	// cobra validates the positional-argument count before Run
	// (re-verified on the dependency below): len(args) >= the declared minimum
	argsLo := map[*ssa.Parameter]int64{}
	for _, n := range names {
		cmd := t.Cmds[n]
		if cmd.Run != nil && cmd.ArgsSet && len(cmd.Run.Params) == 2 {
			argsLo[cmd.Run.Params[1]] = int64(cmd.ArgsLo)
		}
	}
	contract := c17ArgsContract(c)
	c10ImplicitChecks(c, "O-6", append(roots, c10Roots(c)...), scope, engine, func(f *bounds.Fn, x ssa.Value) (int64, bool) {
		if p, ok := x.(*ssa.Parameter); ok && contract {
			if lo, ok := argsLo[p]; ok {
				return lo, true
			}
		}
		return 0, false
	})
}

// c17ArgsContract re-verifies on cobra's SSA that (*Command).execute calls
// Run/RunE only after ValidateArgs returned nil.
func c17ArgsContract(c *Ctx) bool {
	r := c.R
	ex := c.P.DepFunc("github.com/spf13/cobra", "Command", "execute")
	if ex == nil {
		r.Unknown("O-6", "dep:cobra.(*Command).execute", "", "dependency function not found")
		return false
	}
	var validate *ssa.Call
	var runs []*ssa.Call
	ssau.ForEachInstr(ex, false, func(in ssa.Instruction) {
		call, ok := in.(*ssa.Call)
		if !ok {
			return
		}
		if strings.HasSuffix(ssau.CallName(call), "cobra.Command).ValidateArgs") {
			validate = call
		}
		if u, ok := call.Common().Value.(*ssa.UnOp); ok {
			if fa, ok := u.X.(*ssa.FieldAddr); ok && (ssau.FieldName(fa) == "Run" || ssau.FieldName(fa) == "RunE") {
				runs = append(runs, call)
			}
		}
	})
	ok := validate != nil && len(runs) >= 1
	if ok {
		succ, _ := nilTests(validate)
		for _, rc := range runs {
			if len(succ) == 0 || ssau.ReachableAvoidingEdges(ex, rc.Block(), succ) {
				ok = false
			}
		}
	}
	return r.Check(ok, "O-6", "dep:cobra.(*Command).execute#validates-args-before-run", c.P.Pos(ex.Pos()), fmt.Sprintf("%d Run/RunE calls, all behind ValidateArgs == nil", len(runs)), "cobra no longer validates the positional arguments before calling Run: args[i] in a Run function is unguarded")
}

// c17DepContract re-verifies on the dependency's SSA the two facts the merge
// model relies on: pflag.(*FlagSet).AddFlag can panic, and AddFlagSet guards
// AddFlag by a Lookup of the same name.
func c17DepContract(c *Ctx) {
	r := c.R
	add := c.P.DepFunc("github.com/spf13/pflag", "FlagSet", "AddFlag")
	if add == nil {
		r.Unknown("O-1", "dep:pflag.(*FlagSet).AddFlag", "", "dependency function not found")
		return
	}
	panics := 0
	ssau.ForEachInstr(add, false, func(in ssa.Instruction) {
		if _, ok := in.(*ssa.Panic); ok {
			panics++
		}
	})
	r.Check(panics >= 2, "O-1", "dep:pflag.(*FlagSet).AddFlag#panics", c.P.Pos(add.Pos()), fmt.Sprintf("%d panic sites (redefined name, reused shorthand)", panics), "pflag.AddFlag no longer panics on collisions: the merge model is out of date")
	set := c.P.DepFunc("github.com/spf13/pflag", "FlagSet", "AddFlagSet")
	guard := false
	if set != nil {
		ssau.ForEachInstr(set, true, func(in ssa.Instruction) {
			if call, ok := in.(*ssa.Call); ok && strings.HasSuffix(ssau.CallName(call), "FlagSet).Lookup") {
				guard = true
			}
		})
	}
	r.Check(guard, "O-1", "dep:pflag.(*FlagSet).AddFlagSet#lookup-guard", "", "same-name flags are skipped", "pflag.AddFlagSet no longer skips flags already present")
	help := c.P.DepFunc("github.com/spf13/cobra", "Command", "InitDefaultHelpFlag")
	hasH := false
	if help != nil {
		ssau.ForEachInstr(help, false, func(in ssa.Instruction) {
			if call, ok := in.(*ssa.Call); ok && strings.HasSuffix(ssau.CallName(call), "FlagSet).BoolP") {
				if s, ok := ssau.ConstString(call.Common().Args[2]); ok && s == "h" {
					hasH = true
				}
			}
		})
	}
	r.Check(hasH, "O-1", "dep:cobra.(*Command).InitDefaultHelpFlag#help-h", "", "cobra adds help/h", "cobra's default help flag changed: the merge model is out of date")
}

func isEngineCall(call *ssa.Call) bool {
	cal := call.Common().StaticCallee()
	if cal == nil || cal.Pkg == nil || cal.Pkg.Pkg.Path() != dbPkg || cal.Signature.Recv() == nil {
		return false
	}
	res := cal.Signature.Results()
	if res.Len() != 1 {
		return false
	}
	return isSearchResultSlice(res.At(0).Type())
}

func isSearchResultSlice(t interface{ String() string }) bool {
	return t.String() == "[]"+srType
}

// resultsCellOf finds the local cell that holds the engine's result.
func resultsCellOf(engine *ssa.Call) ssa.Value {
	for _, ref := range *engine.Referrers() {
		if st, ok := ref.(*ssa.Store); ok && st.Val == ssa.Value(engine) {
			return st.Addr
		}
	}
	return nil
}

func c17History(c *Ctx, run *ssa.Function) {
	r := c.R
	fk := "cli.searchCmd.Run"
	base := func(in ssa.Instruction) []string {
		call, ok := in.(*ssa.Call)
		if !ok {
			return nil
		}
		switch ssau.CallName(call) {
		case histMeth + "AddEntry":
			return []string{"AddEntry"}
		case histMeth + "Save":
			return []string{"Save"}
		}
		if isEngineCall(call) {
			return []string{"engine"}
		}
		return nil
	}
	// a helper of package cli that records the search (AddEntry and Save exactly
	// once on each of its exits) counts as both events at its call site; one
	// that records on some exits only counts twice, which the exactly-once
	// test below rejects
	var helper *ssa.Call
	sum := map[*ssa.Function][]string{}
	tag := func(in ssa.Instruction) []string {
		if t := base(in); t != nil {
			return t
		}
		call, ok := in.(*ssa.Call)
		if !ok {
			return nil
		}
		g := call.Common().StaticCallee()
		if g == nil || g.Blocks == nil || g.Pkg == nil || g.Pkg.Pkg.Path() != cliPkg {
			return nil
		}
		if t, done := sum[g]; done {
			if len(t) > 0 {
				helper = call
			}
			return t
		}
		sum[g] = nil
		var out []string
		any := false
		for _, ev := range []string{"AddEntry", "Save"} {
			all, none := true, true
			for _, m := range pathev.New(base, nil).Exits(g) {
				e := m.Get(ev)
				if !e.ExactlyOnce() {
					all = false
				}
				if !e.Never() {
					none = false
				}
			}
			switch {
			case none:
			case all:
				out = append(out, ev)
				any = true
			default:
				out = append(out, ev, ev)
				any = true
			}
		}
		sum[g] = out
		if any {
			helper = call
		}
		return out
	}
	eng := pathev.New(tag, nil)
	nThrough := 0
	for ret, m := range eng.Exits(run) {
		key := fmt.Sprintf("%s#exit@%s", fk, c17ExitName(c, run, ret))
		e, a, s := m.Get("engine"), m.Get("AddEntry"), m.Get("Save")
		switch {
		case e.Never():
			r.Check(a.Never() && s.Never(), "O-5", key, c.P.Pos(ret.Pos()), "no engine call, nothing recorded", fmt.Sprintf("a path that never searched records history: AddEntry%v Save%v", a, s))
		case e.Always():
			nThrough++
			r.Check(e.ExactlyOnce() && a.ExactlyOnce() && s.ExactlyOnce(), "O-5", key, c.P.Pos(ret.Pos()), "engine once, AddEntry once, Save once", fmt.Sprintf("engine%v AddEntry%v Save%v (want exactly one of each)", e, a, s))
		default:
			r.Unknown("O-5", key, c.P.Pos(ret.Pos()), fmt.Sprintf("exit reachable both with and without the engine call: engine%v", e))
		}
	}
	r.Floor("O-5", "exits through the engine", nThrough, 2)
	var engine, add, save *ssa.Call
	ssau.ForEachInstr(run, false, func(in ssa.Instruction) {
		call, ok := in.(*ssa.Call)
		if !ok {
			return
		}
		for _, t := range base(call) {
			switch t {
			case "engine":
				engine = call
			case "AddEntry":
				add = call
			case "Save":
				save = call
			}
		}
	})
	// when the recording lives in a helper, AddEntry and Save are looked up
	// there and their arguments are read back through the helper's parameters
	argOf := func(v ssa.Value) ssa.Value { return v }
	first := ssa.Instruction(nil)
	if (add == nil || save == nil) && helper != nil {
		h := helper.Common().StaticCallee()
		ssau.ForEachInstr(h, false, func(in ssa.Instruction) {
			if call, ok := in.(*ssa.Call); ok {
				switch ssau.CallName(call) {
				case histMeth + "AddEntry":
					add = call
				case histMeth + "Save":
					save = call
				}
			}
		})
		argOf = func(v ssa.Value) ssa.Value {
			for i, p := range h.Params {
				if v == ssa.Value(p) && i < len(helper.Common().Args) {
					return helper.Common().Args[i]
				}
			}
			return v
		}
		first = helper
	}
	if engine == nil || add == nil || save == nil {
		r.Unknown("O-5", fk+"#calls", c.P.Pos(run.Pos()), "engine/AddEntry/Save call not found")
		return
	}
	if first == nil {
		first = add
	}
	if os.Getenv("WTF_DEBUG_C17") != "" {
		fmt.Println("DEBUG c17: engine", engine, "first", first, "add", add, "save", save, "dom", ssau.Dominates(engine, first), ssau.Dominates(add, save), add.Common().Args[0] == save.Common().Args[0])
	}
	r.Check(ssau.Dominates(engine, first) && ssau.Dominates(add, save) && add.Common().Args[0] == save.Common().Args[0], "O-5", fk+"#order", c.P.Pos(add.Pos()), "engine < AddEntry < Save on the same history object", "AddEntry/Save are not ordered after the engine call on the same history object")
	// query argument: the validated query, same value as handed to the engine
	q := argOf(add.Common().Args[1])
	validated := false
	if ex, ok := q.(*ssa.Extract); ok && ex.Index == 0 {
		if vc, ok := ex.Tuple.(*ssa.Call); ok && ssau.CallName(vc) == validPkg+".ValidateQuery" {
			validated = true
		}
	}
	sameAsEngine := len(engine.Common().Args) > 1 && engine.Common().Args[1] == q
	r.Check(validated && sameAsEngine, "O-5", fk+"#AddEntry-query", c.P.Pos(add.Pos()), "records ValidateQuery's result, the same value the engine searched", "the recorded query is not the validated query handed to the engine")
	// count argument: len(results cell) with no later store to the cell
	cell := resultsCellOf(engine)
	cnt := argOf(add.Common().Args[2])
	okCnt := false
	if lc, ok := cnt.(*ssa.Call); ok && ssau.CallName(lc) == "builtin.len" {
		of := argOf(lc.Common().Args[0])
		if u, ok := of.(*ssa.UnOp); ok && cell != nil && u.X == cell {
			okCnt = true
		}
		if cell == nil && of == ssa.Value(engine) {
			// results held in an SSA value (no cell): len(engine result)
			okCnt = true
		}
		if phi, isPhi := of.(*ssa.Phi); isPhi && cell == nil {
			// the result variable after the recovery merge: one of its sources is
			// the engine result, and it is the merge that dominates the recording
			var walk func(v ssa.Value, d int) bool
			walk = func(v ssa.Value, d int) bool {
				if v == ssa.Value(engine) {
					return true
				}
				if p, ok := v.(*ssa.Phi); ok && d < 4 {
					for _, e := range p.Edges {
						if walk(e, d+1) {
							return true
						}
					}
				}
				return false
			}
			okCnt = walk(phi, 0)
		}
	}
	r.Check(okCnt, "O-5", fk+"#AddEntry-count", c.P.Pos(add.Pos()), "records len(results)", "the recorded result count is not len() of the result list")
	if cell != nil {
		late := false
		for _, ref := range *cell.Referrers() {
			if st, ok := ref.(*ssa.Store); ok && st.Addr == cell {
				if ssau.Dominates(first, st) || ssau.Reachable(first.Block(), st.Block(), nil) && st.Block() != first.Block() {
					late = true
				}
			}
		}
		r.Check(!late, "O-5", fk+"#results-stable-after-record", c.P.Pos(add.Pos()), "result list not reassigned after being recorded", "the result list is reassigned after its length was recorded in the history")
	}
}

// c17OneItemPerElement: h ranges over its parameter p in order and produces
// exactly one element of its result per iteration, unconditionally: an append
// to the result list, or a store at out[i] of a list made with len(p).
func c17OneItemPerElement(h *ssa.Function, p *ssa.Parameter) bool {
	var loop *ssau.RangeLoop
	ls := ssau.RangeLoops(h)
	for i := range ls {
		if !ls[i].IsMap && ls[i].Over == ssa.Value(p) {
			loop = &ls[i]
		}
	}
	if loop == nil || h.Signature.Results().Len() != 1 {
		return false
	}
	resT := h.Signature.Results().At(0).Type().String()
	eng := pathev.New(func(in ssa.Instruction) []string {
		switch x := in.(type) {
		case *ssa.Call:
			if ssau.CallName(x) == "builtin.append" && x.Type().String() == resT {
				return []string{"item"}
			}
		case *ssa.Store:
			if ia, ok := x.Addr.(*ssa.IndexAddr); ok && ia.X.Type().String() == resT && ia.Index == loop.Index {
				if mk, ok := ia.X.(*ssa.MakeSlice); ok {
					if lc, ok := mk.Len.(*ssa.Call); ok && ssau.CallName(lc) == "builtin.len" && lc.Common().Args[0] == ssa.Value(p) {
						return []string{"item"}
					}
				}
			}
		}
		return nil
	}, nil)
	m, early, reach := eng.Between(loop.Body, loop.Header)
	return reach && len(early) == 0 && m.Get("item").ExactlyOnce()
}

func c17ExitName(c *Ctx, fn *ssa.Function, ret *ssa.Return) string {
	// name an exit by the last user-visible call before it (stable across line moves)
	b := ret.Block()
	for i := len(b.Instrs) - 1; i >= 0; i-- {
		if call, ok := b.Instrs[i].(*ssa.Call); ok {
			n := ssau.CallName(call)
			if strings.HasPrefix(n, "fmt.Print") && len(call.Common().Args) > 0 {
				if s, ok := ssau.ConstString(call.Common().Args[0]); ok {
					s = strings.TrimSpace(s)
					if len(s) > 24 {
						s = s[:24]
					}
					return "after-print:" + s
				}
			}
		}
	}
	n := 0
	for _, r2 := range ssau.ReturnsOf(fn) {
		if r2 == ret {
			break
		}
		n++
	}
	return fmt.Sprintf("ret%d", n)
}

func isPrintCall(call *ssa.Call) bool {
	n := ssau.CallName(call)
	return strings.HasPrefix(n, "fmt.Print") || strings.HasPrefix(n, "fmt.Fprint") || n == "(*encoding/json.Encoder).Encode" ||
		n == "(*os.File).Write" || n == "(*os.File).WriteString" || n == "builtin.print" || n == "builtin.println"
}

func c17Output(c *Ctx, run *ssa.Function) {
	r := c.R
	fk := "cli.searchCmd.Run"
	var engine *ssa.Call
	ssau.ForEachInstr(run, false, func(in ssa.Instruction) {
		if call, ok := in.(*ssa.Call); ok && isEngineCall(call) {
			engine = call
		}
	})
	if engine == nil {
		return
	}
	cell := resultsCellOf(engine)
	// without a variable cell the result list is the engine's value and the
	// merges it flows into (results = recovered list on the no-result path)
	listVals := map[ssa.Value]bool{engine: true}
	if cell == nil {
		for changed := true; changed; {
			changed = false
			ssau.ForEachInstr(run, false, func(in ssa.Instruction) {
				if phi, ok := in.(*ssa.Phi); ok && !listVals[phi] {
					for _, e := range phi.Edges {
						if listVals[e] {
							listVals[phi] = true
							changed = true
						}
					}
				}
			})
		}
	}
	isCellLoad := func(v ssa.Value) bool {
		if cell == nil {
			return listVals[v]
		}
		u, ok := v.(*ssa.UnOp)
		return ok && u.Op == token.MUL && u.X == cell
	}
	// sorts of the result list
	nSort := 0
	ssau.ForEachInstr(run, false, func(in ssa.Instruction) {
		call, ok := in.(*ssa.Call)
		if !ok {
			return
		}
		n := ssau.CallName(call)
		if !strings.HasPrefix(n, "sort.") && !strings.HasPrefix(n, "slices.Sort") {
			return
		}
		a0 := ssau.Strip(call.Common().Args[0])
		if !isCellLoad(a0) {
			return
		}
		nSort++
		key := fk + "#resort"
		if n != "sort.SliceStable" && n != "slices.SortStableFunc" {
			r.Bad("O-2", key, c.P.Pos(call.Pos()), "results are re-sorted with "+n+", which is not stable: equal scores are reordered relative to the engine's rank order")
			return
		}
		desc := isScoreDescComparator(comparatorFunc(call.Common().Args[1]))
		r.Check(desc, "O-2", key, c.P.Pos(call.Pos()), "stable sort by Score descending", "the display sort does not order by Score descending")
	})
	// The places where the list is walked and printed: the command itself and
	// the helpers of package cli it hands the list to.
	type routine struct {
		fn     *ssa.Function
		isList func(ssa.Value) bool
		via    *ssa.Call   // the call in the command (nil: the command itself)
		chain  []*ssa.Call // the calls from the command down to fn
	}
	routines := []routine{{run, isCellLoad, nil, nil}}
	for _, rt := range outputRoutines(c, run) {
		if !isCellLoad(rt.arg) {
			continue
		}
		p := rt.param
		routines = append(routines, routine{rt.fn, func(v ssa.Value) bool { return v == ssa.Value(p) || ssau.ParamOf(v) == p }, rt.call, rt.chain})
	}
	// print loops over the result list
	loops := 0
	type jsonLoop struct {
		rt   routine
		body *ssa.BasicBlock
	}
	var jsonBody *jsonLoop
	for _, rt := range routines {
		rt := rt
		for _, l := range ssau.RangeLoops(rt.fn) {
			if l.IsMap || l.Over == nil || !rt.isList(l.Over) {
				continue
			}
			body, header := l.Body, l.Header
			idxVal := l.Index
			pos := c.P.Pos(body.Instrs[0].Pos())
			loops++
			// items of the output list: an append to it, or the fill of out[i] of a
			// list made with len(results) elements (i the loop's own index)
			isItem := func(in ssa.Instruction) string {
				switch x := in.(type) {
				case *ssa.Call:
					if ssau.CallName(x) == "builtin.append" && !strings.HasPrefix(x.Type().String(), "[]string") {
						return "item"
					}
				case *ssa.IndexAddr:
					// out[i] of a list made with len(results) elements: one
					// element per result by construction, however it is filled
					if mk, ok := x.X.(*ssa.MakeSlice); ok && x.Index == idxVal {
						if lc, ok := mk.Len.(*ssa.Call); ok && ssau.CallName(lc) == "builtin.len" && rt.isList(lc.Common().Args[0]) {
							return "fill"
						}
					}
				}
				return ""
			}
			eng := pathev.New(func(in ssa.Instruction) []string {
				if call, ok := in.(*ssa.Call); ok && isPrintCall(call) {
					return []string{"print"}
				}
				if ev := isItem(in); ev != "" {
					return []string{ev}
				}
				return nil
			}, nil)
			m, early, reach := eng.Between(body, header)
			key := fmt.Sprintf("%s#print-loop-%d", fk, loops)
			if !reach || len(early) > 0 {
				r.Bad("O-2", key, pos, "a loop over the results can leave early (return/break path) before all results are emitted")
				continue
			}
			switch {
			case m.Get("print").Always():
				r.OK("O-2", key, pos, "every iteration prints")
			case m.Get("print").Never() && m.Get("item") == pathev.Zero && m.Get("fill") != pathev.Zero:
				jsonBody = &jsonLoop{rt, body}
				r.OK("O-3", fk+"#json-one-item-per-result", pos, "the output list is made with len(results) elements and element i is filled from result i")
			case m.Get("print").Never() && m.Get("item") != pathev.Zero:
				jsonBody = &jsonLoop{rt, body}
				r.Check(m.Get("item").ExactlyOnce() && m.Get("fill") == pathev.Zero, "O-3", fk+"#json-one-item-per-result", pos, "exactly one item of the output list per result", fmt.Sprintf("the json item loop produces %v items per result", m.Get("item")))
			default:
				r.Bad("O-2", key, pos, fmt.Sprintf("a loop over the results does not emit on every iteration (print%v): results are filtered at display time", m.Get("print")))
			}
		}
	}
	r.Floor("O-2", "loops over the result list", loops, 3)

	// the JSON block is written once: Encoder.Encode(list), or the bytes of
	// json.Marshal/MarshalIndent(list) written to standard output
	type emit struct {
		rt   routine
		call *ssa.Call // the call that produces the JSON text
		list ssa.Value
		out  *ssa.Call // the call that writes it (== call for Encode)
	}
	var emits []emit
	for _, rt := range routines {
		rt := rt
		ssau.ForEachInstr(rt.fn, false, func(in ssa.Instruction) {
			call, ok := in.(*ssa.Call)
			if !ok {
				return
			}
			switch n := ssau.CallName(call); {
			case n == "(*encoding/json.Encoder).Encode":
				emits = append(emits, emit{rt, call, ssau.Strip(call.Common().Args[1]), call})
			case n == "encoding/json.Marshal" || n == "encoding/json.MarshalIndent":
				emits = append(emits, emit{rt, call, ssau.Strip(call.Common().Args[0]), nil})
			}
		})
	}
	if len(emits) != 1 {
		r.Bad("O-3", fk+"#json-encode", c.P.Pos(run.Pos()), fmt.Sprintf("expected exactly one JSON emission (Encoder.Encode or Marshal) in the json branch fed by a one-item-per-result list, found %d", len(emits)))
		return
	}
	em := emits[0]
	// the item list may be built by a helper that is handed the result list
	helperBuilt := false
	if jsonBody == nil {
		if hc, ok := em.list.(*ssa.Call); ok {
			if h := hc.Common().StaticCallee(); h != nil && h.Blocks != nil && h.Pkg != nil && h.Pkg.Pkg.Path() == cliPkg {
				for pi, a := range hc.Common().Args {
					if em.rt.isList(a) && pi < len(h.Params) && c17OneItemPerElement(h, h.Params[pi]) {
						helperBuilt = true
						r.OK("O-3", fk+"#json-one-item-per-result", c.P.Pos(hc.Pos()), "the helper "+h.Name()+" emits exactly one item per result, in order")
					}
				}
			}
		}
	}
	if jsonBody == nil && !helperBuilt {
		r.Bad("O-3", fk+"#json-encode", c.P.Pos(run.Pos()), "the JSON emission is not fed by a one-item-per-result list")
		return
	}
	// where the text goes: for Marshal, its bytes (possibly with a newline
	// appended, or converted to a string) are what one write to stdout prints
	toStdout := false
	if em.out != nil {
		if ne, ok := em.call.Common().Args[0].(*ssa.Call); ok && ssau.CallName(ne) == "encoding/json.NewEncoder" {
			toStdout = isStdout(ne.Common().Args[0]) || flushedStdoutBuffer(ne.Common().Args[0])
		}
	} else {
		data := resultValue(em.call, 0)
		derived := map[ssa.Value]bool{data: true}
		for changed := true; changed; {
			changed = false
			ssau.ForEachInstr(em.rt.fn, false, func(in ssa.Instruction) {
				v, ok := in.(ssa.Value)
				if !ok || derived[v] {
					return
				}
				switch x := in.(type) {
				case *ssa.Call:
					if ssau.CallName(x) == "builtin.append" && derived[x.Common().Args[0]] {
						derived[v], changed = true, true
					}
				case *ssa.Convert:
					if derived[x.X] {
						derived[v], changed = true, true
					}
				case *ssa.MakeInterface:
					if derived[x.X] {
						derived[v], changed = true, true
					}
				}
			})
		}
		ssau.ForEachInstr(em.rt.fn, false, func(in ssa.Instruction) {
			call, ok := in.(*ssa.Call)
			if !ok || !isPrintCall(call) {
				return
			}
			n := ssau.CallName(call)
			a := call.Common().Args
			switch {
			case (n == "(*os.File).Write" || n == "(*os.File).WriteString") && len(a) == 2 && derived[a[1]] && isStdout(a[0]):
				em.out, toStdout = call, true
			case strings.HasPrefix(n, "fmt.Print") && printCarriesAny(call, derived):
				em.out, toStdout = call, true
			}
		})
	}
	r.Check(toStdout, "O-3", fk+"#json-to-stdout", c.P.Pos(em.call.Pos()), "the JSON text is written to os.Stdout", "the JSON text does not reach os.Stdout")

	// the json region: the part of the command under format == "json" — when
	// the emission lives in a helper, the helper's call must be there, and the
	// helper itself prints nothing else
	cd := ssau.ControlDeps(run)
	anchor := em.call.Block()
	regionFn := run
	dispatched := false
	if em.rt.via != nil {
		anchor = em.rt.via.Block()
		// the routine may hold the whole format switch: then the json test and
		// the json region are inside it
		rcd := ssau.ControlDeps(em.rt.fn)
		for _, d := range ssau.TransitiveControlDeps(rcd, em.call.Block()) {
			if _, _, y, ok := ssau.CondOf(d.If().Cond); ok {
				if s, isc := ssau.ConstString(y); isc && s == "json" {
					cd, anchor, regionFn = rcd, em.call.Block(), em.rt.fn
				}
			}
		}
		// or a dispatcher in between: the json test guards the call of the
		// routine that emits
		for lvl := len(em.rt.chain) - 1; lvl >= 1 && regionFn == run; lvl-- {
			site := em.rt.chain[lvl]
			lcd := ssau.ControlDeps(site.Parent())
			for _, d := range ssau.TransitiveControlDeps(lcd, site.Block()) {
				if _, _, y, ok := ssau.CondOf(d.If().Cond); ok {
					if s, isc := ssau.ConstString(y); isc && s == "json" {
						cd, anchor, regionFn = lcd, site.Block(), site.Parent()
						dispatched = true
					}
				}
			}
		}
	}
	encDeps := ssau.TransitiveControlDeps(cd, anchor)
	var jsonIf *ssau.CtrlDep
	for i, d := range encDeps {
		_, _, y, ok := ssau.CondOf(d.If().Cond)
		if !ok {
			continue
		}
		if s, isc := ssau.ConstString(y); isc && s == "json" {
			jsonIf = &encDeps[i]
		}
	}
	if jsonIf == nil && em.rt.via != nil {
		// the format is looked up in a table of printers: the json region is
		// the function registered under "json", under no other key and not
		// as the default for unlisted formats
		if keys, isDefault, picked := funcTableKeys(em.rt.via, em.rt.fn); picked {
			only := len(keys) == 1 && keys[0] == "json" && !isDefault
			r.Check(only, "O-3", fk+"#json-branch", c.P.Pos(em.call.Pos()), "the JSON emission is in the printer registered under \"json\" only", fmt.Sprintf("the printer that emits JSON is registered under %v (default for other formats: %v), not under \"json\" alone", keys, isDefault))
			bad := 0
			ssau.ForEachInstr(em.rt.fn, true, func(ins ssa.Instruction) {
				if call, ok := ins.(*ssa.Call); ok && isPrintCall(call) && call != em.out {
					bad++
				}
			})
			r.Check(bad == 0, "O-3", fk+"#json-branch-clean", c.P.Pos(em.call.Pos()), "only the JSON emission writes in the json printer", fmt.Sprintf("%d other output call(s) inside the json printer corrupt the JSON block", bad))
			built := helperBuilt
			if ph, ok := em.list.(*ssa.Phi); ok {
				for _, e := range ph.Edges {
					if call, ok := e.(*ssa.Call); ok && ssau.CallName(call) == "builtin.append" {
						built = true
					}
				}
			}
			if mk, ok := em.list.(*ssa.MakeSlice); ok && jsonBody != nil {
				for _, ref := range *mk.Referrers() {
					if ia, ok := ref.(*ssa.IndexAddr); ok && ia.Block() == jsonBody.body {
						built = true
					}
				}
			}
			r.Check(built, "O-3", fk+"#json-encode-arg", c.P.Pos(em.call.Pos()), "the JSON emission receives the list built from the results", "the JSON emission is not given the list built in the per-result loop")
			return
		}
	}
	if jsonIf == nil {
		r.Unknown("O-3", fk+"#json-branch", c.P.Pos(em.call.Pos()), "the JSON emission is not under a format == \"json\" test")
		return
	}
	bad := 0
	for _, b := range regionFn.Blocks {
		in := false
		for _, d := range ssau.TransitiveControlDeps(cd, b) {
			if d.Branch == jsonIf.Branch && d.Then == jsonIf.Then {
				in = true
			}
		}
		if !in {
			continue
		}
		for _, ins := range b.Instrs {
			if call, ok := ins.(*ssa.Call); ok && isPrintCall(call) && call != em.out {
				bad++
			}
		}
	}
	if em.rt.via != nil && (regionFn == run || dispatched) {
		ssau.ForEachInstr(em.rt.fn, true, func(ins ssa.Instruction) {
			if call, ok := ins.(*ssa.Call); ok && isPrintCall(call) && call != em.out {
				bad++
			}
		})
	}
	r.Check(bad == 0, "O-3", fk+"#json-branch-clean", c.P.Pos(em.call.Pos()), "only the JSON emission writes in the json branch", fmt.Sprintf("%d other output call(s) inside the json branch corrupt the JSON block", bad))
	// the emitted value is the list built in the per-result loop
	built := helperBuilt
	if hc, ok := em.list.(*ssa.Call); ok && jsonBody != nil && hc.Common().StaticCallee() == jsonBody.rt.fn {
		// the list comes from the helper in which the item loop was found
		built = true
	}
	switch x := em.list.(type) {
	case *ssa.Phi:
		for _, e := range x.Edges {
			if call, ok := e.(*ssa.Call); ok && ssau.CallName(call) == "builtin.append" {
				built = true
			}
		}
	case *ssa.MakeSlice:
		// filled in place by the item loop
		if jsonBody != nil {
			for _, ref := range *x.Referrers() {
				if ia, ok := ref.(*ssa.IndexAddr); ok && ia.Block() == jsonBody.body {
					built = true
				}
			}
		}
	}
	r.Check(built, "O-3", fk+"#json-encode-arg", c.P.Pos(em.call.Pos()), "the JSON emission receives the list built from the results", "the JSON emission is not given the list built in the per-result loop")
}

// isStdout: v is os.Stdout.
func isStdout(v ssa.Value) bool {
	if u, ok := ssau.Strip(v).(*ssa.UnOp); ok {
		if g, ok := u.X.(*ssa.Global); ok && g.Name() == "Stdout" && g.Pkg != nil && g.Pkg.Pkg.Path() == "os" {
			return true
		}
	}
	return false
}

// flushedStdoutBuffer: v is bufio.NewWriter(os.Stdout) / NewWriterSize(os.Stdout, n)
// made in a function that flushes it by a deferred Flush (runs on every way
// out) — what is written to it reaches os.Stdout before the command returns.
func flushedStdoutBuffer(v ssa.Value) bool {
	mk, ok := ssau.Strip(v).(*ssa.Call)
	if !ok {
		return false
	}
	if n := ssau.CallName(mk); (n != "bufio.NewWriter" && n != "bufio.NewWriterSize") || !isStdout(mk.Common().Args[0]) {
		return false
	}
	flushed := false
	for _, ref := range *mk.Referrers() {
		if d, ok := ref.(*ssa.Defer); ok {
			if g := d.Call.StaticCallee(); g != nil && g.String() == "(*bufio.Writer).Flush" && len(d.Call.Args) == 1 && d.Call.Args[0] == ssa.Value(mk) {
				flushed = true
			}
		}
	}
	return flushed
}

// printCarriesAny: one of the variadic arguments of the print call is in set.
func printCarriesAny(pc *ssa.Call, set map[ssa.Value]bool) bool {
	for v := range set {
		if printCarries(pc, v) {
			return true
		}
	}
	return false
}

// isScoreDescComparator recognises an ordering function by descending Score:
// the sort.Slice form func(i, j int) bool { return xs[i].Score > xs[j].Score }
// and the slices.SortFunc form func(a, b SearchResult) int, which returns a
// negative number exactly when a.Score > b.Score, a positive one exactly when
// b.Score > a.Score, and zero otherwise (or cmp.Compare(b.Score, a.Score)).
func isScoreDescComparator(fn *ssa.Function) bool {
	if fn == nil || len(fn.Params) != 2 || len(fn.Blocks) == 0 || fn.Signature.Results().Len() != 1 {
		return false
	}
	if bt, ok := fn.Signature.Results().At(0).Type().Underlying().(*types.Basic); ok && bt.Info()&types.IsInteger != 0 {
		return isScoreDescThreeWay(fn)
	}
	rets := ssau.ReturnsOf(fn)
	if len(rets) != 1 {
		return false
	}
	op, x, y, ok := ssau.CondOf(rets[0].Results[0])
	if !ok {
		return false
	}
	idx := func(v ssa.Value) ssa.Value {
		base, ok := ssau.IsFieldLoad(v, srType, "Score")
		if !ok {
			return nil
		}
		if ia, ok := base.(*ssa.IndexAddr); ok {
			return ia.Index
		}
		return nil
	}
	xi, yi := idx(x), idx(y)
	i, j := ssa.Value(fn.Params[0]), ssa.Value(fn.Params[1])
	return (op == token.GTR && xi == i && yi == j) || (op == token.LSS && xi == j && yi == i)
}

func isScoreDescThreeWay(fn *ssa.Function) bool {
	a, b := fn.Params[0], fn.Params[1]
	// which parameter's Score is v?
	side := func(v ssa.Value) *ssa.Parameter {
		n, base := lastSelector(v)
		if n != "Score" || base == nil {
			return nil
		}
		if p := ssau.ParamOf(base); p != nil {
			return p
		}
		if p, ok := base.(*ssa.Parameter); ok {
			return p
		}
		if u, ok := base.(*ssa.UnOp); ok && u.Op == token.MUL {
			if p, ok := u.X.(*ssa.Parameter); ok {
				return p
			}
		}
		if al, ok := base.(*ssa.Alloc); ok {
			// the parameter spilled into its cell
			for _, ref := range *al.Referrers() {
				if st, ok := ref.(*ssa.Store); ok && st.Addr == ssa.Value(al) {
					if p, ok := st.Val.(*ssa.Parameter); ok {
						return p
					}
				}
			}
		}
		return nil
	}
	// cmp.Compare(b.Score, a.Score)
	if rets := ssau.ReturnsOf(fn); len(rets) == 1 {
		if call, ok := rets[0].Results[0].(*ssa.Call); ok && strings.HasPrefix(ssau.CallName(call), "cmp.Compare") {
			ar := call.Common().Args
			return len(ar) == 2 && side(ar[0]) == b && side(ar[1]) == a
		}
	}
	aGtB, bGtA := map[[2]int]bool{}, map[[2]int]bool{}
	for _, iff := range ssau.Ifs(fn) {
		op, x, y, ok := ssau.CondOf(iff.Cond)
		if !ok {
			continue
		}
		sx, sy := side(x), side(y)
		if sx == nil || sy == nil || sx == sy {
			continue
		}
		if op == token.LSS {
			sx, sy, op = sy, sx, token.GTR
		}
		if op != token.GTR {
			continue
		}
		if sx == a && sy == b {
			aGtB[[2]int{iff.Block().Index, 0}] = true
		}
		if sx == b && sy == a {
			bGtA[[2]int{iff.Block().Index, 0}] = true
		}
	}
	if len(aGtB) == 0 || len(bGtA) == 0 {
		return false
	}
	// exits: (block, constant) — a return of a constant, or an edge into a
	// returned phi carrying one
	type exit struct {
		blk *ssa.BasicBlock
		k   int64
	}
	var exits []exit
	for _, ret := range ssau.ReturnsOf(fn) {
		switch v := ret.Results[0].(type) {
		case *ssa.Const:
			k, ok := ssau.ConstInt(v)
			if !ok {
				return false
			}
			exits = append(exits, exit{ret.Block(), k})
		case *ssa.Phi:
			for i, e := range v.Edges {
				k, ok := ssau.ConstInt(e)
				if !ok {
					return false
				}
				exits = append(exits, exit{v.Block().Preds[i], k})
			}
		default:
			return false
		}
	}
	// negative only behind a.Score > b.Score, positive only behind b.Score > a.Score
	for _, e := range exits {
		switch {
		case e.k < 0:
			if ssau.ReachableAvoidingEdges(fn, e.blk, aGtB) {
				return false
			}
		case e.k > 0:
			if ssau.ReachableAvoidingEdges(fn, e.blk, bGtA) {
				return false
			}
		}
	}
	// and behind each test nothing else: from the true side of a > b only
	// negative exits are reachable, from the true side of b > a only positive
	after := func(edges map[[2]int]bool, want func(int64) bool) bool {
		for ed := range edges {
			from := fn.Blocks[ed[0]].Succs[ed[1]]
			for _, e := range exits {
				if (e.blk == from || ssau.Reachable(from, e.blk, nil)) && !want(e.k) {
					return false
				}
			}
		}
		return true
	}
	return after(aGtB, func(k int64) bool { return k < 0 }) && after(bGtA, func(k int64) bool { return k > 0 })
}

// comparatorFunc: the function behind a comparator argument (a closure or a
// named function).
func comparatorFunc(v ssa.Value) *ssa.Function {
	switch x := v.(type) {
	case *ssa.MakeClosure:
		f, _ := x.Fn.(*ssa.Function)
		return f
	case *ssa.Function:
		return x
	case *ssa.ChangeType:
		return comparatorFunc(x.X)
	}
	return nil
}

// c17NoColorCell: the local variable of the search command that receives
// GetBool("no-color").
func c17NoColorCell(run *ssa.Function) ssa.Value {
	var cell ssa.Value
	ssau.ForEachInstr(run, false, func(in ssa.Instruction) {
		st, ok := in.(*ssa.Store)
		if !ok {
			return
		}
		if ex, ok := st.Val.(*ssa.Extract); ok {
			if call, ok := ex.Tuple.(*ssa.Call); ok && strings.HasSuffix(ssau.CallName(call), "FlagSet).GetBool") {
				if s, _ := ssau.ConstString(call.Common().Args[1]); s == "no-color" {
					cell = st.Addr
				}
			}
		}
	})
	return cell
}

// c17EscControlled: the instruction that uses an ESC constant runs only when
// colours are enabled: it is control-dependent on the no-color variable being
// false (in the search command itself), or on a bool parameter of a helper
// whose every call site passes the no-color variable (ESC on the false side)
// or its negation (ESC on the true side).
func c17EscControlled(c *Ctx, run, fn *ssa.Function, in ssa.Instruction) (bool, string) {
	nc := c17NoColorCell(run)
	isNC := func(v ssa.Value) (neg, ok bool) {
		if u, isU := v.(*ssa.UnOp); isU && u.Op == token.NOT {
			v, neg = u.X, true
		}
		if nc != nil {
			if _, ok2 := isNCLoad(v, nc); ok2 {
				return neg, true
			}
		}
		return neg, c17NoColorValue(v, 0)
	}
	cd := ssau.ControlDeps(fn)
	for _, d := range ssau.TransitiveControlDeps(cd, in.Block()) {
		cond := d.If().Cond
		if fn == run || fn.Parent() == run {
			if neg, ok := isNC(cond); ok && d.Then == neg {
				return true, "runs only when the no-color variable is false"
			}
		}
		p, isP := cond.(*ssa.Parameter)
		negP := false
		if u, isU := cond.(*ssa.UnOp); isU && u.Op == token.NOT {
			p, isP = u.X.(*ssa.Parameter)
			negP = true
		}
		if !isP {
			continue
		}
		// ESC side: the parameter is "disabled" when ESC is on its false side
		escOnTrue := d.Then != negP
		idx := -1
		for i, q := range fn.Params {
			if q == p {
				idx = i
			}
		}
		node := c.P.CallGraph().Nodes[fn]
		if idx < 0 || node == nil || len(node.In) == 0 {
			continue
		}
		all := true
		for _, e := range node.In {
			if e.Caller.Func.Synthetic != "" {
				continue
			}
			args := e.Site.Common().Args
			if idx >= len(args) {
				all = false
				break
			}
			neg, ok := isNC(args[idx])
			// ESC on true side needs the argument to be !noColor; on the false side noColor itself
			if !ok || neg != escOnTrue || !(e.Caller.Func == run || e.Caller.Func.Parent() == run) {
				all = false
				break
			}
		}
		if all {
			return true, "runs only on the colours-enabled side of a parameter that every caller derives from the no-color variable"
		}
	}
	return false, ""
}

// c17NoColorValue: v is the no-color decision held in a plain value: the
// result of GetBool("no-color"), or a merge of it with the constant true set
// under os.LookupEnv("NO_COLOR") reporting the variable present.
func c17NoColorValue(v ssa.Value, d int) bool {
	if d > 3 {
		return false
	}
	switch x := v.(type) {
	case *ssa.Extract:
		// the flag alone is not the whole decision (NO_COLOR must count too):
		// accepted only as an input of the merge below
		if call, ok := x.Tuple.(*ssa.Call); ok && d > 0 && x.Index == 0 && strings.HasSuffix(ssau.CallName(call), "FlagSet).GetBool") {
			s, _ := ssau.ConstString(call.Common().Args[1])
			return s == "no-color"
		}
	case *ssa.Call:
		// a predicate helper of the repository given the flag: it must answer
		// true whenever the flag is set and whenever NO_COLOR is in the
		// environment (it may have more reasons to)
		h := x.Common().StaticCallee()
		if h != nil && len(h.Blocks) > 0 && c17ReadsNoColorItself(h) {
			return true
		}
		if h == nil || len(h.Blocks) == 0 || len(h.Params) != 1 || len(x.Common().Args) != 1 {
			return false
		}
		arg := ssau.ResolveCell(x.Common().Args[0])
		ex, ok := arg.(*ssa.Extract)
		if !ok || ex.Index != 0 {
			return false
		}
		gc, ok := ex.Tuple.(*ssa.Call)
		if !ok || !strings.HasSuffix(ssau.CallName(gc), "FlagSet).GetBool") {
			return false
		}
		if s, _ := ssau.ConstString(gc.Common().Args[1]); s != "no-color" {
			return false
		}
		flagFalse, envFalse := map[[2]int]bool{}, map[[2]int]bool{}
		for _, iff := range ssau.Ifs(h) {
			cond, neg := iff.Cond, 0
			if u, isU := cond.(*ssa.UnOp); isU && u.Op == token.NOT {
				cond, neg = u.X, 1
			}
			if cond == ssa.Value(h.Params[0]) || ssau.ParamOf(cond) == h.Params[0] {
				flagFalse[[2]int{iff.Block().Index, 1 - neg}] = true
			}
			if e2, isEx := cond.(*ssa.Extract); isEx && e2.Index == 1 {
				if lc, isC := e2.Tuple.(*ssa.Call); isC && ssau.CallName(lc) == "os.LookupEnv" {
					if s, _ := ssau.ConstString(lc.Common().Args[0]); s == "NO_COLOR" {
						envFalse[[2]int{iff.Block().Index, 1 - neg}] = true
					}
				}
			}
		}
		if len(flagFalse) == 0 {
			return false
		}
		envSeen := len(envFalse) > 0
		for _, ret := range ssau.ReturnsOf(h) {
			rv := ssau.ResultValue(ret, 0)
			if ssau.IsConstBool(rv, true) {
				continue
			}
			// "is NO_COLOR present" handed back as the answer where the flag is unset
			if e2, isEx := rv.(*ssa.Extract); isEx && e2.Index == 1 {
				if lc, isC := e2.Tuple.(*ssa.Call); isC && ssau.CallName(lc) == "os.LookupEnv" {
					if s, _ := ssau.ConstString(lc.Common().Args[0]); s == "NO_COLOR" && !ssau.ReachableAvoidingEdges(h, ret.Block(), flagFalse) {
						envSeen = true
						continue
					}
				}
			}
			// any other answer is given only with the flag unset and NO_COLOR absent
			if len(envFalse) == 0 || ssau.ReachableAvoidingEdges(h, ret.Block(), flagFalse) || ssau.ReachableAvoidingEdges(h, ret.Block(), envFalse) {
				return false
			}
		}
		return envSeen
	case *ssa.Phi:
		flag := false
		nEnv := 0
		cd := ssau.ControlDeps(x.Parent())
		isEnvPresent := func(v ssa.Value) bool {
			ex, ok := v.(*ssa.Extract)
			if !ok || ex.Index != 1 {
				return false
			}
			call, ok := ex.Tuple.(*ssa.Call)
			if !ok || ssau.CallName(call) != "os.LookupEnv" {
				return false
			}
			s, _ := ssau.ConstString(call.Common().Args[0])
			return s == "NO_COLOR"
		}
		for i, e := range x.Edges {
			if c17NoColorValue(e, d+1) {
				flag = true
				continue
			}
			// flag || present: the "present" result of the lookup itself
			if isEnvPresent(e) {
				nEnv++
				continue
			}
			if !ssau.IsConstBool(e, true) {
				return false
			}
			// ... and the constant true arriving where the flag was found set
			{
				p := x.Block().Preds[i]
				viaFlag := false
				if iff, ok := p.Instrs[len(p.Instrs)-1].(*ssa.If); ok && c17NoColorValue(iff.Cond, 1) {
					for k, sc := range p.Succs {
						if sc == x.Block() && k == 0 {
							viaFlag = true
						}
					}
				}
				if viaFlag {
					flag = true
					continue
				}
			}
			// the constant arrives only where NO_COLOR was found in the environment
			env := false
			p := x.Block().Preds[i]
			deps := ssau.TransitiveControlDeps(cd, p)
			if iff, ok := p.Instrs[len(p.Instrs)-1].(*ssa.If); ok {
				for k, sc := range p.Succs {
					if sc == x.Block() {
						deps = append(deps, ssau.CtrlDep{Branch: iff.Block(), Then: k == 0})
					}
				}
			}
			for _, dp := range deps {
				if ex, ok := dp.If().Cond.(*ssa.Extract); ok && ex.Index == 1 && dp.Then {
					if call, ok := ex.Tuple.(*ssa.Call); ok && ssau.CallName(call) == "os.LookupEnv" {
						if s, _ := ssau.ConstString(call.Common().Args[0]); s == "NO_COLOR" {
							env = true
						}
					}
				}
			}
			if !env {
				return false
			}
			nEnv++
		}
		return flag && nEnv > 0
	}
	return false
}

func isNCLoad(v ssa.Value, nc ssa.Value) (ssa.Value, bool) {
	u, ok := v.(*ssa.UnOp)
	if !ok || u.Op != token.MUL {
		return nil, false
	}
	if u.X == nc {
		return u, true
	}
	if fv, ok := u.X.(*ssa.FreeVar); ok {
		if al, ok := nc.(*ssa.Alloc); ok && strings.HasPrefix(fv.Name(), al.Comment) {
			return u, true
		}
	}
	return nil, false
}

func c17Colour(c *Ctx, run *ssa.Function) {
	r := c.R
	sp := c.P.SSAPkg("internal/cli")
	nEsc := 0
	gates := map[*ssa.Function]bool{}
	for _, fn := range c.P.RepoFuncs() {
		top := fn
		for top.Parent() != nil {
			top = top.Parent()
		}
		// the command layer prints through the colour gate; the packages below
		// it cannot see the --no-color flag at all, so nothing they hold may
		// contain an escape sequence unless the same control applies
		inCLI := top.Pkg == sp
		ssau.ForEachInstr(fn, false, func(in ssa.Instruction) {
			for _, op := range in.Operands(nil) {
				if op == nil || *op == nil {
					continue
				}
				s, ok := ssau.ConstString(*op)
				if !ok || !strings.Contains(s, "\x1b") {
					continue
				}
				if inCLI {
					nEsc++
				}
				key := fmt.Sprintf("%s#esc:%q", load.FuncKey(fn), s)
				call, isCall := in.(*ssa.Call)
				var gate *ssa.Function
				if isCall && len(call.Common().Args) == 1 {
					if mc, ok := call.Common().Value.(*ssa.MakeClosure); ok {
						gate = mc.Fn.(*ssa.Function)
					}
					// the gate handed down as a parameter: every caller of this
					// function (table-dispatched ones included) passes one and
					// the same closure, which is then held to the gate rules
					if par, ok := call.Common().Value.(*ssa.Parameter); ok && gate == nil {
						gate = c17GateArgument(c, par)
					}
				}
				if gate == nil {
					if ok, how := c17EscControlled(c, run, fn, in); ok {
						r.OK("O-4", key, c.P.Pos(in.Pos()), how)
						continue
					}
					r.Bad("O-4", key, c.P.Pos(in.Pos()), "an ESC sequence constant is used outside the colour gate: it is emitted even with --no-color / NO_COLOR")
					continue
				}
				gates[gate] = true
				r.OK("O-4", key, c.P.Pos(in.Pos()), "passed through the colour gate")
			}
		})
	}
	r.Floor("O-4", "ESC constants", nEsc, 5)
	for g := range gates {
		key := load.FuncKey(g) + "#gate"
		// shape: if *noColor { return "" } ; return code
		okShape := false
		var cellFV *ssa.FreeVar
		for _, ret := range ssau.ReturnsOf(g) {
			s, isc := ssau.ConstString(ret.Results[0])
			if !isc || s != "" {
				continue
			}
			cd := ssau.ControlDeps(g)
			for _, d := range cd[ret.Block()] {
				if u, ok := d.If().Cond.(*ssa.UnOp); ok && u.Op == token.MUL && d.Then {
					if fv, ok := u.X.(*ssa.FreeVar); ok {
						cellFV = fv
						okShape = true
					}
				}
			}
		}
		// every other return yields only the parameter or ""
		for _, ret := range ssau.ReturnsOf(g) {
			v := ret.Results[0]
			if s, isc := ssau.ConstString(v); isc && s == "" {
				continue
			}
			if len(g.Params) == 1 && v == ssa.Value(g.Params[0]) {
				continue
			}
			okShape = false
		}
		r.Check(okShape, "O-4", key, c.P.Pos(g.Pos()), "returns \"\" when the captured no-color variable is set", "the colour gate does not return \"\" when no-color is set")
		if cellFV == nil {
			continue
		}
		// what is stored in the captured cell: GetBool("no-color") and true under LookupEnv("NO_COLOR")
		var cell ssa.Value
		idx := -1
		for i, fv := range g.FreeVars {
			if fv == cellFV {
				idx = i
			}
		}
		ssau.ForEachInstr(g.Parent(), false, func(in ssa.Instruction) {
			if mc, ok := in.(*ssa.MakeClosure); ok && mc.Fn == ssa.Value(g) && idx >= 0 {
				cell = mc.Bindings[idx]
			}
		})
		if cell == nil {
			r.Unknown("O-4", key+"/sources", c.P.Pos(g.Pos()), "captured variable not resolved")
			continue
		}
		flagSrc, envSrc, other := false, false, false
		cd := ssau.ControlDeps(g.Parent())
		for _, ref := range *cell.Referrers() {
			st, ok := ref.(*ssa.Store)
			if !ok || st.Addr != cell {
				continue
			}
			if ex, ok := st.Val.(*ssa.Extract); ok {
				if call, ok := ex.Tuple.(*ssa.Call); ok && strings.HasSuffix(ssau.CallName(call), "FlagSet).GetBool") {
					if s, _ := ssau.ConstString(call.Common().Args[1]); s == "no-color" {
						flagSrc = true
						continue
					}
				}
			}
			// the whole decision computed first and stored once: flag || present
			if _, isPhi := st.Val.(*ssa.Phi); isPhi && c17NoColorValue(st.Val, 0) {
				flagSrc, envSrc = true, true
				continue
			}
			if ssau.IsConstBool(st.Val, true) {
				var env *ssa.Call
				deps := ssau.TransitiveControlDeps(cd, st.Block())
				for _, d := range deps {
					if ex, ok := d.If().Cond.(*ssa.Extract); ok && ex.Index == 1 && d.Then {
						if call, ok := ex.Tuple.(*ssa.Call); ok && ssau.CallName(call) == "os.LookupEnv" {
							if s, _ := ssau.ConstString(call.Common().Args[0]); s == "NO_COLOR" {
								env = call
							}
						}
					}
				}
				if env != nil {
					// no further condition between the lookup and the assignment:
					// NO_COLOR counts when present, whatever its value
					only := true
					for _, d := range deps {
						if env.Block() == d.Branch || env.Block().Dominates(d.Branch) {
							if ex, ok := d.If().Cond.(*ssa.Extract); !ok || ex.Tuple != ssa.Value(env) {
								only = false
							}
						}
					}
					if only {
						envSrc = true
					}
				}
				continue
			}
			other = true
		}
		r.Check(flagSrc && envSrc && !other, "O-4", key+"/sources", c.P.Pos(g.Pos()), "no-color = --no-color flag or NO_COLOR present", fmt.Sprintf("no-color sources: flag=%v NO_COLOR=%v other-assignments=%v", flagSrc, envSrc, other))
	}
}

// c17ReadsNoColorItself: h reads the --no-color flag and the NO_COLOR
// variable itself and answers true whenever the flag is set or the variable is
// present: every return is the constant true, the "present" result of the
// lookup given only where the flag was found unset, or anything else given
// only where the flag is unset and the variable absent.
func c17ReadsNoColorItself(h *ssa.Function) bool {
	var flag, env *ssa.Call
	ssau.ForEachInstr(h, false, func(in ssa.Instruction) {
		call, ok := in.(*ssa.Call)
		if !ok {
			return
		}
		switch n := ssau.CallName(call); {
		case strings.HasSuffix(n, "FlagSet).GetBool"):
			if s, _ := ssau.ConstString(call.Common().Args[1]); s == "no-color" {
				flag = call
			}
		case n == "os.LookupEnv":
			if s, _ := ssau.ConstString(call.Common().Args[0]); s == "NO_COLOR" {
				env = call
			}
		}
	})
	if flag == nil || env == nil {
		return false
	}
	is := func(v ssa.Value, call *ssa.Call, idx int) bool {
		ex, ok := ssau.ResolveCell(v).(*ssa.Extract)
		return ok && ex.Tuple == ssa.Value(call) && ex.Index == idx
	}
	flagFalse, envFalse := map[[2]int]bool{}, map[[2]int]bool{}
	for _, iff := range ssau.Ifs(h) {
		cond, neg := iff.Cond, 0
		if u, isU := cond.(*ssa.UnOp); isU && u.Op == token.NOT {
			cond, neg = u.X, 1
		}
		if is(cond, flag, 0) {
			flagFalse[[2]int{iff.Block().Index, 1 - neg}] = true
		}
		if is(cond, env, 1) {
			envFalse[[2]int{iff.Block().Index, 1 - neg}] = true
		}
	}
	if len(flagFalse) == 0 {
		return false
	}
	for _, ret := range ssau.ReturnsOf(h) {
		v := ssau.ResultValue(ret, 0)
		if ssau.IsConstBool(v, true) {
			continue
		}
		if ssau.ReachableAvoidingEdges(h, ret.Block(), flagFalse) {
			return false // can answer something else with the flag set
		}
		if is(v, env, 1) {
			continue // "present", with the flag unset
		}
		if len(envFalse) == 0 || ssau.ReachableAvoidingEdges(h, ret.Block(), envFalse) {
			return false
		}
	}
	return true
}

// c17GateArgument: par is a function-typed parameter; every call site of its
// function in the shipped program passes, at that position, the same closure
// (directly or through the local variable holding it); that closure.
func c17GateArgument(c *Ctx, par *ssa.Parameter) *ssa.Function {
	fn := par.Parent()
	idx := -1
	for i, q := range fn.Params {
		if q == par {
			idx = i
		}
	}
	node := c.P.CallGraph().Nodes[fn]
	if idx < 0 || node == nil {
		return nil
	}
	var gate *ssa.Function
	n := 0
	for _, e := range node.In {
		if e.Site == nil || e.Caller.Func.Synthetic != "" && len(e.Caller.In) == 0 {
			continue
		}
		args := e.Site.Common().Args
		if e.Site.Common().IsInvoke() || idx >= len(args) {
			return nil
		}
		v := ssau.ResolveCell(args[idx])
		mc, ok := v.(*ssa.MakeClosure)
		if !ok {
			return nil
		}
		g, _ := mc.Fn.(*ssa.Function)
		if g == nil || (gate != nil && gate != g) {
			return nil
		}
		gate = g
		n++
	}
	if n == 0 {
		return nil
	}
	return gate
}
