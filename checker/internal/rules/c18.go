package rules

import (
	"fmt"
	"go/token"
	"go/types"
	"sort"
	"strings"

	"golang.org/x/tools/go/ssa"

	"wtfverif/checker/internal/load"
	"wtfverif/checker/internal/lockset"
	"wtfverif/checker/internal/maporder"
	"wtfverif/checker/internal/origin"
	"wtfverif/checker/internal/pathev"
	"wtfverif/checker/internal/ssau"
	"wtfverif/checker/internal/symx"
)

const (
	metricsPkg = load.ModulePath + "/internal/metrics"
	collMeth   = "(*" + metricsPkg + ".Collector)."
)

func init() {
	register(&Rule{
		Prop: "C18",
		Explanation: "Identity and exact accounting of metrics decided from the SSA form: (O-1) the series key used by every registry lookup is computed by a function with no map-iteration-order-sensitive effect (string concatenation, writer calls, append without a dominating total sort) — so equal (name, tags) give equal keys whatever order the tag map is walked in; (O-2) all registry stores happen under the exclusive lock after a failed re-lookup of the same key (one metric per key); " +
			"(O-3) Counter.Inc/Add perform exactly one sync/atomic add on the field Value loads, on every path; Histogram.Observe performs on every path exactly one count++, one sum += value and exactly one counts[i]++; Count/Sum return those fields; the default bucket literal is strictly increasing; (O-4) on every enabled path RecordSearchOperation makes exactly one Observe on the search_duration timer, one Inc on searches_total and exactly one Inc on cache_hits_total or cache_misses_total selected by cacheHit, RecordDatabaseOperation one Observe and one Inc, and timer and counter of one operation are tagged by the same expressions. (O-5) the percentile scan walks all bucket counts, adds each to a running sum before comparing, and returns a bucket bound from inside the loop exactly when the running sum has reached the target (non-strict): with O-3 it cannot fall off its end and with increasing bucket bounds the result does not decrease as the percentile grows. The floating-point computation of the target itself is NOT decided.",
		NotDecided:  []string{"percentile values and their monotonicity as arithmetic over the bucket counts", "loss-freedom under concurrency beyond the lock/atomic discipline (C11)"},
		Assumptions: []string{"sync/atomic and sync.RWMutex semantics", "sort.Strings sorts totally"},
		Run:         runC18,
	})
}

func runC18(c *Ctx) {
	r := c.R
	r.Rule("O-1", "canonical series key: no function that computes the registry key has an un-neutralised order-sensitive effect inside a range over a map (E1 append without a dominating total sort, E2 float sum, E3 concatenation/writer, E4 numbering, E5 iteration-dependent exit, EX unknown)")
	r.Rule("O-2", "one series per key: every store into a registry map is under the exclusive lock and control-dependent on a failed re-lookup of the same key made under that lock; the key of lookup and store is the computed series key")
	r.Rule("O-3", "exact counting: Counter.Inc/Add = one atomic add on the value field on every path; Histogram.Observe = exactly one count++, one sum += v, one counts[i]++ on every path; Count/Sum/Value return the live fields; default buckets strictly increasing")
	r.Rule("O-4", "monitor totals: per enabled RecordSearchOperation exactly one Observe(search_duration), one Inc(searches_total) and one Inc on cache_hits_total xor cache_misses_total selected by cacheHit; per RecordDatabaseOperation one Observe and one Inc; timer and counter carry the same tag expressions")

	sx := symx.New(c.P.IsRepoFunc)
	c18Key(c, sx)
	c18TagOwnership(c)
	c18Registry(c)
	c18Counting(c, sx)
	c18Monitor(c, sx)
	c18Percentile(c, sx)
	c18BucketReaders(c)
}

// c18Percentile: O-5. The percentile is read off by a scan over all bucket
// counts that adds each count to a running sum and returns from inside the
// loop as soon as the sum has REACHED the target (>=, not >). With O-3 (the
// bucket counts add up to count) and target <= count the scan cannot fall off
// its end for a non-empty histogram, and with strictly increasing bucket bounds
// the value returned does not decrease as the percentile grows.
func c18Percentile(c *Ctx, sx *symx.Ctx) {
	r := c.R
	r.Rule("O-5", "percentile scan: one loop over all bucket counts; the running sum is increased by the bucket's count on every iteration before it is compared; the scan returns a bucket bound from inside the loop exactly when running sum >= target (non-strict); the target is derived from count and p")
	fn := c.P.Func("internal/metrics", "Histogram", "Percentile")
	fk := "metrics.(*Histogram).Percentile"
	if !r.Anchor("O-5", fk, fn != nil) {
		return
	}
	histT := metricsPkg + ".Histogram"
	var loop *ssau.RangeLoop
	for _, l := range ssau.RangeLoops(fn) {
		l := l
		if l.Over == nil || l.IsMap {
			continue
		}
		if _, ok := ssau.IsFieldLoad(l.Over, histT, "counts"); ok {
			loop = &l
		}
	}
	if loop == nil {
		r.Bad("O-5", fk+"#scan-over-all-buckets", c.P.Pos(fn.Pos()), "no loop over the histogram's bucket counts")
		return
	}
	r.OK("O-5", fk+"#scan-over-all-buckets", c.P.Pos(loop.Body.Instrs[0].Pos()), "ranges over h.counts (overflow bucket included)")
	// the running sum: a phi at the loop header whose back-edge value is phi + counts[i]
	var sum *ssa.Phi
	var next ssa.Value
	for _, in := range loop.Header.Instrs {
		ph, ok := in.(*ssa.Phi)
		if !ok {
			continue
		}
		for _, e := range ph.Edges {
			bo, ok := e.(*ssa.BinOp)
			if !ok || bo.Op != token.ADD {
				continue
			}
			a, b := bo.X, bo.Y
			if b == ssa.Value(ph) {
				a, b = b, a
			}
			if a != ssa.Value(ph) {
				continue
			}
			// b is counts[i] of this iteration
			if u, ok := b.(*ssa.UnOp); ok && u.Op == token.MUL {
				if ia, ok := u.X.(*ssa.IndexAddr); ok && ia.Index == loop.Index {
					if _, ok := ssau.IsFieldLoad(ia.X, histT, "counts"); ok {
						sum, next = ph, bo
					}
				}
			}
		}
	}
	if sum == nil {
		r.Bad("O-5", fk+"#running-sum", c.P.Pos(loop.Header.Instrs[0].Pos()), "no running sum that adds counts[i] on every iteration")
		return
	}
	r.OK("O-5", fk+"#running-sum", c.P.Pos(sum.Pos()), "cumulative += counts[i] once per iteration")
	// the test that ends the scan
	nTests := 0
	for _, iff := range ssau.Ifs(fn) {
		if !loop.InLoop(iff.Block()) || iff.Block() == loop.Header {
			continue
		}
		op, x, y, ok := ssau.CondOf(iff.Cond)
		if !ok {
			continue
		}
		if y == next {
			x, y, op = y, x, ssau.Flip(op)
		}
		if x != next {
			if x == ssa.Value(sum) || y == ssa.Value(sum) {
				nTests++
				r.Bad("O-5", fk+"#reached-test", c.P.Pos(iff.Pos()), "the running sum is compared before this bucket's count was added")
			}
			continue
		}
		nTests++
		// true side must lead to a return of a bucket bound; accepted: sum >= target (or !(sum < target))
		reached := op == token.GEQ
		retSide := 0
		if op == token.LSS {
			reached, retSide = true, 1
		}
		returns := false
		b := iff.Block().Succs[retSide]
		for _, rb := range fn.Blocks {
			if rb == b || b.Dominates(rb) {
				if _, ok := rb.Instrs[len(rb.Instrs)-1].(*ssa.Return); ok {
					returns = true
				}
			}
		}
		r.Check(reached && returns, "O-5", fk+"#reached-test", c.P.Pos(iff.Pos()), "returns from the scan as soon as cumulative >= target", "the scan ends on `cumulative "+op.String()+" target`: with a strict comparison the bucket that reaches the target is skipped — for p = 100 the scan falls off its end and reports 0, so percentiles are not monotone")
	}
	if nTests == 0 {
		r.Bad("O-5", fk+"#reached-test", c.P.Pos(fn.Pos()), "no comparison of the running sum with the target inside the scan")
	}
}

// c18BucketReaders: O-5 for every other reader. A function that reads the
// bucket counts one by one inside a loop walks the counts themselves (range
// over h.counts, or counted up to len(h.counts)): a walk paced by another list
// (the bucket bounds are one shorter) never sees the overflow bucket, and a
// percentile whose rank lies there comes out below the smaller percentiles.
func c18BucketReaders(c *Ctx) {
	r := c.R
	histT := metricsPkg + ".Histogram"
	nReads := 0
	for _, fn := range shippedFuncs(c) {
		pk := c.P.PkgOfFunc(fn)
		if pk == nil || pk.PkgPath != metricsPkg {
			continue
		}
		loops := ssau.RangeLoops(fn)
		fk := load.FuncKey(fn)
		ssau.ForEachInstr(fn, false, func(in ssa.Instruction) {
			ia, ok := in.(*ssa.IndexAddr)
			if !ok {
				return
			}
			if _, ok := ssau.IsFieldLoad(ia.X, histT, "counts"); !ok {
				return
			}
			read, written := false, false
			for _, ref := range *ia.Referrers() {
				switch x := ref.(type) {
				case *ssa.UnOp:
					read = x.Op == token.MUL || read
				case *ssa.Store:
					written = written || x.Addr == ssa.Value(ia)
				}
			}
			if !read || written {
				return // counts[i]++ and initialisation: Observe's part (O-3)
			}
			nReads++
			for _, l := range loops {
				if ia.Index != l.Index || !l.InLoop(ia.Block()) {
					continue
				}
				over := "a counted loop"
				good := false
				if l.Over != nil {
					_, good = ssau.IsFieldLoad(l.Over, histT, "counts")
					over = "the loop over " + l.Over.Name()
					if u, ok := l.Over.(*ssa.UnOp); ok {
						if n := ssau.FieldName(u.X); n != "" {
							over = "the loop over the field " + n
						}
					}
				}
				if !good {
					// a shorter walk followed by a read of the remaining count
					ssau.ForEachInstr(fn, false, func(in2 ssa.Instruction) {
						ib, ok := in2.(*ssa.IndexAddr)
						if !ok || ib == ia || l.InLoop(ib.Block()) {
							return
						}
						if _, ok := ssau.IsFieldLoad(ib.X, histT, "counts"); ok {
							for _, ref := range *ib.Referrers() {
								if u, ok := ref.(*ssa.UnOp); ok && u.Op == token.MUL {
									good = true
								}
							}
						}
					})
				}
				r.Check(good, "O-5", fk+"#walks-all-bucket-counts", c.P.Pos(ia.Pos()), "the counts are read inside a loop over h.counts, or the rest is read after a shorter walk (overflow bucket included)", "the bucket counts are read at the index of "+over+", not of a loop over h.counts: the overflow bucket is never read, a percentile that lies in it is reported below the smaller ones")
			}
		})
	}
	r.Floor("O-5", "element reads of the bucket counts", nReads, 1)
}

// c18Key: find the functions that compute the key used to index the registry
// maps and classify their map ranges.
func c18Key(c *Ctx, sx *symx.Ctx) {
	r := c.R
	// the registry accessor: any repo function of package metrics that does a
	// Lookup/MapUpdate on a map[string]*T whose origin is a Collector field
	keyFns := map[*ssa.Function]bool{}
	tr := &origin.Tracer{CG: c.P.CallGraph()} // a key handed to a lookup helper is the argument at its call sites
	nSites := 0
	for _, fn := range c.P.RepoFuncs() {
		pk := c.P.PkgOfFunc(fn)
		if pk == nil || pk.PkgPath != metricsPkg {
			continue
		}
		ssau.ForEachInstr(fn, false, func(in ssa.Instruction) {
			var m, k ssa.Value
			switch x := in.(type) {
			case *ssa.Lookup:
				m, k = x.X, x.Index
			case *ssa.MapUpdate:
				m, k = x.Map, x.Key
			default:
				return
			}
			if !isRegistryMap(m.Type()) {
				return
			}
			nSites++
			for _, rt := range tr.Roots(k) {
				if rt.Kind == "call" {
					if call, ok := rt.V.(*ssa.Call); ok {
						if cal := call.Common().StaticCallee(); cal != nil && c.P.IsRepoFunc(cal) {
							keyFns[cal] = true
							continue
						}
					}
				}
				r.Bad("O-1", load.FuncKey(fn)+"#registry-key-origin", c.P.Pos(in.Pos()), "a registry map is indexed by a key that is not the result of the series-key function: "+rt.String())
			}
		})
	}
	r.Floor("O-1", "registry index sites", nSites, 3)
	var names []string
	for fn := range keyFns {
		names = append(names, load.FuncKey(fn))
	}
	sort.Strings(names)
	r.Analysed["series_key_functions"] = names
	if len(keyFns) == 0 {
		r.Unknown("O-1", "metrics#series-key-function", "", "no function computing the registry key was found")
		return
	}
	// close under repo callees
	var work []*ssa.Function
	for fn := range keyFns {
		work = append(work, fn)
	}
	seen := map[*ssa.Function]bool{}
	nLoops := 0
	for len(work) > 0 {
		fn := work[len(work)-1]
		work = work[:len(work)-1]
		if seen[fn] {
			continue
		}
		seen[fn] = true
		ssau.ForEachInstr(fn, true, func(in ssa.Instruction) {
			if call, ok := in.(*ssa.Call); ok {
				if cal := call.Common().StaticCallee(); cal != nil && c.P.IsRepoFunc(cal) && cal.Blocks != nil {
					work = append(work, cal)
				}
			}
		})
		loops := maporder.Classify(fn, sx)
		for i, l := range loops {
			nLoops++
			key := fmt.Sprintf("%s#map-range-%d", load.FuncKey(fn), i+1)
			sens := l.Sensitive()
			if len(sens) == 0 {
				how := strings.Join(l.Notes, "; ")
				for _, e := range l.Effects {
					how += "; " + e.Kind + " neutralised: " + e.How
				}
				r.OK("O-1", key, c.P.Pos(l.Pos()), "order-insensitive: "+how)
				continue
			}
			var ds []string
			for _, e := range sens {
				ds = append(ds, e.Kind+": "+e.Detail)
			}
			r.Bad("O-1", key, c.P.Pos(l.Pos()), "the series key depends on map iteration order ("+strings.Join(ds, "; ")+"): the same name and tags can yield different keys, splitting one series into several")
		}
		if len(loops) == 0 {
			r.OK("O-1", load.FuncKey(fn)+"#no-map-range", c.P.Pos(fn.Pos()), "no iteration over a map")
		}
	}
	r.Analysed["map_ranges_in_key_functions"] = nLoops
}

// c18TagOwnership: the collector keeps the tag map it is given (metrics store
// it by reference and report it), so a registered series keeps its identity
// only if nobody writes that map afterwards. Every tags argument of a
// registration call must be nil, or a map built by this activation whose
// updates all precede the registration and which is handed to nothing but
// registration calls; pass-through parameters are followed to the callers.
func c18TagOwnership(c *Ctx) {
	r := c.R
	isReg := func(name string) bool {
		if !strings.HasPrefix(name, collMeth) {
			return false
		}
		switch strings.TrimPrefix(name, collMeth) {
		case "Counter", "Gauge", "Histogram", "Timer":
			return true
		}
		return false
	}
	regOrCtor := func(name string) bool {
		if isReg(name) {
			return true
		}
		for _, p := range []string{"NewCounter", "NewGauge", "NewHistogram", "NewHistogramWithBuckets", "NewTimer", "DefaultCounter", "DefaultGauge", "DefaultHistogram", "DefaultTimer"} {
			if name == metricsPkg+"."+p {
				return true
			}
		}
		return false
	}
	cg := c.P.CallGraph()
	n := 0
	ord := newOrdinal()
	var check func(v ssa.Value, site ssa.Instruction, depth int) string
	check = func(v ssa.Value, site ssa.Instruction, depth int) string {
		if depth > 4 {
			return "tag map origin too deep to follow"
		}
		switch x := v.(type) {
		case *ssa.Const:
			return ""
		case *ssa.MakeMap:
			for _, ref := range *x.Referrers() {
				switch u := ref.(type) {
				case *ssa.MapUpdate:
					if u.Map != ssa.Value(x) {
						return "the tag map is stored inside another map"
					}
					if !ssau.Dominates(u, site) {
						return "the tag map is written at " + c.P.Pos(u.Pos()) + " after (or beside) the registration that retains it"
					}
				case *ssa.Call:
					nm := ssau.CallName(u)
					if !regOrCtor(nm) && nm != "builtin.len" {
						return "the tag map is also handed to " + shortName(nm) + ", which may keep or modify it"
					}
				case *ssa.Lookup, *ssa.DebugRef:
				default:
					return fmt.Sprintf("the tag map escapes (%T)", ref)
				}
			}
			return ""
		case *ssa.Parameter:
			fn := x.Parent()
			idx := -1
			for i, p := range fn.Params {
				if p == x {
					idx = i
				}
			}
			node := cg.Nodes[fn]
			if node == nil {
				return ""
			}
			for _, e := range node.In {
				if e.Site == nil || !isShipped(c, e.Caller.Func) {
					continue
				}
				args := e.Site.Common().Args
				if e.Site.Common().IsInvoke() || len(args) != len(fn.Params) || idx < 0 {
					continue
				}
				if why := check(args[idx], e.Site, depth+1); why != "" {
					return why
				}
			}
			return ""
		case *ssa.Call:
			// a helper of the repository that makes the map and returns it: a
			// map of its own for every call, completed before it is handed out
			// and kept by nothing in the helper
			g := x.Common().StaticCallee()
			if g == nil || !c.P.IsRepoFunc(g) || len(g.Blocks) == 0 || g.Signature.Results().Len() != 1 {
				break
			}
			rets := ssau.ReturnsOf(g)
			for _, ret := range rets {
				mk, ok := ret.Results[0].(*ssa.MakeMap)
				if !ok {
					if ssau.IsNilConst(ret.Results[0]) {
						continue
					}
					return "the helper " + g.Name() + " returns a tag map it did not make itself"
				}
				for _, ref := range *mk.Referrers() {
					switch u := ref.(type) {
					case *ssa.MapUpdate:
						if u.Map != ssa.Value(mk) {
							return "the helper " + g.Name() + " stores the tag map inside another map"
						}
					case *ssa.Return, *ssa.Lookup, *ssa.DebugRef:
					case *ssa.Call:
						if ssau.CallName(u) != "builtin.len" {
							return "the helper " + g.Name() + " hands the tag map to " + shortName(ssau.CallName(u))
						}
					default:
						return fmt.Sprintf("in the helper %s the tag map escapes (%T)", g.Name(), ref)
					}
				}
			}
			if len(rets) > 0 {
				// and the result goes nowhere but into registrations
				for _, ref := range *x.Referrers() {
					if u, ok := ref.(*ssa.Call); ok {
						if nm := ssau.CallName(u); !regOrCtor(nm) && nm != "builtin.len" {
							return "the tag map is also handed to " + shortName(nm) + ", which may keep or modify it"
						}
						continue
					}
					switch ref.(type) {
					case *ssa.Lookup, *ssa.DebugRef:
					default:
						return fmt.Sprintf("the tag map escapes (%T)", ref)
					}
				}
				return ""
			}
		}
		return "the tag map is neither nil nor a map literal of the registering function: " + v.Name() + " (" + fmt.Sprintf("%T", v) + ")"
	}
	for _, fn := range shippedFuncs(c) {
		for _, call := range callsMatching(fn, false, isReg) {
			n++
			key := ord.next(load.FuncKey(fn) + "#tags-of-" + strings.TrimPrefix(ssau.CallName(call), collMeth))
			why := check(call.Common().Args[2], call, 0)
			r.Check(why == "", "O-1", key, c.P.Pos(call.Pos()), "tags: nil, or a map literal completed before the registration and given to nothing else", "a registered series can change identity after the fact: "+why)
		}
	}
	r.Floor("O-1", "registration calls examined for tag ownership", n, 10)
}

func isRegistryMap(t types.Type) bool {
	m, ok := t.Underlying().(*types.Map)
	if !ok {
		return false
	}
	if b, ok := m.Key().Underlying().(*types.Basic); !ok || b.Kind() != types.String {
		return false
	}
	p, ok := m.Elem().(*types.Pointer)
	if !ok {
		// generic instance: *T
		return false
	}
	n := ssau.NamedOf(p)
	return strings.HasPrefix(n, metricsPkg+".")
}

func c18Registry(c *Ctx) {
	r := c.R
	pk := c.P.Pkg("internal/metrics")
	if !r.Anchor("O-2", "package metrics", pk != nil) {
		return
	}
	// every lock-carrying struct of the package may guard series registries
	// (the collector today; one registry per family would be the same obligation)
	n, found := 0, false
	for _, g := range lockset.FindGuarded([]*types.Package{pk.Types}) {
		found = true
		an := lockset.Analyze(g, c.P.RepoFuncs(), func(fn *ssa.Function) bool { return fn.Parent() == nil })
		n += c11GetOrCreate(c, an, "O-2")
	}
	if !found {
		r.Unknown("O-2", "metrics#mutex", "", "no mutex-bearing struct found in package metrics")
		return
	}
	r.Floor("O-2", "registry stores", n, 4)
	// stores made inside function literals (a factory handed to the
	// get-or-create helper, say) are outside the lock analysis of the
	// methods: each must itself sit behind a failed look-up of its own key
	// in the same map, otherwise it can replace a series that exists
	for _, fn := range c.P.RepoFuncs() {
		if fn.Parent() == nil {
			continue
		}
		if fpk := c.P.PkgOfFunc(fn); fpk == nil || fpk.PkgPath != metricsPkg {
			continue
		}
		cd := ssau.ControlDeps(fn)
		ord := newOrdinal()
		ssau.ForEachInstr(fn, false, func(in ssa.Instruction) {
			mu, ok := in.(*ssa.MapUpdate)
			if !ok || !c11IsSeriesMap(mu.Map.Type()) {
				return
			}
			good := false
			for _, d := range ssau.TransitiveControlDeps(cd, mu.Block()) {
				ex, ok := d.If().Cond.(*ssa.Extract)
				if !ok || ex.Index != 1 || d.Then {
					continue
				}
				if lk, ok := ex.Tuple.(*ssa.Lookup); ok && lk.X == mu.Map && lk.Index == mu.Key {
					good = true
				}
			}
			r.Check(good, "O-2", ord.next(load.FuncKey(fn)+"#store-in-a-function-literal"), c.P.Pos(mu.Pos()), "the store follows a failed look-up of the same key in the same map", "a function literal stores into a series registry without having looked its key up first: a series that already exists under that key (created through another accessor) is replaced, and the events recorded on the old one are lost from the reports")
		})
	}
}

func c18Counting(c *Ctx, sx *symx.Ctx) {
	r := c.R
	// Counter
	valueAddr := func(fn *ssa.Function, v ssa.Value, owner string) bool {
		fa, ok := ssau.IsFieldAddr(v, metricsPkg+"."+owner, "value")
		return ok && len(fn.Params) > 0 && fa.X == ssa.Value(fn.Params[0])
	}
	for _, m := range []struct {
		meth  string
		delta func(fn *ssa.Function, v ssa.Value) bool
		what  string
	}{
		{"Inc", func(fn *ssa.Function, v ssa.Value) bool { n, ok := ssau.ConstInt(v); return ok && n == 1 }, "1"},
		{"Add", func(fn *ssa.Function, v ssa.Value) bool { return len(fn.Params) > 1 && v == ssa.Value(fn.Params[1]) }, "the argument"},
	} {
		fn := c.P.Func("internal/metrics", "Counter", m.meth)
		fk := "metrics.(*Counter)." + m.meth
		if !r.Anchor("O-3", fk, fn != nil) {
			continue
		}
		eng := pathev.New(func(in ssa.Instruction) []string {
			call, ok := in.(*ssa.Call)
			if !ok {
				return nil
			}
			if ssau.CallName(call) == "sync/atomic.AddInt64" && valueAddr(fn, call.Common().Args[0], "Counter") && m.delta(fn, call.Common().Args[1]) {
				return []string{"add"}
			}
			// Inc written as c.Add(1): the sibling method on the same counter with the
			// wanted delta (Add itself is checked to add its argument exactly once)
			if sib := call.Common().StaticCallee(); sib != nil && sib != fn && sib.Name() == "Add" && ssau.FuncName(sib) == "(*"+metricsPkg+".Counter).Add" {
				a := call.Common().Args
				if len(a) == 2 && a[0] == ssa.Value(fn.Params[0]) && m.delta(fn, a[1]) {
					return []string{"add"}
				}
			}
			if strings.HasPrefix(ssau.CallName(call), "sync/atomic.") {
				return []string{"other"}
			}
			return nil
		}, nil)
		for _, ret := range ssau.ReturnsOf(fn) {
			mk := eng.Exits(fn)[ret]
			r.Check(mk.Get("add").ExactlyOnce() && mk.Get("other").Never(), "O-3", fk+"#one-atomic-add", c.P.Pos(ret.Pos()), "exactly one atomic.AddInt64(&c.value, "+m.what+") on every path", fmt.Sprintf("atomic add of %s on the value field occurs %v times, other atomic ops %v (want exactly one add)", m.what, mk.Get("add"), mk.Get("other")))
		}
	}
	if fn := c.P.Func("internal/metrics", "Counter", "Value"); r.Anchor("O-3", "metrics.(*Counter).Value", fn != nil) {
		ok := false
		for _, ret := range ssau.ReturnsOf(fn) {
			if call, isCall := ret.Results[0].(*ssa.Call); isCall && ssau.CallName(call) == "sync/atomic.LoadInt64" && valueAddr(fn, call.Common().Args[0], "Counter") {
				ok = true
			} else {
				ok = false
				break
			}
		}
		r.Check(ok, "O-3", "metrics.(*Counter).Value#reads-live-field", c.P.Pos(fn.Pos()), "returns atomic.LoadInt64(&c.value)", "Value does not return the atomically loaded value field")
	}

	// Histogram.Observe
	hType := metricsPkg + ".Histogram"
	if fn := c.P.Func("internal/metrics", "Histogram", "Observe"); r.Anchor("O-3", "metrics.(*Histogram).Observe", fn != nil) {
		f := sx.Of(fn)
		fk := "metrics.(*Histogram).Observe"
		tag := func(in ssa.Instruction) []string {
			st, ok := in.(*ssa.Store)
			if !ok {
				return nil
			}
			if ssau.IsIncrement(st, hType, "count") {
				return []string{"count++"}
			}
			if _, ok := ssau.IsFieldAddr(st.Addr, hType, "count"); ok {
				return []string{"count=?"}
			}
			if fa, ok := ssau.IsFieldAddr(st.Addr, hType, "sum"); ok {
				if bo, ok := st.Val.(*ssa.BinOp); ok && bo.Op == token.ADD {
					ld := func(v ssa.Value) bool { b, ok := ssau.IsFieldLoad(v, hType, "sum"); return ok && b == fa.X }
					val := func(v ssa.Value) bool { return len(fn.Params) > 1 && v == ssa.Value(fn.Params[1]) }
					if (ld(bo.X) && val(bo.Y)) || (ld(bo.Y) && val(bo.X)) {
						return []string{"sum+=v"}
					}
				}
				return []string{"sum=?"}
			}
			if ia, ok := st.Addr.(*ssa.IndexAddr); ok {
				if _, ok := ssau.IsFieldLoad(ia.X, hType, "counts"); ok {
					// counts[i] = counts[i] + 1 on the same element
					if bo, ok := st.Val.(*ssa.BinOp); ok && bo.Op == token.ADD {
						one, isOne := ssau.ConstInt(bo.Y)
						if u, ok := bo.X.(*ssa.UnOp); ok && isOne && one == 1 && f.E(u.X) == f.E(ia) {
							return []string{"bucket++"}
						}
					}
					return []string{"bucket=?"}
				}
			}
			return nil
		}
		eng := pathev.New(tag, nil)
		ex := eng.Exits(fn)
		n := 0
		for _, ret := range ssau.ReturnsOf(fn) {
			n++
			m := ex[ret]
			key := fmt.Sprintf("%s#exit-%s", fk, exitName(fn, ret))
			good := m.Get("count++").ExactlyOnce() && m.Get("sum+=v").ExactlyOnce() && m.Get("bucket++").ExactlyOnce() && m.Get("count=?").Never() && m.Get("sum=?").Never() && m.Get("bucket=?").Never()
			r.Check(good, "O-3", key, c.P.Pos(ret.Pos()), "count++ once, sum += value once, one bucket++", fmt.Sprintf("count++%v sum+=v%v bucket++%v other-writes: count%v sum%v bucket%v (want exactly one of each and no other write)", m.Get("count++"), m.Get("sum+=v"), m.Get("bucket++"), m.Get("count=?"), m.Get("sum=?"), m.Get("bucket=?")))
		}
		r.Floor("O-3", "Observe exits", n, 2)
	}
	for _, gf := range []struct{ meth, field string }{{"Count", "count"}, {"Sum", "sum"}} {
		fn := c.P.Func("internal/metrics", "Histogram", gf.meth)
		if !r.Anchor("O-3", "metrics.(*Histogram)."+gf.meth, fn != nil) {
			continue
		}
		ok := len(ssau.ReturnsOf(fn)) > 0
		for _, ret := range ssau.ReturnsOf(fn) {
			base, isLoad := ssau.IsFieldLoad(ssau.ResultValue(ret, 0), hType, gf.field)
			if !isLoad || base != ssa.Value(fn.Params[0]) {
				ok = false
			}
		}
		r.Check(ok, "O-3", "metrics.(*Histogram)."+gf.meth+"#reads-live-field", c.P.Pos(fn.Pos()), "returns h."+gf.field, gf.meth+" does not return the live field "+gf.field)
	}
	// default buckets strictly increasing
	if fn := c.P.Func("internal/metrics", "", "NewHistogram"); r.Anchor("O-3", "metrics.NewHistogram", fn != nil) {
		var vals []float64
		okLit := true
		type ent struct {
			idx int64
			v   float64
		}
		var es []ent
		ssau.ForEachInstr(fn, false, func(in ssa.Instruction) {
			st, ok := in.(*ssa.Store)
			if !ok {
				return
			}
			ia, ok := st.Addr.(*ssa.IndexAddr)
			if !ok {
				return
			}
			if b, ok := st.Val.Type().Underlying().(*types.Basic); !ok || b.Info()&types.IsFloat == 0 {
				return
			}
			i, ok1 := ssau.ConstInt(ia.Index)
			v, ok2 := ssau.ConstFloat(st.Val)
			if !ok1 || !ok2 {
				okLit = false
				return
			}
			es = append(es, ent{i, v})
		})
		sort.Slice(es, func(i, j int) bool { return es[i].idx < es[j].idx })
		inc := okLit && len(es) >= 2
		for i, e := range es {
			vals = append(vals, e.v)
			if i > 0 && !(es[i-1].v < e.v) {
				inc = false
			}
		}
		r.Check(inc, "O-3", "metrics.NewHistogram#buckets-strictly-increasing", c.P.Pos(fn.Pos()), fmt.Sprintf("%d constant bucket bounds, strictly increasing", len(vals)), fmt.Sprintf("default bucket bounds are not a strictly increasing constant list: %v", vals))
	}
}

// metricCall describes `collector.<Kind>(name, tags)`.
type metricCall struct {
	kind, name string
	call       *ssa.Call
}

func asMetricCall(v ssa.Value) (metricCall, bool) {
	call, ok := v.(*ssa.Call)
	if !ok {
		return metricCall{}, false
	}
	n := ssau.CallName(call)
	if !strings.HasPrefix(n, collMeth) {
		return metricCall{}, false
	}
	name, ok := ssau.ConstString(call.Common().Args[1])
	if !ok {
		return metricCall{}, false
	}
	return metricCall{strings.TrimPrefix(n, collMeth), name, call}, true
}

// c18PhiName: v is collector.Counter(name, ...) whose name is a merge of
// string constants; returns the constants in edge order and the phi.
func c18PhiName(v ssa.Value) ([]string, *ssa.Phi, bool) {
	call, ok := v.(*ssa.Call)
	if !ok || !strings.HasPrefix(ssau.CallName(call), collMeth) {
		return nil, nil, false
	}
	phi, ok := call.Common().Args[1].(*ssa.Phi)
	if !ok {
		return nil, nil, false
	}
	var names []string
	for _, e := range phi.Edges {
		s, ok := ssau.ConstString(e)
		if !ok {
			return nil, nil, false
		}
		names = append(names, s)
	}
	return names, phi, true
}

// tagExprs renders the tag-map literal passed to a metric call as sorted
// "key=expr" strings.
func tagExprs(f *symx.Fn, call *ssa.Call) []string {
	tags := call.Common().Args[2]
	if ssau.IsNilConst(tags) {
		return nil
	}
	mm, ok := tags.(*ssa.MakeMap)
	if !ok {
		return []string{"?" + f.Plain(tags)}
	}
	var out []string
	for _, ref := range *mm.Referrers() {
		if mu, ok := ref.(*ssa.MapUpdate); ok {
			out = append(out, f.Plain(mu.Key)+"="+f.Plain(mu.Value))
		}
	}
	sort.Strings(out)
	return out
}

func c18Monitor(c *Ctx, sx *symx.Ctx) {
	r := c.R
	pmType := metricsPkg + ".PerformanceMonitor"
	specs := []struct {
		meth    string
		observe string
		inc     string
		xor     [2]string
		selPar  int
	}{
		{"RecordSearchOperation", "search_duration", "searches_total", [2]string{"cache_hits_total", "cache_misses_total"}, 3},
		{"RecordDatabaseOperation", "database_operation_duration", "database_operations_total", [2]string{}, -1},
	}
	for _, sp := range specs {
		fn := c.P.Func("internal/metrics", "PerformanceMonitor", sp.meth)
		fk := "metrics.(*PerformanceMonitor)." + sp.meth
		if !r.Anchor("O-4", fk, fn != nil) {
			continue
		}
		f := sx.Of(fn)
		var timerCall, counterCall *ssa.Call
		tag := func(in ssa.Instruction) []string {
			call, ok := in.(*ssa.Call)
			if !ok {
				return nil
			}
			switch ssau.CallName(call) {
			case "(*" + metricsPkg + ".Histogram).Observe":
				// receiver: timer.Histogram() of Timer(name)
				if h, ok := call.Common().Args[0].(*ssa.Call); ok && ssau.CallName(h) == "(*"+metricsPkg+".Timer).Histogram" {
					if mc, ok := asMetricCall(h.Common().Args[0]); ok && mc.kind == "Timer" {
						if mc.name == sp.observe {
							timerCall = mc.call
						}
						return []string{"observe:" + mc.name}
					}
				}
				if mc, ok := asMetricCall(call.Common().Args[0]); ok {
					return []string{"observe:" + mc.name}
				}
				return []string{"observe:?"}
			case "(*" + metricsPkg + ".Counter).Inc":
				if mc, ok := asMetricCall(call.Common().Args[0]); ok && mc.kind == "Counter" {
					if mc.name == sp.inc {
						counterCall = mc.call
					}
					if mc.name == sp.xor[0] || mc.name == sp.xor[1] {
						return []string{"inc:" + mc.name, "inc:hit-or-miss"}
					}
					return []string{"inc:" + mc.name}
				}
				// the counter's name chosen between the two outcome counters by a
				// value merge (name := miss; if hit { name = hit })
				if names, _, ok := c18PhiName(call.Common().Args[0]); ok && len(sp.xor) == 2 {
					all := len(names) > 0
					for _, n := range names {
						if n != sp.xor[0] && n != sp.xor[1] {
							all = false
						}
					}
					if all {
						return []string{"inc:hit-or-miss"}
					}
				}
				return []string{"inc:?"}
			}
			return nil
		}
		eng := pathev.New(tag, nil)
		ex := eng.Exits(fn)
		cd := ssau.ControlDeps(fn)
		nEnabled := 0
		for _, ret := range ssau.ReturnsOf(fn) {
			m := ex[ret]
			key := fmt.Sprintf("%s#exit-%s", fk, exitName(fn, ret))
			// disabled exit: control-dependent on the enabled flag, records nothing
			disabled := false
			for _, d := range ssau.TransitiveControlDeps(cd, ret.Block()) {
				if _, ok := ssau.IsFieldLoad(d.If().Cond, pmType, "enabled"); ok && !d.Then {
					disabled = true
				}
			}
			if disabled {
				quiet := true
				for _, v := range m {
					if !v.Never() {
						quiet = false
					}
				}
				r.Check(quiet, "O-4", key, c.P.Pos(ret.Pos()), "monitoring disabled: nothing recorded", "the disabled path records something")
				continue
			}
			nEnabled++
			good := m.Get("observe:"+sp.observe).ExactlyOnce() && m.Get("inc:"+sp.inc).ExactlyOnce()
			detail := fmt.Sprintf("observe(%s)%v inc(%s)%v", sp.observe, m.Get("observe:"+sp.observe), sp.inc, m.Get("inc:"+sp.inc))
			if sp.selPar >= 0 {
				good = good && m.Get("inc:hit-or-miss").ExactlyOnce()
				detail += fmt.Sprintf(" inc(hit|miss)%v", m.Get("inc:hit-or-miss"))
			}
			r.Check(good, "O-4", key, c.P.Pos(ret.Pos()), "exactly one of each: "+detail, "per recorded operation want exactly one of each, got "+detail)
		}
		r.Floor("O-4", sp.meth+" enabled exits", nEnabled, 1)
		// hit/miss selection by the cacheHit parameter
		if sp.selPar >= 0 && sp.selPar < len(fn.Params) {
			sel := fn.Params[sp.selPar]
			for i, name := range sp.xor {
				wantThen := i == 0
				found := false
				ssau.ForEachInstr(fn, false, func(in ssa.Instruction) {
					call, ok := in.(*ssa.Call)
					if !ok || ssau.CallName(call) != "(*"+metricsPkg+".Counter).Inc" {
						return
					}
					mc, ok := asMetricCall(call.Common().Args[0])
					if !ok {
						// merged name: this constant arrives exactly on the wanted side of the selector
						if names, phi, okp := c18PhiName(call.Common().Args[0]); okp {
							for i, nm := range names {
								if nm != name {
									continue
								}
								p := phi.Block().Preds[i]
								// the arriving edge is the selector's own edge, or the predecessor runs only on that side
								if iff, isIf := p.Instrs[len(p.Instrs)-1].(*ssa.If); isIf && iff.Cond == ssa.Value(sel) {
									for k, sc := range p.Succs {
										if sc == phi.Block() && (k == 0) == wantThen {
											found = true
										}
									}
								}
								for _, d := range ssau.TransitiveControlDeps(cd, p) {
									if d.If().Cond == ssa.Value(sel) && d.Then == wantThen {
										found = true
									}
								}
							}
						}
						return
					}
					if mc.name != name {
						return
					}
					for _, d := range ssau.TransitiveControlDeps(cd, call.Block()) {
						if d.If().Cond == ssa.Value(sel) && d.Then == wantThen {
							found = true
						}
					}
				})
				r.Check(found, "O-4", fk+"#"+name+"-selected-by-cacheHit", c.P.Pos(fn.Pos()), fmt.Sprintf("Inc(%s) is control-dependent on cacheHit == %v", name, wantThen), fmt.Sprintf("Inc(%s) is not selected by cacheHit == %v: hits and misses are mis-attributed", name, wantThen))
			}
		}
		// same tags at the timer and the counter
		if timerCall != nil && counterCall != nil {
			a, b := tagExprs(f, timerCall), tagExprs(f, counterCall)
			r.Check(strings.Join(a, ",") == strings.Join(b, ",") && len(a) > 0, "O-4", fk+"#same-tags", c.P.Pos(counterCall.Pos()), "timer and counter are tagged by "+strings.Join(a, ", "), fmt.Sprintf("timer tags %v differ from counter tags %v: one operation lands in two differently keyed series", a, b))
		} else {
			r.Unknown("O-4", fk+"#same-tags", c.P.Pos(fn.Pos()), "timer or counter call not found")
		}
	}
}
