package rules

import (
	"fmt"
	"go/token"
	"go/types"
	"sort"
	"strings"

	"golang.org/x/tools/go/ssa"

	"wtfverif/checker/internal/load"
	"wtfverif/checker/internal/ssau"
)

// C03 O-7: every term of the list handed to the scoring function has its
// postings walked. Between the head of the loop over the terms and the walk
// over that term's postings, a branch may abandon the term only because the
// term has no postings, or on a threshold test that the parameter values in
// the program make unsatisfiable (idf < minIDF with minIDF never stored as
// anything but a constant <= 0: the idf is positive).
func c03TermCoverage(c *Ctx) {
	r := c.R
	cs := c.P.Func("internal/database", "Database", "calculateInitialScores")
	if !r.Anchor("O-7", "database.(*Database).calculateInitialScores", cs != nil) {
		return
	}
	// score sites: the head of a walk over postings; a call of a function that has one
	sites := map[*ssa.Function]map[*ssa.BasicBlock]bool{}
	add := func(fn *ssa.Function, b *ssa.BasicBlock) bool {
		if sites[fn] == nil {
			sites[fn] = map[*ssa.BasicBlock]bool{}
		}
		if sites[fn][b] {
			return false
		}
		sites[fn][b] = true
		return true
	}
	for _, pl := range postingLoops(c) {
		add(pl.fn, pl.loop.Header)
	}
	closure := reachClosure(c, []*ssa.Function{cs})
	stepCalls := map[*ssa.Function][]*ssa.Call{} // caller -> calls of functions with sites
	for changed := true; changed; {
		changed = false
		for _, fn := range closure {
			if fn.Blocks == nil || !c.P.IsRepoFunc(fn) {
				continue
			}
			ssau.ForEachInstr(fn, false, func(in ssa.Instruction) {
				call, ok := in.(*ssa.Call)
				if !ok {
					return
				}
				g := call.Common().StaticCallee()
				if g == nil || g == fn || len(sites[g]) == 0 {
					return
				}
				if add(fn, call.Block()) {
					stepCalls[fn] = append(stepCalls[fn], call)
					changed = true
				}
			})
		}
	}
	// the loop over the terms
	var loop *ssau.RangeLoop
	for _, l := range ssau.RangeLoops(cs) {
		l := l
		if l.IsMap || l.Over == nil {
			continue
		}
		if l.Over == ssa.Value(cs.Params[1]) || ssau.ParamOf(l.Over) == cs.Params[1] {
			// the loop that scores, if there are several over the terms
			has := false
			for b := range sites[cs] {
				if l.InLoop(b) && b != l.Header {
					has = true
				}
			}
			if has {
				loop = &l
			}
		}
	}
	fk := load.FuncKey(cs)
	if !r.Check(loop != nil, "O-7", fk+"#walks-postings-per-term", c.P.Pos(cs.Pos()), "a loop over the term list reaches the walk over postings", "no loop over the term list that reaches a walk over postings") {
		return
	}
	nSkips := 0
	done := map[*ssa.Function]bool{}
	var region func(fn *ssa.Function, l *ssau.RangeLoop, d int)
	region = func(fn *ssa.Function, l *ssau.RangeLoop, d int) {
		if done[fn] || d > 6 {
			return
		}
		done[fn] = true
		in := func(b *ssa.BasicBlock) bool { return l == nil || (l.InLoop(b) && b != l.Header) }
		// canScore[b]: a site is reachable from the start of b inside the region
		canScore := map[*ssa.BasicBlock]bool{}
		for b := range sites[fn] {
			if in(b) {
				canScore[b] = true
			}
		}
		for changed := true; changed; {
			changed = false
			for _, b := range fn.Blocks {
				if canScore[b] || !in(b) {
					continue
				}
				for _, s := range b.Succs {
					if canScore[s] && in(s) {
						canScore[b] = true
						changed = true
						break
					}
				}
			}
		}
		// blocks reached before any site
		var entry *ssa.BasicBlock
		if l != nil {
			entry = l.Body
		} else {
			entry = fn.Blocks[0]
		}
		before := map[*ssa.BasicBlock]bool{}
		st := []*ssa.BasicBlock{entry}
		for len(st) > 0 {
			b := st[len(st)-1]
			st = st[:len(st)-1]
			if before[b] || !in(b) {
				continue
			}
			before[b] = true
			if sites[fn][b] {
				continue
			}
			st = append(st, b.Succs...)
		}
		fkey := load.FuncKey(fn)
		r.Check(canScore[entry], "O-7", fkey+"#reaches-the-postings", c.P.Pos(fn.Pos()), "the walk over postings is reachable from the start of the per-term step", "the per-term step cannot reach the walk over postings")
		var blocks []*ssa.BasicBlock
		for b := range before {
			blocks = append(blocks, b)
		}
		sort.Slice(blocks, func(i, j int) bool { return blocks[i].Index < blocks[j].Index })
		for _, b := range blocks {
			if !canScore[b] || sites[fn][b] || len(b.Instrs) == 0 {
				continue
			}
			iff, ok := b.Instrs[len(b.Instrs)-1].(*ssa.If)
			if !ok {
				continue
			}
			for k, s := range b.Succs {
				if canScore[s] && in(s) {
					continue
				}
				if only := constCondSucc(iff.Cond); only >= 0 && only != k {
					continue // never taken
				}
				nSkips++
				why, good := c03LegitSkip(c, iff.Cond, k == 0, 0)
				key := fmt.Sprintf("%s#skip-%d", fkey, skipOrdinal(blocks, b, canScore, sites[fn], in))
				r.Check(good, "O-7", key, c.P.Pos(iff.Cond.Pos()), "a term is passed over only when "+why, "a query term can be passed over without its postings being walked: "+why)
			}
		}
		for _, call := range stepCalls[fn] {
			if in(call.Block()) {
				if g := call.Common().StaticCallee(); g != nil && g.Blocks != nil {
					region(g, nil, d+1)
				}
			}
		}
	}
	region(cs, loop, 0)
	r.Floor("O-7", "decisions that pass over a term", nSkips, 2)
}

// skipOrdinal numbers the deciding branches of a region in block order.
func skipOrdinal(blocks []*ssa.BasicBlock, at *ssa.BasicBlock, canScore, site map[*ssa.BasicBlock]bool, in func(*ssa.BasicBlock) bool) int {
	n := 0
	for _, b := range blocks {
		if !canScore[b] || site[b] || len(b.Instrs) == 0 {
			continue
		}
		if _, ok := b.Instrs[len(b.Instrs)-1].(*ssa.If); !ok {
			continue
		}
		skips := false
		for _, s := range b.Succs {
			if !(canScore[s] && in(s)) {
				skips = true
			}
		}
		if skips {
			n++
		}
		if b == at {
			return n
		}
	}
	return n
}

func constCondSucc(v ssa.Value) int {
	if k, ok := v.(*ssa.Const); ok && k.Value != nil {
		if k.Value.String() == "true" {
			return 0
		}
		return 1
	}
	return -1
}

// c03LegitSkip: the condition having the value `val` means the term has no
// postings, or cannot happen with the parameter values of the program.
func c03LegitSkip(c *Ctx, cond ssa.Value, val bool, d int) (string, bool) {
	if d > 4 {
		return "the condition is too deep to read", false
	}
	uix := dbPkg + ".universalIndex"
	isIndexLookup := func(v ssa.Value) (*ssa.Lookup, bool) {
		lk, ok := v.(*ssa.Lookup)
		if !ok {
			return nil, false
		}
		if _, isMap := lk.X.Type().Underlying().(*types.Map); !isMap {
			return nil, false
		}
		for _, f := range []string{"postings", "df"} {
			if _, ok := ssau.IsFieldLoad(lk.X, uix, f); ok {
				return lk, true
			}
		}
		if base, ok := lk.X.(*ssa.UnOp); ok {
			if fa, ok := base.X.(*ssa.FieldAddr); ok && ssau.FieldOwner(fa) == uix && c03IdfTable(c, ssau.FieldName(fa)) {
				return lk, true
			}
		}
		return nil, false
	}
	// the postings (or document frequency) found for the term
	found := func(v ssa.Value) bool {
		if ex, ok := v.(*ssa.Extract); ok && ex.Index == 0 {
			_, ok := isIndexLookup(ex.Tuple)
			return ok
		}
		_, ok := isIndexLookup(v)
		return ok
	}
	switch x := cond.(type) {
	case *ssa.UnOp:
		if x.Op == token.NOT {
			return c03LegitSkip(c, x.X, !val, d+1)
		}
	case *ssa.Extract:
		if x.Index == 1 {
			if _, ok := isIndexLookup(x.Tuple); ok {
				if !val {
					return "the index has no entry for it", true
				}
				return "the index HAS an entry for it", false
			}
		}
	case *ssa.Phi:
		// a || b, a && b written out: every way of getting the value is legitimate
		why := ""
		for i, e := range x.Edges {
			if k, ok := e.(*ssa.Const); ok && k.Value != nil {
				if (k.Value.String() == "true") != val {
					continue
				}
				// the constant is produced on the edge from the predecessor's own branch
				p := x.Block().Preds[i]
				if len(p.Instrs) == 0 {
					return "a merged condition could not be read", false
				}
				iff, ok := p.Instrs[len(p.Instrs)-1].(*ssa.If)
				if !ok {
					return "a merged condition could not be read", false
				}
				w, good := c03LegitSkip(c, iff.Cond, p.Succs[0] == x.Block(), d+1)
				if !good {
					return w, false
				}
				why = w
				continue
			}
			w, good := c03LegitSkip(c, e, val, d+1)
			if !good {
				return w, false
			}
			why = w
		}
		if why != "" {
			return why, true
		}
	case *ssa.BinOp:
		op, X, Y := x.Op, x.X, x.Y
		if !val {
			switch op {
			case token.EQL:
				op = token.NEQ
			case token.NEQ:
				op = token.EQL
			case token.LSS:
				op = token.GEQ
			case token.GEQ:
				op = token.LSS
			case token.GTR:
				op = token.LEQ
			case token.LEQ:
				op = token.GTR
			}
		}
		// normalise to X op Y with the operator as if the condition were true
		// emptiness of what the index holds for the term
		lenOf := func(v ssa.Value) (ssa.Value, bool) {
			if call, ok := v.(*ssa.Call); ok {
				if b, ok := call.Common().Value.(*ssa.Builtin); ok && b.Name() == "len" {
					return call.Common().Args[0], true
				}
			}
			return nil, false
		}
		if a, ok := lenOf(X); ok && found(a) {
			if n, ok := ssau.ConstInt(Y); ok && ((op == token.EQL && n == 0) || (op == token.LSS && n == 1) || (op == token.LEQ && n == 0)) {
				return "it has no postings", true
			}
		}
		if a, ok := lenOf(Y); ok && found(a) {
			if n, ok := ssau.ConstInt(X); ok && ((op == token.EQL && n == 0) || (op == token.GTR && n == 1) || (op == token.GEQ && n == 0)) {
				return "it has no postings", true
			}
		}
		if found(X) && ssau.IsNilConst(Y) && op == token.EQL || found(Y) && ssau.IsNilConst(X) && op == token.EQL {
			return "it has no postings", true
		}
		if found(X) {
			if n, ok := ssau.ConstInt(Y); ok && ((op == token.EQL && n == 0) || (op == token.LSS && n == 1) || (op == token.LEQ && n == 0)) {
				return "no document contains it", true
			}
		}
		// a threshold on the idf: idf < P / P > idf with P never more than zero
		if op == token.GTR || op == token.GEQ {
			X, Y = Y, X
			if op == token.GTR {
				op = token.LSS
			} else {
				op = token.LEQ
			}
		}
		if (op == token.LSS || op == token.LEQ) && c03IsIdf(c, X, 0) {
			max, desc, ok := c03ThresholdMax(c, Y)
			if !ok {
				return fmt.Sprintf("its idf is below %s, which is not a constant of the program", desc), false
			}
			if (op == token.LSS && max <= 0) || (op == token.LEQ && max < 0) {
				return fmt.Sprintf("its idf is below %s, never more than %g in this program (the idf is positive)", desc, max), true
			}
			return fmt.Sprintf("its idf is below %s, which is set to %g: commands that contain only such a word are never found", desc, max), false
		}
	}
	return "a condition other than the term being absent from the index holds (" + strings.TrimSpace(cond.String()) + ")", false
}

// c03IsIdf: v is the idf of the term: bm25IDF(...) or an entry of the idf table.
func c03IsIdf(c *Ctx, v ssa.Value, d int) bool {
	if d > 3 {
		return false
	}
	switch x := v.(type) {
	case *ssa.Call:
		return strings.HasSuffix(ssau.CallName(x), ".bm25IDF")
	case *ssa.Lookup:
		if base, ok := x.X.(*ssa.UnOp); ok {
			if fa, ok := base.X.(*ssa.FieldAddr); ok && ssau.FieldOwner(fa) == dbPkg+".universalIndex" && c03IdfTable(c, ssau.FieldName(fa)) {
				return true
			}
		}
	case *ssa.Extract:
		if x.Index == 0 {
			return c03IsIdf(c, x.Tuple, d+1)
		}
	case *ssa.Parameter:
		// a per-term step given the idf
		fn := x.Parent()
		idx := -1
		for i, p := range fn.Params {
			if p == x {
				idx = i
			}
		}
		sitesN, good := 0, true
		for _, g := range shippedFuncs(c) {
			ssau.ForEachInstr(g, true, func(in ssa.Instruction) {
				call, ok := in.(*ssa.Call)
				if !ok || call.Common().StaticCallee() != fn {
					return
				}
				sitesN++
				if idx >= len(call.Common().Args) || !c03IsIdf(c, call.Common().Args[idx], d+1) {
					good = false
				}
			})
		}
		return sitesN > 0 && good
	}
	return false
}

// c03ThresholdMax: the largest value v can have, when v is a constant or a
// float field every store to which in the shipped program is a constant.
func c03ThresholdMax(c *Ctx, v ssa.Value) (float64, string, bool) {
	if f, ok := ssau.ConstFloat(v); ok {
		return f, fmt.Sprintf("%g", f), true
	}
	u, ok := v.(*ssa.UnOp)
	if !ok || u.Op != token.MUL {
		return 0, "a computed value", false
	}
	fa, ok := u.X.(*ssa.FieldAddr)
	if !ok {
		return 0, "a computed value", false
	}
	owner, name := ssau.FieldOwner(fa), ssau.FieldName(fa)
	desc := owner[strings.LastIndex(owner, "/")+1:] + "." + name
	max := 0.0 // the zero value of a field never stored
	for _, fn := range shippedFuncs(c) {
		bad := false
		ssau.ForEachInstr(fn, false, func(in ssa.Instruction) {
			st, ok := in.(*ssa.Store)
			if !ok {
				return
			}
			a, ok := st.Addr.(*ssa.FieldAddr)
			if !ok || ssau.FieldOwner(a) != owner || ssau.FieldName(a) != name {
				return
			}
			f, ok := ssau.ConstFloat(st.Val)
			if !ok {
				bad = true
				return
			}
			if f > max {
				max = f
			}
		})
		if bad {
			return 0, desc, false
		}
	}
	return max, desc, true
}
