package rules

import (
	"os"
	"fmt"
	"go/token"
	"go/types"
	"sort"
	"strings"
	"wtfverif/checker/internal/origin"

	"golang.org/x/tools/go/ssa"

	"wtfverif/checker/internal/load"
	"wtfverif/checker/internal/ssau"
	"wtfverif/checker/internal/taint"
)

func init() {
	register(&Rule{
		Prop: "C20",
		Explanation: "A relation between two runs (queries that differ only in letter case get the same answer) becomes a one-run fact: NO case-sensitive operation ever sees the query's original letter case. Decided by an interprocedural may-taint analysis of the SSA form: (O-1) sources are the query parameters of every search entry point, of GetSuggestions, of the recovery searches and of the cache key function; taint flows through string operations, slices, cells, struct fields, containers, calls and closures; sanitisers are the case-folding functions (strings.ToLower/ToUpper, unicode.ToLower/ToUpper/SimpleFold) and the matcher's pattern argument (fuzzy.Find folds with equalFold — verified on the dependency's source); " +
			"sinks are every case-sensitive use — map lookup/update with a tainted key, ==/!=/</> and switch on tainted strings or runes, strings.Contains/HasPrefix/HasSuffix/Index/Count/Compare/Replace with a tainted operand, strings.Replacer tables that look for a cased letter, unicode.IsUpper/IsLower/IsTitle, regular expressions whose pattern contains a cased letter, hashing/marshalling of tainted text; no tainted value may reach a sink; (O-3) the engine query at the CLI is ValidateQuery(strings.Join(args, \" \")), whose result passes the trim and whitespace-collapse steps (C14); (O-4) the cache key normalises the query only by ToLower and TrimSpace. Code points whose lower-casing and simple folding differ are excluded by the property.",
		NotDecided:  []string{"code points for which strings.ToLower and simple case folding disagree (excluded by the property)", "length effects of case mapping on the len(w) < 2 token filter (lengths are treated as case-independent)", "whitespace sensitivity of the fuzzy pattern for API callers that bypass validation (the property's cache clause speaks of case variants only)"},
		Assumptions: []string{"github.com/sahilm/fuzzy compares pattern and data with simple case folding (equalFold; checked for presence in the dependency)", "strings.ToLower is idempotent and agrees with simple folding on the property's domain"},
		Run:         runC20,
	})
}

// c20Sanitizer: the call's result does not depend on the letter case of its
// arguments.
func c20Sanitizer(call ssa.CallInstruction, name string) bool {
	switch name {
	case "strings.ToLower", "strings.ToUpper", "strings.ToLowerSpecial", "strings.ToUpperSpecial", "strings.ToTitle",
		"unicode.ToLower", "unicode.ToUpper", "unicode.SimpleFold", "unicode.ToTitle",
		"strings.EqualFold", "builtin.len",
		"unicode.IsLetter", "unicode.IsNumber", "unicode.IsDigit", "unicode.IsSpace", "unicode.IsControl", "unicode.IsPunct", "unicode.IsPrint", "unicode.IsGraphic", "unicode.IsSymbol",
		"unicode/utf8.RuneCountInString", "unicode/utf8.ValidString", "strings.TrimSpace#never":
		return true
	case fuzzyFind:
		return true // pattern is folded by the matcher; data does not come from the query
	}
	return false
}

func letterInPattern(p string) bool {
	esc := false
	for _, r := range p {
		if esc {
			esc = false
			continue
		}
		if r == '\\' {
			esc = true
			continue
		}
		if (r >= 'a' && r <= 'z') || (r >= 'A' && r <= 'Z') {
			return true
		}
	}
	return false
}

func runC20(c *Ctx) {
	r := c.R
	r.Rule("O-1", "raw-case taint: no value derived from a query parameter without passing a case-folding function reaches a case-sensitive operation (map key, string/rune comparison or switch, strings.Contains/HasPrefix/..., unicode.IsUpper/IsLower, cased regular expression, hash or marshal)")
	r.Rule("O-3", "whitespace at the CLI: the engine query is ValidateQuery(strings.Join(args, \" \")) and ValidateQuery's accepted result passes trim and whitespace collapse")
	r.Rule("O-4", "the cache key normalises the query by exactly ToLower and TrimSpace before it is marshalled and hashed")

	// roots and sources
	entries, _ := c01Entries(c)
	roots := append([]*ssa.Function{}, entries...)
	for _, spec := range [][3]string{
		{"internal/database", "Database", "GetSuggestions"},
		{"internal/database", "Database", "Search"},
		{"internal/cache", "SearchCache", "Get"},
		{"internal/cache", "SearchCache", "Put"},
		{"internal/recovery", "SearchRecovery", "RecoverFromSearchFailure"},
		{"internal/nlp", "QueryProcessor", "ProcessQuery"},
		{"internal/nlp", "TFIDFSearcher", "Search"},
		{"internal/embedding", "Index", "EmbedQuery"},
		{"internal/database", "Database", "EmbedQuery"},
	} {
		fn := c.P.Func(spec[0], spec[1], spec[2])
		if r.Anchor("O-1", spec[0]+"."+spec[2], fn != nil) {
			roots = append(roots, fn)
		}
	}
	c.withWrappers = true
	scope := reachClosure(c, roots)
	c.withWrappers = false
	inScope := map[*ssa.Function]bool{}
	for _, fn := range scope {
		inScope[fn] = true
	}
	isRoot := map[*ssa.Function]bool{}
	for _, fn := range roots {
		isRoot[fn] = true
	}
	var srcNames []string
	isSource := func(v ssa.Value) bool {
		p, ok := v.(*ssa.Parameter)
		if !ok || !isRoot[p.Parent()] {
			return false
		}
		b, ok := p.Type().Underlying().(*types.Basic)
		if !ok || b.Kind() != types.String {
			return false
		}
		return strings.Contains(strings.ToLower(p.Name()), "query")
	}
	for _, fn := range roots {
		for _, p := range fn.Params {
			if isSource(p) {
				srcNames = append(srcNames, load.FuncKey(fn)+"("+p.Name()+")")
			}
		}
	}
	sort.Strings(srcNames)
	r.Analysed["sources"] = srcNames
	r.Floor("O-1", "query sources", len(srcNames), 8)
	cg := c.P.CallGraph()
	res := taint.Run(taint.Config{
		Funcs:     scope,
		IsSource:  isSource,
		Sanitizer: c20Sanitizer,
		Callees: func(site ssa.CallInstruction) []*ssa.Function {
			var out []*ssa.Function
			if node := cg.Nodes[site.Parent()]; node != nil {
				for _, e := range node.Out {
					if e.Site == site {
						out = append(out, e.Callee.Func)
					}
				}
			}
			return out
		},
		DropType: func(t types.Type) bool {
			if b, ok := t.Underlying().(*types.Basic); ok {
				switch {
				case b.Kind() == types.Int32 || b.Kind() == types.Uint8: // runes and bytes carry case
					return false
				case b.Info()&(types.IsInteger|types.IsFloat|types.IsBoolean) != 0:
					return true
				}
			}
			return false
		},
	})
	// sinks
	nSinks, nBad, nSan := 0, 0, 0
	ord := newOrdinal()
	explain := func(v ssa.Value) string {
		var parts []string
		for i, x := range res.Path(v) {
			if i > 5 {
				break
			}
			parts = append(parts, x.Name())
		}
		return strings.Join(parts, " <- ")
	}
	report := func(fn *ssa.Function, in ssa.Instruction, what string, v ssa.Value) {
		nBad++
		r.Bad("O-1", ord.next(load.FuncKey(fn)+"#"+what), c.P.Pos(in.Pos()), fmt.Sprintf("the query's original letter case reaches a case-sensitive %s (flow: %s): two spellings of the same query can get different answers", what, explain(v)))
	}
	strOrRune := func(t types.Type) bool {
		b, ok := t.Underlying().(*types.Basic)
		return ok && (b.Info()&types.IsString != 0 || b.Kind() == types.Int32 || b.Kind() == types.Uint8)
	}
	for _, fn := range scope {
		ssau.ForEachInstr(fn, false, func(in ssa.Instruction) {
			switch x := in.(type) {
			case *ssa.Lookup:
				if _, isMap := x.X.Type().Underlying().(*types.Map); isMap {
					nSinks++
					if res.Tainted(x.Index) {
						report(fn, in, "map-lookup", x.Index)
					}
				}
			case *ssa.MapUpdate:
				nSinks++
				if res.Tainted(x.Key) {
					report(fn, in, "map-key", x.Key)
				}
			case *ssa.BinOp:
				switch x.Op {
				case token.EQL, token.NEQ, token.LSS, token.LEQ, token.GTR, token.GEQ:
					if !strOrRune(x.X.Type()) {
						return
					}
					nSinks++
					for _, o := range []ssa.Value{x.X, x.Y} {
						if res.Tainted(o) {
							// comparison with a constant that has no cased letter is case-independent
							other := x.Y
							if o == x.Y {
								other = x.X
							}
							if s, ok := ssau.ConstString(other); ok && !letterInPattern(s) {
								continue
							}
							if k, ok := ssau.ConstInt(other); ok && !((k >= 'a' && k <= 'z') || (k >= 'A' && k <= 'Z')) {
								continue
							}
							report(fn, in, "comparison", o)
						}
					}
				}
			case *ssa.Call:
				n := ssau.CallName(x)
				if c20Sanitizer(x, n) {
					for _, a := range x.Common().Args {
						if res.Tainted(a) {
							nSan++
						}
					}
					return
				}
				args := x.Common().Args
				switch {
				case n == "strings.Contains" || n == "strings.HasPrefix" || n == "strings.HasSuffix" || n == "strings.Index" || n == "strings.LastIndex" || n == "strings.Count" || n == "strings.Compare" || n == "strings.ContainsAny" || n == "strings.IndexAny" || n == "strings.Replace" || n == "strings.ReplaceAll" || n == "strings.Split" || n == "strings.SplitN" || n == "strings.TrimPrefix" || n == "strings.TrimSuffix" || n == "strings.Trim" || n == "strings.TrimLeft" || n == "strings.TrimRight" || n == "strings.ContainsRune" || n == "strings.IndexRune":
					nSinks++
					// case-sensitive only if the needle/cutset has cased letters or is itself tainted
					for i, a := range args {
						if !res.Tainted(a) {
							continue
						}
						caseFree := true
						for j, o := range args {
							if j == i {
								continue
							}
							if s, ok := ssau.ConstString(o); ok {
								if letterInPattern(s) {
									caseFree = false
								}
							} else if k, ok := ssau.ConstInt(o); ok {
								if (k >= 'a' && k <= 'z') || (k >= 'A' && k <= 'Z') {
									caseFree = false
								}
							} else if strOrRune(o.Type()) {
								caseFree = false
							}
						}
						if !caseFree {
							report(fn, in, shortName(n), a)
						}
					}
				case n == "unicode.IsUpper" || n == "unicode.IsLower" || n == "unicode.IsTitle":
					nSinks++
					if res.Tainted(args[0]) {
						report(fn, in, n, args[0])
					}
				case strings.HasPrefix(n, "(*regexp.Regexp)."):
					nSinks++
					for _, a := range args[1:] {
						if res.Tainted(a) {
							if pat, ok := c20RegexpPattern(args[0]); !ok || letterInPattern(pat) {
								report(fn, in, "regular-expression", a)
							}
						}
					}
				case n == "(*strings.Replacer).Replace" || n == "(*strings.Replacer).WriteString":
					nSinks++
					for _, a := range args[1:] {
						if res.Tainted(a) {
							if pats, ok := c20ReplacerPatterns(args[0]); !ok || letterInPattern(strings.Join(pats, "")) {
								report(fn, in, "replacement-table", a)
							}
						}
					}
				case n == "crypto/sha256.Sum256" || strings.HasPrefix(n, "encoding/json.Marshal") || strings.HasPrefix(n, "crypto/md5."):
					nSinks++
					for _, a := range args {
						if res.Tainted(a) {
							report(fn, in, "hash-or-marshal", a)
						}
					}
				}
			}
		})
	}
	r.Analysed["functions_in_scope"] = len(scope)
	r.Analysed["sink_sites_examined"] = nSinks
	r.Analysed["tainted_values_folded_at_sanitisers"] = nSan
	r.Floor("O-1", "sink sites examined", nSinks, 100)
	r.Floor("O-1", "sanitiser applications on query-derived text", nSan, 5)
	if nBad == 0 {
		r.OK("O-1", "search-path#no-raw-case-at-a-sink", "", fmt.Sprintf("%d case-sensitive sites in %d functions examined; the query's original case reaches none (folded at %d sanitiser applications)", nSinks, len(scope), nSan))
	}
	// matcher contract: equalFold present in the dependency
	if ef := c.P.DepFunc("github.com/sahilm/fuzzy", "", "equalFold"); r.Anchor("O-1", "dependency github.com/sahilm/fuzzy.equalFold", ef != nil) {
		used := false
		if ff := c.P.DepFunc("github.com/sahilm/fuzzy", "", "Find"); ff != nil {
			// functions of the matcher package reachable from Find through static calls
			seen := map[*ssa.Function]bool{}
			work := []*ssa.Function{ff}
			for len(work) > 0 {
				g := work[len(work)-1]
				work = work[:len(work)-1]
				if seen[g] || g.Blocks == nil {
					continue
				}
				seen[g] = true
				ssau.ForEachInstr(g, true, func(in ssa.Instruction) {
					call, ok := in.(*ssa.Call)
					if !ok {
						return
					}
					if strings.HasSuffix(ssau.CallName(call), "fuzzy.equalFold") {
						used = true
					}
					if cal := call.Common().StaticCallee(); cal != nil && cal.Pkg == ff.Pkg {
						work = append(work, cal)
					}
				})
			}
		}
		r.Check(used, "O-1", "fuzzy.FindFrom#compares-with-equalFold", c.P.Pos(ef.Pos()), "the matcher compares pattern and data runes with equalFold", "the matcher no longer folds case when comparing pattern and data")
	}

	c20CLI(c)
	c20Key(c)
}

// c20RegexpPattern: the receiver is regexp.MustCompile(const) (local or package-level).
func c20RegexpPattern(recv ssa.Value) (string, bool) {
	switch x := recv.(type) {
	case *ssa.Call:
		if strings.HasPrefix(ssau.CallName(x), "regexp.") {
			return ssau.ConstString(x.Common().Args[0])
		}
	case *ssa.Phi:
		// re reassigned (two patterns in one variable): all must be case-free; report the first cased one
		for _, e := range x.Edges {
			if p, ok := c20RegexpPattern(e); !ok || letterInPattern(p) {
				return p, ok
			}
		}
		return "", true
	case *ssa.UnOp:
		if g, ok := x.X.(*ssa.Global); ok {
			for _, mem := range g.Pkg.Members {
				if fn, ok := mem.(*ssa.Function); ok && fn.Name() == "init" {
					var pat string
					found := false
					ssau.ForEachInstr(fn, false, func(in ssa.Instruction) {
						if st, ok := in.(*ssa.Store); ok && st.Addr == ssa.Value(g) {
							if mc, ok := st.Val.(*ssa.Call); ok {
								pat, found = ssau.ConstString(mc.Common().Args[0])
							}
						}
					})
					if found {
						return pat, true
					}
				}
			}
		}
	}
	return "", false
}

// c20ReplacerPatterns: the receiver is strings.NewReplacer(constants...)
// (local or package-level); the texts it looks for (the even arguments).
func c20ReplacerPatterns(recv ssa.Value) ([]string, bool) {
	fromCall := func(call *ssa.Call) ([]string, bool) {
		if ssau.CallName(call) != "strings.NewReplacer" || len(call.Common().Args) != 1 {
			return nil, false
		}
		sl, ok := call.Common().Args[0].(*ssa.Slice)
		if !ok {
			if ssau.IsNilConst(call.Common().Args[0]) {
				return nil, true
			}
			return nil, false
		}
		al, ok := sl.X.(*ssa.Alloc)
		if !ok {
			return nil, false
		}
		var pats []string
		good := true
		for _, ref := range *al.Referrers() {
			ia, ok := ref.(*ssa.IndexAddr)
			if !ok {
				if ref != ssa.Instruction(sl) {
					good = false
				}
				continue
			}
			idx, okI := ssau.ConstInt(ia.Index)
			for _, r2 := range *ia.Referrers() {
				st, ok := r2.(*ssa.Store)
				if !ok || st.Addr != ssa.Value(ia) {
					good = false
					continue
				}
				str, ok := ssau.ConstString(st.Val)
				if !ok {
					good = false
					continue
				}
				if !okI || idx%2 == 0 {
					pats = append(pats, str)
				}
			}
		}
		return pats, good
	}
	switch x := recv.(type) {
	case *ssa.Call:
		return fromCall(x)
	case *ssa.UnOp:
		if g, ok := x.X.(*ssa.Global); ok {
			var pats []string
			n, good := 0, true
			for _, mem := range g.Pkg.Members {
				fn, ok := mem.(*ssa.Function)
				if !ok {
					continue
				}
				ssau.ForEachInstr(fn, true, func(in ssa.Instruction) {
					if st, ok := in.(*ssa.Store); ok && st.Addr == ssa.Value(g) {
						n++
						mc, ok := st.Val.(*ssa.Call)
						if !ok {
							good = false
							return
						}
						p, ok := fromCall(mc)
						if !ok {
							good = false
						}
						pats = append(pats, p...)
					}
				})
			}
			return pats, good && n > 0
		}
	}
	return nil, false
}

func c20CLI(c *Ctx) {
	r := c.R
	run := runClosure(c, "searchCmd")
	if !r.Anchor("O-3", "cli.searchCmd.Run", run != nil) {
		return
	}
	for _, call := range callsTo(run, validPkg+".ValidateQuery") {
		arg := call.Common().Args[0]
		good := false
		if j, ok := arg.(*ssa.Call); ok && ssau.CallName(j) == "strings.Join" {
			if sep, ok := ssau.ConstString(j.Common().Args[1]); ok && sep == " " && j.Common().Args[0] == ssa.Value(run.Params[1]) {
				good = true
			}
		}
		r.Check(good, "O-3", "cli.searchCmd.Run#validates-joined-arguments", c.P.Pos(call.Pos()), "ValidateQuery(strings.Join(args, \" \"))", "the query validated is not the command-line arguments joined by single spaces")
	}
	c20MatcherPatterns(c)
	vq := c.P.Func("internal/validation", "", "ValidateQuery")
	if vq != nil {
		ok, nAccept := true, 0
		for _, kinds := range c14AcceptedKinds(vq) {
			nAccept++
			hasCollapse := false
			for _, k := range kinds {
				if k == "collapse" {
					hasCollapse = true
				}
			}
			if !hasCollapse {
				ok = false // EVERY accepting exit normalises, not just one of them
			}
		}
		ok = ok && nAccept > 0
		r.Check(ok, "O-3", "validation.ValidateQuery#collapses-whitespace", c.P.Pos(vq.Pos()), "accepted queries pass strings.Fields + Join(\" \")", "accepted queries are not whitespace-normalised: padded command lines search different strings")
	}
}

func c20Key(c *Ctx) {
	r := c.R
	gk := c.P.Func("internal/cache", "SearchCache", "generateCacheKey")
	if !r.Anchor("O-4", "cache.(*SearchCache).generateCacheKey", gk != nil) {
		return
	}
	// every value derived from the query parameter that reaches Marshal / Sprintf passes ToLower
	found := false
	bad := ""
	// the normalised query: a string derived from the query parameter through
	// ToLower (written here or in a helper) and nothing but TrimSpace besides
	ssau.ForEachInstr(gk, false, func(in ssa.Instruction) {
		call, ok := in.(*ssa.Call)
		if !ok {
			return
		}
		if b, isB := call.Type().Underlying().(*types.Basic); !isB || b.Kind() != types.String {
			return
		}
		steps, root := stringChain(call)
		if root != ssa.Value(gk.Params[1]) {
			return
		}
		lower := false
		for _, s := range steps {
			if s.kind == "lower" {
				lower = true
			}
		}
		if !lower {
			return
		}
		found = true
		for _, s := range steps {
			if s.kind != "trim" && s.kind != "lower" {
				bad = "the key applies " + s.kind + " to the query besides ToLower and TrimSpace: it is coarser than the engine's own normalisation"
			}
		}
	})
	r.Check(found && bad == "", "O-4", "cache.(*SearchCache).generateCacheKey#normalisation", c.P.Pos(gk.Pos()), "the key folds the query's case (and applies nothing but case folding and trimming)", "the cache key does not fold the case of the query, or normalises it by more than ToLower and TrimSpace: "+bad)
}

// cacheKeyQuerySteps: the transformers generateCacheKey applies to the query
// before it is marshalled and hashed (kinds of stringChain), and where.
func cacheKeyQuerySteps(c *Ctx) (kinds []string, pos string, found bool) {
	gk := c.P.Func("internal/cache", "SearchCache", "generateCacheKey")
	if gk == nil {
		return nil, "", false
	}
	seen := map[string]bool{}
	ssau.ForEachInstr(gk, false, func(in ssa.Instruction) {
		call, ok := in.(*ssa.Call)
		if !ok {
			return
		}
		if b, isB := call.Type().Underlying().(*types.Basic); !isB || b.Kind() != types.String {
			return
		}
		steps, root := stringChain(call)
		if root != ssa.Value(gk.Params[1]) {
			return
		}
		found = true
		for _, s := range steps {
			if !seen[s.kind] {
				seen[s.kind] = true
				kinds = append(kinds, s.kind)
				if pos == "" || s.kind == "trim" {
					pos = c.P.Pos(s.call.Pos())
				}
			}
		}
	})
	sort.Strings(kinds)
	return kinds, pos, found
}

// c20MatcherPatterns: O-3 for every command. The typo matcher is the one
// place where the engine sees the query as typed, blanks included (every
// other path tokenises). Whatever reaches its pattern argument from the
// command layer must therefore be a query that ValidateQuery has trimmed and
// collapsed: traced back through the call graph, every origin of the pattern
// is a ValidateQuery result, a constant, or lies outside package cli.
func c20MatcherPatterns(c *Ctx) {
	r := c.R
	tr := &origin.Tracer{CG: c.P.CallGraph(), Through: func(call *ssa.Call, idx int) []ssa.Value {
		switch ssau.CallName(call) {
		case "strings.Join":
			return call.Common().Args[:1]
		case "strings.ToLower", "strings.TrimSpace":
			return call.Common().Args
		}
		return nil
	}}
	n := 0
	ord := newOrdinal()
	for _, fn := range shippedFuncs(c) {
		if pk := c.P.PkgOfFunc(fn); pk == nil || pk.PkgPath != dbPkg {
			continue
		}
		for _, fc := range callsTo(fn, fuzzyFind) {
			n++
			var bad []string
			for _, rt := range tr.Roots(fc.Common().Args[0]) {
				if os.Getenv("WTF_DEBUG_C20") != "" {
					fmt.Fprintf(os.Stderr, "c20 root: %s kind=%s V=%T\n", rt.String(), rt.Kind, rt.V)
				}
				in := rt.V
				if in == nil {
					continue
				}
				var home *ssa.Function
				if p, ok := in.(*ssa.Parameter); ok {
					home = p.Parent()
				} else if iv, ok := in.(ssa.Instruction); ok {
					home = iv.Parent()
				}
				if home == nil {
					continue
				}
				top := home
				for top.Parent() != nil {
					top = top.Parent()
				}
				// an origin inside the command layer, or further up in the
				// command-line library (the arguments as typed: the trace went
				// up through a Run function without meeting ValidateQuery)
				if top.Pkg == nil || (top.Pkg.Pkg.Path() != cliPkg && !strings.HasPrefix(top.Pkg.Pkg.Path(), "github.com/spf13/")) {
					continue
				}
				if rt.Kind == "call" && strings.HasSuffix(rt.Name, "validation.ValidateQuery") {
					continue
				}
				if rt.Kind == "const" {
					continue
				}
				bad = append(bad, rt.String()+" in "+load.FuncKey(home))
			}
			sort.Strings(bad)
			r.Check(len(bad) == 0, "O-3", ord.next(load.FuncKey(fn)+"#matcher-pattern-is-a-validated-query"), c.P.Pos(fc.Pos()), "whatever the command layer hands down to the typo matcher as its pattern is a ValidateQuery result", "a command hands its query to the typo matcher without ValidateQuery ("+shortName(strings.Join(bad, "; "))+"): the matcher sees leading, trailing and repeated blanks, so command lines that differ only in whitespace print different results")
		}
	}
	r.Floor("O-3", "typo-matcher calls traced to the command layer", n, 1)
}
