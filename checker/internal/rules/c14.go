package rules

import (
	"fmt"
	"go/token"
	"regexp/syntax"
	"sort"
	"strings"
	"unicode"

	"golang.org/x/tools/go/ssa"

	"wtfverif/checker/internal/interval"
	"wtfverif/checker/internal/load"
	"wtfverif/checker/internal/origin"
	"wtfverif/checker/internal/ssau"
	"wtfverif/checker/internal/symx"
)

func init() {
	register(&Rule{
		Prop: "C14",
		Explanation: "Step order and constants of input validation decided from the SSA form for all inputs: (O-1) the string returned by ValidateQuery with a nil error is derived from the parameter only through the recognised transformers control-strip (strings.Map), trim and whitespace collapse (Fields+Join \" \"), every success exit is dominated by the failing sides of the blank test, of the byte-length test on the raw input against MaxQueryLength, of the metacharacter test applied to a value on that derivation chain, and of the final emptiness test on the returned value itself; " +
			"(O-2) MaxQueryLength is 1000, the rejected character class is exactly {< > | & ; $} (the constant regular expression is parsed), the strip predicate drops exactly unicode.IsControl minus characters that are Unicode spaces (removed later by the collapse); (O-3) by interval analysis every nil-error return of ValidateLimit lies in [1,100] and the zero case returns the default; (O-4) in the search command the engine query, the echoed query and the recorded query originate only from ValidateQuery's result, the engine limit from ValidateLimit's, and both failures return before the database is loaded; " +
			"(O-5) no transformer that can grow the byte length follows the length test without its input being made valid UTF-8 first (strings.Map re-encodes each invalid byte as the 3-byte U+FFFD), which is the precondition for re-validation to accept its own output. String-level idempotence over all byte strings is NOT decided beyond that.",
		NotDecided:  []string{"idempotence and 'no more characters' as string-level facts over all byte strings (only the growth precondition and the transformer chain are decided)", "behaviour of strings.Fields/TrimSpace/Map themselves (standard library)"},
		Assumptions: []string{"strings.Map drops runes mapped to -1 and keeps others; strings.Fields splits on unicode.IsSpace; strings.ToValidUTF8 replaces each run of invalid bytes by the replacement"},
		Run:         runC14,
	})
}

type chainStep struct {
	kind string // strip, trim, collapse, tovalid, other
	call *ssa.Call
	in   ssa.Value
}

// stringChain walks the derivation of a string value back to its root through
// single-input string transformers.
func stringChain(v ssa.Value) (steps []chainStep, root ssa.Value) {
	for i := 0; i < 20; i++ {
		call, ok := v.(*ssa.Call)
		if !ok {
			return steps, v
		}
		a := call.Common().Args
		switch ssau.CallName(call) {
		case "strings.Join":
			if f, ok := a[0].(*ssa.Call); ok && ssau.CallName(f) == "strings.Fields" {
				if sep, ok := ssau.ConstString(a[1]); ok && sep == " " {
					steps = append(steps, chainStep{"collapse", call, f.Common().Args[0]})
					v = f.Common().Args[0]
					continue
				}
			}
			steps = append(steps, chainStep{"other:strings.Join", call, nil})
			return steps, v
		case "strings.TrimSpace":
			steps = append(steps, chainStep{"trim", call, a[0]})
			v = a[0]
		case "strings.Map":
			steps = append(steps, chainStep{"strip", call, a[1]})
			v = a[1]
		case "strings.ToValidUTF8":
			steps = append(steps, chainStep{"tovalid", call, a[0]})
			v = a[0]
		case "strings.ToLower":
			steps = append(steps, chainStep{"lower", call, a[0]})
			v = a[0]
		default:
			// a helper of the repository with one string parameter whose result
			// derives from it: its steps are spliced in
			if g := call.Common().StaticCallee(); g != nil && len(g.Blocks) > 0 && len(g.Params) >= 1 && len(a) == len(g.Params) && g.Signature.Results().Len() == 1 && strings.HasPrefix(ssau.FuncName(g), load.ModulePath) {
				rets := ssau.ReturnsOf(g)
				if len(rets) == 1 {
					inner, root := stringChain(rets[0].Results[0])
					opaque := false
					for _, st := range inner {
						if strings.HasPrefix(st.kind, "other:") {
							opaque = true
						}
					}
					// the chain starts at one of the helper's parameters (further
					// parameters configure a step, e.g. the characters to keep)
					pi := -1
					for k, p := range g.Params {
						if root == ssa.Value(p) {
							pi = k
						}
					}
					if pi >= 0 && !opaque {
						// the innermost step's input is the helper's parameter: rebind it to the argument
						for i := range inner {
							if inner[i].in == ssa.Value(g.Params[pi]) {
								inner[i].in = a[pi]
							}
						}
						steps = append(steps, inner...)
						v = a[pi]
						continue
					}
				}
			}
			steps = append(steps, chainStep{"other:" + ssau.CallName(call), call, nil})
			return steps, v
		}
	}
	return steps, v
}

func runC14(c *Ctx) {
	r := c.R
	r.Rule("O-1", "pipeline: the accepted result derives from the parameter through strip -> trim -> collapse only; every success exit lies behind the failing side of: blank test, raw byte-length test, metacharacter test on a chain value, emptiness test on the returned value")
	r.Rule("O-2", "constants: MaxQueryLength == 1000; rejected set == {< > | & ; $}; the strip predicate removes exactly unicode.IsControl minus Unicode spaces and keeps every other rune unchanged")
	r.Rule("O-3", "limit range: every nil-error return of ValidateLimit is within [1,100]; limit == 0 yields the default")
	r.Rule("O-4", "validation first: engine query, echoed query and history query originate only from ValidateQuery's result; the engine limit from ValidateLimit's; a failed validation returns before the database is loaded")
	r.Rule("O-5", "the length bound covers the output: strings.Map (which re-encodes invalid bytes as 3-byte U+FFFD) is only applied after the length test to input made valid UTF-8 by a non-growing replacement, or the length test is applied after it")

	sx := symx.New(c.P.IsRepoFunc)
	vq := c.P.Func("internal/validation", "", "ValidateQuery")
	if r.Anchor("O-1", "validation.ValidateQuery", vq != nil) {
		c14Query(c, sx, vq)
	}
	vl := c.P.Func("internal/validation", "", "ValidateLimit")
	if r.Anchor("O-3", "validation.ValidateLimit", vl != nil) {
		c14Limit(c, sx, vl)
	}
	c14First(c)
}

func c14Query(c *Ctx, sx *symx.Ctx, fn *ssa.Function) {
	fk := "validation.ValidateQuery"
	if c14Pipeline(c, sx, fn, fk) {
		return
	}
	facts := c14FactsOf(c, sx, fn, fk)
	for i, ft := range facts {
		key := fmt.Sprintf("%s#success-%d", fk, i+1)
		c14Judge(c, fk, key, ft.ret, ft.kinds, ft.rootIsParam, ft.root.Name(), ft.haveBlank, ft.haveLen, ft.lenConst, ft.haveMeta, ft.haveEmpty)
		c14StripChecks(c, fk, ft.steps)
	}
}

// c14FactsOf analyses one validation function (string) -> (string, error):
// per accepting exit, the transformer chain from the parameter to the accepted
// value and the failing tests that dominate the exit.
func c14FactsOf(c *Ctx, sx *symx.Ctx, fn *ssa.Function, fk string) []c14Facts {
	r := c.R
	param := fn.Params[0]
	var success []*ssa.Return
	for _, ret := range ssau.ReturnsOf(fn) {
		if ssau.IsNilConst(ssau.ResultValue(ret, 1)) {
			success = append(success, ret)
		}
	}
	if len(success) == 0 {
		r.Bad("O-1", fk+"#success-exit", c.P.Pos(fn.Pos()), "no return with a nil error")
		return nil
	}
	// error-producing tests: an If one of whose sides cannot reach a success return
	type test struct {
		iff      *ssa.If
		failEdge int
	}
	var tests []test
	reachSuccess := func(b *ssa.BasicBlock) bool {
		for _, s := range success {
			if b == s.Block() || ssau.Reachable(b, s.Block(), nil) {
				return true
			}
		}
		return false
	}
	for _, iff := range ssau.Ifs(fn) {
		for k, s := range iff.Block().Succs {
			if !reachSuccess(s) && reachSuccess(iff.Block().Succs[1-k]) {
				tests = append(tests, test{iff, k})
			}
		}
	}
	dominatesSuccess := func(t test) bool {
		// removing the passing edge makes every success return unreachable
		cut := map[[2]int]bool{{t.iff.Block().Index, 1 - t.failEdge}: true}
		for _, s := range success {
			if ssau.ReachableAvoidingEdges(fn, s.Block(), cut) {
				return false
			}
		}
		return true
	}
	var out []c14Facts
	for _, ret := range success {
		key := fk + "#success"
		res := ssau.ResultValue(ret, 0)
		steps, root := stringChain(res)
		onChain := func(v ssa.Value) (bool, bool) { // (on chain, at or after strip output)
			if v == res {
				return true, true
			}
			afterStrip := true
			for _, s := range steps {
				if s.kind == "strip" {
					// the strip's own output counts as after-strip; its input does not
					if v == ssa.Value(s.call) {
						return true, true
					}
					afterStrip = false
					if v == s.in {
						return true, false
					}
					continue
				}
				if v == ssa.Value(s.call) {
					return true, afterStrip
				}
				if v == s.in {
					return true, afterStrip
				}
			}
			return v == ssa.Value(param), false
		}

		// classify the tests
		var haveBlank, haveLen, haveMeta, haveEmpty bool
		var lenConst int64
		for _, t := range tests {
			if !dominatesSuccess(t) {
				continue
			}
			cond := t.iff.Cond
			op, x, y, ok := ssau.CondOf(cond)
			if !ok {
				continue
			}
			// emptiness tests in any spelling: s == "", len(s) == 0, len(strings.Fields(s)) == 0
			if subj, emptySucc, isEmpty := c14EmptyTest(cond); isEmpty && emptySucc == t.failEdge {
				// what is being tested for emptiness, through TrimSpace / Fields
				v := subj
				viaFields := false
				var fieldsCall ssa.Value
				for i := 0; i < 3; i++ {
					call, ok := v.(*ssa.Call)
					if !ok {
						break
					}
					n := ssau.CallName(call)
					if n == "strings.Fields" {
						viaFields = true
						fieldsCall = call
						v = call.Common().Args[0]
						continue
					}
					if n == "strings.TrimSpace" {
						if v == subj || viaFields {
							// TrimSpace(x) == "" and Fields(TrimSpace(x)) empty both say: x is blank
							v = call.Common().Args[0]
							viaFields = true
							continue
						}
					}
					break
				}
				if viaFields && v == ssa.Value(param) {
					haveBlank = true
				}
				if viaFields && v == res {
					haveEmpty = true // blank is at least empty: the returned value itself is tested
				}
				if subj == res {
					haveEmpty = true
				}
				// the result is the Join of the very fields tested: the same as result == ""
				if jc, ok := res.(*ssa.Call); ok && ssau.CallName(jc) == "strings.Join" && fieldsCall != nil && jc.Common().Args[0] == fieldsCall {
					haveEmpty = true
				}
				continue
			}
			// len(query) > K
			if call, isCall := x.(*ssa.Call); isCall && ssau.CallName(call) == "builtin.len" {
				k, isConst := ssau.ConstInt(y)
				arg := call.Common().Args[0]
				// len(strings.Fields(x)) == 0 fails, and the result is Join of those very fields:
				// the same test as result == ""
				if isConst && k == 0 && ((op == token.EQL && t.failEdge == 0) || (op == token.NEQ && t.failEdge == 1) || (op == token.LEQ && t.failEdge == 0) || (op == token.GTR && t.failEdge == 1)) {
					if jc, ok := res.(*ssa.Call); ok && ssau.CallName(jc) == "strings.Join" && jc.Common().Args[0] == arg {
						if fc, ok := arg.(*ssa.Call); ok && ssau.CallName(fc) == "strings.Fields" {
							haveEmpty = true
							continue
						}
					}
				}
				if isConst && arg == ssa.Value(param) {
					if (op == token.GTR && t.failEdge == 0) || (op == token.LEQ && t.failEdge == 1) {
						haveLen, lenConst = true, k
					} else if (op == token.GEQ && t.failEdge == 0) || (op == token.LSS && t.failEdge == 1) {
						haveLen, lenConst = true, k-1
					}
					continue
				}
				// len(matches) > 0 where matches = re.FindAllString(chain value, -1)
				if isConst && k == 0 && ((op == token.GTR && t.failEdge == 0) || (op == token.LEQ && t.failEdge == 1) || (op == token.NEQ && t.failEdge == 0) || (op == token.EQL && t.failEdge == 1)) {
					// len(detector(chain value)) > 0, the detector a helper that lists the
					// characters of a constant set found in its argument
					if hc, ok := arg.(*ssa.Call); ok {
						if h := hc.Common().StaticCallee(); h != nil && c.P.IsRepoFunc(h) && len(h.Blocks) > 0 && len(hc.Common().Args) == 1 {
							if set, ok := c14DetectorHelper(h); ok {
								if on, _ := onChain(hc.Common().Args[0]); on {
									haveMeta = true
									c14MetaSetOf(c, fk, hc, []rune(set))
								} else {
									r.Bad("O-1", key+":metachar-test-subject", c.P.Pos(hc.Pos()), "the metacharacter test is applied to a value that is not on the derivation chain of the result")
								}
							}
						}
					}
					// len(matcher(pattern, chain value)) > 0, the matcher a helper whose
					// result is empty exactly when pattern.FindAllString finds nothing
					if hc, ok := arg.(*ssa.Call); ok && (len(hc.Common().Args) == 2 || len(hc.Common().Args) == 1) {
						if h := hc.Common().StaticCallee(); h != nil && c.P.IsRepoFunc(h) && len(h.Blocks) > 0 {
							if find, si, ok := c14RegexMatcher(h); ok {
								if on, _ := onChain(hc.Common().Args[si]); on {
									haveMeta = true
									c14MetaSet(c, fk, find)
								} else {
									r.Bad("O-1", key+":metachar-test-subject", c.P.Pos(hc.Pos()), "the metacharacter test is applied to a value that is not on the derivation chain of the result")
								}
							}
						}
					}
					if fa, ok := arg.(*ssa.Call); ok && strings.HasPrefix(ssau.CallName(fa), "(*regexp.Regexp).Find") {
						subject := fa.Common().Args[1]
						on, after := onChain(subject)
						if on {
							haveMeta = true
							c14MetaSet(c, fk, fa)
							_ = after
						} else {
							r.Bad("O-1", key+":metachar-test-subject", c.P.Pos(fa.Pos()), "the metacharacter test is applied to a value that is not on the derivation chain of the result")
						}
					}
				}
			}
		}
		// boolean tests: re.MatchString(x) / strings.ContainsAny(x, set)
		for _, t := range tests {
			if !dominatesSuccess(t) || t.failEdge != 0 {
				continue
			}
			// found, any := detector(chain value); if any { reject }: the detector a
			// helper whose boolean says exactly whether its pattern finds something
			if ex, ok := t.iff.Cond.(*ssa.Extract); ok {
				if hc, ok := ex.Tuple.(*ssa.Call); ok && len(hc.Common().Args) == 1 {
					if h := hc.Common().StaticCallee(); h != nil && c.P.IsRepoFunc(h) && len(h.Blocks) > 0 {
						if find := c14BoolDetector(h, ex.Index); find != nil {
							if on, _ := onChain(hc.Common().Args[0]); on {
								haveMeta = true
								c14MetaSet(c, fk, find)
							}
						}
					}
				}
			}
			if call, ok := t.iff.Cond.(*ssa.Call); ok {
				n := ssau.CallName(call)
				if n == "(*regexp.Regexp).MatchString" || n == "strings.ContainsAny" {
					subj := call.Common().Args[0]
					if n != "strings.ContainsAny" {
						subj = call.Common().Args[1]
					}
					if on, _ := onChain(subj); on {
						haveMeta = true
						c14MetaSet(c, fk, call)
					}
				}
			}
		}
		ft := c14Facts{ret: ret, steps: steps, root: root, rootIsParam: root == ssa.Value(param), identity: res == ssa.Value(param),
			haveBlank: haveBlank, haveLen: haveLen, lenConst: lenConst, haveMeta: haveMeta, haveEmpty: haveEmpty}
		for _, s := range steps {
			ft.kinds = append(ft.kinds, s.kind)
		}
		out = append(out, ft)
	}
	return out
}

// c14Facts: what one accepting exit of a validation function establishes.
type c14Facts struct {
	ret         *ssa.Return
	steps       []chainStep
	kinds       []string // transformers applied, outermost first
	root        ssa.Value
	rootIsParam bool
	identity    bool // the value accepted is the parameter itself
	haveBlank   bool
	haveLen     bool
	lenConst    int64
	haveMeta    bool
	haveEmpty   bool
}

// c14Judge reports the O-1 obligations of one accepting exit from its facts.
func c14Judge(c *Ctx, fk, key string, ret *ssa.Return, kinds []string, rootOK bool, rootName string, haveBlank, haveLen bool, lenConst int64, haveMeta, haveEmpty bool) {
	r := c.R
	chainOK := rootOK
	why := ""
	if !chainOK {
		why = "the returned string does not derive from the query parameter through string transformers only (root: " + rootName + ")"
	}
	for _, k := range kinds {
		if strings.HasPrefix(k, "other:") {
			chainOK = false
			why = "unrecognised transformer on the way from the parameter to the result: " + strings.TrimPrefix(k, "other:")
		}
	}
	need := map[string]bool{"strip": false, "trim": false, "collapse": false}
	for _, k := range kinds {
		if _, ok := need[k]; ok {
			need[k] = true
		}
	}
	// collapsing with strings.Fields drops leading and trailing whitespace too:
	// a separate trim is then optional
	if need["collapse"] {
		need["trim"] = true
	}
	for _, k := range []string{"strip", "trim", "collapse"} {
		if !need[k] && chainOK {
			chainOK = false
			why = "the " + k + " step is missing between the parameter and the returned value"
		}
	}
	// collapse must be the outermost whitespace step (applied last): after it nothing may re-introduce spaces
	if chainOK && len(kinds) > 0 && kinds[0] != "collapse" && kinds[0] != "trim" {
		chainOK = false
		why = "the last transformer applied is " + kinds[0] + ", not the whitespace collapse/trim"
	}
	r.Check(chainOK, "O-1", key+":derivation", c.P.Pos(ret.Pos()), "result = "+strings.Join(kinds, " <- ")+" <- query", why)

	r.Check(haveBlank, "O-1", key+":blank-test", c.P.Pos(ret.Pos()), "TrimSpace(query) == \"\" fails before anything else is accepted", "no dominating blank test strings.TrimSpace(query) == \"\" with an error exit")
	r.Check(haveLen, "O-1", key+":length-test", c.P.Pos(ret.Pos()), fmt.Sprintf("len(query) > %d on the raw input fails", lenConst), "no dominating byte-length test on the raw query parameter")
	if haveLen {
		r.Check(lenConst == 1000, "O-2", fk+"#max-length-1000", c.P.Pos(ret.Pos()), "queries longer than 1000 bytes are rejected, 1000 accepted", fmt.Sprintf("the length limit enforced is %d bytes, the property states 1000", lenConst))
	}
	r.Check(haveMeta, "O-1", key+":metachar-test", c.P.Pos(ret.Pos()), "a dominating metacharacter test on a chain value fails", "no dominating metacharacter test on a value of the derivation chain")
	r.Check(haveEmpty, "O-1", key+":final-empty-test", c.P.Pos(ret.Pos()), "the returned value itself is tested against \"\"", "the value returned is not tested for emptiness after cleaning (a query of only control characters/spaces could be accepted as \"\")")

}

// c14StripChecks: O-2 strip predicate and O-5 growth for the strip steps of a chain.
func c14StripChecks(c *Ctx, fk string, steps []chainStep) {
	r := c.R
	for _, s := range steps {
		if s.kind != "strip" {
			continue
		}
		c14Strip(c, fk, s.call)
		// growth: input of Map must be valid UTF-8 by construction, or the length test follows
		inSteps, _ := stringChain(s.in)
		safe := false
		how := ""
		for _, is := range inSteps {
			if is.kind == "tovalid" {
				if rep, ok := ssau.ConstString(is.call.Common().Args[1]); ok && len(rep) <= 1 {
					safe, how = true, fmt.Sprintf("input is strings.ToValidUTF8(…, %q): each invalid run is replaced by at most one byte", rep)
				}
			}
		}
		r.Check(safe, "O-5", fk+"#length-test-covers-output", c.P.Pos(s.call.Pos()), how, "strings.Map runs on the raw bytes after the length test: every invalid UTF-8 byte comes back as the 3-byte U+FFFD, so an accepted query can grow beyond MaxQueryLength and be rejected when validated again (e.g. 400 x \"\\xff\" -> 1200 bytes)")
	}
}

var c14MetaDone = map[string]bool{}

// c14MetaSet extracts the rejected character set from the regexp receiver /
// ContainsAny argument and compares it with the property's set.
func c14MetaSet(c *Ctx, fk string, call *ssa.Call) {
	r := c.R
	key := fk + "#rejected-set"
	var got []rune
	okParse := false
	switch n := ssau.CallName(call); {
	case strings.HasPrefix(n, "(*regexp.Regexp)."):
		// receiver: regexp.MustCompile(const) possibly via a package-level variable
		tr := &origin.Tracer{CG: c.P.CallGraph()} // a pattern handed to a matching helper is the argument at its call sites
		var pat string
		for _, rt := range tr.Roots(call.Common().Args[0]) {
			if mc, ok := rt.V.(*ssa.Call); ok && (ssau.CallName(mc) == "regexp.MustCompile" || ssau.CallName(mc) == "regexp.Compile") {
				if s, ok := ssau.ConstString(mc.Common().Args[0]); ok {
					pat = s
				}
			}
			if rt.Kind == "global" {
				// package-level regexp: find its initialiser store
				if g, ok := rt.V.(*ssa.UnOp); ok {
					if gl, ok := g.X.(*ssa.Global); ok {
						for _, mem := range gl.Pkg.Members {
							if fn, ok := mem.(*ssa.Function); ok && fn.Name() == "init" {
								ssau.ForEachInstr(fn, false, func(in ssa.Instruction) {
									if st, ok := in.(*ssa.Store); ok && st.Addr == ssa.Value(gl) {
										if mc, ok := st.Val.(*ssa.Call); ok && strings.HasPrefix(ssau.CallName(mc), "regexp.") {
											if s, ok := ssau.ConstString(mc.Common().Args[0]); ok {
												pat = s
											}
										}
									}
								})
							}
						}
					}
				}
			}
		}
		if pat != "" {
			if re, err := syntax.Parse(pat, syntax.Perl); err == nil {
				re = re.Simplify()
				switch re.Op {
				case syntax.OpCharClass:
					okParse = true
					for i := 0; i+1 < len(re.Rune); i += 2 {
						for x := re.Rune[i]; x <= re.Rune[i+1] && len(got) < 64; x++ {
							got = append(got, x)
						}
					}
				case syntax.OpLiteral:
					okParse = true
					got = append(got, re.Rune...)
				}
			}
		}
	case n == "strings.ContainsAny":
		if s, ok := ssau.ConstString(call.Common().Args[1]); ok {
			okParse = true
			got = []rune(s)
		}
	}
	if !okParse {
		r.Unknown("O-2", key, c.P.Pos(call.Pos()), "the rejected character set could not be extracted as a constant character class")
		return
	}
	c14MetaSetOf(c, fk, call, got)
}

// c14MetaSetOf compares an extracted rejected set with the property's.
func c14MetaSetOf(c *Ctx, fk string, call *ssa.Call, got []rune) {
	r := c.R
	key := fk + "#rejected-set"
	want := []rune{'$', '&', ';', '<', '>', '|'}
	got = append([]rune{}, got...)
	sort.Slice(got, func(i, j int) bool { return got[i] < got[j] })
	r.Check(string(got) == string(want), "O-2", key, c.P.Pos(call.Pos()), "rejected set is exactly {$ & ; < > |}", fmt.Sprintf("rejected set is %q, the property states %q", string(got), string(want)))
}

// c14DetectorHelper: h(s) returns a list that is non-empty whenever s contains
// a character of a constant set K: it ranges over K and appends to its result
// under strings.ContainsRune(s, c) (or IndexRune >= 0) for the loop's own c,
// and an early empty return lies only behind !strings.ContainsAny(s, K).
func c14DetectorHelper(h *ssa.Function) (string, bool) {
	if len(h.Params) != 1 || h.Signature.Results().Len() != 1 {
		return "", false
	}
	p := h.Params[0]
	isP := func(v ssa.Value) bool { return v == ssa.Value(p) || ssau.ParamOf(v) == p }
	set := ""
	found := false
	for _, l := range ssau.RangeLoops(h) {
		if l.Next == nil || !l.Next.IsString {
			continue
		}
		rg, ok := l.Next.Iter.(*ssa.Range)
		if !ok {
			continue
		}
		k, ok := ssau.ConstString(rg.X)
		if !ok {
			continue
		}
		for _, iff := range ssau.Ifs(h) {
			if !l.InLoop(iff.Block()) {
				continue
			}
			call, ok := iff.Cond.(*ssa.Call)
			if !ok || ssau.CallName(call) != "strings.ContainsRune" || !isP(call.Common().Args[0]) {
				continue
			}
			ex, ok := call.Common().Args[1].(*ssa.Extract)
			if !ok || ex.Tuple != ssa.Value(l.Next) || ex.Index != 2 {
				continue
			}
			// the true side appends
			tb := iff.Block().Succs[0]
			for _, b := range h.Blocks {
				if b != tb && !tb.Dominates(b) {
					continue
				}
				for _, in := range b.Instrs {
					if ac, ok := in.(*ssa.Call); ok && ssau.CallName(ac) == "builtin.append" {
						set, found = k, true
					}
				}
			}
		}
	}
	// ... or the other way round: the helper walks the runes of its argument
	// and records (append / set insert) those found in a constant set
	if !found {
		for _, l := range ssau.RangeLoops(h) {
			if l.Next == nil || !l.Next.IsString {
				continue
			}
			rg, ok := l.Next.Iter.(*ssa.Range)
			if !ok || !isP(rg.X) {
				continue
			}
			for _, iff := range ssau.Ifs(h) {
				if !l.InLoop(iff.Block()) {
					continue
				}
				call, ok := iff.Cond.(*ssa.Call)
				if !ok || ssau.CallName(call) != "strings.ContainsRune" {
					continue
				}
				k, ok := ssau.ConstString(call.Common().Args[0])
				if !ok {
					continue
				}
				ex, ok := call.Common().Args[1].(*ssa.Extract)
				if !ok || ex.Tuple != ssa.Value(l.Next) || ex.Index != 2 {
					continue
				}
				tb := iff.Block().Succs[0]
				for _, b := range h.Blocks {
					if b != tb && !tb.Dominates(b) {
						continue
					}
					for _, in := range b.Instrs {
						switch x := in.(type) {
						case *ssa.Call:
							if ssau.CallName(x) == "builtin.append" {
								set, found = k, true
							}
						case *ssa.MapUpdate:
							// the set handed back
							for _, ret := range ssau.ReturnsOf(h) {
								if ssau.ResultValue(ret, 0) == x.Map {
									set, found = k, true
								}
							}
						}
					}
				}
			}
		}
	}
	if !found {
		return "", false
	}
	// empty returns only when the argument holds none of the set
	cut := map[[2]int]bool{}
	for _, iff := range ssau.Ifs(h) {
		cond := iff.Cond
		neg := false
		if u, ok := cond.(*ssa.UnOp); ok && u.Op == token.NOT {
			cond, neg = u.X, true
		}
		call, ok := cond.(*ssa.Call)
		if !ok || ssau.CallName(call) != "strings.ContainsAny" || !isP(call.Common().Args[0]) {
			continue
		}
		k2, ok := ssau.ConstString(call.Common().Args[1])
		if !ok {
			continue
		}
		covers := true
		for _, c := range set {
			if !strings.ContainsRune(k2, c) {
				covers = false
			}
		}
		if !covers {
			continue
		}
		// the edge on which ContainsAny is false
		side := 1
		if neg {
			side = 0
		}
		cut[[2]int{iff.Block().Index, side}] = true
	}
	for _, ret := range ssau.ReturnsOf(h) {
		if ssau.IsNilConst(ret.Results[0]) {
			if len(cut) == 0 || ssau.ReachableAvoidingEdges(h, ret.Block(), cut) {
				return "", false
			}
		}
	}
	return set, true
}

// c14Strip checks the mapping closure of the control-character strip.
func c14Strip(c *Ctx, fk string, call *ssa.Call) {
	r := c.R
	key := fk + "#strip-predicate"
	var cl *ssa.Function
	switch f := call.Common().Args[0].(type) {
	case *ssa.MakeClosure:
		cl, _ = f.Fn.(*ssa.Function)
	case *ssa.Function:
		cl = f
	}
	if cl == nil || len(cl.Params) != 1 {
		r.Unknown("O-2", key, c.P.Pos(call.Pos()), "mapping function of strings.Map not resolved")
		return
	}
	p := cl.Params[0]
	cd := ssau.ControlDeps(cl)
	bad := ""
	nDrop := 0
	for _, ret := range ssau.ReturnsOf(cl) {
		v := ret.Results[0]
		if v == ssa.Value(p) {
			continue // keeps the rune unchanged
		}
		n, isConst := ssau.ConstInt(v)
		if !isConst || n != -1 {
			bad = "the mapping function returns something other than the rune itself or -1"
			continue
		}
		nDrop++
		// dropping must be under unicode.IsControl(r) == true
		isCtl := false
		for _, d := range ssau.TransitiveControlDeps(cd, ret.Block()) {
			if cc, ok := d.If().Cond.(*ssa.Call); ok && ssau.CallName(cc) == "unicode.IsControl" && cc.Common().Args[0] == ssa.Value(p) && d.Then {
				isCtl = true
			}
		}
		if !isCtl {
			bad = "a rune is dropped without being a control character (unicode.IsControl)"
		}
	}
	if nDrop == 0 && bad == "" {
		bad = "the mapping function never drops a rune: control characters are not removed"
	}
	// exemptions: runes compared with r inside the closure must be Unicode spaces,
	// and control characters kept must be kept only through such exemptions
	for _, iff := range ssau.Ifs(cl) {
		op, x, y, ok := ssau.CondOf(iff.Cond)
		if !ok || (op != token.NEQ && op != token.EQL) {
			continue
		}
		if x != ssa.Value(p) {
			x, y = y, x
		}
		if x != ssa.Value(p) {
			continue
		}
		if k, ok := ssau.ConstInt(y); ok {
			if !unicode.IsSpace(rune(k)) {
				bad = fmt.Sprintf("control character U+%04X is exempted from removal but is not a Unicode space, so it survives the whitespace collapse", k)
			}
		}
	}
	// the set form of the exemptions: strings.ContainsRune(keep, r) with keep a
	// constant, or a parameter of the enclosing helper that only receives constants
	setExempt := map[[2]int]bool{}
	for _, iff := range ssau.Ifs(cl) {
		cond, neg := iff.Cond, false
		if u, ok := cond.(*ssa.UnOp); ok && u.Op == token.NOT {
			cond, neg = u.X, true
		}
		cc, ok := cond.(*ssa.Call)
		if !ok || ssau.CallName(cc) != "strings.ContainsRune" || cc.Common().Args[1] != ssa.Value(p) {
			continue
		}
		sets, known := c14ConstStrings(c, cc.Common().Args[0], 0)
		if !known {
			bad = "the set of control characters exempted from removal is not a constant"
			continue
		}
		for _, set := range sets {
			for _, k := range set {
				if !unicode.IsSpace(k) {
					bad = fmt.Sprintf("control character U+%04X is exempted from removal but is not a Unicode space, so it survives the whitespace collapse", k)
				}
			}
		}
		side := 0 // the edge on which r is in the set
		if neg {
			side = 1
		}
		setExempt[[2]int{iff.Block().Index, side}] = true
	}
	// every path on which IsControl is true must either drop or pass an exemption comparison:
	// with the drop returns and the exemption edges removed, no return is reachable from the IsControl-true edge
	for _, iff := range ssau.Ifs(cl) {
		cc, ok := iff.Cond.(*ssa.Call)
		if !ok || ssau.CallName(cc) != "unicode.IsControl" {
			continue
		}
		cut := map[[2]int]bool{}
		for e := range setExempt {
			cut[e] = true
		}
		for _, i2 := range ssau.Ifs(cl) {
			op, x, y, ok := ssau.CondOf(i2.Cond)
			if !ok {
				continue
			}
			if x != ssa.Value(p) {
				x, y = y, x
			}
			if _, isC := ssau.ConstInt(y); x == ssa.Value(p) && isC {
				// edge on which r == const
				if op == token.EQL {
					cut[[2]int{i2.Block().Index, 0}] = true
				} else if op == token.NEQ {
					cut[[2]int{i2.Block().Index, 1}] = true
				}
			}
		}
		reach := blocksReachable(iff.Block(), func() map[[2]int]bool { cut[[2]int{iff.Block().Index, 1}] = true; return cut }())
		for b := range reach {
			if ret, ok := b.Instrs[len(b.Instrs)-1].(*ssa.Return); ok {
				if n, isC := ssau.ConstInt(ret.Results[0]); !(isC && n == -1) {
					bad = "a control character that is not an exempted space can be kept"
				}
			}
		}
	}
	r.Check(bad == "", "O-2", key, c.P.Pos(cl.Pos()), "drops exactly unicode.IsControl runes except Unicode spaces; keeps all others unchanged", bad)
}

func c14Limit(c *Ctx, sx *symx.Ctx, fn *ssa.Function) {
	r := c.R
	f := sx.Of(fn)
	q := interval.New(f)
	fk := "validation.ValidateLimit"
	n := 0
	for _, ret := range ssau.ReturnsOf(fn) {
		if !ssau.IsNilConst(ssau.ResultValue(ret, 1)) {
			continue
		}
		n++
		v := ssau.ResultValue(ret, 0)
		iv := q.At(v, ret.Block())
		key := fmt.Sprintf("%s#accept-%d(%s)", fk, n, f.Plain(v))
		good := iv.LoOK && iv.HiOK && iv.Lo >= 1 && iv.Hi <= 100
		desc := "unbounded"
		if iv.LoOK || iv.HiOK {
			lo, hi := "-inf", "+inf"
			if iv.LoOK {
				lo = fmt.Sprint(iv.Lo)
			}
			if iv.HiOK {
				hi = fmt.Sprint(iv.Hi)
			}
			desc = "[" + lo + "," + hi + "]"
		}
		r.Check(good, "O-3", key, c.P.Pos(ret.Pos()), "accepted limit in "+desc, "an accepted limit can lie outside [1,100]: the value returned with a nil error is only known to be in "+desc)
	}
	r.Floor("O-3", "accepting returns of ValidateLimit", n, 2)
	// limit == 0 yields a constant default
	zeroOK := false
	for _, iff := range ssau.Ifs(fn) {
		op, x, y, ok := ssau.CondOf(iff.Cond)
		if !ok || op != token.EQL || x != ssa.Value(fn.Params[0]) {
			continue
		}
		if k, ok := ssau.ConstInt(y); ok && k == 0 {
			b := iff.Block().Succs[0]
			if ret, ok := b.Instrs[len(b.Instrs)-1].(*ssa.Return); ok {
				if d, ok := ssau.ConstInt(ret.Results[0]); ok && d >= 1 && d <= 100 && ssau.IsNilConst(ret.Results[1]) {
					zeroOK = true
				}
			}
		}
	}
	r.Check(zeroOK, "O-3", fk+"#zero-means-default", c.P.Pos(fn.Pos()), "limit == 0 returns the constant default with a nil error", "limit == 0 does not return a constant default in [1,100] with a nil error")
}

func c14First(c *Ctx) {
	r := c.R
	run := runClosure(c, "searchCmd")
	if !r.Anchor("O-4", "cli.searchCmd.Run", run != nil) {
		return
	}
	fk := "cli.searchCmd.Run"
	tr := &origin.Tracer{}
	vqName := validPkg + ".ValidateQuery"
	vlName := validPkg + ".ValidateLimit"
	onlyFrom := func(v ssa.Value, name string) (bool, string) {
		rs := tr.Roots(v)
		var ds []string
		ok := len(rs) > 0
		for _, rt := range rs {
			ds = append(ds, rt.String())
			if !(rt.Kind == "call" && rt.Name == name) {
				ok = false
			}
		}
		return ok, shortName(strings.Join(ds, ", "))
	}
	nQ := 0
	ssau.ForEachInstr(run, false, func(in ssa.Instruction) {
		call, ok := in.(*ssa.Call)
		if !ok {
			return
		}
		switch {
		case isEngineCall(call):
			nQ++
			ok, d := onlyFrom(call.Common().Args[1], vqName)
			r.Check(ok, "O-4", fk+"#engine-query", c.P.Pos(call.Pos()), "engine query originates from ValidateQuery only", "the query handed to the engine does not originate only from ValidateQuery's result: "+d)
			// the limit: field Limit of the options struct
			c14EngineLimit(c, tr, call, vlName)
		case ssau.CallName(call) == histMeth+"AddEntry":
			nQ++
			ok, d := onlyFrom(call.Common().Args[1], vqName)
			r.Check(ok, "O-4", fk+"#history-query", c.P.Pos(call.Pos()), "recorded query originates from ValidateQuery only", "the query recorded in the history does not originate only from ValidateQuery's result: "+d)
		}
	})
	r.Floor("O-4", "validated-query consumers", nQ, 2)
	// failures return before the database is loaded
	var loads []*ssa.Call
	ssau.ForEachInstr(run, false, func(in ssa.Instruction) {
		call, ok := in.(*ssa.Call)
		if !ok {
			return
		}
		if strings.HasSuffix(ssau.CallName(call), "LoadDatabaseWithFallback") {
			loads = append(loads, call)
			return
		}
		// or a step of the command that does the loading
		if g := call.Common().StaticCallee(); g != nil && g.Blocks != nil && g.Pkg == run.Pkg {
			for _, h := range withSteps(c, g, 1) {
				for _, in2 := range callsMatching(h, false, func(n string) bool { return strings.HasSuffix(n, "LoadDatabaseWithFallback") }) {
					_ = in2
					loads = append(loads, call)
					return
				}
			}
		}
	})
	r.Floor("O-4", "database load calls in the search command", len(loads), 1)
	for _, name := range []string{vqName, vlName} {
		calls := callsTo(run, name)
		short := name[strings.LastIndex(name, ".")+1:]
		if len(calls) == 0 {
			r.Bad("O-4", fk+"#"+short+"-called", c.P.Pos(run.Pos()), short+" is not called by the search command")
			continue
		}
		for _, call := range calls {
			ok, why := errorBlocksTargets(call, loads)
			r.Check(ok, "O-4", fk+"#"+short+"-failure-stops", c.P.Pos(call.Pos()), "a rejected input returns before the database is loaded", "after a failed "+short+" the search still proceeds: "+why)
			for _, l := range loads {
				r.Check(ssau.Dominates(call, l), "O-4", fk+"#"+short+"-before-load", c.P.Pos(call.Pos()), short+" dominates the database load", short+" does not run before the database is loaded on every path")
			}
		}
	}
}

func c14EngineLimit(c *Ctx, tr *origin.Tracer, engine *ssa.Call, vlName string) {
	r := c.R
	fk := "cli.searchCmd.Run"
	opt := engine.Common().Args[2]
	fi := origin.FieldIndex(opt.Type(), "Limit")
	if fi < 0 {
		r.Unknown("O-4", fk+"#engine-limit", c.P.Pos(engine.Pos()), "SearchOptions has no field Limit")
		return
	}
	full := &origin.Tracer{CG: c.P.CallGraph(), FieldStoresIn: c.P.RepoFuncs(), Sx: symx.New(c.P.IsRepoFunc)}
	rs := full.FieldRoots(opt, fi)
	hasValidated, hasRaw := false, false
	var ds []string
	for _, rt := range rs {
		ds = append(ds, rt.String())
		if rt.Kind == "call" && rt.Name == vlName {
			hasValidated = true
		}
		if rt.Kind == "call" && strings.Contains(rt.Name, "pflag.FlagSet).GetInt") {
			hasRaw = true
		}
	}
	_ = tr
	r.Check(hasValidated && !hasRaw, "O-4", fk+"#engine-limit", c.P.Pos(engine.Pos()), "the engine limit originates from ValidateLimit (or the configured default), never from the raw flag: "+shortName(strings.Join(ds, ", ")), "the limit handed to the engine can be the unvalidated --limit flag or never passes ValidateLimit: "+shortName(strings.Join(ds, ", ")))
}

// c14EmptyTest recognises a branch condition that tests a string or a list
// for emptiness: s == "" / s != "", or len(x) against zero in any spelling.
// It returns the tested value and the successor on which it is empty.
func c14EmptyTest(cond ssa.Value) (subj ssa.Value, emptySucc int, ok bool) {
	if x, z, ok := ssau.LenZeroTest(cond); ok {
		return x, z, true
	}
	op, x, y, okc := ssau.CondOf(cond)
	if !okc {
		return nil, 0, false
	}
	if s, isStr := ssau.ConstString(x); isStr && s == "" {
		x, y = y, x
	}
	if s, isStr := ssau.ConstString(y); isStr && s == "" {
		switch op {
		case token.EQL:
			return x, 0, true
		case token.NEQ:
			return x, 1, true
		}
	}
	return nil, 0, false
}

// c14RegexMatcher: h(pattern, s) (either order) returns a list that is empty
// exactly when pattern.FindAllString(s, -1) is: the matches themselves, or a
// list appended to once per key of a set that received every match. Returns
// the Find call and the index of the subject parameter.
func c14RegexMatcher(h *ssa.Function) (*ssa.Call, int, bool) {
	if (len(h.Params) != 2 && len(h.Params) != 1) || h.Signature.Results().Len() != 1 {
		return nil, 0, false
	}
	var find *ssa.Call
	si := -1
	ssau.ForEachInstr(h, false, func(in ssa.Instruction) {
		call, ok := in.(*ssa.Call)
		if !ok || !strings.HasPrefix(ssau.CallName(call), "(*regexp.Regexp).FindAll") || len(call.Common().Args) < 2 {
			return
		}
		a := call.Common().Args
		for i, p := range h.Params {
			if a[1] != ssa.Value(p) {
				continue
			}
			if len(h.Params) == 2 {
				if rp := h.Params[1-i]; a[0] == ssa.Value(rp) {
					find, si = call, i
				}
				continue
			}
			// the pattern is a package-level expression (its class is read by c14MetaSet)
			if u, isLoad := a[0].(*ssa.UnOp); isLoad {
				if _, isGlobal := u.X.(*ssa.Global); isGlobal {
					find, si = call, i
				}
			}
		}
	})
	if find == nil {
		return nil, 0, false
	}
	loops := ssau.RangeLoops(h)
	cd := ssau.ControlDeps(h)
	uncond := func(l *ssau.RangeLoop, b *ssa.BasicBlock) bool {
		if !l.InLoop(b) {
			return false
		}
		for _, d := range ssau.TransitiveControlDeps(cd, b) {
			if d.Branch != l.Header && l.InLoop(d.Branch) {
				return false
			}
		}
		return true
	}
	// nonEmptyWith(v): v is non-empty exactly when the matches are
	var same func(v ssa.Value, d int) bool
	same = func(v ssa.Value, d int) bool {
		if d > 4 {
			return false
		}
		if v == ssa.Value(find) {
			return true
		}
		switch x := v.(type) {
		case *ssa.Phi:
			// a list grown in a loop: nil/empty on entry, one unconditional append per iteration
			for i := range loops {
				l := &loops[i]
				if x.Block() != l.Header || l.Over == nil || !same(l.Over, d+1) {
					continue
				}
				okEdges := 0
				for _, e := range x.Edges {
					if ssau.IsNilConst(e) {
						okEdges++
						continue
					}
					if ap, ok := e.(*ssa.Call); ok && ssau.CallName(ap) == "builtin.append" && ap.Common().Args[0] == ssa.Value(x) && uncond(l, ap.Block()) {
						okEdges++
					}
				}
				if okEdges == len(x.Edges) {
					return true
				}
			}
		case *ssa.MakeMap:
			// a set that receives every element of a source, unconditionally
			for _, ref := range *x.Referrers() {
				mu, ok := ref.(*ssa.MapUpdate)
				if !ok || mu.Map != ssa.Value(x) {
					continue
				}
				for i := range loops {
					l := &loops[i]
					if l.Over != nil && same(l.Over, d+1) && uncond(l, mu.Block()) {
						return true
					}
				}
			}
		}
		return false
	}
	for _, ret := range ssau.ReturnsOf(h) {
		if !same(ssau.ResultValue(ret, 0), 0) {
			return nil, 0, false
		}
	}
	return find, si, true
}

// c14ConstStrings: the constant strings v can be: a constant, or (a captured
// copy of) a parameter of an unexported-or-exported repository function to
// which every shipped call site passes such a value.
func c14ConstStrings(c *Ctx, v ssa.Value, d int) ([]string, bool) {
	if d > 4 {
		return nil, false
	}
	if s, ok := ssau.ConstString(v); ok {
		return []string{s}, true
	}
	var par *ssa.Parameter
	switch x := v.(type) {
	case *ssa.Parameter:
		par = x
	case *ssa.UnOp:
		if fv, ok := x.X.(*ssa.FreeVar); ok {
			if cell := ssau.FreeVarCell(fv); cell != nil {
				for _, ref := range *cell.Referrers() {
					if st, ok := ref.(*ssa.Store); ok && st.Addr == ssa.Value(cell) {
						p, isP := st.Val.(*ssa.Parameter)
						if !isP || par != nil {
							return nil, false
						}
						par = p
					}
				}
			}
		} else if p := ssau.ParamOf(v); p != nil {
			par = p
		}
	}
	if par == nil {
		return nil, false
	}
	fn := par.Parent()
	node := c.P.CallGraph().Nodes[fn]
	idx := paramIdx(fn, par)
	if node == nil || idx < 0 {
		return nil, false
	}
	var out []string
	n := 0
	for _, e := range node.In {
		if !isShipped(c, e.Caller.Func) {
			continue
		}
		if e.Site == nil || e.Site.Common().StaticCallee() != fn || idx >= len(e.Site.Common().Args) {
			return nil, false
		}
		ss, ok := c14ConstStrings(c, e.Site.Common().Args[idx], d+1)
		if !ok {
			return nil, false
		}
		out = append(out, ss...)
		n++
	}
	return out, n > 0
}

// c14Pipeline: ValidateQuery written as a loop over a package-level table of
// step functions,
//
//	for _, step := range table { next, err := step(query); if err != nil { return "", err }; query = next }
//	return query, nil
//
// The table is a package variable assigned once, in the package initialiser,
// a literal list of functions, and read nowhere else. The accepted value is
// then the composition of the steps in table order, and a query is accepted
// only if every step accepts: each step is analysed like a validation
// function of its own and the facts are composed — a test counts as made on
// the raw input when every step before it hands its input on unchanged, and
// as made on the returned value when every step after it does. Reports
// whether this form is present (and then emits the obligations).
func c14PipelineTable(fn *ssa.Function) (fns []*ssa.Function, isPipeline bool, why string) {
	// the driver loop
	var table *ssa.Global
	var stepCall *ssa.Call
	for _, l := range ssau.RangeLoops(fn) {
		if l.IsMap || l.Over == nil {
			continue
		}
		ld, ok := l.Over.(*ssa.UnOp)
		if !ok {
			continue
		}
		g, ok := ld.X.(*ssa.Global)
		if !ok {
			continue
		}
		ssau.ForEachInstr(fn, false, func(in ssa.Instruction) {
			call, ok := in.(*ssa.Call)
			if !ok || !l.InLoop(call.Block()) || call.Common().IsInvoke() || call.Common().StaticCallee() != nil || len(call.Common().Args) != 1 {
				return
			}
			// the callee is the element of the table at the loop index
			if u, ok := call.Common().Value.(*ssa.UnOp); ok {
				if ia, ok := u.X.(*ssa.IndexAddr); ok && ia.X == l.Over && ia.Index == l.Index {
					table, stepCall = g, call
				}
			}
		})
	}
	if table == nil {
		return nil, false, ""
	}
	bad := func(why string) ([]*ssa.Function, bool, string) { return nil, true, why }
	// driver shape: the argument is the query variable (parameter merged with
	// the previous step's result); a failing step returns at once; after the
	// loop the variable is returned with a nil error
	param := fn.Params[0]
	q, ok := stepCall.Common().Args[0].(*ssa.Phi)
	if !ok {
		return bad("the step is not applied to a loop-carried variable")
	}
	for _, e := range q.Edges {
		if e == ssa.Value(param) {
			continue
		}
		if ex, ok := e.(*ssa.Extract); ok && ex.Tuple == ssa.Value(stepCall) && ex.Index == 0 {
			continue
		}
		return bad("the query variable receives something other than the parameter and the previous step's result")
	}
	succ, _ := nilTests(errValue(stepCall))
	if len(succ) == 0 {
		return bad("the step's error is not tested")
	}
	nOK := 0
	for _, ret := range ssau.ReturnsOf(fn) {
		if ssau.IsNilConst(ssau.ResultValue(ret, 1)) {
			nOK++
			if ssau.ResultValue(ret, 0) != ssa.Value(q) {
				return bad("an accepting exit returns something other than the query variable")
			}
			continue
		}
		// failing exits lie behind the step's failure
		if !ssau.ReachableAvoidingEdges(fn, ret.Block(), succ) {
			continue
		}
	}
	if nOK != 1 {
		return bad("there is not exactly one accepting exit")
	}
	// the table: assigned once, in init, a literal of function values; read only here
	nStores := 0
	for _, mem := range table.Pkg.Members {
		mf, ok := mem.(*ssa.Function)
		if !ok {
			continue
		}
		ssau.ForEachInstr(mf, true, func(in ssa.Instruction) {
			switch x := in.(type) {
			case *ssa.Store:
				if x.Addr != ssa.Value(table) {
					return
				}
				nStores++
				sl, ok := x.Val.(*ssa.Slice)
				if !ok || mf.Name() != "init" {
					nStores += 10
					return
				}
				arr, ok := sl.X.(*ssa.Alloc)
				if !ok {
					nStores += 10
					return
				}
				elems := map[int64]*ssa.Function{}
				for _, ref := range *arr.Referrers() {
					ia, ok := ref.(*ssa.IndexAddr)
					if !ok {
						continue
					}
					k, isC := ssau.ConstInt(ia.Index)
					for _, r2 := range *ia.Referrers() {
						if st, ok := r2.(*ssa.Store); ok && st.Addr == ssa.Value(ia) {
							fv := st.Val
							if ct, isCT := fv.(*ssa.ChangeType); isCT {
								fv = ct.X // a named function type
							}
							f, isF := fv.(*ssa.Function)
							if !isC || !isF {
								nStores += 10
								return
							}
							elems[k] = f
						}
					}
				}
				for i := int64(0); i < int64(len(elems)); i++ {
					if elems[i] == nil {
						nStores += 10
						return
					}
					fns = append(fns, elems[i])
				}
			case *ssa.UnOp:
				if x.X == ssa.Value(table) && mf != fn {
					nStores += 10 // read elsewhere: could be changed through the alias
				}
			}
		})
	}
	if nStores != 1 || len(fns) == 0 {
		return bad("the table is not a package variable assigned once, in the initialiser, from a literal list of functions, and read only by the pipeline")
	}
	return fns, true, ""
}

func c14Pipeline(c *Ctx, sx *symx.Ctx, fn *ssa.Function, fk string) bool {
	r := c.R
	fns, isPipeline, why := c14PipelineTable(fn)
	if !isPipeline {
		return false
	}
	key := fk + "#success-1"
	bad := func(why string) bool {
		r.Bad("O-1", key+":derivation", c.P.Pos(fn.Pos()), "the step table of the validation pipeline cannot be resolved: "+why)
		return true
	}
	if why != "" {
		return bad(why)
	}
	// compose the steps
	var kinds []string
	var allSteps []chainStep
	type stepFacts struct {
		f  c14Facts
		fn *ssa.Function
	}
	var sf []stepFacts
	for _, g := range fns {
		fs := c14FactsOf(c, sx, g, fk)
		if len(fs) != 1 {
			return bad(fmt.Sprintf("step %s has %d accepting exits (want 1)", g.Name(), len(fs)))
		}
		sf = append(sf, stepFacts{fs[0], g})
	}
	rootOK := true
	rootName := ""
	for i := len(sf) - 1; i >= 0; i-- { // outermost (last applied) first
		kinds = append(kinds, sf[i].f.kinds...)
		allSteps = append(allSteps, sf[i].f.steps...)
		if !sf[i].f.rootIsParam {
			rootOK, rootName = false, sf[i].fn.Name()+": "+sf[i].f.root.Name()
		}
	}
	identityBefore := func(i int) bool {
		for k := 0; k < i; k++ {
			if !sf[k].f.identity {
				return false
			}
		}
		return true
	}
	identityAfter := func(i int) bool {
		for k := i + 1; k < len(sf); k++ {
			if !sf[k].f.identity {
				return false
			}
		}
		return true
	}
	var haveBlank, haveLen, haveMeta, haveEmpty bool
	var lenConst int64
	for i, s := range sf {
		if s.f.haveBlank && identityBefore(i) {
			haveBlank = true
		}
		if s.f.haveLen && identityBefore(i) {
			haveLen, lenConst = true, s.f.lenConst
		}
		if s.f.haveMeta {
			haveMeta = true
		}
		// an emptiness (or blank) test on the value the step hands on, with
		// nothing but identity steps after it
		if (s.f.haveEmpty || (s.f.haveBlank && s.f.identity)) && identityAfter(i) {
			haveEmpty = true
		}
	}
	var names []string
	for _, g := range fns {
		names = append(names, g.Name())
	}
	r.Analysed["validation_pipeline"] = names
	var okRet *ssa.Return
	for _, ret := range ssau.ReturnsOf(fn) {
		if ssau.IsNilConst(ssau.ResultValue(ret, 1)) {
			okRet = ret
		}
	}
	c14Judge(c, fk, key, okRet, kinds, rootOK, rootName, haveBlank, haveLen, lenConst, haveMeta, haveEmpty)
	c14StripChecks(c, fk, allSteps)
	return true
}

// c14AcceptedKinds: per accepting exit of the validation function, the
// transformers between the parameter and the accepted value (outermost
// first) — through the step table when the function is a pipeline.
func c14AcceptedKinds(fn *ssa.Function) [][]string {
	if fns, isPipeline, why := c14PipelineTable(fn); isPipeline {
		if why != "" {
			return nil
		}
		var kinds []string
		for i := len(fns) - 1; i >= 0; i-- {
			n := 0
			for _, ret := range ssau.ReturnsOf(fns[i]) {
				if !ssau.IsNilConst(ssau.ResultValue(ret, 1)) {
					continue
				}
				n++
				steps, root := stringChain(ssau.ResultValue(ret, 0))
				if root != ssa.Value(fns[i].Params[0]) {
					return nil
				}
				for _, s := range steps {
					kinds = append(kinds, s.kind)
				}
			}
			if n != 1 {
				return nil
			}
		}
		return [][]string{kinds}
	}
	var out [][]string
	for _, ret := range ssau.ReturnsOf(fn) {
		if !ssau.IsNilConst(ssau.ResultValue(ret, 1)) {
			continue
		}
		steps, _ := stringChain(ssau.ResultValue(ret, 0))
		var kinds []string
		for _, s := range steps {
			kinds = append(kinds, s.kind)
		}
		out = append(out, kinds)
	}
	return out
}

// c14BoolDetector: result #ri of h(s) is a boolean that is true exactly when
// a package-level pattern finds something in s: every return gives the
// constant false only on the side where len(pattern.FindAllString(s, -1)) is
// 0 and the constant true only on the other side (or gives the comparison
// itself). Returns the Find call.
func c14BoolDetector(h *ssa.Function, ri int) *ssa.Call {
	if len(h.Params) != 1 || ri >= h.Signature.Results().Len() {
		return nil
	}
	var find *ssa.Call
	ssau.ForEachInstr(h, false, func(in ssa.Instruction) {
		call, ok := in.(*ssa.Call)
		if !ok || !strings.HasPrefix(ssau.CallName(call), "(*regexp.Regexp).FindAll") || len(call.Common().Args) < 2 {
			return
		}
		if call.Common().Args[1] != ssa.Value(h.Params[0]) {
			return
		}
		if u, isLoad := call.Common().Args[0].(*ssa.UnOp); isLoad {
			if _, isGlobal := u.X.(*ssa.Global); isGlobal {
				find = call
			}
		}
	})
	if find == nil {
		return nil
	}
	// the edges on which the matches are known empty / non-empty
	empty, some := map[[2]int]bool{}, map[[2]int]bool{}
	for _, iff := range ssau.Ifs(h) {
		op, x, y, ok := ssau.CondOf(iff.Cond)
		if !ok {
			continue
		}
		lc, isLen := x.(*ssa.Call)
		if !isLen || ssau.CallName(lc) != "builtin.len" || lc.Common().Args[0] != ssa.Value(find) {
			continue
		}
		k, isC := ssau.ConstInt(y)
		if !isC || k != 0 {
			continue
		}
		switch op {
		case token.EQL, token.LEQ:
			empty[[2]int{iff.Block().Index, 0}], some[[2]int{iff.Block().Index, 1}] = true, true
		case token.NEQ, token.GTR:
			some[[2]int{iff.Block().Index, 0}], empty[[2]int{iff.Block().Index, 1}] = true, true
		}
	}
	if len(empty) == 0 {
		return nil
	}
	for _, ret := range ssau.ReturnsOf(h) {
		v := ssau.ResultValue(ret, ri)
		switch {
		case ssau.IsConstBool(v, false):
			// reachable only through an "empty" edge: not reachable when those are cut
			if ssau.ReachableAvoidingEdges(h, ret.Block(), empty) {
				return nil
			}
		case ssau.IsConstBool(v, true):
			if ssau.ReachableAvoidingEdges(h, ret.Block(), some) {
				return nil
			}
		default:
			return nil
		}
	}
	return find
}
