package rules

import (
	"fmt"
	"go/token"
	"go/types"
	"sort"
	"strings"

	"golang.org/x/tools/go/ssa"

	"wtfverif/checker/internal/load"
	"wtfverif/checker/internal/lockset"
	"wtfverif/checker/internal/modref"
	"wtfverif/checker/internal/pathev"
	"wtfverif/checker/internal/ssau"
)

func init() {
	register(&Rule{
		Prop: "C11",
		Explanation: "Lock-set argument that quantifies schedules away: for every mutex-bearing struct in packages cache and metrics, every write of a sibling field (or of the contents of a map/list/slice held in it) by any function that can run concurrently happens with the struct's mutex held exclusively and every read of a location some such function writes happens with it held at least shared; unexported helpers get their entry lock mode from all their call sites. " +
			"Each exported LRUCache method is a single critical section (at most one acquisition on any path, released by defer). Fields touched through sync/atomic are touched only through sync/atomic. get-or-create re-checks under the exclusive lock. A mod/ref pass over everything reachable from SearchUniversal shows that a search writes only memory allocated by that activation (the lazily built index being the one reasoned exception, reachable only when the index is missing or stale). " +
			"If no two conflicting accesses can be unordered, no interleaving races. Linearizability and result equality with a sequential run are NOT decided directly; they follow from the single-critical-section and no-shared-write facts.",
		NotDecided: []string{
			"linearizability as a history property (only: one critical section per LRU operation)",
			"races with operations outside the property's operation set (Collector.Reset, EnableCache, PerformanceMonitor.Enable, direct assignment to exported fields)",
			"library internals (regexp cache, fmt) are trusted to be goroutine-safe",
		},
		Assumptions: []string{"sync.Mutex/RWMutex/atomic semantics", "database was loaded through LoadDatabase* so the lazy index build is not taken"},
		Run:         runC11,
	})
}

// c11NotInM lists writer functions that are outside the property's operation
// set; their writes do not create read obligations for others (one line of
// reason each). They are still required to hold the exclusive lock themselves.
var c11NotInM = map[string]string{
	"(*" + load.ModulePath + "/internal/metrics.Collector).Reset": "Reset is not among the operations the property names; it replaces the registry maps",
}

func runC11(c *Ctx) {
	r := c.R
	r.Rule("O-1", "lock sets: every write to a field of a mutex-bearing struct (or to the contents of a map/list/slice it holds) is under the exclusive lock; every read of a location that some operation writes is under at least the shared lock; helpers inherit the mode of all their call sites")
	r.Rule("O-2", "each exported LRUCache method acquires the mutex at most once on any path and returns with it released (defer) — one critical section per operation")
	r.Rule("O-3", "a field passed to sync/atomic anywhere is accessed only through sync/atomic everywhere")
	r.Rule("O-4", "get-or-create: the registry store is under the exclusive lock and control-dependent on a failed re-lookup of the same key made after that lock was taken")
	r.Rule("O-5", "functions reachable from SearchUniversal write only memory allocated by the running activation; the lazy index build is reachable only under the staleness test")

	var tpkgs []*types.Package
	for _, s := range []string{"internal/cache", "internal/metrics", "internal/database", "internal/history", "internal/nlp", "internal/embedding"} {
		if pk := c.P.Pkg(s); pk != nil {
			tpkgs = append(tpkgs, pk.Types)
		}
	}
	gs := lockset.FindGuarded(tpkgs)
	var gnames []string
	for _, g := range gs {
		gnames = append(gnames, g.Type)
	}
	r.Analysed["mutex_structs"] = gnames
	r.Floor("O-1", "mutex-bearing structs", len(gs), 4)
	fns := c.P.RepoFuncs()
	guardedAccesses, registryStores := 0, 0
	for _, g := range gs {
		short := g.Type[strings.LastIndex(g.Type, "/")+1:]
		an := lockset.Analyze(g, fns, func(fn *ssa.Function) bool {
			if fn.Parent() != nil {
				return false
			}
			if obj := fn.Object(); obj != nil {
				return obj.Exported()
			}
			if o := fn.Origin(); o != nil && o.Object() != nil {
				return o.Object().Exported()
			}
			return true
		})
		// written locations by functions in M
		written := map[string]bool{}
		for _, a := range an.Accesses {
			if a.Write {
				if _, out := c11NotInM[ssau.FuncName(a.Fn)]; out {
					continue
				}
				written[locKey(a)] = true
			}
		}
		type agg struct {
			ok     bool
			pos    string
			detail string
			n      int
		}
		res := map[string]*agg{}
		var order []string
		for _, a := range an.Accesses {
			need := ""
			switch {
			case a.Write:
				need = "exclusive"
			case written[locKey(a)]:
				need = "shared"
			default:
				continue // read of a location no operation writes (capacity, ttl, buckets, ...)
			}
			kind := "read"
			if a.Write {
				kind = "write"
			}
			key := fmt.Sprintf("%s#%s:%s", load.FuncKey(a.Fn), kind, locKey(a))
			ok := a.Mode == lockset.Excl || (need == "shared" && a.Mode == lockset.Shared)
			g := res[key]
			if g == nil {
				g = &agg{ok: true}
				res[key] = g
				order = append(order, key)
			}
			g.n++
			if !ok && g.ok {
				g.ok = false
				g.pos = c.P.Pos(a.Instr.Pos())
				g.detail = fmt.Sprintf("%s of %s.%s needs the %s lock but the mode held is %s", kind, short, locKey(a), need, a.Mode)
			} else if g.pos == "" {
				g.pos = c.P.Pos(a.Instr.Pos())
			}
		}
		sort.Strings(order)
		for _, k := range order {
			g := res[k]
			guardedAccesses += g.n
			r.Check(g.ok, "O-1", k, g.pos, fmt.Sprintf("%d access(es) under the required lock", g.n), g.detail)
		}
		for _, ret := range an.Unbalanced {
			r.Bad("O-1", load.FuncKey(ret.Parent())+"#return-with-lock-held", c.P.Pos(ret.Pos()), "function returns with the mutex held and no deferred unlock")
		}
		// helpers' entry modes (information)
		for _, fn := range an.Funcs {
			if m := an.EntryOf[fn]; m != lockset.None {
				r.OK("O-1", load.FuncKey(fn)+"#entry-mode", c.P.Pos(fn.Pos()), "called only with the lock held "+m.String())
				if m == lockset.Mixed {
					r.Bad("O-1", load.FuncKey(fn)+"#entry-mode", c.P.Pos(fn.Pos()), "helper is called both with and without the lock (or in different modes)")
				}
			}
		}
		if g.Type == lruType {
			c11OneSection(c, g, an)
		}
		// the series registries: whichever struct in the metrics package
		// carries the lock that guards them (the collector today; one
		// registry per family would be the same obligation)
		if strings.HasPrefix(g.Type, load.ModulePath+"/internal/metrics.") {
			registryStores += c11GetOrCreate(c, an, "O-4")
		}
	}
	r.Floor("O-4", "registry stores", registryStores, 4)
	r.Floor("O-1", "guarded accesses examined", guardedAccesses, 25)
	c11Atomics(c)
	c11NoSharedWrites(c)
}

func locKey(a lockset.Access) string {
	if a.Contents {
		return a.Field + "[contents]"
	}
	return a.Field
}

func c11OneSection(c *Ctx, g lockset.Guarded, an *lockset.Analysis) {
	r := c.R
	eng := pathev.New(func(in ssa.Instruction) []string {
		if call, ok := in.(*ssa.Call); ok {
			switch ssau.CallName(call) {
			case "(*sync.RWMutex).Lock", "(*sync.RWMutex).RLock", "(*sync.Mutex).Lock":
				if _, ok := ssau.IsFieldAddr(call.Common().Args[0], g.Type, g.Mutex); ok {
					return []string{"acquire"}
				}
			}
		}
		if d, ok := in.(*ssa.Defer); ok {
			switch ssau.CallName(d) {
			case "(*sync.RWMutex).Unlock", "(*sync.RWMutex).RUnlock", "(*sync.Mutex).Unlock":
				return []string{"defer-release"}
			}
		}
		if call, ok := in.(*ssa.Call); ok {
			switch ssau.CallName(call) {
			case "(*sync.RWMutex).Unlock", "(*sync.RWMutex).RUnlock", "(*sync.Mutex).Unlock":
				if _, ok := ssau.IsFieldAddr(call.Common().Args[0], g.Type, g.Mutex); ok {
					return []string{"release"}
				}
			}
		}
		return nil
	}, func(fn *ssa.Function) bool {
		return fn.Signature.Recv() != nil && ssau.NamedOf(fn.Signature.Recv().Type()) == g.Type
	})
	n := 0
	for _, fn := range an.Funcs {
		if fn.Object() == nil || !fn.Object().Exported() {
			continue
		}
		n++
		for ret, m := range eng.Exits(fn) {
			acq := m.Get("acquire")
			ok := acq.AtMostOnce() && (acq.Never() || (m.Get("release").Never() && m.Get("defer-release").Always()) || (m.Get("defer-release").Never() && m.Get("release") == acq))
			r.Check(ok, "O-2", fmt.Sprintf("%s#exit:%s", load.FuncKey(fn), exitName(fn, ret)), c.P.Pos(ret.Pos()),
				fmt.Sprintf("acquire%v, released by defer", acq),
				fmt.Sprintf("not a single critical section: acquire%v release%v defer-release%v", acq, m.Get("release"), m.Get("defer-release")))
		}
	}
	r.Floor("O-2", "exported LRUCache methods", n, 9)
}

func c11GetOrCreate(c *Ctx, an *lockset.Analysis, rule string) int {
	r := c.R
	n := 0
	for _, a := range an.Accesses {
		mu, ok := a.Instr.(*ssa.MapUpdate)
		if !ok || !a.Write || !a.Contents || !c11IsSeriesMap(mu.Map.Type()) {
			continue
		}
		n++
		fn := a.Fn
		key := fmt.Sprintf("%s#store:%s", load.FuncKey(fn), a.Field)
		cd := ssau.ControlDeps(fn)
		good := false
		for _, d := range ssau.TransitiveControlDeps(cd, mu.Block()) {
			ex, ok := d.If().Cond.(*ssa.Extract)
			if !ok || ex.Index != 1 || d.Then {
				continue
			}
			lk, ok := ex.Tuple.(*ssa.Lookup)
			if !ok || lk.X != mu.Map || lk.Index != mu.Key {
				continue
			}
			if an.ModeAt[lk] == lockset.Excl {
				good = true
			}
		}
		r.Check(good && a.Mode == lockset.Excl, rule, key, c.P.Pos(mu.Pos()), "store under exclusive lock after a failed re-lookup of the same key under that lock", "registry store is not protected by a re-check of the same key under the exclusive lock: two goroutines can create two metrics for one series")
	}
	return n
}

// c11IsSeriesMap: map[string]*M with M a named type of the metrics package
// (Counter, Gauge, Histogram, Timer — also as a type argument).
func c11IsSeriesMap(t types.Type) bool {
	m, ok := t.Underlying().(*types.Map)
	if !ok {
		return false
	}
	p, ok := m.Elem().Underlying().(*types.Pointer)
	if !ok {
		return false
	}
	n, ok := types.Unalias(p.Elem()).(*types.Named)
	return ok && n.Obj().Pkg() != nil && n.Obj().Pkg().Path() == load.ModulePath+"/internal/metrics"
}

func c11Atomics(c *Ctx) {
	r := c.R
	type fld struct{ owner, name string }
	atomic := map[fld]bool{}
	isAtomicCall := func(in ssa.Instruction) bool {
		call := ssau.AsCall(in)
		return call != nil && strings.HasPrefix(ssau.CallName(call), "sync/atomic.")
	}
	for _, fn := range c.P.RepoFuncs() {
		ssau.ForEachInstr(fn, false, func(in ssa.Instruction) {
			fa, ok := in.(*ssa.FieldAddr)
			if !ok {
				return
			}
			for _, ref := range *fa.Referrers() {
				if isAtomicCall(ref) {
					atomic[fld{ssau.FieldOwner(fa), ssau.FieldName(fa)}] = true
				}
			}
		})
	}
	var names []string
	for f := range atomic {
		names = append(names, f.owner+"."+f.name)
	}
	sort.Strings(names)
	r.Analysed["atomic_fields"] = names
	r.Floor("O-3", "atomic fields", len(atomic), 2)
	for _, fn := range c.P.RepoFuncs() {
		ssau.ForEachInstr(fn, false, func(in ssa.Instruction) {
			fa, ok := in.(*ssa.FieldAddr)
			if !ok || !atomic[fld{ssau.FieldOwner(fa), ssau.FieldName(fa)}] {
				return
			}
			good := true
			for _, ref := range *fa.Referrers() {
				if !isAtomicCall(ref) {
					good = false
				}
			}
			short := ssau.FieldOwner(fa)
			short = short[strings.LastIndex(short, "/")+1:]
			r.Check(good, "O-3", fmt.Sprintf("%s#%s.%s", load.FuncKey(fn), short, ssau.FieldName(fa)), c.P.Pos(fa.Pos()), "accessed through sync/atomic", "field is accessed atomically elsewhere but plainly here: a data race with concurrent increments")
		})
		// struct-value Field reads (copy of the struct) are also plain reads
		ssau.ForEachInstr(fn, false, func(in ssa.Instruction) {
			f, ok := in.(*ssa.Field)
			if ok && atomic[fld{ssau.FieldOwner(f), ssau.FieldName(f)}] {
				r.Bad("O-3", fmt.Sprintf("%s#%s", load.FuncKey(fn), ssau.FieldName(f)), c.P.Pos(f.Pos()), "atomic field read from a struct copy")
			}
		})
	}
}

// staleGuarded reports whether the call is control dependent on a condition
// that reads Database.uIndex (the `uIndex == nil || N != len(Commands)`
// staleness test): such a call is the lazy index build.
func staleGuarded(call ssa.CallInstruction) bool {
	fn := call.Parent()
	cd := ssau.ControlDeps(fn)
	for _, d := range ssau.TransitiveControlDeps(cd, call.Block()) {
		cond := d.If().Cond
		if u, isU := cond.(*ssa.UnOp); isU && u.Op == token.NOT {
			cond = u.X
		}
		// the staleness test as a predicate of the database: db.indexIsCurrent()
		if pc, isCall := cond.(*ssa.Call); isCall {
			if h := pc.Common().StaticCallee(); h != nil && h.Blocks != nil && h.Signature.Recv() != nil && ssau.NamedOf(h.Signature.Recv().Type()) == load.ModulePath+"/internal/database.Database" {
				tests := false
				ssau.ForEachInstr(h, false, func(in ssa.Instruction) {
					if bo, ok := in.(*ssa.BinOp); ok {
						for _, v := range []ssa.Value{bo.X, bo.Y} {
							if _, ok := ssau.IsFieldLoad(v, load.ModulePath+"/internal/database.Database", "uIndex"); ok {
								tests = true
							}
						}
					}
				})
				if tests {
					return true
				}
			}
		}
		_, x, y, ok := ssau.CondOf(d.If().Cond)
		if !ok {
			continue
		}
		for _, v := range []ssa.Value{x, y} {
			if _, ok := ssau.IsFieldLoad(v, load.ModulePath+"/internal/database.Database", "uIndex"); ok {
				return true
			}
		}
	}
	return false
}

func c11NoSharedWrites(c *Ctx) {
	r := c.R
	su := c.P.Func("internal/database", "Database", "SearchUniversal")
	if !r.Anchor("O-5", "database.(*Database).SearchUniversal", su != nil) {
		return
	}
	mr := modref.New([]*ssa.Function{su}, c.P.IsRepoFunc, func(caller *ssa.Function, call ssa.CallInstruction, callee *ssa.Function) bool {
		_ = caller
		return staleGuarded(call)
	})
	r.Analysed["search_reach_set"] = funcKeys(mr.Reach)
	r.Floor("O-5", "functions reachable from SearchUniversal", len(mr.Reach), 60)
	for cal, sites := range mr.Skipped {
		for _, s := range sites {
			r.OK("O-5", "database.(*Database).SearchUniversal#lazy-build:"+cal.Name(), c.P.Pos(s.Pos()), "index (re)build is reachable only under the staleness test on db.uIndex; not taken for a database loaded through LoadDatabase*")
		}
	}
	ws := mr.Writes()
	type agg struct {
		n   int
		bad *modref.Write
	}
	per := map[string]*agg{}
	var keys []string
	for i := range ws {
		w := &ws[i]
		k := load.FuncKey(w.Fn) + "#writes:" + w.Kind
		g := per[k]
		if g == nil {
			g = &agg{}
			per[k] = g
			keys = append(keys, k)
		}
		g.n++
		if w.Shared && g.bad == nil {
			g.bad = w
		}
	}
	sort.Strings(keys)
	for _, k := range keys {
		g := per[k]
		if g.bad != nil {
			r.Bad("O-5", k, c.P.Pos(g.bad.Instr.Pos()), "a search writes shared state: "+g.bad.Why)
		} else {
			r.OK("O-5", k, "", fmt.Sprintf("%d write site(s), all to memory allocated by the activation", g.n))
		}
	}
	r.Floor("O-5", "write sites examined", len(ws), 60)
}
