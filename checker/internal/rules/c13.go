package rules

import (
	"fmt"
	"go/constant"
	"go/token"
	"go/types"
	"math"
	"sort"
	"strings"

	"golang.org/x/tools/go/ssa"

	"wtfverif/checker/internal/interval"
	"wtfverif/checker/internal/load"
	"wtfverif/checker/internal/maporder"
	"wtfverif/checker/internal/ssau"
	"wtfverif/checker/internal/symx"
	"wtfverif/checker/internal/taint"
)

const ctxPkg = load.ModulePath + "/internal/context"

func init() {
	register(&Rule{
		Prop: "C13",
		Explanation: "\"Context only re-ranks\" decided as non-interference on the SSA form of everything reachable from SearchUniversal: (O-1) values derived from SearchOptions.ContextBoosts (interprocedural may-taint, with implicit flow through branches) may reach only the per-term boost table, the VALUE component of the score accumulator and result scores; they never reach a function that produces the term list, never the key of the accumulator, never the Command of a result, and no accumulator update, result append, term-list operation or return is control-dependent on a boost-derived condition (ordering and the post-sort truncation may depend on it: that is re-ranking); " +
			"(O-2) the boost looked up for a term multiplies only that term's contributions: the boost table and the postings are indexed by the same term value, the pair is handed to the scoring helper, and inside it the boost occurs only as a factor of a product that is ADDED to the accumulator (never subtracted, negated or used as divisor); context boosts are copied into an empty table and later emphasis only raises entries (guarded max), so a context boost is never replaced by a smaller factor; (O-3) a looked-up boost is used only behind `ok && b > 0`, otherwise the factor is the constant 1; (O-4) nothing reachable from the post-scoring stages reads ContextBoosts, and the similarity re-ranker, which works on a rank prefix of the boosted order, returns exactly the list it blended (no unblended tail whose membership would depend on the boosts); (O-5) AnalyzeDirectory finalises every successful listing: project types are de-duplicated by the first-occurrence idiom, 'generic' is appended exactly when none was found, no map iteration with an order-sensitive effect is reachable, and every boost constant is finite and >= 1. Monotonicity as arithmetic needs idf, bm25 >= 0 (C01 O-6) and is not decided here.",
		NotDecided:  []string{"monotonicity of scores in the boost as arithmetic (needs non-negative idf and field scores; sign abstraction under C01 O-6)", "content of the marker-file tables", "the legacy scorer behind `wtf pipeline`, which tests score > 0 after multiplying by the boost (equivalent for positive factors; an arithmetic argument)"},
		Assumptions: []string{"boost factors supplied by callers are >= 1 (the analyser's constants are checked)"},
		Run:         runC13,
	})
}

func runC13(c *Ctx) {
	r := c.R
	r.Rule("O-1", "non-interference with the candidate set: ContextBoosts-derived values reach only the boost table, accumulator values and scores; never term lists, accumulator keys, result commands; no membership-affecting instruction is controlled by a boost-derived condition")
	r.Rule("O-2", "the boost scales its own term only and only upwards: same term indexes boost table and postings; the boost is a factor of an added product; context boosts fill an empty table and later emphasis is a guarded max")
	r.Rule("O-3", "a boost is used only if present and positive, else the factor is 1")
	r.Rule("O-4", "post-scoring stages do not read ContextBoosts")
	r.Rule("O-5", "analyser shape: finalize on every successful listing; first-occurrence de-duplication; generic iff empty; no order-sensitive map range; boost constants finite and >= 1")

	su := c.P.Func("internal/database", "Database", "SearchUniversal")
	if !r.Anchor("O-1", "database.(*Database).SearchUniversal", su != nil) {
		return
	}
	c.withWrappers = true
	scope := reachClosure(c, []*ssa.Function{su})
	c.withWrappers = false
	sx := symx.New(c.P.IsRepoFunc)
	cg := c.P.CallGraph()
	isSrc := func(v ssa.Value) bool {
		switch x := v.(type) {
		case *ssa.UnOp:
			if fa, ok := x.X.(*ssa.FieldAddr); ok && x.Op == token.MUL {
				return ssau.FieldName(fa) == "ContextBoosts" && ssau.NamedOf(fa.X.Type()) == optType
			}
		case *ssa.Field:
			return ssau.FieldName(x) == "ContextBoosts" && ssau.NamedOf(x.X.Type()) == optType
		}
		return false
	}
	nSrc := 0
	for _, fn := range scope {
		ssau.ForEachInstr(fn, false, func(in ssa.Instruction) {
			if v, ok := in.(ssa.Value); ok && isSrc(v) {
				nSrc++
			}
		})
	}
	r.Floor("O-1", "reads of ContextBoosts on the search path", nSrc, 1)
	res := taint.Run(taint.Config{
		Funcs:    scope,
		IsSource: isSrc,
		Implicit: true,
		Callees: func(site ssa.CallInstruction) []*ssa.Function {
			var out []*ssa.Function
			if node := cg.Nodes[site.Parent()]; node != nil {
				for _, e := range node.Out {
					if e.Site == site {
						out = append(out, e.Callee.Func)
					}
				}
			}
			return out
		},
	})
	// --- O-1 data sinks
	nChecked, nBad := 0, 0
	ord := newOrdinal()
	bad := func(fn *ssa.Function, in ssa.Instruction, what, detail string) {
		nBad++
		r.Bad("O-1", ord.next(load.FuncKey(fn)+"#"+what), c.P.Pos(in.Pos()), detail)
	}
	isTermList := func(t types.Type) bool {
		sl, ok := t.Underlying().(*types.Slice)
		if !ok {
			return false
		}
		b, ok := sl.Elem().Underlying().(*types.Basic)
		return ok && b.Kind() == types.String
	}
	isAccumulator := func(t types.Type) bool {
		m, ok := t.Underlying().(*types.Map)
		if !ok {
			return false
		}
		kb, ok1 := m.Key().Underlying().(*types.Basic)
		vb, ok2 := m.Elem().Underlying().(*types.Basic)
		return ok1 && ok2 && kb.Kind() == types.Int && vb.Kind() == types.Float64
	}
	for _, fn := range scope {
		if fn.Synthetic != "" {
			continue
		}
		// functions producing term lists must not receive boost-derived data
		if res0 := fn.Signature.Results(); res0.Len() > 0 {
			produces := false
			for i := 0; i < res0.Len(); i++ {
				if isTermList(res0.At(i).Type()) {
					produces = true
				}
			}
			if produces {
				for _, p := range fn.Params {
					nChecked++
					if res.Tainted(p) {
						bad(fn, fn.Blocks[0].Instrs[0], "term-producer-sees-boosts", "a function that produces the list of search terms ("+fn.Name()+") receives data derived from ContextBoosts through parameter "+p.Name()+": the working directory could change WHICH terms are searched, adding or removing candidates")
					}
				}
			}
		}
		cd := ssau.ControlDeps(fn)
		controlled := func(b *ssa.BasicBlock) ssa.Value {
			for _, d := range ssau.TransitiveControlDeps(cd, b) {
				if iff := d.If(); iff != nil && res.Tainted(iff.Cond) {
					return iff.Cond
				}
			}
			return nil
		}
		f := sx.Of(fn)
		ssau.ForEachInstr(fn, false, func(in ssa.Instruction) {
			switch x := in.(type) {
			case *ssa.MapUpdate:
				if !isAccumulator(x.Map.Type()) {
					return
				}
				nChecked++
				if res.Tainted(x.Key) {
					bad(fn, in, "accumulator-key", "the key of the score accumulator depends on ContextBoosts")
				}
				if cnd := controlled(x.Block()); cnd != nil {
					bad(fn, in, "accumulator-update-controlled", "whether a document enters the score accumulator is decided by a boost-derived condition ("+f.Plain(cnd)+"): context boosts would add or remove candidates")
				}
			case *ssa.Store:
				if _, ok := ssau.IsFieldAddr(x.Addr, srType, "Command"); ok {
					nChecked++
					if res.Tainted(x.Val) {
						bad(fn, in, "result-command", "which command a result points at depends on ContextBoosts")
					}
				}
			case *ssa.Call:
				n := ssau.CallName(x)
				if n == "builtin.append" && (srSlice(x.Type()) || isTermList(x.Type())) {
					nChecked++
					if cnd := controlled(x.Block()); cnd != nil {
						kind := "result"
						if isTermList(x.Type()) {
							kind = "term"
						}
						bad(fn, in, kind+"-append-controlled", "whether a "+kind+" is appended is decided by a boost-derived condition ("+f.Plain(cnd)+")")
					}
				}
				if n == "builtin.delete" && isAccumulator(x.Common().Args[0].Type()) {
					nChecked++
					bad(fn, in, "accumulator-delete", "entries are deleted from the score accumulator")
				}
			case *ssa.Return:
				// returning early under a boost-derived condition changes the answer set
				if fn.Signature.Results().Len() > 0 && (srSlice(fn.Signature.Results().At(0).Type()) || isAccumulator(fn.Signature.Results().At(0).Type())) {
					nChecked++
					if cnd := controlled(x.Block()); cnd != nil {
						bad(fn, in, "return-controlled", "which exit of "+fn.Name()+" is taken depends on a boost-derived condition ("+f.Plain(cnd)+")")
					}
				}
			}
		})
	}
	// calls into functions that (transitively) hold a membership site must
	// not be controlled by a boost-derived condition either
	holds := map[*ssa.Function]bool{}
	for _, fn := range scope {
		ssau.ForEachInstr(fn, false, func(in ssa.Instruction) {
			switch x := in.(type) {
			case *ssa.MapUpdate:
				if isAccumulator(x.Map.Type()) {
					holds[fn] = true
				}
			case *ssa.Call:
				if ssau.CallName(x) == "builtin.append" && (srSlice(x.Type()) || isTermList(x.Type())) {
					holds[fn] = true
				}
			}
		})
	}
	inScope := map[*ssa.Function]bool{}
	for _, fn := range scope {
		inScope[fn] = true
	}
	for changed := true; changed; {
		changed = false
		for _, fn := range scope {
			if holds[fn] {
				continue
			}
			if node := cg.Nodes[fn]; node != nil {
				for _, e := range node.Out {
					if holds[e.Callee.Func] && inScope[e.Callee.Func] {
						holds[fn] = true
						changed = true
						break
					}
				}
			}
		}
	}
	for _, fn := range scope {
		if fn.Synthetic != "" {
			continue
		}
		node := cg.Nodes[fn]
		if node == nil {
			continue
		}
		var cd map[*ssa.BasicBlock][]ssau.CtrlDep
		done := map[ssa.CallInstruction]bool{}
		for _, e := range node.Out {
			if e.Site == nil || done[e.Site] || !holds[e.Callee.Func] || !inScope[e.Callee.Func] {
				continue
			}
			done[e.Site] = true
			if cd == nil {
				cd = ssau.ControlDeps(fn)
			}
			nChecked++
			for _, d := range ssau.TransitiveControlDeps(cd, e.Site.Block()) {
				if iff := d.If(); iff != nil && res.Tainted(iff.Cond) {
					bad(fn, e.Site, "scoring-call-controlled", "whether "+e.Callee.Func.Name()+" (which adds candidates) runs is decided by a boost-derived condition ("+sx.Of(fn).Plain(iff.Cond)+")")
					break
				}
			}
		}
	}
	r.Analysed["functions_in_scope"] = len(scope)
	r.Analysed["non_interference_sites_checked"] = nChecked
	r.Floor("O-1", "membership-relevant sites examined", nChecked, 15)
	if nBad == 0 {
		r.OK("O-1", "search-path#boosts-reach-only-scores", "", fmt.Sprintf("%d membership-relevant sites in %d functions: none sees or is controlled by boost-derived data", nChecked, len(scope)))
	}

	c13Scaling(c, sx)
	c13Later(c)
	c13Analyzer(c, sx)
}

func c13Scaling(c *Ctx, sx *symx.Ctx) {
	r := c.R
	fn := c.P.Func("internal/database", "Database", "calculateInitialScores")
	fk := "database.(*Database).calculateInitialScores"
	if !r.Anchor("O-2", fk, fn != nil) {
		return
	}
	f := sx.Of(fn)
	// the boost table: the map[string]float64 looked up (comma-ok) per term;
	// it is made here or in a helper that returns it
	isBoostMap := func(t types.Type) bool {
		m, ok := t.Underlying().(*types.Map)
		if !ok {
			return false
		}
		kb, ok1 := m.Key().Underlying().(*types.Basic)
		vb, ok2 := m.Elem().Underlying().(*types.Basic)
		return ok1 && ok2 && kb.Kind() == types.String && vb.Kind() == types.Float64
	}
	var tableUse ssa.Value
	ssau.ForEachInstr(fn, false, func(in ssa.Instruction) {
		if l, ok := in.(*ssa.Lookup); ok && isBoostMap(l.X.Type()) && !optLoad(l.X, "ContextBoosts") {
			tableUse = l.X
		}
	})
	if tableUse == nil {
		// the lookup is made by a helper handed the table (boosts.factor(term))
		ssau.ForEachInstr(fn, false, func(in ssa.Instruction) {
			call, ok := in.(*ssa.Call)
			if !ok || tableUse != nil {
				return
			}
			g := call.Common().StaticCallee()
			if g == nil || g.Blocks == nil || !c.P.IsRepoFunc(g) {
				return
			}
			for i, a := range call.Common().Args {
				if i >= len(g.Params) || !isBoostMap(a.Type()) || optLoad(a, "ContextBoosts") {
					continue
				}
				for _, ref := range *g.Params[i].Referrers() {
					if l, ok := ref.(*ssa.Lookup); ok && l.X == ssa.Value(g.Params[i]) && l.CommaOk {
						tableUse = a
					}
				}
			}
		})
	}
	home := fn
	isCtx := func(v ssa.Value) bool { return optLoad(v, "ContextBoosts") }
	var table *ssa.MakeMap
	// every value that denotes the table: the make, a library clone of the
	// context boosts (a verbatim copy made by the library), a merge of the two
	roots := map[ssa.Value]bool{}
	var cloneCopies []*ssa.Call
	isCloneOfCtx := func(v ssa.Value) *ssa.Call {
		call, ok := v.(*ssa.Call)
		if ok && strings.HasPrefix(ssau.CallName(call), "maps.Clone") && len(call.Common().Args) == 1 && optLoad(call.Common().Args[0], "ContextBoosts") {
			return call
		}
		return nil
	}
	switch t := tableUse.(type) {
	case *ssa.MakeMap:
		table = t
	case *ssa.Phi:
		ok := true
		for _, e := range t.Edges {
			if mk, isMk := e.(*ssa.MakeMap); isMk {
				table = mk
				roots[mk] = true
			} else if cl := isCloneOfCtx(e); cl != nil {
				cloneCopies = append(cloneCopies, cl)
				roots[cl] = true
			} else {
				ok = false
			}
		}
		if ok && table != nil {
			roots[t] = true
		} else {
			table = nil
		}
	case *ssa.Call:
		if g := t.Common().StaticCallee(); g != nil && c.P.IsRepoFunc(g) && len(g.Blocks) > 0 {
			var mk *ssa.MakeMap
			same := true
			for _, ret := range ssau.ReturnsOf(g) {
				m := c13ResolveMake(ret.Results[0])
				if m == nil || (mk != nil && mk != m) {
					same = false
				}
				mk = m
			}
			if same && mk != nil {
				home, table = g, mk
				args := t.Common().Args
				isCtx = func(v ssa.Value) bool {
					if optLoad(v, "ContextBoosts") {
						return true
					}
					for i, p := range g.Params {
						if v == ssa.Value(p) && i < len(args) && optLoad(args[i], "ContextBoosts") {
							return true
						}
					}
					return false
				}
			}
		}
	}
	if table == nil && tableUse == nil {
		// no table at all: the boost is read from ContextBoosts where it is needed
		c13BoostFlow(c, sx, fn, fk, f, nil)
		return
	}
	if table == nil {
		r.Bad("O-2", fk+"#boost-table", c.P.Pos(fn.Pos()), "the per-term boost table (map[string]float64 looked up per term) is not a map made here or in a helper that returns it: its contents cannot be accounted for")
		return
	}
	fLookup := f
	f = sx.Of(home)
	roots[table] = true
	// helpers of the repository that are handed the table and do nothing
	// with it but look up, update and measure it: their updates are examined
	// like those written out in place
	helperParam := map[ssa.Value]bool{}
	helperOf := map[*ssa.Function]bool{}
	isTbl := func(v ssa.Value) bool {
		if roots[v] || helperParam[v] {
			return true
		}
		mk := c13ResolveMake(v)
		return mk != nil && roots[mk]
	}
	ssau.ForEachInstr(home, true, func(in ssa.Instruction) {
		call, ok := in.(*ssa.Call)
		if !ok {
			return
		}
		g := call.Common().StaticCallee()
		if g == nil || g.Parent() != nil || g.Blocks == nil || !c.P.IsRepoFunc(g) {
			return
		}
		for i, a := range call.Common().Args {
			if i < len(g.Params) && (roots[a] || (c13ResolveMake(a) != nil && roots[c13ResolveMake(a)])) && c13OnlyMapOps(g.Params[i]) {
				helperParam[g.Params[i]] = true
				helperOf[g] = true
			}
		}
	})
	// updates of the table: copies from ContextBoosts (range key/value) and guarded max updates
	var copies, others []*ssa.MapUpdate
	loops := ssau.RangeLoops(home)
	var updates []*ssa.MapUpdate
	bodies := append([]*ssa.Function{home}, home.AnonFuncs...)
	for g := range helperOf {
		bodies = append(bodies, g)
	}
	sort.Slice(bodies[1:], func(i, j int) bool { return bodies[1+i].Pos() < bodies[1+j].Pos() })
	for _, b := range bodies {
		ssau.ForEachInstr(b, false, func(in ssa.Instruction) {
			if mu, ok := in.(*ssa.MapUpdate); ok && isTbl(mu.Map) {
				updates = append(updates, mu)
			}
		})
	}
	for _, mu := range updates {
		isCopy := false
		for _, l := range loops {
			if l.IsMap && isCtx(l.Over) && l.InLoop(mu.Block()) {
				if ek, ok := mu.Key.(*ssa.Extract); ok && ek.Tuple == ssa.Value(l.Next) && ek.Index == 1 {
					if ev, ok := mu.Value.(*ssa.Extract); ok && ev.Tuple == ssa.Value(l.Next) && ev.Index == 2 {
						isCopy = true
					}
				}
			}
		}
		if isCopy {
			copies = append(copies, mu)
		} else {
			others = append(others, mu)
		}
	}
	callCopies := append([]*ssa.Call(nil), cloneCopies...)
	carrierOwner, carrierField := "", ""
	var tableRefs []ssa.Instruction
	for _, root := range sortedValues(roots) {
		tableRefs = append(tableRefs, *root.Referrers()...)
	}
	for _, ref := range tableRefs {
		switch x := ref.(type) {
		case *ssa.MapUpdate, *ssa.Lookup, *ssa.Return, *ssa.DebugRef:
		case *ssa.Phi:
			if !roots[x] {
				r.Bad("O-2", fk+"#boost-table-escapes", c.P.Pos(x.Pos()), "the boost table is merged with another map")
			}
		case *ssa.BinOp:
			// termBoost == nil after the clone of a possibly absent map
			if !(x.Op == token.EQL || x.Op == token.NEQ) || !(ssau.IsNilConst(x.X) || ssau.IsNilConst(x.Y)) {
				r.Bad("O-2", fk+"#boost-table-escapes", c.P.Pos(x.Pos()), "the boost table escapes through "+x.String())
			}
		case *ssa.Store:
			// kept in a local variable that a closure of the same function captures
			if al, ok := x.Addr.(*ssa.Alloc); ok && roots[x.Val] && al.Parent() == home {
				continue
			}
			// or handed on in a field of a local scoring-pass object whose
			// methods only look it up
			if fa, ok := x.Addr.(*ssa.FieldAddr); ok && roots[x.Val] && carrierOwner == "" {
				if al, ok := fa.X.(*ssa.Alloc); ok && al.Parent() == home {
					owner, field := ssau.FieldOwner(fa), ssau.FieldName(fa)
					if why := c13FieldOnlyLookedUp(c, owner, field, x); why == "" {
						carrierOwner, carrierField = owner, field
						continue
					} else {
						r.Bad("O-2", fk+"#boost-table-escapes", c.P.Pos(x.Pos()), "the boost table is kept in "+shortName(owner)+"."+field+", "+why)
						continue
					}
				}
			}
			r.Bad("O-2", fk+"#boost-table-escapes", c.P.Pos(x.Pos()), "the boost table is stored outside the function that builds it")
		case *ssa.Call:
			n := ssau.CallName(x)
			if g := x.Common().StaticCallee(); g != nil && helperOf[g] {
				continue // its updates are examined below
			}
			if strings.HasPrefix(n, "maps.Copy") && len(x.Common().Args) == 2 && roots[x.Common().Args[0]] && isCtx(x.Common().Args[1]) {
				// maps.Copy(table, ContextBoosts): the verbatim copy, done by the library
				callCopies = append(callCopies, x)
				continue
			}
			if n != "builtin.len" {
				r.Bad("O-2", fk+"#boost-table-escapes", c.P.Pos(x.Pos()), "the boost table is handed to "+n+", which may rewrite it")
			}
		default:
			r.Bad("O-2", fk+"#boost-table-escapes", c.P.Pos(ref.Pos()), "the boost table escapes through "+ref.String())
		}
	}
	r.Check(len(copies)+len(callCopies) == 1, "O-2", fk+"#context-boosts-copied", c.P.Pos(table.Pos()), "termBoost[k] = v for every (k, v) of ContextBoosts", fmt.Sprintf("%d verbatim copies of ContextBoosts into the boost table (want 1)", len(copies)+len(callCopies)))
	for i, mu := range others {
		key := fmt.Sprintf("%s#emphasis-update-%d", fk, i+1)
		body := mu.Parent()
		bf := sx.Of(body)
		cd := ssau.ControlDeps(body)
		// must come after the copy: directly, or — inside a local closure — at every call of the closure
		after := true
		var anchors []*ssa.BasicBlock
		if body == home {
			anchors = []*ssa.BasicBlock{mu.Block()}
		} else {
			ssau.ForEachInstr(home, false, func(in ssa.Instruction) {
				if call, ok := in.(*ssa.Call); ok {
					if mc, ok := call.Common().Value.(*ssa.MakeClosure); ok && mc.Fn == ssa.Value(body) {
						anchors = append(anchors, call.Block())
					}
					if call.Common().StaticCallee() == body && helperOf[body] {
						anchors = append(anchors, call.Block())
					}
				}
			})
			if len(anchors) == 0 {
				after = false
			}
		}
		for _, cp := range copies {
			for _, l := range loops {
				for _, ab := range anchors {
					if l.InLoop(cp.Block()) && !(l.Done.Dominates(ab) || l.Done == ab) {
						after = false
					}
				}
			}
		}
		for _, cc := range callCopies {
			for _, ab := range anchors {
				if !(cc.Block().Dominates(ab) && cc.Block() != ab) {
					// same block: the copy must come first
					before := false
					if cc.Block() == ab {
						for _, in := range ab.Instrs {
							if in == ssa.Instruction(cc) {
								before = true
								break
							}
							if in == ssa.Instruction(mu) {
								break
							}
						}
					}
					if !before {
						after = false
					}
				}
			}
		}
		// a guarded max: if table[k] < v { table[k] = v } with the same v
		guarded := false
		for _, d := range ssau.TransitiveControlDeps(cd, mu.Block()) {
			op, x, y, ok := ssau.CondOf(d.If().Cond)
			if !ok || !d.Then || op != token.LSS {
				continue
			}
			if lk, ok := x.(*ssa.Lookup); ok && isTbl(lk.X) && bf.E(lk.Index) == bf.E(mu.Key) {
				if y == mu.Value || bf.E(y) == bf.E(mu.Value) {
					guarded = true
				}
			}
		}
		// the value is at least 1: a constant, or a parameter of the closure to which every call passes one
		atLeast1 := false
		desc := bf.Plain(mu.Value)
		if cv, isC := ssau.ConstFloat(mu.Value); isC {
			atLeast1 = cv >= 1
		} else if leaves, ok := ssau.ValueSources(mu.Value); ok && allConstAtLeast1(leaves) {
			// a field of a local table of literals
			atLeast1 = true
		} else if p, isP := mu.Value.(*ssa.Parameter); isP && body != home {
			idx := -1
			for k, q := range body.Params {
				if q == p {
					idx = k
				}
			}
			n := 0
			atLeast1 = true
			ssau.ForEachInstr(home, false, func(in ssa.Instruction) {
				if call, ok := in.(*ssa.Call); ok {
					mc, isMc := call.Common().Value.(*ssa.MakeClosure)
					if (isMc && mc.Fn == ssa.Value(body)) || (call.Common().StaticCallee() == body && helperOf[body]) {
						n++
						if cv, isC := ssau.ConstFloat(call.Common().Args[idx]); !isC || cv < 1 {
							atLeast1 = false
						}
					}
				}
			})
			atLeast1 = atLeast1 && n > 0 && idx >= 0
		}
		r.Check(after && guarded && atLeast1, "O-2", key, c.P.Pos(mu.Pos()), fmt.Sprintf("if table[k] < %s { table[k] = %s } after the context copy", desc, desc), "an entry of the boost table is overwritten without the guard `table[k] < c` (or before the context boosts are copied in): a context boost can be replaced by a smaller factor, lowering the score of commands that contain the boosted word")
	}
	if carrierOwner != "" {
		// the scoring step that looks the table up through the carrier field
		isCarrier := func(v ssa.Value) bool {
			_, ok := ssau.IsFieldLoad(v, carrierOwner, carrierField)
			return ok
		}
		var step *ssa.Function
		for _, g := range shippedFuncs(c) {
			if g == home || g.Pkg != home.Pkg {
				continue
			}
			ssau.ForEachInstr(g, false, func(in ssa.Instruction) {
				if l, ok := in.(*ssa.Lookup); ok && isCarrier(l.X) {
					step = g
				}
			})
		}
		if step != nil {
			c13BoostFlow(c, sx, step, load.FuncKey(step), sx.Of(step), isCarrier)
			return
		}
	}
	c13BoostFlow(c, sx, fn, fk, fLookup, func(v ssa.Value) bool { return tableUse != nil && v == tableUse })
}

// c13BoostFlow follows the looked-up boost from its lookup to the score
// accumulator. The lookup is made on the boost table (tableUse) in fn, or —
// when there is no table — on ContextBoosts itself (the option, or a field
// that only ever receives it) in fn or in a helper fn calls with the term.
//
// The boost b may be compared with constants, merged with the constant 1 or
// with a larger constant that arrives only where b was found smaller (an
// emphasis can raise a boost, never lower it), and from there only multiplied
// into a product that is ADDED into the accumulator of a loop over this
// term's own postings, through helper parameters, results and local
// variables. Wherever a boost-derived value leaves the merge (into a product,
// a call, a result) it is positive: a constant > 0, or tested `> c` (c >= 0).
func c13BoostFlow(c *Ctx, sx *symx.Ctx, fn *ssa.Function, fk string, fLookup *symx.Fn, isTable func(ssa.Value) bool) {
	r := c.R
	var post *ssa.Lookup
	ssau.ForEachInstr(fn, false, func(in ssa.Instruction) {
		if l, ok := in.(*ssa.Lookup); ok {
			if _, ok := ssau.IsFieldLoad(l.X, dbPkg+".universalIndex", "postings"); ok {
				post = l
			}
		}
	})
	type boostLookup struct {
		lk   *ssa.Lookup
		home *ssa.Function
		site *ssa.Call // the call of home in fn (nil when home == fn)
	}
	var lks []boostLookup
	if isTable != nil {
		ssau.ForEachInstr(fn, false, func(in ssa.Instruction) {
			if l, ok := in.(*ssa.Lookup); ok && isTable(l.X) {
				lks = append(lks, boostLookup{l, fn, nil})
			}
			// or in a helper handed the table
			if call, ok := in.(*ssa.Call); ok {
				if g := call.Common().StaticCallee(); g != nil && g.Blocks != nil && c.P.IsRepoFunc(g) && g != fn {
					for i, a := range call.Common().Args {
						if i < len(g.Params) && isTable(a) {
							for _, ref := range *g.Params[i].Referrers() {
								if l, ok := ref.(*ssa.Lookup); ok && l.X == ssa.Value(g.Params[i]) {
									lks = append(lks, boostLookup{l, g, call})
								}
							}
						}
					}
				}
			}
		})
	} else {
		find := func(g *ssa.Function, site *ssa.Call) {
			ssau.ForEachInstr(g, false, func(in ssa.Instruction) {
				if l, ok := in.(*ssa.Lookup); ok && optLoad(l.X, "ContextBoosts") {
					lks = append(lks, boostLookup{l, g, site})
				}
			})
		}
		find(fn, nil)
		ssau.ForEachInstr(fn, false, func(in ssa.Instruction) {
			if call, ok := in.(*ssa.Call); ok {
				if g := call.Common().StaticCallee(); g != nil && c.P.IsRepoFunc(g) && len(g.Blocks) > 0 && g != fn {
					find(g, call)
				}
			}
		})
	}
	// the lookup made with the term whose postings are scored (the table is
	// also read by the emphasis guards, under other keys)
	termOf := func(b boostLookup) bool {
		if post == nil {
			return false
		}
		if b.home == fn {
			return fLookup.E(b.lk.Index) == fLookup.E(post.Index)
		}
		p := ssau.ParamOf(b.lk.Index)
		if p == nil {
			p, _ = b.lk.Index.(*ssa.Parameter)
		}
		if p == nil {
			return false
		}
		for i, q := range b.home.Params {
			if q == p && i < len(b.site.Common().Args) {
				return fLookup.E(b.site.Common().Args[i]) == fLookup.E(post.Index)
			}
		}
		return false
	}
	if len(lks) > 1 {
		var sel []boostLookup
		for _, b := range lks {
			if termOf(b) {
				sel = append(sel, b)
			}
		}
		if len(sel) > 0 {
			lks = sel
		}
	}
	if len(lks) != 1 || post == nil {
		r.Bad("O-2", fk+"#boost-lookup", c.P.Pos(fn.Pos()), fmt.Sprintf("the boost (%d lookups found) or the postings are not looked up by term on the scoring path", len(lks)))
		return
	}
	bl := lks[0]
	lk := bl.lk
	sameTerm := termOf(bl)
	r.Check(sameTerm, "O-2", fk+"#same-term", c.P.Pos(lk.Pos()), "the boost and the postings are looked up with the same term", "the boost is looked up for a different term than the postings it will scale")

	bval := resultValue2(lk, 0)
	rawSet := map[ssa.Value]bool{}
	cleanVals := map[ssa.Value]bool{}
	// edges of v's function on which v > c (c >= 0) holds
	guardEdges := func(v ssa.Value) map[[2]int]bool {
		out := map[[2]int]bool{}
		in, ok := v.(ssa.Instruction)
		if !ok || in.Parent() == nil {
			return out
		}
		for _, iff := range ssau.Ifs(in.Parent()) {
			op, x, y, okc := ssau.CondOf(iff.Cond)
			if !okc {
				continue
			}
			if y == v {
				x, y, op = y, x, ssau.Flip(op)
			}
			k, isK := ssau.ConstFloat(y)
			if x != v || !isK || k < 0 {
				continue
			}
			switch op {
			case token.GTR:
				out[[2]int{iff.Block().Index, 0}] = true
			case token.LEQ:
				out[[2]int{iff.Block().Index, 1}] = true
			case token.GEQ:
				if k > 0 {
					out[[2]int{iff.Block().Index, 0}] = true
				}
			case token.LSS:
				if k > 0 {
					out[[2]int{iff.Block().Index, 1}] = true
				}
			}
		}
		return out
	}
	var cleanAt func(v ssa.Value, blk, pred *ssa.BasicBlock, d int) bool
	cleanAt = func(v ssa.Value, blk, pred *ssa.BasicBlock, d int) bool {
		if d > 6 {
			return false
		}
		if k, ok := ssau.ConstFloat(v); ok {
			return k > 0
		}
		if cleanVals[v] {
			return true
		}
		// a test on v itself
		if ge := guardEdges(v); len(ge) > 0 {
			def := v.(ssa.Instruction).Block()
			at := blk
			if pred != nil {
				for k2, sc := range pred.Succs {
					if sc == blk && ge[[2]int{pred.Index, k2}] {
						return true
					}
				}
				at = pred
			}
			if at != def && !reachAvoidBB(def, at, ge, nil) {
				return true
			}
		}
		if ph, ok := v.(*ssa.Phi); ok {
			for i, e := range ph.Edges {
				if !cleanAt(e, ph.Block(), ph.Block().Preds[i], d+1) {
					return false
				}
			}
			return len(ph.Edges) > 0
		}
		return false
	}
	type flowState struct {
		bad     string
		guardOK bool
		onesOK  bool
		accs    []*ssa.MapUpdate
		seen    map[ssa.Value]bool
	}
	st := &flowState{guardOK: true, onesOK: true, seen: map[ssa.Value]bool{}}
	// a constant k on a merge edge raises: it arrives only where a boost-derived value was found below it
	raises := func(k float64, ph *ssa.Phi, i int) bool {
		if k == 1 {
			return true
		}
		if k < 1 {
			return false
		}
		pred := ph.Block().Preds[i]
		g := ph.Parent()
		cd := ssau.ControlDeps(g)
		deps := ssau.TransitiveControlDeps(cd, pred)
		if iff, ok := pred.Instrs[len(pred.Instrs)-1].(*ssa.If); ok {
			for k2, sc := range pred.Succs {
				if sc == ph.Block() {
					deps = append(deps, ssau.CtrlDep{Branch: iff.Block(), Then: k2 == 0})
				}
			}
		}
		for _, d := range deps {
			op, x, y, ok := ssau.CondOf(d.If().Cond)
			if !ok {
				continue
			}
			if !d.Then {
				op = ssau.Negate(op)
			}
			if rawSet[y] {
				x, y, op = y, x, ssau.Flip(op)
			}
			if kk, isK := ssau.ConstFloat(y); isK && rawSet[x] && kk == k && (op == token.LSS || op == token.LEQ) {
				return true
			}
		}
		return false
	}
	var walk func(v ssa.Value, raw bool, d int)
	walk = func(v ssa.Value, raw bool, d int) {
		if st.seen[v] || d > 60 || v.Referrers() == nil {
			return
		}
		st.seen[v] = true
		if raw {
			rawSet[v] = true
		}
		leaves := func(blk *ssa.BasicBlock) {
			if raw && !cleanAt(v, blk, nil, 0) {
				st.guardOK = false
			}
		}
		for _, ref := range *v.Referrers() {
			switch u := ref.(type) {
			case *ssa.DebugRef, *ssa.If:
			case *ssa.BinOp:
				switch u.Op {
				case token.MUL:
					leaves(u.Block())
					walk(u, false, d+1)
				case token.ADD:
					if raw {
						st.bad = "the boost is added, not multiplied"
					} else {
						walk(u, false, d+1)
					}
				case token.QUO:
					if u.Y == v {
						st.bad = "the boost is used as a divisor"
					} else {
						walk(u, raw, d+1)
					}
				case token.SUB:
					st.bad = "a boosted quantity is subtracted"
				case token.LSS, token.GTR, token.LEQ, token.GEQ, token.EQL, token.NEQ:
					if !raw {
						st.bad = "a boosted quantity is compared (the boost may only scale)"
					}
				}
			case *ssa.UnOp:
				if u.Op == token.SUB {
					st.bad = "the boost is negated"
				}
			case *ssa.Phi:
				for i, e := range u.Edges {
					if e == v {
						continue
					}
					if raw {
						if k, ok := ssau.ConstFloat(e); ok {
							if !raises(k, u, i) {
								st.onesOK = false
							}
						} else if !st.seen[e] && !rawSet[e] {
							st.onesOK = false
						}
						continue
					}
					// a product x*b merged with something else: that must be x
					// itself (the factor 1 written out)
					if st.seen[e] {
						continue
					}
					mulOK := false
					if bo, ok := v.(*ssa.BinOp); ok && bo.Op == token.MUL {
						other := bo.X
						if rawSet[bo.X] {
							other = bo.Y
						} else if !rawSet[bo.Y] {
							other = nil
						}
						if other != nil && (e == other || fLookup.E(e) == fLookup.E(other)) {
							mulOK = true
						}
					}
					if !mulOK {
						st.onesOK = false
					}
				}
				walk(u, raw, d+1)
			case *ssa.Convert:
				walk(u, raw, d+1)
			case *ssa.ChangeType:
				walk(u, raw, d+1)
			case *ssa.MapUpdate:
				if u.Value == v && !raw {
					st.accs = append(st.accs, u)
				} else if u.Value == v {
					st.bad = "the boost itself is stored into a map"
				}
			case *ssa.Store:
				if al, ok := u.Addr.(*ssa.Alloc); ok && u.Val == v {
					leaves(u.Block())
					for _, r2 := range *al.Referrers() {
						if ld, ok := r2.(*ssa.UnOp); ok && ld.Op == token.MUL {
							cleanVals[ld] = true
							walk(ld, raw, d+1)
						}
					}
				} else if u.Val == v {
					st.bad = "a boosted quantity is stored outside a local variable"
				}
			case *ssa.Call:
				cal := u.Common().StaticCallee()
				if cal == nil || !c.P.IsRepoFunc(cal) || len(cal.Blocks) == 0 {
					st.bad = "a boosted quantity is passed to " + ssau.CallName(u)
					continue
				}
				leaves(u.Block())
				for i, a := range u.Common().Args {
					if a == v && i < len(cal.Params) {
						cleanVals[cal.Params[i]] = true
						walk(cal.Params[i], raw, d+1)
					}
				}
			case *ssa.Return:
				// out of the helper that looked the boost up: on at its call in fn
				if u.Parent() == bl.home && bl.site != nil {
					leaves(u.Block())
					cleanVals[bl.site] = true
					walk(bl.site, raw, d+1)
				} else {
					st.bad = "a boosted quantity is returned"
				}
			default:
				st.bad = "a boosted quantity is used by " + ref.String()
			}
		}
	}
	walk(bval, true, 0)
	// the other results of the helper: constants of the factor's range
	if bl.site != nil {
		for _, ret := range ssau.ReturnsOf(bl.home) {
			rv := ssau.ResultValue(ret, 0)
			if rawSet[rv] {
				continue
			}
			if k, ok := ssau.ConstFloat(rv); !ok || k != 1 {
				st.onesOK = false
			}
		}
	}
	r.Check(st.bad == "" && len(st.accs) > 0, "O-2", fk+"#boost-in-positive-position", c.P.Pos(lk.Pos()), fmt.Sprintf("the boost occurs only as a factor of a product added into the score accumulator (%d update site(s))", len(st.accs)), "on the way from the boost lookup to the score accumulator "+orStr(st.bad, "the boost never reaches an accumulator update"))
	r.Check(st.guardOK && st.onesOK, "O-3", fk+"#boost-guard", c.P.Pos(lk.Pos()), "a boost-derived value leaves the merge only where it is positive (b > c, c >= 0); the other inputs of the merge are the constant 1 or a larger constant under `b < constant`", "the looked-up boost is used without a `b > 0` test, or the factor used otherwise is not the constant 1 (a zero or negative factor would erase or invert a term's contribution; a smaller constant would lower a context boost)")
	// the accumulator updates scaled by this boost lie in loops over this term's own postings
	pairOK := len(st.accs) > 0
	pls := postingLoops(c)
	for _, mu := range st.accs {
		in := false
		for _, pl := range pls {
			if pl.fn == mu.Parent() && pl.loop.InLoop(mu.Block()) && tracesTo(c, pl.loop.Over, ssa.Value(post), 0) {
				in = true
			}
		}
		if !in {
			pairOK = false
		}
	}
	r.Check(pairOK, "O-2", fk+"#pair-handed-on", c.P.Pos(post.Pos()), "the term's own postings are scored with the term's boost", "the postings scored with this boost are not the ones looked up for the same term")
}

func orStr(a, b string) string {
	if a != "" {
		return a
	}
	return b
}

func allConstAtLeast1(vs []ssa.Value) bool {
	for _, v := range vs {
		if k, ok := ssau.ConstFloat(v); !ok || k < 1 || math.IsInf(k, 0) || math.IsNaN(k) {
			return false
		}
	}
	return len(vs) > 0
}

// c13ResolveMake: the map made by v: the make itself, or a load of a local
// variable (possibly captured by a closure of the same function) that only
// ever holds one made map.
func c13ResolveMake(v ssa.Value) *ssa.MakeMap {
	switch x := v.(type) {
	case *ssa.MakeMap:
		return x
	case *ssa.UnOp:
		if x.Op != token.MUL {
			return nil
		}
		var cell *ssa.Alloc
		switch a := x.X.(type) {
		case *ssa.Alloc:
			cell = a
		case *ssa.FreeVar:
			// the binding of the free variable in the enclosing function
			fn := a.Parent()
			idx := -1
			for i, fv := range fn.FreeVars {
				if fv == a {
					idx = i
				}
			}
			if fn.Parent() != nil && idx >= 0 {
				ssau.ForEachInstr(fn.Parent(), false, func(in ssa.Instruction) {
					if mc, ok := in.(*ssa.MakeClosure); ok && mc.Fn == ssa.Value(fn) {
						cell, _ = mc.Bindings[idx].(*ssa.Alloc)
					}
				})
			}
		}
		if cell == nil {
			return nil
		}
		var mk *ssa.MakeMap
		for _, ref := range *cell.Referrers() {
			if st, ok := ref.(*ssa.Store); ok && st.Addr == ssa.Value(cell) {
				m, ok := st.Val.(*ssa.MakeMap)
				if !ok || (mk != nil && mk != m) {
					return nil
				}
				mk = m
			}
		}
		return mk
	}
	return nil
}

// resultValue2: component i of a comma-ok lookup.
func resultValue2(lk *ssa.Lookup, i int) ssa.Value {
	if !lk.CommaOk {
		if i == 0 {
			return lk
		}
		return nil
	}
	for _, ref := range *lk.Referrers() {
		if ex, ok := ref.(*ssa.Extract); ok && ex.Index == i {
			return ex
		}
	}
	return nil
}

func c13Later(c *Ctx) {
	r := c.R
	ap := c.P.Func("internal/database", "Database", "applyPostScoringBoosts")
	if !r.Anchor("O-4", "database.(*Database).applyPostScoringBoosts", ap != nil) {
		return
	}
	n := 0
	scope := reachClosure(c, []*ssa.Function{ap})
	for _, fn := range scope {
		ssau.ForEachInstr(fn, false, func(in ssa.Instruction) {
			switch x := in.(type) {
			case *ssa.FieldAddr:
				if ssau.FieldName(x) == "ContextBoosts" && ssau.NamedOf(x.X.Type()) == optType {
					n++
					r.Bad("O-4", fmt.Sprintf("%s#reads-ContextBoosts-%d", load.FuncKey(fn), n), c.P.Pos(x.Pos()), "a post-scoring stage reads ContextBoosts: what it adds or multiplies depends on the working directory in a way the boost model does not bound")
				}
			case *ssa.Field:
				if ssau.FieldName(x) == "ContextBoosts" && ssau.NamedOf(x.X.Type()) == optType {
					n++
					r.Bad("O-4", fmt.Sprintf("%s#reads-ContextBoosts-%d", load.FuncKey(fn), n), c.P.Pos(x.Pos()), "a post-scoring stage reads ContextBoosts")
				}
			}
		})
	}
	if n == 0 {
		r.OK("O-4", "post-scoring#context-independent", c.P.Pos(ap.Pos()), fmt.Sprintf("%d functions reachable from applyPostScoringBoosts: none reads ContextBoosts", len(scope)))
	}
	r.Floor("O-4", "functions reachable from the post-scoring stages", len(scope), 10)
	c13Rerank(c)
}

// c13Rerank: the similarity re-ranker works on a rank prefix of the boosted
// order. Which commands are in that prefix depends on the context boosts, so
// a command returned without having been blended would have a score that
// changes with a boost on a word it does not contain. Hence: the list the
// re-ranker returns is the very list it blended — no unblended tail.
func c13Rerank(c *Ctx) {
	r := c.R
	var fn *ssa.Function
	for _, cand := range shippedFuncs(c) {
		if pk := c.P.PkgOfFunc(cand); pk == nil || pk.PkgPath != dbPkg || resultIdx(cand) < 0 {
			continue
		}
		if len(callsMatching(cand, false, func(n string) bool { return strings.HasSuffix(n, "nlp.TFIDFSearcher).Search") })) > 0 {
			fn = cand
		}
	}
	if !r.Anchor("O-4", "database re-ranker (calls TFIDFSearcher.Search, returns []SearchResult)", fn != nil) {
		return
	}
	fk := load.FuncKey(fn)
	sx := symx.New(c.P.IsRepoFunc)
	f := sx.Of(fn)
	// the slices whose elements' Score is written
	blended := map[string]token.Pos{}
	ssau.ForEachInstr(fn, false, func(in ssa.Instruction) {
		st, ok := in.(*ssa.Store)
		if !ok {
			return
		}
		fa, ok := st.Addr.(*ssa.FieldAddr)
		if !ok || ssau.FieldName(fa) != "Score" {
			return
		}
		if ia, ok := fa.X.(*ssa.IndexAddr); ok && srSlice(ia.X.Type()) {
			blended[f.E(ia.X)] = st.Pos()
		}
	})
	if len(blended) == 0 {
		r.OK("O-4", fk+"#returns-what-it-blends", c.P.Pos(fn.Pos()), "the re-ranker writes no score")
		return
	}
	ri := resultIdx(fn)
	// returns reached without any blending (early exits) hand back the input
	for _, ret := range ssau.ReturnsOf(fn) {
		rv := ssau.ResultValue(ret, ri)
		// a helper that sorts the list in place and hands it back
		for d := 0; d < 3; d++ {
			call, ok := ssau.Strip(rv).(*ssa.Call)
			if !ok {
				break
			}
			arg := ssau.SameListHelperArg(call)
			if arg == nil {
				break
			}
			rv = arg
		}
		e := f.E(rv)
		_, same := blended[e]
		if !same {
			// an exit that no blending store can reach
			reached := false
			for _, b := range fn.Blocks {
				for _, in := range b.Instrs {
					if st, ok := in.(*ssa.Store); ok {
						if fa, ok := st.Addr.(*ssa.FieldAddr); ok && ssau.FieldName(fa) == "Score" {
							if b == ret.Block() || ssau.Reachable(b, ret.Block(), nil) {
								reached = true
							}
						}
					}
				}
			}
			same = !reached
		}
		r.Check(same, "O-4", fk+"#returns-what-it-blends:"+c17ExitName(c, fn, ret), c.P.Pos(ret.Pos()), "the returned list is the list whose scores were blended", "the re-ranker blends similarity into "+strings.Join(keysOf(blended), ", ")+" but returns "+f.Plain(rv)+": results beyond the blended prefix keep their unblended score, and which commands those are depends on the context boosts")
	}
}

func keysOf(m map[string]token.Pos) []string {
	var out []string
	for k := range m {
		out = append(out, k)
	}
	sort.Strings(out)
	return out
}

func c13Analyzer(c *Ctx, sx *symx.Ctx) {
	r := c.R
	ad := c.P.Func("internal/context", "Analyzer", "AnalyzeDirectory")
	fin := c.P.Func("internal/context", "Analyzer", "finalizeContext")
	if r.Anchor("O-5", "context.(*Analyzer).AnalyzeDirectory", ad != nil && fin != nil) {
		fk := "context.(*Analyzer).AnalyzeDirectory"
		// every return behind a successful ReadDir passes finalizeContext
		var rd *ssa.Call
		for _, call := range callsTo(ad, "os.ReadDir") {
			rd = call
		}
		if rd == nil {
			r.Bad("O-5", fk+"#lists-directory", c.P.Pos(ad.Pos()), "os.ReadDir is not called")
		} else {
			succ, _ := nilTests(errValue(rd))
			_, fail := nilTests(errValue(rd))
			finCalls := callsTo(ad, ssau.FuncName(fin))
			barrier := map[*ssa.BasicBlock]bool{}
			for _, fc := range finCalls {
				barrier[fc.Block()] = true
			}
			bad := len(succ) == 0 || len(finCalls) == 0
			for _, ret := range ssau.ReturnsOf(ad) {
				if barrier[ret.Block()] {
					continue // the call precedes the return in its own block
				}
				if reachAvoidBB(rd.Block(), ret.Block(), fail, barrier) {
					bad = true
				}
			}
			r.Check(!bad, "O-5", fk+"#finalizes-every-listing", c.P.Pos(rd.Pos()), "every return after a successful listing passes finalizeContext", "a successful directory listing can be returned without finalizeContext: project types may repeat and 'generic' may be missing")
		}
		// finalizeContext: dedupe call + generic iff len == 0
		fk2 := "context.(*Analyzer).finalizeContext"
		ctxT := ctxPkg + ".Context"
		dedupe := false
		for _, call := range callsTo(fin, ctxPkg+".removeDuplicateProjectTypes") {
			if _, ok := ssau.IsFieldLoad(call.Common().Args[0], ctxT, "ProjectTypes"); ok {
				for _, ref := range *call.Referrers() {
					if st, ok := ref.(*ssa.Store); ok {
						if _, ok := ssau.IsFieldAddr(st.Addr, ctxT, "ProjectTypes"); ok {
							dedupe = true
						}
					}
				}
			}
		}
		r.Check(dedupe, "O-5", fk2+"#dedupes-project-types", c.P.Pos(fin.Pos()), "ProjectTypes = removeDuplicateProjectTypes(ProjectTypes)", "finalizeContext does not replace ProjectTypes by their de-duplicated list")
		// 'generic' is put into ProjectTypes exactly when the list is empty: every
		// store of a value containing the constant happens where len == 0 is
		// established (any equivalent form of the test: the interval of
		// len(ProjectTypes) at the store is [0,0]), and every path on which
		// len == 0 holds reaches such a store before returning
		f := sx.Of(fin)
		q := interval.New(f)
		var lens []ssa.Value
		ssau.ForEachInstr(fin, false, func(in ssa.Instruction) {
			if lc, ok := in.(*ssa.Call); ok && ssau.CallName(lc) == "builtin.len" {
				if _, ok := ssau.IsFieldLoad(lc.Common().Args[0], ctxT, "ProjectTypes"); ok {
					lens = append(lens, lc)
				}
			}
		})
		emptyAt := func(b *ssa.BasicBlock) bool {
			for _, lc := range lens {
				if g := q.GuardBoundFrom(f.E(lc), b, interval.Iv{LoOK: true, Lo: 0}); g.HiOK && g.Hi == 0 {
					return true
				}
			}
			return false
		}
		holdsGeneric := func(v ssa.Value) bool {
			switch x := v.(type) {
			case *ssa.Call:
				if ssau.CallName(x) == "builtin.append" {
					if s, ok := ssau.ConstString(ssau.Strip(appendedSingle(x))); ok && s == "generic" {
						return true
					}
				}
			case *ssa.Slice:
				if al, ok := x.X.(*ssa.Alloc); ok {
					for _, ref := range *al.Referrers() {
						if ia, ok := ref.(*ssa.IndexAddr); ok {
							for _, r2 := range *ia.Referrers() {
								if st, ok := r2.(*ssa.Store); ok {
									if s, ok := ssau.ConstString(ssau.Strip(st.Val)); ok && s == "generic" {
										return true
									}
								}
							}
						}
					}
				}
			}
			return false
		}
		genOK, why := true, ""
		stores := map[*ssa.BasicBlock]bool{}
		ssau.ForEachInstr(fin, false, func(in ssa.Instruction) {
			st, ok := in.(*ssa.Store)
			if !ok {
				return
			}
			if _, ok := ssau.IsFieldAddr(st.Addr, ctxT, "ProjectTypes"); !ok || !holdsGeneric(st.Val) {
				return
			}
			stores[st.Block()] = true
			if !emptyAt(st.Block()) {
				genOK, why = false, "'generic' can be added to a list that is not empty"
			}
		})
		if len(stores) == 0 {
			genOK, why = false, "'generic' is never put into ProjectTypes"
		}
		// completeness: from every edge that establishes len == 0, no return without such a store
		for _, iff := range ssau.Ifs(fin) {
			for k, sc := range iff.Block().Succs {
				if emptyAt(iff.Block()) || !emptyAtEdge(q, f, lens, iff.Block(), k) {
					continue
				}
				for _, ret := range ssau.ReturnsOf(fin) {
					if !stores[sc] && (sc == ret.Block() || reachAvoidBB(sc, ret.Block(), nil, stores)) {
						genOK, why = false, "an empty list can be returned without 'generic'"
					}
				}
			}
		}
		r.Check(genOK, "O-5", fk2+"#generic-iff-none", c.P.Pos(fin.Pos()), "'generic' enters ProjectTypes exactly where len(ProjectTypes) == 0 is established, on every such path", "'generic' is not added exactly when no project type was recognised: "+why)
	}
	// removeDuplicateProjectTypes: first-occurrence idiom
	rdf := c.P.Func("internal/context", "", "removeDuplicateProjectTypes")
	if r.Anchor("O-5", "context.removeDuplicateProjectTypes", rdf != nil) {
		good, why := firstOccurrenceIdiom(rdf)
		r.Check(good, "O-5", "context.removeDuplicateProjectTypes#first-occurrence-idiom", c.P.Pos(rdf.Pos()), "range in order; append on first sight", "project types are not de-duplicated by the first-occurrence idiom: "+why)
	}
	// map ranges reachable from the analyser and from GetContextBoosts
	var roots []*ssa.Function
	for _, spec := range [][2]string{{"Analyzer", "AnalyzeDirectory"}, {"Context", "GetContextBoosts"}} {
		if fn := c.P.Func("internal/context", spec[0], spec[1]); fn != nil {
			roots = append(roots, fn)
		}
	}
	nLoops, nBad := 0, 0
	for _, fn := range reachClosure(c, roots) {
		for i, l := range maporder.Classify(fn, sx) {
			nLoops++
			if sens := l.Sensitive(); len(sens) > 0 {
				nBad++
				r.Bad("O-5", fmt.Sprintf("%s#map-range-%d", load.FuncKey(fn), i+1), c.P.Pos(l.Pos()), "context detection depends on map iteration order: "+sens[0].Kind+": "+sens[0].Detail)
			}
		}
	}
	if nBad == 0 {
		r.OK("O-5", "context#no-order-sensitive-map-range", "", fmt.Sprintf("%d map ranges, all order-insensitive", nLoops))
	}
	r.Floor("O-5", "map ranges in context detection", nLoops, 2)
	// boost constants: every float constant that can be stored into a map[string]float64 in package context
	nConst, badConst := 0, ""
	for _, fn := range c.P.RepoFuncs() {
		pk := c.P.PkgOfFunc(fn)
		if pk == nil || pk.PkgPath != ctxPkg {
			continue
		}
		ssau.ForEachInstr(fn, false, func(in ssa.Instruction) {
			mu, ok := in.(*ssa.MapUpdate)
			if !ok {
				return
			}
			m, ok := mu.Map.Type().Underlying().(*types.Map)
			if !ok {
				return
			}
			if vb, ok := m.Elem().Underlying().(*types.Basic); !ok || vb.Kind() != types.Float64 {
				return
			}
			cst, ok := mu.Value.(*ssa.Const)
			if !ok {
				// copied values (range over the constant tables, or handed to a
				// merge helper) are covered by their own literals; anything
				// COMPUTED is not known to stay at or above 1
				if why := c13ComputedBoost(c, mu.Value, 0); why != "" {
					badConst = why + " at " + c.P.Pos(mu.Pos())
				}
				return
			}
			nConst++
			fv, _ := constant.Float64Val(constant.ToFloat(cst.Value))
			if math.IsInf(fv, 0) || math.IsNaN(fv) || fv < 1 {
				badConst = fmt.Sprintf("%v at %s", fv, c.P.Pos(mu.Pos()))
			}
		})
	}
	r.Check(badConst == "" && nConst > 0, "O-5", "context#boost-constants-finite-and-at-least-1", "", fmt.Sprintf("%d boost constants, all finite and >= 1", nConst), "a boost constant is not finite or is below 1: "+badConst)
	r.Floor("O-5", "boost constants checked", nConst, 80)
}

// emptyAtEdge: the edge (b, k) itself establishes len(ProjectTypes) == 0.
func emptyAtEdge(q *interval.Q, f *symx.Fn, lens []ssa.Value, b *ssa.BasicBlock, k int) bool {
	iff, ok := b.Instrs[len(b.Instrs)-1].(*ssa.If)
	if !ok {
		return false
	}
	op, x, y, okc := ssau.CondOf(iff.Cond)
	if !okc {
		return false
	}
	if k == 1 {
		op = ssau.Negate(op)
	}
	isLen := func(v ssa.Value) bool {
		for _, l := range lens {
			if f.E(l) == f.E(v) {
				return true
			}
		}
		return false
	}
	c, isC := ssau.ConstInt(y)
	if !isLen(x) || !isC {
		if c2, isC2 := ssau.ConstInt(x); isC2 && isLen(y) {
			op, c, isC = ssau.Flip(op), c2, true
		} else {
			return false
		}
	}
	if !isC {
		return false
	}
	// len >= 0 always: the edge pins it to 0
	switch op {
	case token.EQL:
		return c == 0
	case token.LEQ:
		return c == 0
	case token.LSS:
		return c == 1
	}
	return false
}

// firstOccurrenceIdiom: fn(xs) ranges over xs in order and appends x exactly
// when it was not seen before; no sort.
func firstOccurrenceIdiom(fn *ssa.Function) (bool, string) {
	var loop *ssau.RangeLoop
	ls := ssau.RangeLoops(fn)
	for i := range ls {
		if ls[i].Over == ssa.Value(fn.Params[0]) && !ls[i].IsMap {
			loop = &ls[i]
		}
	}
	if loop == nil {
		return false, "no range over the input in order"
	}
	good, why := true, ""
	nApp := 0
	cd := ssau.ControlDeps(fn)
	ssau.ForEachInstr(fn, false, func(in ssa.Instruction) {
		call, ok := in.(*ssa.Call)
		if !ok {
			return
		}
		n := ssau.CallName(call)
		if strings.HasPrefix(n, "sort.") || strings.HasPrefix(n, "slices.") {
			good, why = false, "the list is processed by "+n+", which is not the first-occurrence rule"
			return
		}
		if n != "builtin.append" {
			return
		}
		nApp++
		el := appendedSingle(call)
		u, ok := el.(*ssa.UnOp)
		if !ok {
			good, why = false, "appends something other than the current element"
			return
		}
		ia, ok := u.X.(*ssa.IndexAddr)
		if !ok || ia.X != loop.Over || ia.Index != loop.Index {
			good, why = false, "appends something other than the current element"
			return
		}
		// the append happens only when the element is absent from a "seen" map
		// (plain bool lookup false, or comma-ok lookup not ok, possibly through
		// a negation), and the element is entered into that map on the same path
		guarded := false
		isElem := func(v ssa.Value) bool {
			ku, ok := v.(*ssa.UnOp)
			if !ok {
				return false
			}
			kia, ok := ku.X.(*ssa.IndexAddr)
			return ok && kia.Index == loop.Index && kia.X == loop.Over
		}
		for _, d := range ssau.TransitiveControlDeps(cd, call.Block()) {
			cond, absentOn := d.If().Cond, false // the edge on which "absent" holds
			if u, ok := cond.(*ssa.UnOp); ok && u.Op == token.NOT {
				cond, absentOn = u.X, true
			}
			var lk *ssa.Lookup
			switch x := cond.(type) {
			case *ssa.Lookup:
				if !x.CommaOk {
					lk = x
				}
			case *ssa.Extract:
				if l, ok := x.Tuple.(*ssa.Lookup); ok && l.CommaOk && x.Index == 1 {
					lk = l
				}
			}
			if lk == nil || !isElem(lk.Index) || d.Then != absentOn {
				continue
			}
			// entered on the same path: an update of the same map with the element
			for _, ref := range *lk.X.Referrers() {
				if mu, ok := ref.(*ssa.MapUpdate); ok && mu.Map == lk.X && isElem(mu.Key) {
					for _, d2 := range ssau.TransitiveControlDeps(cd, mu.Block()) {
						if d2 == d {
							guarded = true
						}
					}
				}
			}
		}
		if !guarded {
			good, why = false, "the append is not guarded by the element being absent from a map it is then entered into"
		}
	})
	if nApp != 1 && good {
		return false, fmt.Sprintf("%d appends (want 1)", nApp)
	}
	for _, ret := range ssau.ReturnsOf(fn) {
		if _, ok := ret.Results[0].(*ssa.Phi); !ok && good {
			return false, "the result is not the slice built by the loop"
		}
	}
	return good, why
}

// c13ComputedBoost: "" when v is a constant >= 1, a value copied out of a map
// (the constant tables), or a parameter to which every shipped call site
// passes such a value; otherwise a description of the computation found.
func c13ComputedBoost(c *Ctx, v ssa.Value, d int) string {
	if d > 5 {
		return "a boost whose origin is too deep to follow"
	}
	switch x := v.(type) {
	case *ssa.Const:
		if k, ok := ssau.ConstFloat(x); ok && k >= 1 && !math.IsInf(k, 0) {
			return ""
		}
		return "a boost constant below 1"
	case *ssa.Extract:
		if nx, ok := x.Tuple.(*ssa.Next); ok && !nx.IsString {
			return "" // value of a map being ranged over
		}
		if _, ok := x.Tuple.(*ssa.Lookup); ok {
			return ""
		}
	case *ssa.Lookup:
		return ""
	case *ssa.Phi:
		for _, e := range x.Edges {
			if w := c13ComputedBoost(c, e, d+1); w != "" {
				return w
			}
		}
		return ""
	case *ssa.UnOp:
		if x.Op == token.MUL {
			return "" // a stored value read back
		}
	case *ssa.Parameter:
		fn := x.Parent()
		idx := -1
		for i, p := range fn.Params {
			if p == x {
				idx = i
			}
		}
		node := c.P.CallGraph().Nodes[fn]
		if node == nil || idx < 0 {
			return ""
		}
		for _, e := range node.In {
			if e.Site == nil || !isShipped(c, e.Caller.Func) {
				continue
			}
			args := e.Site.Common().Args
			if e.Site.Common().IsInvoke() || idx >= len(args) {
				continue
			}
			if w := c13ComputedBoost(c, args[idx], d+1); w != "" {
				return w
			}
		}
		return ""
	case *ssa.BinOp:
		if x.Op == token.MUL && c13ComputedBoost(c, x.X, d+1) == "" && c13ComputedBoost(c, x.Y, d+1) == "" {
			return "" // a product of factors that are each at least 1
		}
		return "a boost computed as " + x.X.Name() + " " + x.Op.String() + " " + x.Y.Name() + " (nothing shows the result stays >= 1)"
	case *ssa.Call:
		n := ssau.CallName(x)
		if n == "builtin.max" || n == "math.Max" {
			for _, a := range x.Common().Args {
				if c13ComputedBoost(c, a, d+1) == "" {
					return ""
				}
			}
		}
		return "a boost computed by " + n
	}
	return ""
}

// c13FieldOnlyLookedUp: every load of owner.field in shipped code is used
// for lookups and len only, and the field is stored to only by `only`.
// "" when so, else what else happens to it.
func c13FieldOnlyLookedUp(c *Ctx, owner, field string, only *ssa.Store) string {
	why := ""
	for _, g := range shippedFuncs(c) {
		ssau.ForEachInstr(g, false, func(in ssa.Instruction) {
			fa, ok := in.(*ssa.FieldAddr)
			if !ok || ssau.FieldOwner(fa) != owner || ssau.FieldName(fa) != field {
				return
			}
			for _, ref := range *fa.Referrers() {
				switch x := ref.(type) {
				case *ssa.Store:
					if x != only {
						why = "which is also assigned at " + c.P.Pos(x.Pos())
					}
				case *ssa.UnOp:
					for _, r2 := range *x.Referrers() {
						switch y := r2.(type) {
						case *ssa.Lookup, *ssa.DebugRef:
						case *ssa.Call:
							if ssau.CallName(y) != "builtin.len" {
								why = "which is handed to " + ssau.CallName(y) + " at " + c.P.Pos(y.Pos())
							}
						default:
							why = "which is used by something other than a lookup at " + c.P.Pos(r2.Pos())
						}
					}
				case *ssa.DebugRef:
				default:
					why = "whose address is taken at " + c.P.Pos(ref.Pos())
				}
			}
		})
	}
	return why
}

// c13OnlyMapOps: parameter p (a map) is only looked up, updated and
// measured in its function.
func c13OnlyMapOps(p *ssa.Parameter) bool {
	for _, ref := range *p.Referrers() {
		switch x := ref.(type) {
		case *ssa.Lookup:
			if x.X != ssa.Value(p) {
				return false
			}
		case *ssa.MapUpdate:
			if x.Map != ssa.Value(p) {
				return false
			}
		case *ssa.DebugRef:
		case *ssa.Call:
			if ssau.CallName(x) != "builtin.len" {
				return false
			}
		default:
			return false
		}
	}
	return true
}

func sortedValues(set map[ssa.Value]bool) []ssa.Value {
	var out []ssa.Value
	for v := range set {
		out = append(out, v)
	}
	sort.Slice(out, func(i, j int) bool { return out[i].Pos() < out[j].Pos() })
	return out
}
