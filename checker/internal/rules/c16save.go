package rules

import (
	"fmt"
	"go/token"
	"go/types"

	"golang.org/x/tools/go/ssa"

	"wtfverif/checker/internal/load"
	"wtfverif/checker/internal/ssau"
)

// C16 O-4, the save side of the round trip: a Save that reports success has
// written the log. Every exit of Save with a nil error lies behind the call
// that writes the file. A path around the write is acceptable only when it is
// decided by a boolean field of the history (a "modified" flag) found clear,
// and then every function of the package that changes the log (Entries, an
// element of Entries, MaxSize) sets that flag on all its paths: otherwise a
// change is kept in memory, Save skips the write, and the next Load gives back
// the old entries.
func c16SaveWrites(c *Ctx, save *ssa.Function) {
	r := c.R
	writesFile := map[*ssa.Function]int{} // 0 unknown, 1 yes, 2 no
	var reachesWrite func(g *ssa.Function) bool
	reachesWrite = func(g *ssa.Function) bool {
		if g == nil {
			return false
		}
		if v := writesFile[g]; v != 0 {
			return v == 1
		}
		writesFile[g] = 2
		found := false
		for _, h := range reachClosure(c, []*ssa.Function{g}) {
			ssau.ForEachInstr(h, false, func(in ssa.Instruction) {
				if call := ssau.AsCall(in); call != nil {
					switch ssau.CallName(call) {
					case "os.Rename", "os.WriteFile", "io/ioutil.WriteFile", "(*os.File).Write", "(*os.File).WriteString":
						found = true
					}
				}
			})
		}
		if found {
			writesFile[g] = 1
		}
		return found
	}
	nExits := 0
	var visit func(fn *ssa.Function, d int)
	visit = func(fn *ssa.Function, d int) {
		fk := load.FuncKey(fn)
		barrier := map[*ssa.BasicBlock]bool{}
		var delegates []*ssa.Function
		ssau.ForEachInstr(fn, false, func(in ssa.Instruction) {
			call := ssau.AsCall(in)
			if call == nil {
				return
			}
			switch ssau.CallName(call) {
			case "os.Rename", "os.WriteFile", "io/ioutil.WriteFile":
				barrier[in.Block()] = true
				return
			}
			if g := call.Common().StaticCallee(); g != nil && g.Blocks != nil && c.P.IsRepoFunc(g) && reachesWrite(g) {
				barrier[in.Block()] = true
				// a method of the history that does the writing for Save is held to the same rule
				if g.Signature.Recv() != nil && ssau.NamedOf(g.Signature.Recv().Type()) == histPkg+".SearchHistory" && d < 3 {
					delegates = append(delegates, g)
				}
			}
		})
		if !r.Check(len(barrier) > 0, "O-4", fk+"#writes-the-file", c.P.Pos(fn.Pos()), "calls the routine that writes the history file", "no call that writes the history file") {
			return
		}
		cd := ssau.ControlDeps(fn)
		for _, ret := range ssau.ReturnsOf(fn) {
			if len(ret.Results) == 0 {
				continue
			}
			res := ret.Results[len(ret.Results)-1]
			if !c16MayBeNilError(res, 0) {
				continue
			}
			nExits++
			key := fmt.Sprintf("%s#success-exit-%s", fk, exitName(fn, ret))
			entry := fn.Blocks[0]
			around := !barrier[entry] && !barrier[ret.Block()] && (entry == ret.Block() || reachAvoidBB(entry, ret.Block(), nil, barrier))
			if !around {
				r.OK("O-4", key, c.P.Pos(ret.Pos()), "reached only through the write of the file")
				continue
			}
			// the path around the write: decided by a flag of the history found clear?
			var flag *ssa.FieldAddr
			for _, dp := range ssau.TransitiveControlDeps(cd, ret.Block()) {
				iff := dp.If()
				if iff == nil {
					continue
				}
				cond, want := iff.Cond, dp.Then
				for {
					u, ok := cond.(*ssa.UnOp)
					if !ok || u.Op != token.NOT {
						break
					}
					cond, want = u.X, !want
				}
				if bo, ok := cond.(*ssa.BinOp); ok && (bo.Op == token.EQL || bo.Op == token.NEQ) {
					if k, ok := bo.Y.(*ssa.Const); ok && k.Value != nil && isBoolType(bo.X.Type()) {
						if (k.Value.String() == "true") != (bo.Op == token.EQL) {
							want = !want
						}
						cond = bo.X
					}
				}
				if want {
					continue // the skip needs the flag CLEAR
				}
				if u, ok := cond.(*ssa.UnOp); ok && u.Op == token.MUL {
					if fa, ok := u.X.(*ssa.FieldAddr); ok && ssau.FieldOwner(fa) == histPkg+".SearchHistory" && isBoolType(u.Type()) {
						flag = fa
					}
				}
			}
			if flag == nil {
				r.Bad("O-4", key, c.P.Pos(ret.Pos()), "Save can report success on a path that does not write the file: what was recorded since the last write is lost and a later Load gives back the old entries")
				continue
			}
			fname := ssau.FieldName(flag)
			good := true
			for _, w := range c16LogWritesWithoutFlag(c, flag.Field) {
				good = false
				r.Bad("O-4", fmt.Sprintf("%s#marks-the-log-modified", load.FuncKey(w.Parent())), c.P.Pos(w.Pos()), fmt.Sprintf("Save skips the write while the field %s is clear, but this change of the log does not set it on every path: the change stays in memory, Save reports success without writing, and a later Load gives back the old entry", fname))
			}
			if good {
				r.OK("O-4", key, c.P.Pos(ret.Pos()), fmt.Sprintf("skips the write only while %s is clear; every change of the log sets it", fname))
			}
		}
		for _, g := range delegates {
			visit(g, d+1)
		}
	}
	visit(save, 0)
	r.Floor("O-4", "success exits of Save", nExits, 1)
}

func isBoolType(t types.Type) bool {
	b, ok := t.Underlying().(*types.Basic)
	return ok && b.Info()&types.IsBoolean != 0
}

// c16MayBeNilError: the returned error can be nil (a constant nil, or a merge
// that has one). The error of a call (returned as it came) is not counted:
// such an exit lies behind that call.
func c16MayBeNilError(v ssa.Value, d int) bool {
	if d > 4 {
		return false
	}
	switch x := v.(type) {
	case *ssa.Const:
		return x.Value == nil
	case *ssa.Phi:
		for _, e := range x.Edges {
			if c16MayBeNilError(e, d+1) {
				return true
			}
		}
	}
	return false
}

// c16LogWritesWithoutFlag: the stores, in the shipped functions of package
// history, that change the log of a history received from outside (the Entries
// field, an element of it, MaxSize) and are neither dominated by nor followed
// on every path by a store of true to field `flag` of the same history.
func c16LogWritesWithoutFlag(c *Ctx, flag int) []ssa.Instruction {
	histT := histPkg + ".SearchHistory"
	var out []ssa.Instruction
	for _, fn := range shippedFuncs(c) {
		pk := c.P.PkgOfFunc(fn)
		if pk == nil || pk.PkgPath != histPkg {
			continue
		}
		// the history written is identified by the base of the field address
		var rootOf func(addr ssa.Value, d int) (ssa.Value, bool)
		rootOf = func(addr ssa.Value, d int) (ssa.Value, bool) {
			if d > 6 {
				return nil, false
			}
			switch x := addr.(type) {
			case *ssa.FieldAddr:
				if ssau.FieldOwner(x) == histT {
					n := ssau.FieldName(x)
					if n == "Entries" || n == "MaxSize" {
						return x.X, true
					}
					return nil, false
				}
				return rootOf(x.X, d+1)
			case *ssa.IndexAddr:
				return rootOf(x.X, d+1)
			case *ssa.UnOp:
				if x.Op == token.MUL {
					// the slice loaded from the Entries field
					if fa, ok := x.X.(*ssa.FieldAddr); ok && ssau.FieldOwner(fa) == histT && ssau.FieldName(fa) == "Entries" {
						return fa.X, true
					}
				}
			case *ssa.Slice:
				return rootOf(x.X, d+1)
			}
			return nil, false
		}
		setBlocks := map[ssa.Value]map[*ssa.BasicBlock]bool{}
		ssau.ForEachInstr(fn, false, func(in ssa.Instruction) {
			st, ok := in.(*ssa.Store)
			if !ok {
				return
			}
			fa, ok := st.Addr.(*ssa.FieldAddr)
			if !ok || ssau.FieldOwner(fa) != histT || fa.Field != flag || !ssau.IsConstBool(st.Val, true) {
				return
			}
			if setBlocks[fa.X] == nil {
				setBlocks[fa.X] = map[*ssa.BasicBlock]bool{}
			}
			setBlocks[fa.X][st.Block()] = true
		})
		ssau.ForEachInstr(fn, false, func(in ssa.Instruction) {
			st, ok := in.(*ssa.Store)
			if !ok {
				return
			}
			base, ok := rootOf(st.Addr, 0)
			if !ok {
				return
			}
			if _, fresh := base.(*ssa.Alloc); fresh {
				return // a history under construction
			}
			sets := setBlocks[base]
			if sets[st.Block()] {
				return
			}
			for b := range sets {
				if b.Dominates(st.Block()) {
					return
				}
			}
			escapes := false
			for _, ret := range ssau.ReturnsOf(fn) {
				if ret.Block() == st.Block() || reachAvoidBB(st.Block(), ret.Block(), nil, sets) {
					escapes = true
				}
			}
			if escapes {
				out = append(out, st)
			}
		})
	}
	return out
}
