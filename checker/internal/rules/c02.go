package rules

import (
	"fmt"
	"go/types"
	"sort"
	"strings"

	"golang.org/x/tools/go/ssa"

	"wtfverif/checker/internal/load"
	"wtfverif/checker/internal/maporder"
	"wtfverif/checker/internal/ssau"
	"wtfverif/checker/internal/symx"
)

func init() {
	register(&Rule{
		Prop: "C02",
		Explanation: "In this program the only possible sources of run-to-run variation of a search answer are the randomised iteration order of Go maps, unstable sorting of tied keys, and clocks/randomness/goroutines. All three are decided from the SSA form over every function reachable from the search entry points, the suggestion function, the loaders and the TF-IDF index builder: " +
			"(O-1) every `range` over a map is classified by the effects of its body on state that outlives an iteration; effects that depend on the order (append to an outer slice, floating-point accumulation, string concatenation or writer calls, a per-iteration counter whose value is stored, iteration-dependent early exit or last-writer-wins assignment, anything unrecognised) are violations unless an append is neutralised by a total-order sort of that slice dominating every later use; " +
			"(O-2) every sort call on those paths is stable, or sorts a slice of strings/ints by its natural total order — so, inductively, every slice order is a function of the inputs; (O-3) no clock, random source, goroutine, channel operation or select is reachable from a search or from the suggestion function. This is a sufficient condition for equal inputs to give equal ranked answers and, site by site, a necessary one whenever ties or near-ties exist. Cross-platform floating-point reproducibility is NOT decided.",
		NotDecided:  []string{"floating-point reproducibility across CPU architectures / compiler versions (FMA contraction)", "stability of fuzzy.Find beyond its sort.Stable (C01 O-3 re-verifies that shape)"},
		Assumptions: []string{"sort.SliceStable / sort.Stable keep the relative order of equal elements; sort.Strings / sort.Ints / slices.Sorted order totally", "map iteration order is the only hidden scheduler in single-goroutine code"},
		Run:         runC02,
	})
}

// reachClosure: functions reachable from roots through static calls, closures
// and call-graph edges (shipped code and bound-method wrappers only).
func reachClosure(c *Ctx, roots []*ssa.Function) []*ssa.Function {
	cg := c.P.CallGraph()
	seen := map[*ssa.Function]bool{}
	work := append([]*ssa.Function{}, roots...)
	for len(work) > 0 {
		fn := work[len(work)-1]
		work = work[:len(work)-1]
		if fn == nil || seen[fn] || fn.Blocks == nil {
			continue
		}
		seen[fn] = true
		work = append(work, fn.AnonFuncs...)
		if node := cg.Nodes[fn]; node != nil {
			for _, e := range node.Out {
				cf := e.Callee.Func
				if isShipped(c, cf) || strings.Contains(cf.Synthetic, "bound method") || strings.Contains(cf.Synthetic, "thunk") {
					work = append(work, cf)
				}
			}
		}
	}
	var out []*ssa.Function
	for fn := range seen {
		if isShipped(c, fn) || (c.withWrappers && fn.Synthetic != "") {
			out = append(out, fn)
		}
	}
	sort.Slice(out, func(i, j int) bool {
		if a, b := load.FuncKey(out[i]), load.FuncKey(out[j]); a != b {
			return a < b
		}
		return out[i].Pos() < out[j].Pos()
	})
	return out
}

func runC02(c *Ctx) {
	r := c.R
	r.Rule("O-1", "map iteration order cannot reach a result: every range over a map on the search/suggestion/load/index-build paths has only order-insensitive effects, or its append is neutralised by a dominating total sort of the slice")
	r.Rule("O-2", "ties are ordered by a fixed rule: every sort call on those paths is stable or a natural total order of strings/ints")
	r.Rule("O-3", "no other scheduler: no clock, random source, goroutine, channel operation or select reachable from a search or from GetSuggestions")

	entries, _ := c01Entries(c)
	roots := append([]*ssa.Function{}, entries...)
	for _, spec := range [][3]string{
		{"internal/database", "Database", "GetSuggestions"},
		{"internal/database", "", "LoadDatabase"},
		{"internal/database", "", "LoadDatabaseWithPersonal"},
		{"internal/database", "Database", "BuildUniversalIndex"},
		{"internal/database", "Database", "buildTFIDFSearcher"},
		{"internal/nlp", "", "NewTFIDFSearcher"},
		{"internal/database", "Database", "Search"},
	} {
		fn := c.P.Func(spec[0], spec[1], spec[2])
		if r.Anchor("O-1", spec[0]+"."+spec[2], fn != nil) {
			roots = append(roots, fn)
		}
	}
	scope := reachClosure(c, roots)
	r.Analysed["functions_in_scope"] = len(scope)
	r.Floor("O-1", "functions in scope", len(scope), 60)
	sx := symx.New(c.P.IsRepoFunc)

	// ---------------- O-1
	nLoops := 0
	for _, fn := range scope {
		for i, l := range maporder.Classify(fn, sx) {
			nLoops++
			key := fmt.Sprintf("%s#map-range-%d(%s)", load.FuncKey(fn), i+1, shortExpr(sx.Of(fn).Plain(l.L.Over)))
			sens := l.Sensitive()
			// an element store indexed by the map's VALUE is order-insensitive when the
			// map's values are pairwise distinct; accepted for maps that are only ever
			// filled with a fresh counter value per key (the vocabulary numbering)
			if len(sens) > 0 {
				var rest []maporder.Effect
				for _, e := range sens {
					if e.Kind == "EX" && strings.Contains(e.Detail, "indexed by a value derived from the map iteration") && c02InjectiveMap(c, l.L.Over) {
						l.Notes = append(l.Notes, "element store at the map's value: values are distinct (every store into this map assigns a counter incremented per key)")
						continue
					}
					rest = append(rest, e)
				}
				sens = rest
			}
			if len(sens) == 0 {
				how := strings.Join(l.Notes, "; ")
				for _, e := range l.Effects {
					how += "; " + e.Kind + " neutralised: " + e.How
				}
				r.OK("O-1", key, c.P.Pos(l.Pos()), "order-insensitive: "+how)
				continue
			}
			var ds []string
			for _, e := range sens {
				ds = append(ds, e.Kind+": "+e.Detail)
			}
			r.Bad("O-1", key, c.P.Pos(l.Pos()), "the result of a search can depend on map iteration order — "+strings.Join(ds, "; "))
		}
	}
	r.Floor("O-1", "map range loops classified", nLoops, 8)
	r.Analysed["map_ranges_classified"] = nLoops

	// ---------------- O-2
	nSorts := 0
	for _, fn := range scope {
		ord := newOrdinal()
		ssau.ForEachInstr(fn, false, func(in ssa.Instruction) {
			call, ok := in.(*ssa.Call)
			if !ok {
				return
			}
			n := ssau.CallName(call)
			if !strings.HasPrefix(n, "sort.") && !strings.HasPrefix(n, "slices.Sort") && !strings.HasPrefix(n, "slices.Sorted") {
				return
			}
			switch n {
			case "sort.Search", "sort.SearchInts", "sort.SearchStrings", "sort.IsSorted", "sort.SliceIsSorted":
				return
			}
			nSorts++
			key := ord.next(load.FuncKey(fn) + "#" + n)
			switch n {
			case "sort.SliceStable", "sort.Stable", "slices.SortStableFunc":
				r.OK("O-2", key, c.P.Pos(call.Pos()), "stable sort: equal keys keep their (deterministic) input order")
			case "sort.Strings", "sort.Ints", "sort.Float64s", "slices.Sort", "slices.Sorted":
				r.OK("O-2", key, c.P.Pos(call.Pos()), "natural total order")
			case "sort.Slice", "slices.SortFunc", "sort.Sort":
				if totalBasicComparator(call) {
					r.OK("O-2", key, c.P.Pos(call.Pos()), "unstable sort with a total comparator on basic values")
				} else {
					r.Bad("O-2", key, c.P.Pos(call.Pos()), n+" is not stable and its comparator is not a total order: elements with equal keys (tied scores) come out in an unspecified order that can differ from run to run, and which of them survives the limit differs with it")
				}
			default:
				r.Unknown("O-2", key, c.P.Pos(call.Pos()), "unrecognised sort function "+n)
			}
		})
	}
	r.Floor("O-2", "sort call sites", nSorts, 7)
	r.Analysed["sort_sites"] = nSorts

	// ---------------- O-3
	var searchRoots []*ssa.Function
	for _, spec := range [][3]string{{"internal/database", "Database", "SearchUniversal"}, {"internal/database", "Database", "GetSuggestions"}, {"internal/database", "Database", "SearchWithPipelineOptions"}} {
		if fn := c.P.Func(spec[0], spec[1], spec[2]); fn != nil {
			searchRoots = append(searchRoots, fn)
		}
	}
	inSearch := reachClosure(c, searchRoots)
	nBad := 0
	for _, fn := range inSearch {
		ssau.ForEachInstr(fn, false, func(in ssa.Instruction) {
			why := ""
			switch x := in.(type) {
			case *ssa.Go:
				why = "starts a goroutine"
			case *ssa.Select:
				why = "select"
			case *ssa.Send:
				why = "channel send"
			case *ssa.UnOp:
				if _, isChan := x.X.Type().Underlying().(*types.Chan); isChan {
					why = "channel receive"
				}
			case *ssa.Call:
				n := ssau.CallName(x)
				switch {
				case strings.HasPrefix(n, "time.Now"), strings.HasPrefix(n, "time.Since"), strings.HasPrefix(n, "time.Until"):
					why = "reads the clock (" + n + ")"
				case strings.HasPrefix(n, "math/rand"), strings.HasPrefix(n, "crypto/rand"):
					why = "random source (" + n + ")"
				case n == "os.Getpid", strings.HasPrefix(n, "os.Hostname"):
					why = "process/host dependent (" + n + ")"
				}
			}
			if why != "" {
				nBad++
				r.Bad("O-3", fmt.Sprintf("%s#nondeterminism-%d", load.FuncKey(fn), nBad), c.P.Pos(in.Pos()), "a search "+why)
			}
		})
	}
	if nBad == 0 {
		r.OK("O-3", "search-path#no-clock-random-goroutine", "", fmt.Sprintf("%d functions reachable from the search entry points: none reads a clock, a random source, starts a goroutine or uses channels", len(inSearch)))
	}
	r.Floor("O-3", "functions reachable from a search", len(inSearch), 40)
}

func shortExpr(s string) string {
	if len(s) > 40 {
		return s[:40] + "…"
	}
	return s
}

// totalBasicComparator: sort.Slice over a slice of a basic type with `<` or
// `>` on the elements themselves.
func totalBasicComparator(call *ssa.Call) bool {
	if len(call.Common().Args) != 2 {
		return false
	}
	x := ssau.Strip(call.Common().Args[0])
	sl, ok := x.Type().Underlying().(*types.Slice)
	if !ok {
		return false
	}
	if _, isBasic := sl.Elem().Underlying().(*types.Basic); !isBasic {
		return false
	}
	mc, ok := call.Common().Args[1].(*ssa.MakeClosure)
	if !ok {
		return false
	}
	cf, ok := mc.Fn.(*ssa.Function)
	if !ok {
		return false
	}
	for _, ret := range ssau.ReturnsOf(cf) {
		if _, _, _, ok := ssau.CondOf(ret.Results[0]); !ok {
			return false
		}
	}
	return true
}

// c02InjectiveMap: m is a load of a struct field holding a map, and every
// MapUpdate into that field anywhere stores a counter that is incremented by
// one on the way back to its loop header (so no two keys get the same value).
func c02InjectiveMap(c *Ctx, m ssa.Value) bool {
	u, ok := m.(*ssa.UnOp)
	if !ok {
		return false
	}
	fa, ok := u.X.(*ssa.FieldAddr)
	if !ok {
		return false
	}
	owner, field := ssau.NamedOf(fa.X.Type()), ssau.FieldName(fa)
	n, good := 0, true
	for _, fn := range shippedFuncs(c) {
		ssau.ForEachInstr(fn, false, func(in ssa.Instruction) {
			mu, ok := in.(*ssa.MapUpdate)
			if !ok {
				return
			}
			if _, ok := ssau.IsFieldLoad(mu.Map, owner, field); !ok {
				return
			}
			n++
			phi, ok := mu.Value.(*ssa.Phi)
			if !ok {
				good = false
				return
			}
			// every loop-carried edge of the counter that passes this store is phi+1
			inc := false
			for _, e := range phi.Edges {
				if bo, ok := e.(*ssa.BinOp); ok && bo.X == ssa.Value(phi) {
					if k, ok := ssau.ConstInt(bo.Y); ok && k == 1 && bo.Block() == mu.Block() {
						inc = true
					}
				}
				// nested phi merging (phi, phi+1)
				if p2, ok := e.(*ssa.Phi); ok {
					for _, e2 := range p2.Edges {
						if bo, ok := e2.(*ssa.BinOp); ok && bo.X == ssa.Value(phi) {
							if k, ok := ssau.ConstInt(bo.Y); ok && k == 1 && bo.Block() == mu.Block() {
								inc = true
							}
						}
					}
				}
			}
			if !inc {
				good = false
			}
		})
	}
	return good && n > 0
}
