package rules

import (
	"fmt"
	"go/token"
	"go/types"
	"sort"
	"strings"

	"golang.org/x/tools/go/ssa"

	"wtfverif/checker/internal/load"
	"wtfverif/checker/internal/ssau"
)

// Shared helpers for the per-property rule files.

const modInternal = load.ModulePath + "/internal/"

// errValue returns the error result of a call (the last tuple component, or
// the call itself when it returns a single value), nil when discarded.
func errValue(call *ssa.Call) ssa.Value {
	if tup, ok := call.Type().(*types.Tuple); ok {
		for _, ref := range *call.Referrers() {
			if ex, ok := ref.(*ssa.Extract); ok && ex.Index == tup.Len()-1 {
				return ex
			}
		}
		return nil
	}
	if call.Referrers() == nil {
		return nil
	}
	return call
}

// resultValue returns the Extract of component i of a tuple call (or the call
// itself when i == 0 and it is single-valued).
func resultValue(call *ssa.Call, i int) ssa.Value {
	if _, ok := call.Type().(*types.Tuple); ok {
		for _, ref := range *call.Referrers() {
			if ex, ok := ref.(*ssa.Extract); ok && ex.Index == i {
				return ex
			}
		}
		return nil
	}
	if i == 0 {
		return call
	}
	return nil
}

// nilTests returns, for an error (or pointer) value, the CFG edges taken when
// the value is nil ("success edges") and when it is non-nil ("failure
// edges"), as (block index, successor index) pairs, from every `v == nil` /
// `v != nil` comparison feeding an If.
func nilTests(v ssa.Value) (succ, fail map[[2]int]bool) {
	succ, fail = map[[2]int]bool{}, map[[2]int]bool{}
	if v == nil || v.Referrers() == nil {
		return
	}
	refs := append([]ssa.Instruction{}, *v.Referrers()...)
	// the value assigned to a variable (`if err = f(); err != nil`, a named
	// result): the comparisons of the loads that read it back in the same
	// block before the variable is assigned again
	for _, ref := range *v.Referrers() {
		st, ok := ref.(*ssa.Store)
		if !ok || st.Val != v {
			continue
		}
		al, ok := st.Addr.(*ssa.Alloc)
		if !ok {
			continue
		}
		after := false
		for _, in := range st.Block().Instrs {
			if in == ssa.Instruction(st) {
				after = true
				continue
			}
			if !after {
				continue
			}
			if s2, ok := in.(*ssa.Store); ok && s2.Addr == ssa.Value(al) {
				break
			}
			if ld, ok := in.(*ssa.UnOp); ok && ld.Op == token.MUL && ld.X == ssa.Value(al) && ld.Referrers() != nil {
				refs = append(refs, *ld.Referrers()...)
			}
		}
	}
	for _, ref := range refs {
		b, ok := ref.(*ssa.BinOp)
		if !ok || (b.Op != token.EQL && b.Op != token.NEQ) {
			continue
		}
		if !ssau.IsNilConst(b.X) && !ssau.IsNilConst(b.Y) {
			continue
		}
		for _, r2 := range *b.Referrers() {
			iff, ok := r2.(*ssa.If)
			if !ok {
				continue
			}
			s, f := 1, 0 // for !=: true edge (0) is failure
			if b.Op == token.EQL {
				s, f = 0, 1
			}
			succ[[2]int{iff.Block().Index, s}] = true
			fail[[2]int{iff.Block().Index, f}] = true
		}
	}
	return
}

// blocksReachable returns the blocks reachable from block `from` (exclusive
// unless re-entered) when the edges in cut are removed.
func blocksReachable(from *ssa.BasicBlock, cut map[[2]int]bool) map[*ssa.BasicBlock]bool {
	seen := map[*ssa.BasicBlock]bool{}
	var st []*ssa.BasicBlock
	push := func(b *ssa.BasicBlock) {
		for k, s := range b.Succs {
			if !cut[[2]int{b.Index, k}] {
				st = append(st, s)
			}
		}
	}
	push(from)
	for len(st) > 0 {
		b := st[len(st)-1]
		st = st[:len(st)-1]
		if seen[b] {
			continue
		}
		seen[b] = true
		push(b)
	}
	return seen
}

// reachableFromEntry returns the blocks reachable from the function entry
// with the edges in cut removed (the entry block included).
func reachableFromEntry(fn *ssa.Function, cut map[[2]int]bool) map[*ssa.BasicBlock]bool {
	if len(fn.Blocks) == 0 {
		return nil
	}
	m := blocksReachable(fn.Blocks[0], cut)
	m[fn.Blocks[0]] = true
	return m
}

// errorIndex returns the index of the error result of fn, or -1.
func errorIndex(fn *ssa.Function) int {
	res := fn.Signature.Results()
	for i := res.Len() - 1; i >= 0; i-- {
		if types.Identical(res.At(i).Type(), types.Universe.Lookup("error").Type()) {
			return i
		}
	}
	return -1
}

// failurePropagates checks that when `call` fails (its error result is
// non-nil) the enclosing function cannot return a nil error: the error is
// compared with nil (or returned directly), and with the success edges
// removed no return with a constant-nil error is reachable from the call.
func failurePropagates(call *ssa.Call) (bool, string) {
	ok, why := failurePropagatesExcept(call, nil)
	if !ok && failureReachesCaller(call) {
		// one accumulating error variable: decided path by path (nilpaths.go)
		return true, ""
	}
	return ok, why
}

// notExistEdges: the edges taken when a not-exist test of the error of call
// is true (os.IsNotExist(err), errors.Is(err, fs.ErrNotExist)): a failure the
// caller may legitimately treat as "nothing there yet".
func notExistEdges(call *ssa.Call) map[[2]int]bool {
	out := map[[2]int]bool{}
	ev := errValue(call)
	if ev == nil {
		return out
	}
	for _, iff := range ssau.Ifs(call.Parent()) {
		tc, ok := iff.Cond.(*ssa.Call)
		if !ok || len(tc.Common().Args) == 0 || ssau.ResolveCell(tc.Common().Args[0]) != ev {
			continue
		}
		switch ssau.CallName(tc) {
		case "os.IsNotExist":
			out[[2]int{iff.Block().Index, 0}] = true
		case "errors.Is":
			if u, ok := ssau.Strip(tc.Common().Args[1]).(*ssa.UnOp); ok {
				if g, ok := u.X.(*ssa.Global); ok && g.Name() == "ErrNotExist" {
					out[[2]int{iff.Block().Index, 0}] = true
				}
			}
		}
	}
	return out
}

// failurePropagatesExcept is failurePropagates with some failure edges
// declared tolerable (tolerated: edges after which a nil return is fine).
func failurePropagatesExcept(call *ssa.Call, tolerated map[[2]int]bool) (bool, string) {
	fn := call.Parent()
	ei := errorIndex(fn)
	if ei < 0 {
		return false, "the enclosing function has no error result"
	}
	ev := errValue(call)
	if ev == nil {
		return false, "the error result is discarded"
	}
	// returned directly?
	direct := false
	for _, ref := range *ev.Referrers() {
		if ret, ok := ref.(*ssa.Return); ok && ret.Results[ei] == ev {
			direct = true
		}
	}
	succ, _ := nilTests(ev)
	if len(succ) == 0 && !direct {
		return false, "the error result is neither compared with nil nor returned"
	}
	if len(succ) == 0 && direct {
		// every use must be that return (tail call)
		return true, ""
	}
	if len(tolerated) > 0 {
		cut := map[[2]int]bool{}
		for e := range succ {
			cut[e] = true
		}
		for e := range tolerated {
			cut[e] = true
		}
		succ = cut
	}
	reach := blocksReachable(call.Block(), succ)
	reach[call.Block()] = true
	for b := range reach {
		if len(b.Instrs) == 0 {
			continue
		}
		ret, ok := b.Instrs[len(b.Instrs)-1].(*ssa.Return)
		if !ok {
			continue
		}
		rv := ssau.ResultValue(ret, ei)
		if ssau.IsNilConst(rv) {
			// the block of the call itself is only "after failure" if it is
			// re-entered; a nil return in another block is a swallowed error
			if b == call.Block() {
				continue
			}
			return false, "a `return nil` is reachable after the call failed"
		}
		// the error of ANOTHER call made after the failure (err = f.Close())
		// replaces the failure: it may well be nil
		if b != call.Block() && rv != ev {
			if oc := otherCallError(rv); oc != nil && oc != call && !errorConstructor(oc, 0) {
				if s2, _ := nilTests(rv); !guardedNonNil(b, s2) {
					return false, "after the call failed the function returns the error of " + ssau.CallName(oc) + " instead, which is nil when that call succeeds"
				}
			}
		}
	}
	return true, ""
}

// callsTo lists calls in fn (not in nested closures) to the named callee.
func callsTo(fn *ssa.Function, name string) []*ssa.Call {
	var out []*ssa.Call
	ssau.ForEachInstr(fn, false, func(in ssa.Instruction) {
		if c, ok := in.(*ssa.Call); ok && ssau.CallName(c) == name {
			out = append(out, c)
		}
	})
	return out
}

// callsMatching lists calls in fn whose callee name satisfies pred.
func callsMatching(fn *ssa.Function, deep bool, pred func(string) bool) []*ssa.Call {
	var out []*ssa.Call
	ssau.ForEachInstr(fn, deep, func(in ssa.Instruction) {
		if c, ok := in.(*ssa.Call); ok && pred(ssau.CallName(c)) {
			out = append(out, c)
		}
	})
	return out
}

// shortName strips the module path from a function full name.
func shortName(s string) string {
	s = strings.ReplaceAll(s, modInternal, "")
	s = strings.ReplaceAll(s, load.ModulePath+"/", "")
	return s
}

// ordinalKeys gives stable per-function ordinal construct keys:
// "<func>#<what>-<n>" with n counted in source order.
type ordinal struct{ n map[string]int }

func newOrdinal() *ordinal { return &ordinal{n: map[string]int{}} }
func (o *ordinal) next(prefix string) string {
	o.n[prefix]++
	return fmt.Sprintf("%s-%d", prefix, o.n[prefix])
}

// sortCallsByPos orders calls by source position.
func sortCallsByPos(cs []*ssa.Call) {
	sort.SliceStable(cs, func(i, j int) bool { return cs[i].Pos() < cs[j].Pos() })
}

// isRepoNonTestutil: fn belongs to the module and not to package testutil
// (test support code that no shipped command reaches).
func isShipped(c *Ctx, fn *ssa.Function) bool {
	if !c.P.IsRepoFunc(fn) {
		return false
	}
	pk := c.P.PkgOfFunc(fn)
	return pk != nil && !strings.HasSuffix(pk.PkgPath, "/internal/testutil")
}

// shippedFuncs lists the repository's non-testutil functions.
func shippedFuncs(c *Ctx) []*ssa.Function {
	var out []*ssa.Function
	for _, fn := range c.P.RepoFuncs() {
		if isShipped(c, fn) {
			out = append(out, fn)
		}
	}
	return out
}

// runClosure returns the Run closure of a cobra command variable of package
// cli, via the command tree.
func runClosure(c *Ctx, cmdVar string) *ssa.Function {
	t := cliTree(c)
	if t == nil || t.Cmds[cmdVar] == nil {
		return nil
	}
	return t.Cmds[cmdVar].Run
}

// sliceBuilder resolves a slice value to the make that creates it and the
// function that make lives in: the value itself, or the one make a static
// repo callee returns on every path (targets := db.fuzzyTargets(options)).
func sliceBuilder(c *Ctx, v ssa.Value) (home *ssa.Function, mk *ssa.MakeSlice, via *ssa.Call) {
	if m, ok := v.(*ssa.MakeSlice); ok {
		return m.Parent(), m, nil
	}
	call, ok := v.(*ssa.Call)
	if !ok {
		return nil, nil, nil
	}
	g := call.Common().StaticCallee()
	if g == nil || !c.P.IsRepoFunc(g) || len(g.Blocks) == 0 || g.Signature.Results().Len() != 1 {
		return nil, nil, nil
	}
	for _, ret := range ssau.ReturnsOf(g) {
		m, ok := ret.Results[0].(*ssa.MakeSlice)
		if !ok || (mk != nil && mk != m) {
			return nil, nil, nil
		}
		mk = m
	}
	if mk == nil {
		return nil, nil, nil
	}
	return g, mk, call
}

// absentGuarded: block blk runs only when an element (recognised by isElem)
// is absent from a "seen" map, in any spelling of the test — `!seen[x]`,
// `if seen[x] { continue }`, `if _, dup := seen[x]; dup { continue }` with a
// bool or struct{} map — and the element is entered into that map under the
// same test.
func absentGuarded(cd map[*ssa.BasicBlock][]ssau.CtrlDep, blk *ssa.BasicBlock, isElem func(ssa.Value) bool) bool {
	for _, d := range ssau.TransitiveControlDeps(cd, blk) {
		cond, absentOn := d.If().Cond, false // the edge on which "absent" holds
		if u, ok := cond.(*ssa.UnOp); ok && u.Op == token.NOT {
			cond, absentOn = u.X, true
		}
		var lk *ssa.Lookup
		switch x := cond.(type) {
		case *ssa.Lookup:
			if !x.CommaOk {
				lk = x
			}
		case *ssa.Extract:
			if l, ok := x.Tuple.(*ssa.Lookup); ok && l.CommaOk && x.Index == 1 {
				lk = l
			}
		}
		if lk == nil || !isElem(lk.Index) || d.Then != absentOn {
			continue
		}
		for _, ref := range *lk.X.Referrers() {
			if mu, ok := ref.(*ssa.MapUpdate); ok && mu.Map == lk.X && isElem(mu.Key) {
				for _, d2 := range ssau.TransitiveControlDeps(cd, mu.Block()) {
					if d2 == d {
						return true
					}
				}
			}
		}
		// the map lives in a variable (a captured one, in a closure): every
		// use is a fresh load of the same variable
		if ld, ok := lk.X.(*ssa.UnOp); ok && ld.Op == token.MUL {
			for _, ref := range *ld.X.Referrers() {
				ld2, ok := ref.(*ssa.UnOp)
				if !ok || ld2.X != ld.X {
					continue
				}
				for _, r2 := range *ld2.Referrers() {
					if mu, ok := r2.(*ssa.MapUpdate); ok && mu.Map == ssa.Value(ld2) && isElem(mu.Key) {
						for _, d2 := range ssau.TransitiveControlDeps(cd, mu.Block()) {
							if d2 == d {
								return true
							}
						}
					}
				}
			}
		}
	}
	return false
}

// ---------------------------------------------------------------------------
// posting loops: wherever the scoring code walks a []posting

// postingLoop is a loop over a list of postings in the scoring code.
type postingLoop struct {
	fn   *ssa.Function
	loop ssau.RangeLoop
}

// postingLoops finds, in everything reachable from calculateInitialScores,
// the loops over a value of type []posting (range or counted form).
func postingLoops(c *Ctx) []postingLoop {
	cs := c.P.Func("internal/database", "Database", "calculateInitialScores")
	if cs == nil {
		return nil
	}
	var out []postingLoop
	for _, fn := range reachClosure(c, []*ssa.Function{cs}) {
		for _, l := range ssau.RangeLoops(fn) {
			if l.Over == nil || l.IsMap {
				continue
			}
			sl, ok := l.Over.Type().Underlying().(*types.Slice)
			if ok && ssau.NamedOf(sl.Elem()) == dbPkg+".posting" {
				out = append(out, postingLoop{fn, l})
			}
		}
	}
	return out
}

// current reports whether v is field `field` of the element the loop is at:
// xs[i].f, (&xs[i]).f, a field of the loaded element or of its range copy.
func (pl postingLoop) current(v ssa.Value, field string) bool {
	n, base := lastSelector(v)
	if n != field || base == nil {
		return false
	}
	return loopElement(base, pl.loop, 0)
}

// loopElement: base denotes (the address of, or a copy of) the element at the
// loop's index of the slice the loop ranges over.
func loopElement(base ssa.Value, l ssau.RangeLoop, d int) bool {
	if d > 4 {
		return false
	}
	sameSlice := func(x ssa.Value) bool {
		if x == l.Over {
			return true
		}
		// the same cell re-read, or the same parameter
		if p := ssau.ParamOf(x); p != nil && p == ssau.ParamOf(l.Over) {
			return true
		}
		ux, ok1 := x.(*ssa.UnOp)
		uo, ok2 := l.Over.(*ssa.UnOp)
		return ok1 && ok2 && ux.Op == token.MUL && uo.Op == token.MUL && ux.X == uo.X
	}
	switch b := base.(type) {
	case *ssa.IndexAddr:
		return b.Index == l.Index && sameSlice(b.X)
	case *ssa.UnOp:
		if b.Op == token.MUL {
			// the element loaded whole, or a pointer variable holding &xs[i]
			if loopElement(b.X, l, d+1) {
				return true
			}
		}
	case *ssa.Alloc:
		cnt, good := 0, false
		for _, ref := range *b.Referrers() {
			if st, ok := ref.(*ssa.Store); ok && st.Addr == ssa.Value(b) {
				cnt++
				good = loopElement(st.Val, l, d+1)
			}
		}
		return cnt == 1 && good
	}
	return false
}

// tracesTo: v is target, or a parameter to which every resolved call site
// passes a value that traces to target.
func tracesTo(c *Ctx, v, target ssa.Value, d int) bool {
	if d > 4 {
		return false
	}
	if v == target {
		return true
	}
	if ex, ok := v.(*ssa.Extract); ok && ex.Tuple == target && ex.Index == 0 {
		return true
	}
	p := ssau.ParamOf(v)
	if p == nil {
		return false
	}
	fn := p.Parent()
	idx := -1
	for i, q := range fn.Params {
		if q == p {
			idx = i
		}
	}
	node := c.P.CallGraph().Nodes[fn]
	if node == nil || idx < 0 {
		return false
	}
	n := 0
	for _, e := range node.In {
		if e.Site == nil || !isShipped(c, e.Caller.Func) {
			continue
		}
		args := e.Site.Common().Args
		if e.Site.Common().IsInvoke() || idx >= len(args) {
			return false
		}
		n++
		if !tracesTo(c, args[idx], target, d+1) {
			return false
		}
	}
	return n > 0
}

// readOnlySliceFunc: library functions of packages sort and slices that only
// read the slice they are given.
var readOnlySliceFunc = map[string]bool{"slices.Contains": true, "slices.ContainsFunc": true, "slices.Index": true, "slices.IndexFunc": true, "slices.Equal": true, "slices.EqualFunc": true, "slices.Max": true, "slices.Min": true, "slices.MaxFunc": true, "slices.MinFunc": true, "slices.Clone": true, "slices.Values": true, "slices.All": true, "slices.BinarySearch": true, "slices.BinarySearchFunc": true, "slices.IsSorted": true, "slices.IsSortedFunc": true, "sort.SearchStrings": true, "sort.SearchInts": true, "sort.Search": true, "sort.StringsAreSorted": true, "sort.IntsAreSorted": true, "sort.IsSorted": true, "sort.SliceIsSorted": true}

// listRoutine is a function of package cli that the search command hands its
// result list to (a printing helper): call is the site in the command, arg the
// list passed, param the parameter that receives it.
type listRoutine struct {
	fn    *ssa.Function
	param *ssa.Parameter
	call  *ssa.Call
	arg   ssa.Value
	// chain: the calls from the command down to fn (chain[0] == call)
	chain []*ssa.Call
}

// outputRoutines finds the helpers of package cli called from run with a
// []SearchResult argument.
func outputRoutines(c *Ctx, run *ssa.Function) []listRoutine {
	var out []listRoutine
	ssau.ForEachInstr(run, false, func(in ssa.Instruction) {
		call, ok := in.(*ssa.Call)
		if !ok {
			return
		}
		var hs []*ssa.Function
		if h := call.Common().StaticCallee(); h != nil {
			hs = []*ssa.Function{h}
		} else if !call.Common().IsInvoke() {
			// a printer picked from a table of functions: every function the
			// call graph resolves the value to
			hs = dynamicCallees(c, call)
		}
		for _, h := range hs {
			if h == nil || len(h.Blocks) == 0 || h.Pkg == nil || !strings.HasSuffix(h.Pkg.Pkg.Path(), "internal/cli") {
				continue
			}
			for i, a := range call.Common().Args {
				if srSlice(a.Type()) && i < len(h.Params) {
					top := listRoutine{fn: h, param: h.Params[i], call: call, arg: a, chain: []*ssa.Call{call}}
					out = append(out, top)
					out = append(out, nestedRoutines(top, 0)...)
				}
			}
		}
	})
	return out
}

// dynamicCallees: the functions a call through a function value can reach,
// as resolved by the call graph (sorted by name).
func dynamicCallees(c *Ctx, call *ssa.Call) []*ssa.Function {
	node := c.P.CallGraph().Nodes[call.Parent()]
	if node == nil {
		return nil
	}
	seen := map[*ssa.Function]bool{}
	var out []*ssa.Function
	for _, e := range node.Out {
		if e.Site == ssa.CallInstruction(call) && e.Callee != nil && e.Callee.Func != nil && !seen[e.Callee.Func] {
			seen[e.Callee.Func] = true
			out = append(out, e.Callee.Func)
		}
	}
	sort.Slice(out, func(i, j int) bool { return out[i].String() < out[j].String() })
	return out
}

// funcTableKeys: when the callee of call is picked from a package-level map of
// functions keyed by constant strings (v, ok := table[k]; if !ok { v = dflt }),
// the keys under which fn is registered, and whether fn is also the default
// taken for unlisted keys. ok is false when the callee is not such a pick.
func funcTableKeys(call *ssa.Call, fn *ssa.Function) (keys []string, isDefault, ok bool) {
	var g *ssa.Global
	var walk func(v ssa.Value, d int) bool
	walk = func(v ssa.Value, d int) bool {
		if d > 6 {
			return false
		}
		switch x := v.(type) {
		case *ssa.Phi:
			for _, e := range x.Edges {
				if !walk(e, d+1) {
					return false
				}
			}
			return true
		case *ssa.Extract:
			return x.Index == 0 && walk(x.Tuple, d+1)
		case *ssa.Lookup:
			if u, isLoad := x.X.(*ssa.UnOp); isLoad && u.Op == token.MUL {
				if gl, isG := u.X.(*ssa.Global); isG && (g == nil || g == gl) {
					g = gl
					return true
				}
			}
			return false
		case *ssa.Function:
			if x == fn {
				isDefault = true
			}
			return true
		case *ssa.ChangeType:
			return walk(x.X, d+1)
		case *ssa.UnOp:
			// the picked function held in a local variable
			if al, isAl := x.X.(*ssa.Alloc); isAl && x.Op == token.MUL {
				n := 0
				for _, ref := range *al.Referrers() {
					if st, isSt := ref.(*ssa.Store); isSt && st.Addr == ssa.Value(al) {
						n++
						if !walk(st.Val, d+1) {
							return false
						}
					}
				}
				return n > 0
			}
		}
		return false
	}
	if call.Common().IsInvoke() || call.Common().StaticCallee() != nil || !walk(call.Common().Value, 0) || g == nil {
		return nil, false, false
	}
	// the table's initialiser: one store of a map literal in init
	var mk *ssa.MakeMap
	nStores := 0
	for _, mem := range g.Pkg.Members {
		f, isFn := mem.(*ssa.Function)
		if !isFn {
			continue
		}
		ssau.ForEachInstr(f, true, func(in ssa.Instruction) {
			switch x := in.(type) {
			case *ssa.Store:
				if x.Addr == ssa.Value(g) {
					nStores++
					mk, _ = x.Val.(*ssa.MakeMap)
				}
			case *ssa.MapUpdate:
				if u, isLoad := x.Map.(*ssa.UnOp); isLoad && u.X == ssa.Value(g) {
					nStores++ // the table is changed at run time
				}
			}
		})
	}
	if mk == nil || nStores != 1 {
		return nil, false, false
	}
	for _, ref := range *mk.Referrers() {
		mu, isMU := ref.(*ssa.MapUpdate)
		if !isMU || mu.Map != ssa.Value(mk) {
			continue
		}
		k, isC := ssau.ConstString(mu.Key)
		if !isC {
			return nil, false, false
		}
		v := mu.Value
		if ct, isCT := v.(*ssa.ChangeType); isCT {
			v = ct.X
		}
		if f, isF := v.(*ssa.Function); isF && f == fn {
			keys = append(keys, k)
		}
	}
	sort.Strings(keys)
	return keys, isDefault, true
}

// nestedRoutines: routines of package cli that rt hands its own list on to
// (a dispatcher choosing the output format). They keep rt's call in the
// command as their anchor there and record the chain of calls leading down.
func nestedRoutines(rt listRoutine, d int) []listRoutine {
	if d > 2 {
		return nil
	}
	var out []listRoutine
	ssau.ForEachInstr(rt.fn, false, func(in ssa.Instruction) {
		call, ok := in.(*ssa.Call)
		if !ok {
			return
		}
		h := call.Common().StaticCallee()
		if h == nil || len(h.Blocks) == 0 || h.Pkg != rt.fn.Pkg || h == rt.fn {
			return
		}
		for i, a := range call.Common().Args {
			if i < len(h.Params) && (a == ssa.Value(rt.param) || ssau.ParamOf(a) == rt.param) {
				sub := listRoutine{fn: h, param: h.Params[i], call: rt.call, arg: rt.arg, chain: append(append([]*ssa.Call(nil), rt.chain...), call)}
				out = append(out, sub)
				out = append(out, nestedRoutines(sub, d+1)...)
			}
		}
	})
	return out
}

// otherCallError: v is the error result of a call (directly or as the last
// component of its tuple).
func otherCallError(v ssa.Value) *ssa.Call {
	switch x := v.(type) {
	case *ssa.Call:
		if types.Identical(x.Type(), types.Universe.Lookup("error").Type()) {
			return x
		}
	case *ssa.Extract:
		if call, ok := x.Tuple.(*ssa.Call); ok && types.Identical(x.Type(), types.Universe.Lookup("error").Type()) {
			return call
		}
	}
	return nil
}

// errorConstructor: the call always yields a non-nil error (fmt.Errorf,
// errors.New, or a function of the repository whose every return does).
func errorConstructor(call *ssa.Call, d int) bool {
	n := ssau.CallName(call)
	if strings.HasPrefix(n, "fmt.Errorf") || n == "errors.New" {
		return true
	}
	g := call.Common().StaticCallee()
	if g == nil || len(g.Blocks) == 0 || d > 3 {
		return false
	}
	ei := errorIndex(g)
	if ei < 0 {
		return false
	}
	rets := ssau.ReturnsOf(g)
	for _, ret := range rets {
		switch x := ssau.ResultValue(ret, ei).(type) {
		case *ssa.MakeInterface:
			if _, isPtr := x.X.Type().Underlying().(*types.Pointer); isPtr {
				if _, isAlloc := x.X.(*ssa.Alloc); !isAlloc {
					return false
				}
			}
		case *ssa.Call:
			if !errorConstructor(x, d+1) {
				return false
			}
		default:
			return false
		}
	}
	return len(rets) > 0
}

// guardedNonNil: block b is reachable only over edges on which the tested
// value is non-nil (succ holds the nil edges to avoid).
func guardedNonNil(b *ssa.BasicBlock, succ map[[2]int]bool) bool {
	if len(succ) == 0 {
		return false
	}
	// fail edges are the complements of the success edges
	fail := map[[2]int]bool{}
	for e := range succ {
		fail[[2]int{e[0], 1 - e[1]}] = true
	}
	return !ssau.ReachableAvoidingEdges(b.Parent(), b, fail)
}

// commandLoader: the function of package database that reads a file and
// decodes it into a command list (LoadDatabase, or the helper it delegates to).
func commandLoader(c *Ctx) *ssa.Function {
	var out *ssa.Function
	for _, fn := range shippedFuncs(c) {
		if pk := c.P.PkgOfFunc(fn); pk == nil || pk.PkgPath != dbPkg || fn.Parent() != nil {
			continue
		}
		if len(callsTo(fn, "os.ReadFile")) > 0 && (len(callsTo(fn, "gopkg.in/yaml.v3.Unmarshal")) > 0 || decodeHelperCall(c, fn) != nil) {
			out = fn
		}
	}
	return out
}

// decodeHelperCall: fn hands the bytes it read with os.ReadFile to a helper of
// the repository that decodes them with yaml.Unmarshal and returns the list
// and an error; that call.
func decodeHelperCall(c *Ctx, fn *ssa.Function) *ssa.Call {
	var out *ssa.Call
	for _, rd := range callsTo(fn, "os.ReadFile") {
		data := resultValue(rd, 0)
		ssau.ForEachInstr(fn, false, func(in ssa.Instruction) {
			call, ok := in.(*ssa.Call)
			if !ok || out != nil {
				return
			}
			g := call.Common().StaticCallee()
			if g == nil || g.Blocks == nil || !c.P.IsRepoFunc(g) || errorIndex(g) < 0 || len(callsTo(g, "gopkg.in/yaml.v3.Unmarshal")) == 0 {
				return
			}
			for _, a := range call.Common().Args {
				if a == data {
					out = call
				}
			}
		})
	}
	return out
}

// loadCall is a call that loads one command file: of the loader itself
// (result: the list) or of a wrapper around it (result: a *Database).
type loadCall struct {
	call *ssa.Call
	path ssa.Value
	list bool // the result is the command list itself
}

// commands reports whether v is the command list this load produced: the
// list result, or the Commands field of the database result.
func (l loadCall) commands(v ssa.Value) bool {
	res := resultValue(l.call, 0)
	if l.list {
		return v == res
	}
	base, ok := ssau.IsFieldLoad(v, dbType, "Commands")
	return ok && base == res
}

// loadCalls lists, in source order, the calls in fn that load a command file.
func loadCalls(c *Ctx, fn *ssa.Function) []loadCall {
	ld := commandLoader(c)
	var out []loadCall
	var calls []*ssa.Call
	ssau.ForEachInstr(fn, false, func(in ssa.Instruction) {
		if call, ok := in.(*ssa.Call); ok {
			calls = append(calls, call)
		}
	})
	sortCallsByPos(calls)
	for _, call := range calls {
		g := call.Common().StaticCallee()
		if g == nil || ld == nil || len(call.Common().Args) == 0 {
			continue
		}
		switch {
		case g == ld:
			out = append(out, loadCall{call, call.Common().Args[0], g.Signature.Results().Len() > 0 && !isPtr(g.Signature.Results().At(0).Type())})
		case len(callsTo(g, ssau.FuncName(ld))) > 0 && c.P.PkgOfFunc(g) != nil && c.P.PkgOfFunc(g).PkgPath == dbPkg && g != fn && len(g.Params) == 1:
			out = append(out, loadCall{call, call.Common().Args[0], false})
		}
	}
	return out
}

func isPtr(t types.Type) bool {
	_, ok := t.Underlying().(*types.Pointer)
	return ok
}

// boolPhiCuts extends a set of qualifying branch edges to tests of a boolean
// that merges a short-circuit expression (x := a && b; if x {...}): a side of
// `if x` qualifies when, for every way x can have that value, the fact is
// established — the part that decided x early was left through a qualifying
// edge, or the last part evaluated qualifies on that side itself.
func boolPhiCuts(fn *ssa.Function, cut map[[2]int]bool, classify func(cond ssa.Value) (onTrue, onFalse bool)) {
	for _, iff := range ssau.Ifs(fn) {
		cond, neg := iff.Cond, false
		if u, ok := cond.(*ssa.UnOp); ok && u.Op == token.NOT {
			cond, neg = u.X, true
		}
		phi, ok := cond.(*ssa.Phi)
		if !ok || len(phi.Edges) == 0 {
			continue
		}
		for side := 0; side < 2; side++ {
			want := side == 0 // the value of the phi on this side of the test
			if neg {
				want = !want
			}
			all := true
			for i, e := range phi.Edges {
				pred := phi.Block().Preds[i]
				if k, isC := e.(*ssa.Const); isC && k.Value != nil {
					val := k.Value.String() == "true"
					if val != want {
						continue // this way of getting here does not take this side
					}
					// decided early in pred: the edge pred -> phi block must qualify
					q := false
					for si, sc := range pred.Succs {
						if sc == phi.Block() && cut[[2]int{pred.Index, si}] {
							q = true
						}
					}
					if !q {
						all = false
					}
					continue
				}
				t, f0 := classify(e)
				if (want && !t) || (!want && !f0) {
					all = false
				}
			}
			if all {
				cut[[2]int{iff.Block().Index, side}] = true
			}
		}
	}
}

// ---------------------------------------------------------------------------
// the search cache's interface, by what the methods do

// cacheAccess is one use of the result cache by the search layers.
type cacheAccess struct {
	kind    string // "get" or "put"
	query   ssa.Value
	options ssa.Value
	list    ssa.Value // put only
}

const (
	scGetName  = "(*" + cachePkg + ".SearchCache).Get"
	scPutName  = "(*" + cachePkg + ".SearchCache).Put"
	lruGetName = "(*" + cachePkg + ".LRUCache).Get"
	lruPutName = "(*" + cachePkg + ".LRUCache).Put"
)

// cacheOp classifies a call as a lookup in or a store into the search cache:
// Get(query, options) / Put(query, options, list), or the keyed form — a
// method of SearchCache that hands its string parameter straight to the LRU
// cache as the key, called with a key that a key-making method of SearchCache
// (one that returns generateCacheKey of its own parameters) produced from
// (query, options).
func cacheOp(call *ssa.Call) (cacheAccess, bool) {
	a := call.Common().Args
	switch ssau.CallName(call) {
	case scGetName:
		if len(a) == 3 {
			return cacheAccess{"get", a[1], a[2], nil}, true
		}
	case scPutName:
		if len(a) == 4 {
			return cacheAccess{"put", a[1], a[2], a[3]}, true
		}
	}
	g := call.Common().StaticCallee()
	kind, ki, li := keyedCacheMethod(g)
	if kind == "" || ki >= len(a) {
		return delegatingLookup(call, g)
	}
	kv := ssau.ResolveCell(a[ki])
	res := 0
	if ex, isEx := kv.(*ssa.Extract); isEx {
		// the key handed back by a lookup that made it: results, key, found := Lookup(q, o)
		kv, res = ex.Tuple, ex.Index
	}
	kc, ok := kv.(*ssa.Call)
	if !ok {
		return cacheAccess{}, false
	}
	qi, oi := keyMakerAt(kc.Common().StaticCallee(), res, 0)
	if qi < 0 || qi >= len(kc.Common().Args) || oi >= len(kc.Common().Args) {
		return cacheAccess{}, false
	}
	acc := cacheAccess{kind: kind, query: kc.Common().Args[qi], options: kc.Common().Args[oi]}
	if kind == "put" {
		if li >= len(a) {
			return cacheAccess{}, false
		}
		acc.list = a[li]
	}
	return acc, true
}

// keyedCacheMethod: g is a method of SearchCache other than Get/Put that
// passes its string parameter #ki as the key of LRUCache.Get ("get") or
// LRUCache.Put ("put", the stored list deriving from parameter #li).
func keyedCacheMethod(g *ssa.Function) (kind string, ki, li int) {
	if g == nil || g.Blocks == nil || g.Signature.Recv() == nil || ssau.NamedOf(g.Signature.Recv().Type()) != cachePkg+".SearchCache" {
		return "", 0, 0
	}
	if n := g.Name(); n == "Get" || n == "Put" {
		return "", 0, 0
	}
	ssau.ForEachInstr(g, false, func(in ssa.Instruction) {
		call, ok := in.(*ssa.Call)
		if !ok {
			return
		}
		n := ssau.CallName(call)
		if n != lruGetName && n != lruPutName {
			return
		}
		kp, ok := call.Common().Args[1].(*ssa.Parameter)
		if !ok {
			return
		}
		ki = paramIdx(g, kp)
		if n == lruGetName {
			kind = "get"
			return
		}
		kind = "put"
		for i, p := range g.Params {
			if srSliceAny(p.Type()) {
				li = i
			}
		}
	})
	return
}

// srSliceAny: a slice of search results of the cache or the database package.
func srSliceAny(t types.Type) bool {
	sl, ok := t.Underlying().(*types.Slice)
	if !ok {
		return false
	}
	n := ssau.NamedOf(sl.Elem())
	return strings.HasSuffix(n, ".SearchResult")
}

// delegatingLookup: g is a method of SearchCache (other than Get/Put) that
// looks the entry up itself — it contains exactly one cache read, whose query
// and options are g's own parameters — so a call of g is a read for the
// corresponding arguments (results, key, found := Lookup(query, options)).
func delegatingLookup(call *ssa.Call, g *ssa.Function) (cacheAccess, bool) {
	if g == nil || g.Blocks == nil || g.Signature.Recv() == nil || ssau.NamedOf(g.Signature.Recv().Type()) != cachePkg+".SearchCache" {
		return cacheAccess{}, false
	}
	if n := g.Name(); n == "Get" || n == "Put" {
		return cacheAccess{}, false
	}
	var inner []cacheAccess
	ssau.ForEachInstr(g, false, func(in ssa.Instruction) {
		c2, ok := in.(*ssa.Call)
		if !ok || c2.Common().StaticCallee() == g {
			return
		}
		if k2, _, _ := keyedCacheMethod(c2.Common().StaticCallee()); k2 == "" && ssau.CallName(c2) != scGetName {
			return // only the direct forms inside: no unbounded nesting
		}
		if acc, ok := cacheOp(c2); ok {
			inner = append(inner, acc)
		}
	})
	if len(inner) != 1 || inner[0].kind != "get" {
		return cacheAccess{}, false
	}
	qp, ok1 := inner[0].query.(*ssa.Parameter)
	op, ok2 := inner[0].options.(*ssa.Parameter)
	if !ok1 || !ok2 {
		return cacheAccess{}, false
	}
	a := call.Common().Args
	qi, oi := paramIdx(g, qp), paramIdx(g, op)
	if qi < 0 || oi < 0 || qi >= len(a) || oi >= len(a) {
		return cacheAccess{}, false
	}
	return cacheAccess{kind: "get", query: a[qi], options: a[oi]}, true
}

// keyMaker: result 0 of keyMakerAt.
func keyMaker(k *ssa.Function, d int) (qi, oi int) { return keyMakerAt(k, 0, d) }

// keyMakerAt: k is a method of SearchCache every return of which (result #res) is
// generateCacheKey(q, o) of two of its own parameters (or of such a method);
// the indices of those parameters (-1 when k is not a key maker).
func keyMakerAt(k *ssa.Function, res, d int) (qi, oi int) {
	if k == nil || k.Blocks == nil || d > 2 || k.Signature.Recv() == nil || ssau.NamedOf(k.Signature.Recv().Type()) != cachePkg+".SearchCache" {
		return -1, -1
	}
	if k.Name() == "generateCacheKey" {
		return 1, 2
	}
	qi, oi = -1, -1
	for _, ret := range ssau.ReturnsOf(k) {
		call, ok := ssau.ResolveCell(ssau.ResultValue(ret, res)).(*ssa.Call)
		if !ok {
			return -1, -1
		}
		iq, io := keyMaker(call.Common().StaticCallee(), d+1)
		if iq < 0 || iq >= len(call.Common().Args) || io >= len(call.Common().Args) {
			return -1, -1
		}
		qp, ok1 := call.Common().Args[iq].(*ssa.Parameter)
		op, ok2 := call.Common().Args[io].(*ssa.Parameter)
		if !ok1 || !ok2 {
			return -1, -1
		}
		q2, o2 := paramIdx(k, qp), paramIdx(k, op)
		if (qi >= 0 && qi != q2) || (oi >= 0 && oi != o2) {
			return -1, -1
		}
		qi, oi = q2, o2
	}
	return
}

// cacheOpsIn lists the cache accesses of kind ("get"/"put") made by fn.
func cacheOpsIn(fn *ssa.Function, kind string) []*ssa.Call {
	var out []*ssa.Call
	ssau.ForEachInstr(fn, false, func(in ssa.Instruction) {
		if call, ok := in.(*ssa.Call); ok {
			if acc, ok := cacheOp(call); ok && acc.kind == kind {
				out = append(out, call)
			}
		}
	})
	return out
}
